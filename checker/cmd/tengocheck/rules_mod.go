package main

// rules_mod.go: C13 — MOD.1-5; C14 — ERR.1-2, POS.1.

import (
	"fmt"
	"go/ast"
	"go/token"
	"go/types"
	"strings"
)

func (w *World) compileArm(typeName string) *ast.CaseClause {
	p := w.Root
	comp := w.FuncDecl(p, "Compiler.Compile")
	if comp == nil {
		return nil
	}
	var arm *ast.CaseClause
	ast.Inspect(comp.Body, func(nd ast.Node) bool {
		if cc, ok := nd.(*ast.CaseClause); ok && len(cc.List) == 1 {
			if tv, ok := p.TypesInfo.Types[cc.List[0]]; ok && tv.IsType() {
				if n, pk := namedName(tv.Type); n == typeName && pk == w.Parser.Types {
					arm = cc
				}
			}
		}
		return true
	})
	return arm
}

func stmtIndexWithCall(w *World, list []ast.Stmt, pred func(call *ast.CallExpr) bool) int {
	for i, s := range list {
		if containsNode(s, func(n ast.Node) bool {
			call, ok := n.(*ast.CallExpr)
			return ok && pred(call)
		}) {
			return i
		}
	}
	return -1
}

func ruleMOD(c *Ctx) {
	w := c.W
	p := w.Root
	cm := w.FuncDecl(p, "Compiler.compileModule")
	fork := w.FuncDecl(p, "Compiler.fork")
	if cm == nil || fork == nil {
		c.anchor("Compiler.compileModule / fork")
		return
	}
	calls := func(name string) func(*ast.CallExpr) bool {
		return func(call *ast.CallExpr) bool {
			fn := Callee(p, call)
			return fn != nil && fn.Name() == name
		}
	}
	// MOD.1: the symbol table handed to the module compiler
	var forkCall *ast.CallExpr
	ast.Inspect(cm.Body, func(n ast.Node) bool {
		if call, ok := n.(*ast.CallExpr); ok && isMethodOf(Callee(p, call), p.Types, "Compiler", "fork") {
			forkCall = call
		}
		return true
	})
	if forkCall == nil || len(forkCall.Args) != 4 {
		c.fail("MOD.1/fork-call", cm, "compileModule does not create the module compiler through fork(file, path, symbolTable, isFile)")
	} else {
		stID, _ := ast.Unparen(forkCall.Args[2]).(*ast.Ident)
		var probs []string
		if stID == nil {
			probs = append(probs, "symbol table argument is not a local variable")
		} else {
			obj := p.TypesInfo.Uses[stID]
			// the table may pass through more than one local on its way
			// (fresh := NewSymbolTable(); …; table := fresh.Fork(false)): all of
			// them are "the module table"
			tables := map[types.Object]bool{obj: true}
			for changed := true; changed; {
				changed = false
				ast.Inspect(cm.Body, func(n ast.Node) bool {
					x, ok := n.(*ast.AssignStmt)
					if !ok {
						return true
					}
					for i, l := range x.Lhs {
						id, ok := l.(*ast.Ident)
						if !ok || !tables[p.TypesInfo.ObjectOf(id)] || i >= len(x.Rhs) {
							continue
						}
						if call, ok := x.Rhs[i].(*ast.CallExpr); ok && isMethodOf(Callee(p, call), p.Types, "SymbolTable", "Fork") {
							if rid, ok := ast.Unparen(call.Fun.(*ast.SelectorExpr).X).(*ast.Ident); ok {
								if ro := p.TypesInfo.ObjectOf(rid); ro != nil && !tables[ro] {
									tables[ro] = true
									changed = true
								}
							}
						}
					}
					return true
				})
			}
			nNew, nFork := 0, 0
			ast.Inspect(cm.Body, func(n ast.Node) bool {
				switch x := n.(type) {
				case *ast.AssignStmt:
					for i, l := range x.Lhs {
						id, ok := l.(*ast.Ident)
						if !ok || !tables[p.TypesInfo.ObjectOf(id)] || i >= len(x.Rhs) {
							continue
						}
						call, ok := x.Rhs[i].(*ast.CallExpr)
						if !ok {
							probs = append(probs, "module symbol table assigned from "+w.Src(x.Rhs[i]))
							continue
						}
						fn := Callee(p, call)
						switch {
						case fn != nil && fn.Name() == "NewSymbolTable":
							nNew++
						case isMethodOf(fn, p.Types, "SymbolTable", "Fork"):
							// receiver is the same variable, argument false (function scope, no globals)
							se := call.Fun.(*ast.SelectorExpr)
							rid, _ := ast.Unparen(se.X).(*ast.Ident)
							arg := ""
							if len(call.Args) == 1 {
								arg = w.Src(call.Args[0])
							}
							if rid == nil || !tables[p.TypesInfo.Uses[rid]] || arg != "false" {
								probs = append(probs, "module table is not `<fresh table>.Fork(false)`: "+w.Src(call))
							}
							nFork++
						default:
							probs = append(probs, "module symbol table assigned from "+w.Src(call))
						}
					}
				case *ast.CallExpr:
					// method calls on the table other than DefineBuiltin / Fork / MaxSymbols
					if se, ok := x.Fun.(*ast.SelectorExpr); ok {
						if rid, ok := ast.Unparen(se.X).(*ast.Ident); ok && tables[p.TypesInfo.Uses[rid]] {
							switch se.Sel.Name {
							case "DefineBuiltin", "Fork", "MaxSymbols":
							default:
								probs = append(probs, "module table receives "+se.Sel.Name+" before the module is compiled")
							}
						}
					}
				}
				return true
			})
			if nNew != 1 || nFork != 1 {
				probs = append(probs, fmt.Sprintf("expected one NewSymbolTable() and one Fork(false), found %d and %d", nNew, nFork))
			}
		}
		// the importer's table contributes only its builtin symbols
		ast.Inspect(cm.Body, func(n ast.Node) bool {
			se, ok := n.(*ast.SelectorExpr)
			if !ok {
				return true
			}
			if f, _ := FieldSel(p, se); f != nil && f.Name() == "symbolTable" {
				// must be the receiver of .BuiltinSymbols()
				okUse := false
				inspectWithStack(cm.Body, func(m ast.Node, st []ast.Node) bool {
					if m == ast.Node(se) && len(st) >= 3 {
						if sel, ok := st[len(st)-2].(*ast.SelectorExpr); ok && sel.Sel.Name == "BuiltinSymbols" {
							okUse = true
						}
					}
					return true
				})
				if !okUse {
					probs = append(probs, "compileModule uses the importer's symbol table for more than BuiltinSymbols(): "+w.Src(se))
				}
			}
			return true
		})
		c.check(len(probs) == 0, "MOD.1/module-table", forkCall, "module compiled against NewSymbolTable()+builtins, forked as a function scope; nothing else of the importer's table reaches it", strings.Join(dedupStrings(probs), "; "))
	}
	// fork(): NewCompiler(file, symbolTable, nil, …) with the parameter table and nil constants; parent set
	{
		var probs []string
		var nc *ast.CallExpr
		ast.Inspect(fork.Body, func(n ast.Node) bool {
			if call, ok := n.(*ast.CallExpr); ok && Callee(p, call) != nil && Callee(p, call).Name() == "NewCompiler" {
				nc = call
			}
			return true
		})
		if nc == nil || len(nc.Args) < 3 {
			probs = append(probs, "fork does not call NewCompiler")
		} else {
			if !isObj(p, nc.Args[1], paramOfType(p, fork, "*SymbolTable")) {
				probs = append(probs, "child compiler is not given fork's symbolTable parameter")
			}
			if !isNilIdent(nc.Args[2]) {
				probs = append(probs, "child compiler gets its own constants (constant indexes would not be global)")
			}
		}
		parentSet := containsNode(fork.Body, func(n ast.Node) bool {
			as, ok := n.(*ast.AssignStmt)
			if !ok || len(as.Lhs) != 1 {
				return false
			}
			f, _ := FieldSel(p, as.Lhs[0])
			return f != nil && f.Name() == "parent" && w.Src(as.Rhs[0]) == recvName(fork)
		})
		if !parentSet {
			probs = append(probs, "child.parent is not set to the forking compiler (cycle detection and the module cache walk the parent chain)")
		}
		pathSet := containsNode(fork.Body, func(n ast.Node) bool {
			as, ok := n.(*ast.AssignStmt)
			if !ok || len(as.Lhs) != 1 {
				return false
			}
			f, _ := FieldSel(p, as.Lhs[0])
			return f != nil && f.Name() == "modulePath" && isObj(p, as.Rhs[0], paramOfType(p, fork, "string"))
		})
		if !pathSet {
			probs = append(probs, "child.modulePath is not set to the module's path")
		}
		c.check(len(probs) == 0, "MOD.1/fork", fork, "child compiler: given table, nil constants, parent and modulePath set", strings.Join(probs, "; "))
	}
	// addConstant delegates to the parent
	if ac := w.FuncDecl(p, "Compiler.addConstant"); ac == nil {
		c.anchor("addConstant")
	} else {
		deleg := false
		if len(ac.Body.List) > 0 {
			if is, ok := ac.Body.List[0].(*ast.IfStmt); ok && strings.Contains(w.Src(is.Cond), "parent != nil") {
				deleg = containsNode(is.Body, func(n ast.Node) bool {
					r, ok := n.(*ast.ReturnStmt)
					return ok && len(r.Results) == 1 && strings.Contains(w.Src(r.Results[0]), "parent.addConstant(")
				})
			}
		}
		c.check(deleg, "MOD.1/constants-at-root", ac, "module compilers add constants to the root compiler's pool", "addConstant of a module compiler does not delegate to its parent: constant indexes in module code would refer to a different pool")
	}

	// MOD.2: cycle check first, on every path
	{
		good := false
		if len(cm.Body.List) > 0 {
			if is, ok := cm.Body.List[0].(*ast.IfStmt); ok && is.Init != nil {
				if containsNode(is.Init, func(n ast.Node) bool {
					call, ok := n.(*ast.CallExpr)
					return ok && isMethodOf(Callee(p, call), p.Types, "Compiler", "checkCyclicImports") && len(call.Args) == 2 && isObj(p, call.Args[1], paramOfType(p, cm, "string"))
				}) && terminates(is.Body) {
					good = true
				}
			}
		}
		c.check(good, "MOD.2/cycle-check-first", cm, "checkCyclicImports(node, modulePath) runs before the cache lookup and before compiling, and its error is returned", "compileModule does not start with the cyclic-import check (a cached or self-importing module would bypass it)")
		cc := w.FuncDecl(p, "Compiler.checkCyclicImports")
		if cc == nil {
			c.anchor("checkCyclicImports")
		} else {
			var probs []string
			cmp := containsNode(cc.Body, func(n ast.Node) bool {
				b, ok := n.(*ast.BinaryExpr)
				if !ok || b.Op != token.EQL {
					return false
				}
				// <compiler>.modulePath == <the path parameter>, either way round
				fx, _ := FieldSel(p, b.X)
				fy, _ := FieldSel(p, b.Y)
				pp := paramOfType(p, cc, "string")
				return (fx != nil && fx.Name() == "modulePath" && isObj(p, b.Y, pp)) || (fy != nil && fy.Name() == "modulePath" && isObj(p, b.X, pp))
			})
			if !cmp {
				probs = append(probs, "does not compare the compiler's modulePath with the imported path")
			}
			rec := containsNode(cc.Body, func(n ast.Node) bool {
				r, ok := n.(*ast.ReturnStmt)
				if !ok || len(r.Results) != 1 {
					return false
				}
				call, ok := r.Results[0].(*ast.CallExpr)
				return ok && isMethodOf(Callee(p, call), p.Types, "Compiler", "checkCyclicImports") && strings.Contains(w.Src(call.Fun), "parent.") && len(call.Args) == 2 && isObj(p, call.Args[1], paramOfType(p, cc, "string"))
			})
			// … or the same walk written as a loop over every compiler of the chain
			if !rec && walksParentChain(w, p, cc, false) != nil {
				rec = true
			}
			if !rec {
				probs = append(probs, "does not return parent.checkCyclicImports(node, modulePath) (the whole import stack must be walked)")
			}
			c.check(len(probs) == 0, "MOD.2/walks-import-stack", cc, "compares with every compiler on the parent chain", strings.Join(probs, "; "))
		}
	}
	// MOD.3: cache consulted before parsing; stored after a successful compile; both at the root
	{
		il := stmtIndexWithCall(w, cm.Body.List, calls("loadCompiledModule"))
		ip := stmtIndexWithCall(w, cm.Body.List, calls("NewParser"))
		ic := stmtIndexWithCall(w, cm.Body.List, func(call *ast.CallExpr) bool {
			return isMethodOf(Callee(p, call), p.Types, "Compiler", "Compile")
		})
		is := stmtIndexWithCall(w, cm.Body.List, calls("storeCompiledModule"))
		c.check(il >= 0 && ip > il && ic > ip && is > ic, "MOD.3/compile-once", cm, "cache lookup → parse → compile → store", fmt.Sprintf("compileModule order is lookup=%d parse=%d compile=%d store=%d (a module reached by several paths must be compiled once and stored only after it compiled)", il, ip, ic, is))
		for _, nm := range []string{"loadCompiledModule", "storeCompiledModule"} {
			fd := w.FuncDecl(p, "Compiler."+nm)
			if fd == nil {
				c.anchor(nm)
				continue
			}
			deleg := containsNode(fd.Body, func(n ast.Node) bool {
				call, ok := n.(*ast.CallExpr)
				return ok && isMethodOf(Callee(p, call), p.Types, "Compiler", nm) && strings.Contains(w.Src(call.Fun), "parent.")
			})
			if !deleg {
				// … or climbs to the outermost compiler in a loop and uses its cache
				if root := walksParentChain(w, p, fd, true); root != nil {
					deleg = containsNode(fd.Body, func(n ast.Node) bool {
						ix, ok := n.(*ast.IndexExpr)
						if !ok {
							return false
						}
						f, base := FieldSel(p, ix.X)
						if f == nil {
							return false
						}
						id, ok := ast.Unparen(base).(*ast.Ident)
						return ok && p.TypesInfo.ObjectOf(id) == root
					})
				}
			}
			c.check(deleg, "MOD.3/"+nm+"-at-root", fd, "delegates to the parent compiler (one cache per compilation)", nm+" does not reach the root compiler's cache")
		}
	}
	// MOD.4: source-module imports compile to CONST <fn>; CALL 0 0
	imp := w.compileArm("ImportExpr")
	if imp == nil {
		c.anchor("ImportExpr arm")
		return
	}
	{
		n := 0
		ast.Inspect(imp, func(nd ast.Node) bool {
			var list []ast.Stmt
			switch x := nd.(type) {
			case *ast.BlockStmt:
				list = x.List
			case *ast.CaseClause:
				list = x.Body
			}
			for i, s := range list {
				if !containsNode(s, func(m ast.Node) bool {
					call, ok := m.(*ast.CallExpr)
					return ok && isMethodOf(Callee(p, call), p.Types, "Compiler", "compileModule")
				}) {
					continue
				}
				if _, isAssign := s.(*ast.AssignStmt); !isAssign {
					continue
				}
				n++
				// following statements: [if err…], emit(OpConstant, addConstant(compiled)), emit(OpCall, 0, 0)
				var emits []string
				// a small helper that emits the pair is read as its body
				var follow []ast.Stmt
				for _, t := range list[i+1:] {
					if es, ok := t.(*ast.ExprStmt); ok {
						if call, ok := es.X.(*ast.CallExpr); ok && !isMethodOf(Callee(p, call), p.Types, "Compiler", "emit") {
							if hd := gHelpers[call]; hd != nil && hd.Body != nil {
								follow = append(follow, hd.Body.List...)
								continue
							}
						}
					}
					follow = append(follow, t)
				}
				for _, t := range follow {
					if es, ok := t.(*ast.ExprStmt); ok {
						if call, ok := es.X.(*ast.CallExpr); ok && isMethodOf(Callee(p, call), p.Types, "Compiler", "emit") {
							parts := []string{}
							for _, a := range call.Args[1:] {
								// a call of Compiler.addConstant is described by what it is,
								// not by what the receiver is called
								if ac, ok := ast.Unparen(a).(*ast.CallExpr); ok && isMethodOf(Callee(p, ac), p.Types, "Compiler", "addConstant") {
									parts = append(parts, "c.addConstant(…)")
									continue
								}
								parts = append(parts, w.Src(a))
							}
							emits = append(emits, strings.Join(parts, ","))
						}
					}
				}
				good := len(emits) == 2 && strings.HasPrefix(emits[0], "parser.OpConstant,c.addConstant(") && emits[1] == "parser.OpCall,0,0"
				c.check(good, fmt.Sprintf("MOD.4/import-evaluates-module#%d", n), s, "import of a source module = CONST <module function>; CALL 0 0 (the body runs afresh at each import expression)", fmt.Sprintf("after compileModule the arm emits %v", emits))
			}
			return true
		})
		if n < 2 {
			c.fail("MOD.4/arms", imp, fmt.Sprintf("expected the module-map arm and the file arm to compile source modules; found %d", n))
		}
	}
	// MOD.5: file system only under allowFileImport
	allow := structField(p.Types, "Compiler", "allowFileImport")
	if allow == nil {
		c.anchor("Compiler.allowFileImport")
		return
	}
	fsPkgs := map[string]bool{"os": true, "io/ioutil": true}
	fsFuncs := map[string]bool{"path/filepath.Abs": true, "path/filepath.Glob": true, "path/filepath.Walk": true, "path/filepath.EvalSymlinks": true, "path/filepath.WalkDir": true}
	isFS := func(fn *types.Func) bool {
		if fn == nil || fn.Pkg() == nil {
			return false
		}
		if fsPkgs[fn.Pkg().Path()] {
			// os.ErrNotExist etc. are not calls; errors.Is is elsewhere
			return true
		}
		return fsFuncs[fn.Pkg().Path()+"."+fn.Name()]
	}
	// underAllow: the node runs only when the flag is true - in the then-branch
	// of `if flag`, in the else-branch of `if !flag`, or after a terminating
	// `if !flag { return … }`
	isFlag := func(e ast.Expr) bool { f, _ := FieldSel(p, e); return f == allow }
	underAllow := func(stack []ast.Node) bool {
		for i := len(stack) - 1; i > 0; i-- {
			switch par := stack[i-1].(type) {
			case *ast.IfStmt:
				bare, neg := stripNot(par.Cond)
				if !isFlag(bare) {
					continue
				}
				if (stack[i] == ast.Node(par.Body) && !neg) || (par.Else != nil && stack[i] == ast.Node(par.Else) && neg) {
					return true
				}
			case *ast.BlockStmt, *ast.CaseClause:
				var list []ast.Stmt
				if b, ok := par.(*ast.BlockStmt); ok {
					list = b.List
				} else {
					list = par.(*ast.CaseClause).Body
				}
				for _, s := range list {
					if ast.Node(s) == stack[i] {
						break
					}
					if is, ok := s.(*ast.IfStmt); ok && is.Else == nil && terminates(is.Body) {
						if bare, neg := stripNot(is.Cond); neg && isFlag(bare) {
							return true
						}
					}
				}
			}
		}
		return false
	}
	hostAPI := map[string]string{"Script.SetImportDir": "host configuration API, not reachable from import resolution"}
	// functions whose every call site is under the flag
	guardedFns := map[string]bool{}
	for iter := 0; iter < 3; iter++ {
		w.AllFuncDecls(p, func(fd *ast.FuncDecl) {
			if ast.IsExported(fd.Name.Name) || guardedFns[funcName(fd)] {
				return
			}
			total, good := 0, 0
			w.AllFuncDecls(p, func(caller *ast.FuncDecl) {
				inspectWithStack(caller.Body, func(n ast.Node, stack []ast.Node) bool {
					call, ok := n.(*ast.CallExpr)
					if !ok {
						return true
					}
					fn := Callee(p, call)
					if fn == nil || fn.Pkg() != p.Types || fn.Name() != fd.Name.Name {
						return true
					}
					if rn := recvTypeName(fd); rn != "" && !isMethodOf(fn, p.Types, rn, fd.Name.Name) {
						return true
					}
					total++
					if underAllow(stack) || guardedFns[funcName(caller)] {
						good++
					}
					return true
				})
			})
			if total > 0 && total == good {
				guardedFns[funcName(fd)] = true
			}
		})
	}
	nfs := 0
	w.AllFuncDecls(p, func(fd *ast.FuncDecl) {
		inspectWithStack(fd.Body, func(n ast.Node, stack []ast.Node) bool {
			call, ok := n.(*ast.CallExpr)
			if !ok || !isFS(Callee(p, call)) {
				return true
			}
			nfs++
			fn := Callee(p, call)
			key := fmt.Sprintf("MOD.5/fs/%s/%s.%s", funcName(fd), fn.Pkg().Name(), fn.Name())
			if why, ok := hostAPI[funcName(fd)]; ok {
				c.ok(key, call, "tabled: "+why)
				return true
			}
			good := underAllow(stack) || guardedFns[funcName(fd)]
			c.check(good, key, call, "file-system call only reachable with file import enabled", "file-system call "+fn.Pkg().Name()+"."+fn.Name()+" in "+funcName(fd)+" is not confined to code guarded by the allowFileImport flag: import could consult the file system although file import is disabled")
			return true
		})
	})
	if nfs < 2 {
		c.fail("MOD.5/fs/count", nil, "expected the module-file stat and read calls")
	}
	// who may write the flag
	w.AllFuncDecls(p, func(fd *ast.FuncDecl) {
		ast.Inspect(fd.Body, func(n ast.Node) bool {
			as, ok := n.(*ast.AssignStmt)
			if !ok {
				return true
			}
			for i, l := range as.Lhs {
				if f, _ := FieldSel(p, l); f == allow {
					fnm := funcName(fd)
					good := fnm == "Compiler.EnableFileImport" || (fnm == "Compiler.fork" && strings.HasSuffix(w.Src(as.Rhs[i]), ".allowFileImport"))
					c.check(good, "MOD.5/flag-writer/"+fnm, as, "flag written only by EnableFileImport and inherited in fork", "allowFileImport is assigned in "+fnm+": "+w.Src(as))
				}
			}
			return true
		})
	})
	// module map consulted first; file import is the else-branch
	first := false
	for _, s := range imp.Body {
		if is, ok := s.(*ast.IfStmt); ok && is.Init != nil && strings.Contains(w.Src(is.Init), ".modules.Get(") {
			if el, ok := is.Else.(*ast.IfStmt); ok {
				if bare, _ := stripNot(el.Cond); isFlag(bare) {
					if _, ok := el.Else.(*ast.BlockStmt); ok {
						first = true
					}
				}
			}
		}
	}
	c.check(first, "MOD.5/resolution-order", imp, "module map first, then files only if allowed, else `module not found`", "import resolution is not `module map → (allowFileImport) file → error`")
	// Script passes its own setting, default false
	sc := w.FuncDecl(p, "Script.Compile")
	if sc != nil {
		passes := containsNode(sc.Body, func(n ast.Node) bool {
			call, ok := n.(*ast.CallExpr)
			return ok && isMethodOf(Callee(p, call), p.Types, "Compiler", "EnableFileImport") && len(call.Args) == 1 && strings.HasSuffix(w.Src(call.Args[0]), ".enableFileImport")
		})
		ns := w.FuncDecl(p, "NewScript")
		defFalse := ns != nil && !containsNode(ns.Body, func(n ast.Node) bool {
			kv, ok := n.(*ast.KeyValueExpr)
			return ok && w.Src(kv.Key) == "enableFileImport"
		})
		c.check(passes && defFalse, "MOD.5/script-default", sc, "Script forwards its enableFileImport setting (zero value false)", "Script.Compile does not forward s.enableFileImport, or NewScript enables it by default")
	}
}

// ---------------------------------------------------------------- C14

func ruleERR(c *Ctx) {
	w := c.W
	p := w.Root
	errT := types.Universe.Lookup("error").Type()
	hostPath := map[string]bool{"VM.Run": true, "Compiled.Run": true, "Compiled.RunContext": true, "Script.Run": true, "Script.RunContext": true, "Eval": true}
	n := 0
	w.AllFuncDecls(p, func(fd *ast.FuncDecl) {
		if !hostPath[funcName(fd)] {
			return
		}
		inspectWithStack(fd.Body, func(nd ast.Node, stack []ast.Node) bool {
			call, ok := nd.(*ast.CallExpr)
			if !ok {
				return true
			}
			fn := Callee(p, call)
			if fn == nil || fn.Pkg() == nil || fn.Pkg().Path() != "fmt" || fn.Name() != "Errorf" || len(call.Args) < 1 {
				return true
			}
			// inside the recover handler the value is a panic payload, not an error chain
			for _, s := range stack {
				if fl, ok := s.(*ast.FuncLit); ok {
					if containsNode(fl, func(m ast.Node) bool {
						c2, ok := m.(*ast.CallExpr)
						return ok && IsBuiltinCall(p, c2, "recover")
					}) {
						return true
					}
				}
			}
			tv, ok := p.TypesInfo.Types[call.Args[0]]
			if !ok || tv.Value == nil {
				return true
			}
			format := strings.Trim(tv.Value.ExactString(), "\"")
			verbs := fmtVerbs(format)
			for i, a := range call.Args[1:] {
				at := p.TypesInfo.Types[a].Type
				if at == nil || !types.Identical(at, errT) && !types.Implements(at, errT.Underlying().(*types.Interface)) {
					continue
				}
				n++
				v := "?"
				if i < len(verbs) {
					v = verbs[i]
				}
				c.check(v == "w", fmt.Sprintf("ERR.1/%s/errorf#%d", funcName(fd), n), call, "error argument wrapped with %w", fmt.Sprintf("error argument %s is formatted with %%%s, not %%w: errors.Is/As on the returned error no longer finds the cause", w.Src(a), v))
			}
			return true
		})
	})
	if n < 3 {
		c.fail("ERR.1/count", nil, fmt.Sprintf("expected >=3 error-wrapping Errorf calls on the VM→host path, found %d", n))
	}
	// ERR.2: protected sentinels are never compared-and-replaced
	protected := map[string]bool{"ErrObjectAllocLimit": true, "ErrStackOverflow": true, "ErrIndexOutOfBounds": true, "ErrStringLimit": true, "ErrBytesLimit": true}
	seq := seqKeys{}
	w.AllFuncDecls(p, func(fd *ast.FuncDecl) {
		ast.Inspect(fd.Body, func(nd ast.Node) bool {
			b, ok := nd.(*ast.BinaryExpr)
			if !ok || (b.Op != token.EQL && b.Op != token.NEQ) {
				return true
			}
			for _, side := range []ast.Expr{b.X, b.Y} {
				if o := ObjOf(p, side); o != nil && protected[o.Name()] && o.Pkg() == p.Types {
					key := seq.next("ERR.2/" + funcName(fd) + "/compares-" + o.Name())
					// allowed only where the sentinel itself is passed on unchanged
					if funcName(fd) == "pp.doFormat" {
						c.ok(key, b, "the formatter's recover passes the sentinel on unchanged")
					} else {
						c.fail(key, b, "sentinel "+o.Name()+" is compared in "+funcName(fd)+": a compare-and-replace hides it from errors.Is")
					}
				}
			}
			return true
		})
	})
	// every error-handling block in the VM and indexAssign ends by passing the callee's error on unchanged
	vi := w.vm()
	if vi.err != "" {
		c.anchor(vi.err)
		return
	}
	ia := w.FuncDecl(p, "indexAssign")
	for _, fd := range []*ast.FuncDecl{vi.Fn, ia} {
		if fd == nil {
			c.anchor("indexAssign")
			continue
		}
		ast.Inspect(fd.Body, func(nd ast.Node) bool {
			is, ok := nd.(*ast.IfStmt)
			if !ok {
				return true
			}
			b, ok := ast.Unparen(is.Cond).(*ast.BinaryExpr)
			if !ok || b.Op != token.NEQ || !isNilIdent(b.Y) {
				return true
			}
			id, ok := ast.Unparen(b.X).(*ast.Ident)
			if !ok {
				return true
			}
			if t := p.TypesInfo.Types[id].Type; t == nil || !types.Identical(t, errT) {
				return true
			}
			// the block as it runs for an error that is none of the values it
			// compares with (the dispatch may be if-chain or switch)
			errObj := p.TypesInfo.ObjectOf(id)
			L := execFor(p, is.Body.List, func(e ast.Expr) bool {
				x, ok := ast.Unparen(e).(*ast.Ident)
				return ok && p.TypesInfo.ObjectOf(x) == errObj
			}, nil)
			good := false
			if len(L) >= 1 {
				switch last := L[len(L)-1].(type) {
				case *ast.ReturnStmt:
					if len(last.Results) == 1 && w.Src(last.Results[0]) == id.Name {
						good = true // return err
					}
					if len(last.Results) == 0 && len(L) >= 2 {
						if as, ok := L[len(L)-2].(*ast.AssignStmt); ok && len(as.Lhs) == 1 {
							if f, _ := FieldSel(p, as.Lhs[0]); f != nil && f.Name() == "err" {
								if w.Src(as.Rhs[0]) == id.Name {
									good = true // v.err = e; return
								} else if call, ok := ast.Unparen(as.Rhs[0]).(*ast.CallExpr); ok && passesErrorOn(w, call, id.Name) {
									good = true // v.err = mapError(…, e); return - the helper ends in `return e`
								}
							}
						}
					}
				}
			}
			c.check(good, seq.next("ERR.2/"+w.ctxKey(is.Pos())+"/passes-on"), is, "falls through to passing the callee's error on unchanged", "an error-handling block does not end by passing the callee's error on unchanged (sentinels from host functions and the engine would be lost)")
			return true
		})
	}
}

// passesErrorOn: call is a call of an unexported helper of the module that
// receives the error variable errName and whose body ends by returning that
// parameter unchanged (the fall-through of an error-mapping helper).
func passesErrorOn(w *World, call *ast.CallExpr, errName string) bool {
	hd := gHelpers[call]
	if hd == nil || hd.Body == nil || len(hd.Body.List) == 0 {
		return false
	}
	idx := -1
	for i, a := range call.Args {
		if id, ok := ast.Unparen(a).(*ast.Ident); ok && id.Name == errName {
			idx = i
		}
	}
	if idx < 0 {
		return false
	}
	var params []string
	for _, f := range hd.Type.Params.List {
		for _, nm := range f.Names {
			params = append(params, nm.Name)
		}
	}
	if idx >= len(params) {
		return false
	}
	r, ok := hd.Body.List[len(hd.Body.List)-1].(*ast.ReturnStmt)
	if !ok || len(r.Results) != 1 {
		return false
	}
	id, ok := ast.Unparen(r.Results[0]).(*ast.Ident)
	return ok && id.Name == params[idx]
}

// fmtVerbs lists the verb letters of a format string in order (no %%).
func fmtVerbs(f string) []string {
	var out []string
	for i := 0; i < len(f); i++ {
		if f[i] != '%' {
			continue
		}
		i++
		for i < len(f) && strings.ContainsRune("+-# 0123456789.*[]", rune(f[i])) {
			i++
		}
		if i < len(f) {
			if f[i] != '%' {
				out = append(out, string(f[i]))
			}
		}
	}
	return out
}

func rulePOS1(c *Ctx) {
	w := c.W
	p := w.Root
	emit := w.FuncDecl(p, "Compiler.emit")
	if emit == nil {
		c.anchor("Compiler.emit")
		return
	}
	// pos := c.addInstruction(inst); …SourceMap[pos] = filePos
	var posObj types.Object
	var posStmt int = -1
	for i, s := range emit.Body.List {
		if as, ok := s.(*ast.AssignStmt); ok && len(as.Rhs) == 1 {
			if call, ok := as.Rhs[0].(*ast.CallExpr); ok {
				// the new instruction's offset: returned by addInstruction, or
				// (the helper inlined) the length of the instruction stream
				// before the instruction is appended
				isOffset := isMethodOf(Callee(p, call), p.Types, "Compiler", "addInstruction")
				if IsBuiltinCall(p, call, "len") && len(call.Args) == 1 && posObj == nil {
					if inner, ok := call.Args[0].(*ast.CallExpr); ok && Callee(p, inner) != nil && Callee(p, inner).Name() == "currentInstructions" {
						// must be followed by the append of the instruction
						for _, t := range emit.Body.List[i+1:] {
							if containsNode(t, func(m ast.Node) bool {
								ap, ok := m.(*ast.CallExpr)
								return ok && IsBuiltinCall(p, ap, "append")
							}) {
								isOffset = true
							}
						}
					}
				}
				if id, ok := as.Lhs[0].(*ast.Ident); ok && isOffset {
					posObj = p.TypesInfo.Defs[id]
					posStmt = i
				}
			}
		}
	}
	stored := false
	if posStmt >= 0 {
		for _, s := range emit.Body.List[posStmt+1:] {
			if as, ok := s.(*ast.AssignStmt); ok && len(as.Lhs) == 1 {
				if ix, ok := as.Lhs[0].(*ast.IndexExpr); ok && strings.HasSuffix(w.Src(ix.X), ".SourceMap") {
					if id, ok := ast.Unparen(ix.Index).(*ast.Ident); ok && p.TypesInfo.Uses[id] == posObj {
						stored = true
					}
				}
			}
		}
	}
	c.check(stored, "POS.1/emit-records-position", emit, "every emitted instruction gets a source-map entry keyed by its own offset", "emit does not store SourceMap[<offset returned by addInstruction>] unconditionally")
	// returned value is that offset
	retOK := false
	if r, ok := emit.Body.List[len(emit.Body.List)-1].(*ast.ReturnStmt); ok && len(r.Results) == 1 {
		if id, ok := ast.Unparen(r.Results[0]).(*ast.Ident); ok && p.TypesInfo.Uses[id] == posObj {
			retOK = true
		}
	}
	c.check(retOK, "POS.1/emit-returns-offset", emit, "emit returns the instruction's offset", "emit does not return the offset of the instruction it appended (placeholders would be patched elsewhere)")
	n := 0
	for _, es := range w.emitSites() {
		if es.Kind != "emit" {
			continue
		}
		n++
		if isNilIdent(es.Call.Args[0]) {
			c.fail(fmt.Sprintf("POS.1/nil-node/%s#%d", funcName(es.Fn), n), es.Call, "emit is called with a nil node: the instruction has no source position")
		}
	}
	c.check(n > 90, "POS.1/emit-sites", emit, fmt.Sprintf("%d emit sites pass a node", n), "too few emit sites")
	// call-time ip is saved in the caller's frame before the frame switch
	vi := w.vm()
	if vi.err != "" {
		c.anchor(vi.err)
		return
	}
	arm := vi.Arms["OpCall"]
	var savePos, switchPos token.Pos
	ast.Inspect(arm, func(nd ast.Node) bool {
		as, ok := nd.(*ast.AssignStmt)
		if !ok || len(as.Lhs) != 1 {
			return true
		}
		l, r := w.Src(as.Lhs[0]), w.Src(as.Rhs[0])
		if strings.HasSuffix(l, ".curFrame.ip") && strings.HasSuffix(r, ".ip") && !savePos.IsValid() {
			if f, _ := FieldSel(p, as.Rhs[0]); f == vi.IP {
				savePos = as.Pos()
			}
		}
		if strings.HasSuffix(l, ".curFrame") && strings.Contains(r, "frames[") && !switchPos.IsValid() {
			switchPos = as.Pos()
		}
		return true
	})
	c.check(savePos.IsValid() && switchPos.IsValid() && savePos < switchPos, "POS.1/call-site-saved", arm, "the caller's ip is stored in its frame before the frame switch", "OpCall does not save the current ip into the caller's frame before switching frames: traces would point at the wrong call site")
	// Run: error decorated with the position of ip-1 of the innermost frame, then one line per outer frame
	run := w.FuncDecl(p, "VM.Run")
	if run == nil {
		c.anchor("VM.Run")
		return
	}
	nSP := 0
	var args []string
	ast.Inspect(run.Body, func(nd ast.Node) bool {
		call, ok := nd.(*ast.CallExpr)
		if ok && isMethodOf(Callee(p, call), p.Types, "CompiledFunction", "SourcePos") && len(call.Args) == 1 {
			nSP++
			args = append(args, w.Src(call.Args[0]))
		}
		return true
	})
	good := nSP == 2 && strings.HasSuffix(args[0], ".ip - 1") && strings.HasSuffix(args[1], ".curFrame.ip - 1")
	c.check(good, "POS.1/trace-offsets", run, "failing instruction looked up at ip-1; each caller at its saved ip-1", fmt.Sprintf("Run looks positions up at %v (expected v.ip-1 for the failing frame and curFrame.ip-1 for each caller)", args))
	loopOK := containsNode(run.Body, func(nd ast.Node) bool {
		fs, ok := nd.(*ast.ForStmt)
		if !ok || fs.Cond == nil {
			return false
		}
		walks := false
		if b, ok := gtExpr(fs.Cond); ok && b.Op == token.GTR {
			f, _ := FieldSel(p, b.X)
			k, isK := ConstInt(p, b.Y)
			walks = f != nil && f.Name() == "framesIndex" && isK && k == 1
		}
		return walks && containsNode(fs.Body, func(m ast.Node) bool {
			id, ok := m.(*ast.IncDecStmt)
			return ok && id.Tok == token.DEC && strings.HasSuffix(w.Src(id.X), "framesIndex")
		}) && containsNode(fs.Body, func(m ast.Node) bool {
			as, ok := m.(*ast.AssignStmt)
			return ok && len(as.Lhs) == 1 && strings.HasSuffix(w.Src(as.Lhs[0]), ".curFrame") && strings.Contains(w.Src(as.Rhs[0]), "framesIndex-1]")
		})
	})
	// one line per active call: every turn of the walk adds its frame's
	// location - unconditionally, with no way round it
	everyFrame := false
	ast.Inspect(run.Body, func(nd ast.Node) bool {
		fs, ok := nd.(*ast.ForStmt)
		if !ok || fs.Cond == nil {
			return true
		}
		b, ok := gtExpr(fs.Cond)
		if !ok || b.Op != token.GTR {
			return true
		}
		if f, _ := FieldSel(p, b.X); f == nil || f.Name() != "framesIndex" {
			return true
		}
		skips := containsNode(fs.Body, func(m ast.Node) bool {
			br, ok := m.(*ast.BranchStmt)
			return ok && (br.Tok == token.CONTINUE || br.Tok == token.BREAK || br.Tok == token.GOTO)
		})
		adds := false
		for _, st := range fs.Body.List {
			as, ok := st.(*ast.AssignStmt)
			if !ok || len(as.Rhs) != 1 {
				continue
			}
			if call, ok := ast.Unparen(as.Rhs[0]).(*ast.CallExpr); ok && FuncFullName(Callee(p, call)) == "fmt.Errorf" {
				adds = true
			}
		}
		everyFrame = adds && !skips
		return true
	})
	c.check(everyFrame, "POS.1/trace-line-per-frame", run, "every frame walked adds its location to the trace", "the trace loop does not add a location for every active call (the line is added under a condition, or a turn of the loop can be skipped): calls made from one site collapse or disappear from the trace")
	c.check(loopOK, "POS.1/trace-walk", run, "walks frames innermost first down to the main frame", "the trace loop in Run does not walk `framesIndex > 1`, decrementing and reading frame framesIndex-1")
}

// SEARCH.1 (C14): position → file lookup. searchFiles must be "index of the
// last file whose Base is <= x": either sort.Search over `a[i].Base > x`
// minus one, or a hand-inlined binary search that is a clone of its sibling
// searchInts (which documents exactly that equivalence) with a[h].Base for a[h].
func ruleSEARCH1(c *Ctx) {
	w := c.W
	p := w.Parser
	sf, si := w.FuncDecl(p, "searchFiles"), w.FuncDecl(p, "searchInts")
	// form 1, wherever it is written (in searchFiles, or inlined in the lookup):
	// sort.Search(len(A), func(i) bool { return A[i].Base > x }) - 1
	isForm1 := func(e ast.Expr) bool {
		b, ok := ast.Unparen(e).(*ast.BinaryExpr)
		if !ok || b.Op != token.SUB {
			return false
		}
		if k, ok := ConstInt(p, b.Y); !ok || k != 1 {
			return false
		}
		call, ok := ast.Unparen(b.X).(*ast.CallExpr)
		if !ok || FuncFullName(Callee(p, call)) != "sort.Search" || len(call.Args) != 2 {
			return false
		}
		fl, ok := call.Args[1].(*ast.FuncLit)
		if !ok || len(fl.Body.List) != 1 {
			return false
		}
		rr, ok := fl.Body.List[0].(*ast.ReturnStmt)
		if !ok || len(rr.Results) != 1 {
			return false
		}
		cb, ok := gtExpr(rr.Results[0])
		if !ok || cb.Op != token.GTR {
			return false
		}
		l := strings.ReplaceAll(w.Src(cb.X), " ", "")
		return strings.HasSuffix(l, "].Base") && strings.ReplaceAll(w.Src(call.Args[0]), " ", "") == "len("+strings.Split(l, "[")[0]+")"
	}
	var at ast.Node
	form1 := false
	for _, fd := range []*ast.FuncDecl{sf, w.FuncDecl(p, "SourceFileSet.file")} {
		if fd == nil {
			continue
		}
		if at == nil {
			at = fd
		}
		if containsNode(fd.Body, func(n ast.Node) bool { e, ok := n.(ast.Expr); return ok && isForm1(e) }) {
			form1, at = true, fd
		}
	}
	if at == nil {
		c.anchor("the file lookup of the source file set (searchFiles / SourceFileSet.file)")
		return
	}
	form2 := false
	if !form1 && sf != nil && si != nil {
		// bodies only (the parameter types differ by design); prefix notation with
		// fixed arities, so the bracket-free token sequence is unambiguous
		a := searchTokens(canonStmts(p, sf, sf.Body.List, map[string]string{".Base": "BASEFIELD"}))
		b := searchTokens(canonStmts(p, si, si.Body.List, nil))
		form2 = strings.Count(a, "IndexExpr") == 1 && a == b
	}
	c.check(form1 || form2, "lookup/searchFiles", at, "last file with Base <= x (sort.Search over Base > x, minus one)", "searchFiles is neither `sort.Search(len(a), a[i].Base > x) - 1` nor a clone of searchInts over a[h].Base: error positions at a file boundary can resolve to the wrong file (or to none)")
	// SourceFileSet.file: the containment test is Base <= p <= Base+Size in both places
	ff := w.FuncDecl(p, "SourceFileSet.file")
	if ff != nil {
		// an if whose condition contains `e <= X.Base + X.Size` (or the mirrored
		// `X.Base + X.Size >= e`) for fields Base/Size of one SourceFile X
		isBasePlusSize := func(e ast.Expr) bool {
			b, ok := ast.Unparen(e).(*ast.BinaryExpr)
			if !ok || b.Op != token.ADD {
				return false
			}
			fx, rx := FieldSel(p, b.X)
			fy, ry := FieldSel(p, b.Y)
			if fx == nil || fy == nil {
				return false
			}
			names := map[string]bool{fx.Name(): true, fy.Name(): true}
			return names["Base"] && names["Size"] && w.Src(rx) == w.Src(ry)
		}
		n := 0
		ast.Inspect(ff.Body, func(nd ast.Node) bool {
			is, ok := nd.(*ast.IfStmt)
			if !ok {
				return true
			}
			// (the test may have been moved into a small predicate method)
			found := containsDeep(is.Cond, func(m ast.Node) bool {
				b, ok := m.(*ast.BinaryExpr)
				if !ok {
					return false
				}
				return (b.Op == token.LEQ && isBasePlusSize(b.Y)) || (b.Op == token.GEQ && isBasePlusSize(b.X))
			})
			if found {
				n++
			}
			return true
		})
		c.check(n == 2, "lookup/containment", ff, "both the cached and the searched file are accepted only if the position lies in [Base, Base+Size]", fmt.Sprintf("expected two containment tests `p <= f.Base+f.Size` in SourceFileSet.file, found %d", n))
	}
}

// searchTokens drops brackets and the `.Base` selector wrapper around a[h].
func searchTokens(s string) string {
	s = strings.NewReplacer("(", " ", ")", " ").Replace(s)
	f := strings.Fields(s)
	var out []string
	for i := 0; i < len(f); i++ {
		if f[i] == "SelectorExpr" && i+1 < len(f) && f[i+1] == "IndexExpr" {
			continue
		}
		if f[i] == "BASEFIELD" {
			continue
		}
		out = append(out, f[i])
	}
	return strings.Join(out, " ")
}

// walksParentChain: the function holds a loop `for …; X != nil; X = X.parent`
// (every compiler of the chain, toRoot == false) or `for X.parent != nil { X =
// X.parent }` (climb to the outermost one, toRoot == true); returns X.
func walksParentChain(w *World, p pkgT, fd *ast.FuncDecl, toRoot bool) types.Object {
	var res types.Object
	ast.Inspect(fd.Body, func(n ast.Node) bool {
		fs, ok := n.(*ast.ForStmt)
		if !ok || fs.Cond == nil {
			return true
		}
		// the step X = X.parent, in the post statement or the body
		var x types.Object
		step := func(m ast.Node) bool {
			as, ok := m.(*ast.AssignStmt)
			if !ok || len(as.Lhs) != 1 || len(as.Rhs) != 1 || as.Tok != token.ASSIGN {
				return false
			}
			id, ok := as.Lhs[0].(*ast.Ident)
			if !ok {
				return false
			}
			f, base := FieldSel(p, as.Rhs[0])
			if f == nil || f.Name() != "parent" {
				return false
			}
			bid, ok := ast.Unparen(base).(*ast.Ident)
			if !ok || p.TypesInfo.ObjectOf(bid) != p.TypesInfo.ObjectOf(id) {
				return false
			}
			x = p.TypesInfo.ObjectOf(id)
			return true
		}
		found := false
		if fs.Post != nil && step(fs.Post) {
			found = true
		}
		if !found {
			found = containsNode(fs.Body, step)
		}
		if !found {
			return true
		}
		b, ok := ast.Unparen(fs.Cond).(*ast.BinaryExpr)
		if !ok || b.Op != token.NEQ || !(isNilIdent(b.Y) || isNilIdent(b.X)) {
			return true
		}
		other := b.X
		if isNilIdent(b.X) {
			other = b.Y
		}
		if toRoot {
			f, base := FieldSel(p, other)
			if f != nil && f.Name() == "parent" {
				if bid, ok := ast.Unparen(base).(*ast.Ident); ok && p.TypesInfo.ObjectOf(bid) == x {
					res = x
				}
			}
		} else if id, ok := ast.Unparen(other).(*ast.Ident); ok && p.TypesInfo.ObjectOf(id) == x {
			res = x
		}
		return true
	})
	return res
}
