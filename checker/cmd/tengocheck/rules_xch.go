package main

// rules_xch.go: C12 — DEDUP.1, GOB.1-3; C15 — XCH.1-3; C08 — CLONE.1.

import (
	"fmt"
	"go/ast"
	"go/token"
	"go/types"
	"strings"

	"golang.org/x/tools/go/packages"
)

func ruleDEDUP1(c *Ctx) {
	w := c.W
	p := w.Root
	fd := w.FuncDecl(p, "Bytecode.RemoveDuplicates")
	if fd == nil {
		c.anchor("Bytecode.RemoveDuplicates")
		return
	}
	// the old→new index map and the new pool
	var loop *ast.RangeStmt
	for _, s := range fd.Body.List {
		if rs, ok := s.(*ast.RangeStmt); ok && strings.HasSuffix(w.Src(rs.X), ".Constants") && loop == nil {
			loop = rs
		}
	}
	if loop == nil {
		c.anchor("loop over Constants in RemoveDuplicates")
		return
	}
	var ts *ast.TypeSwitchStmt
	for _, s := range loop.Body.List {
		if t, ok := s.(*ast.TypeSwitchStmt); ok {
			ts = t
		}
	}
	if ts == nil {
		c.anchor("type switch in RemoveDuplicates")
		return
	}
	curIdx := ""
	if id, ok := loop.Key.(*ast.Ident); ok {
		curIdx = id.Name
	}
	isIndexMapStore := func(s ast.Stmt) bool {
		as, ok := s.(*ast.AssignStmt)
		if !ok || len(as.Lhs) != 1 {
			return false
		}
		ix, ok := as.Lhs[0].(*ast.IndexExpr)
		if !ok || w.Src(ix.Index) != curIdx {
			return false
		}
		if m, ok := p.TypesInfo.Types[ix.X].Type.Underlying().(*types.Map); ok {
			_, isInt := m.Elem().Underlying().(*types.Basic)
			return isInt
		}
		return false
	}
	arms := map[string]bool{}
	for _, cs := range ts.Body.List {
		cc := cs.(*ast.CaseClause)
		name := "default"
		if cc.List != nil {
			name, _ = namedName(p.TypesInfo.Types[cc.List[0]].Type)
		}
		arms[name] = true
		key := "arm/" + name
		var probs []string
		// every path records an index mapping
		if r := pathSeq(cc.Body, isIndexMapStore); r != pHit {
			probs = append(probs, "a path through the arm records no old→new index (references to this constant would be left dangling)")
		}
		// the first-occurrence path: newIdx = len(pool) BEFORE append(pool, c)
		var lenPos, appPos token.Pos
		ast.Inspect(cc, func(n ast.Node) bool {
			as, ok := n.(*ast.AssignStmt)
			if !ok || len(as.Rhs) != 1 {
				return true
			}
			if call, ok := as.Rhs[0].(*ast.CallExpr); ok {
				if IsBuiltinCall(p, call, "len") && !lenPos.IsValid() {
					lenPos = as.Pos()
				}
				if IsBuiltinCall(p, call, "append") && len(call.Args) == 2 {
					// appended element is the switch variable
					if id, ok := ast.Unparen(call.Args[1]).(*ast.Ident); ok && p.TypesInfo.Uses[id] == p.TypesInfo.Implicits[cc] {
						appPos = as.Pos()
					}
				}
			}
			return true
		})
		if !appPos.IsValid() {
			probs = append(probs, "the constant itself is never appended to the new pool")
		} else if !lenPos.IsValid() || lenPos > appPos {
			probs = append(probs, "the new index is not taken as len(pool) before the constant is appended")
		}
		// DEDUP.2: the key under which a constant is merged is its whole identity:
		// the constant itself (pointer identity), its single Value field, or (for
		// module maps) the module name with the unnamed case excluded
		keysOK := true
		var badKey string
		ast.Inspect(cc, func(n ast.Node) bool {
			ix, ok := n.(*ast.IndexExpr)
			if !ok {
				return true
			}
			mt, ok := p.TypesInfo.Types[ix.X].Type.Underlying().(*types.Map)
			if !ok {
				return true
			}
			if _, isInt := mt.Elem().Underlying().(*types.Basic); !isInt {
				return true
			}
			k := w.Src(ix.Index)
			if k == curIdx {
				return true // the old→new index map
			}
			sv := ""
			if o := p.TypesInfo.Implicits[cc]; o != nil {
				sv = o.Name()
			}
			switch {
			case k == sv: // pointer identity
			case k == sv+".Value":
				// the struct must have Value as its only semantic field
				if st, ok := derefStruct(p.TypesInfo.Implicits[cc].Type()); ok {
					for i := 0; i < st.NumFields(); i++ {
						f := st.Field(i)
						if f.Embedded() || f.Name() == "Value" || f.Name() == "runeStr" {
							continue
						}
						keysOK, badKey = false, k+" (type has another field "+f.Name()+")"
					}
				}
			case name == "ImmutableMap" && func() bool {
				// the key is a variable defined from inferModuleName(<the constant>)
				id, ok := ast.Unparen(ix.Index).(*ast.Ident)
				if !ok {
					return false
				}
				o := p.TypesInfo.Uses[id]
				return containsNode(cc, func(m ast.Node) bool {
					as, ok := m.(*ast.AssignStmt)
					if !ok || len(as.Lhs) != 1 || len(as.Rhs) != 1 {
						return false
					}
					lid, ok := as.Lhs[0].(*ast.Ident)
					if !ok || p.TypesInfo.Defs[lid] != o {
						return false
					}
					call, ok := as.Rhs[0].(*ast.CallExpr)
					return ok && Callee(p, call) != nil && Callee(p, call).Name() == "inferModuleName"
				})
			}():
			default:
				keysOK, badKey = false, k
			}
			return true
		})
		if !keysOK {
			probs = append(probs, "constants are merged under key "+badKey+", which is not the constant's whole identity: two constants that differ elsewhere (e.g. in their source map) would be collapsed into one")
		}
		c.check(len(probs) == 0, key, cc, "maps the old index on every path; new index = len(pool) before append; merge key is the constant's identity", strings.Join(probs, "; "))
	}
	// arms ⊇ static types passed to addConstant
	for _, es := range w.addConstantTypes() {
		key := "covers/" + es
		if es == "Object" {
			c.check(arms["default"], key, ts, "dynamic Object constants handled by the default arm", "constants of interface type Object (import values) have no default arm")
			continue
		}
		c.check(arms[es] || arms["default"], key, ts, "constant type has an arm", "constants of type "+es+" are added by the compiler but RemoveDuplicates has no arm for them")
	}
	// after the loop: Constants replaced, then indexes rewritten in main and in every function of the new pool
	var assignPos, mainPos, fnLoopPos token.Pos
	for _, s := range fd.Body.List {
		if as, ok := s.(*ast.AssignStmt); ok && len(as.Lhs) == 1 && strings.HasSuffix(w.Src(as.Lhs[0]), ".Constants") {
			assignPos = as.Pos()
		}
		if es, ok := s.(*ast.ExprStmt); ok {
			if call, ok := es.X.(*ast.CallExpr); ok && Callee(p, call) != nil && Callee(p, call).Name() == "updateConstIndexes" && strings.Contains(w.Src(call.Args[0]), "MainFunction.Instructions") {
				mainPos = es.Pos()
			}
		}
		if rs, ok := s.(*ast.RangeStmt); ok && rs != loop && strings.HasSuffix(w.Src(rs.X), ".Constants") {
			if containsNode(rs.Body, func(n ast.Node) bool {
				call, ok := n.(*ast.CallExpr)
				return ok && Callee(p, call) != nil && Callee(p, call).Name() == "updateConstIndexes" && strings.HasSuffix(w.Src(call.Args[0]), ".Instructions")
			}) && containsNode(rs.Body, func(n ast.Node) bool {
				cc, ok := n.(*ast.CaseClause)
				if !ok || len(cc.List) != 1 {
					return false
				}
				tn, _ := namedName(p.TypesInfo.Types[cc.List[0]].Type)
				return tn == "CompiledFunction"
			}) {
				fnLoopPos = rs.Pos()
			}
		}
	}
	c.check(assignPos.IsValid() && mainPos > assignPos && fnLoopPos > assignPos, "rewrite/all-functions", fd, "pool replaced, then indexes rewritten in the main function and in every compiled function of the pool", "after de-duplication the constant indexes must be rewritten in MainFunction and in every *CompiledFunction of the new pool (a function reachable only as a constant would keep stale indexes)")
	// both calls pass the same index map
	same := true
	var mapArg string
	ast.Inspect(fd.Body, func(n ast.Node) bool {
		call, ok := n.(*ast.CallExpr)
		if ok && Callee(p, call) != nil && Callee(p, call).Name() == "updateConstIndexes" && len(call.Args) == 2 {
			if mapArg == "" {
				mapArg = w.Src(call.Args[1])
			} else if mapArg != w.Src(call.Args[1]) {
				same = false
			}
		}
		return true
	})
	c.check(same && mapArg != "", "rewrite/same-map", fd, "one index map serves all rewrites", "updateConstIndexes is called with different maps")
}

// addConstantTypes: static types of the arguments of Compiler.addConstant.
func (w *World) addConstantTypes() []string {
	p := w.Root
	set := map[string]bool{}
	w.AllFuncDecls(p, func(fd *ast.FuncDecl) {
		ast.Inspect(fd.Body, func(n ast.Node) bool {
			call, ok := n.(*ast.CallExpr)
			if !ok || !isMethodOf(Callee(p, call), p.Types, "Compiler", "addConstant") || len(call.Args) != 1 {
				return true
			}
			if funcName(fd) == "Compiler.addConstant" {
				return true
			}
			t := p.TypesInfo.Types[call.Args[0]].Type
			if tn, _ := namedName(t); tn != "" {
				set[tn] = true
			}
			return true
		})
	})
	return sortedKeys(set)
}

func ruleGOB(c *Ctx) {
	w := c.W
	p := w.Root
	// registered types
	reg := map[string]*packages.Package{}
	var initFd *ast.FuncDecl
	w.AllFuncDecls(p, func(fd *ast.FuncDecl) {
		if fd.Name.Name != "init" || fd.Recv != nil {
			return
		}
		ast.Inspect(fd.Body, func(n ast.Node) bool {
			call, ok := n.(*ast.CallExpr)
			if !ok || FuncFullName(Callee(p, call)) != "encoding/gob.Register" || len(call.Args) != 1 {
				return true
			}
			initFd = fd
			t := p.TypesInfo.Types[call.Args[0]].Type
			if tn, pk := namedName(t); tn != "" {
				if pk == w.Parser.Types {
					reg["parser."+tn] = w.Parser
				} else {
					reg[tn] = p
				}
			}
			return true
		})
	})
	if len(reg) < 10 {
		c.anchor("gob.Register calls in init")
		return
	}
	// GOB.1: constant types and module-table value types are registered
	need := map[string]string{}
	for _, t := range w.addConstantTypes() {
		if t != "Object" {
			need[t] = "added to the constant pool by the compiler"
		}
	}
	for _, m := range []string{"textModule", "mathModule", "timesModule", "base64Module", "hexModule", "fmtModule", "jsonModule", "osModule", "randModule"} {
		for _, te := range w.moduleTable(m) {
			if te.TypeN != "" {
				need[te.TypeN] = "value type in stdlib table " + m
			}
		}
	}
	need["ImmutableMap"] = "builtin modules and exported maps are constants"
	need["ImmutableArray"] = "frozen/exported arrays inside module constants"
	need["Array"], need["Map"], need["Bool"], need["Undefined"], need["Bytes"], need["Time"], need["Error"] = "element of module constants", "element of module constants", "element of module constants", "element of module constants", "element of module constants", "element of module constants", "element of module constants"
	for _, t := range sortedKeys(need) {
		_, ok := reg[t]
		c.check(ok, "GOB.1/registered/"+t, initFd, "registered with gob ("+need[t]+")", "type "+t+" can occur in encoded bytecode ("+need[t]+") but is not registered with gob.Register: Encode fails at run time for programs that contain it")
	}
	// GOB.2: registered structs have only exported fields, tabled exceptions, or custom encoding
	exceptions := map[string]string{
		"String.runeStr":        "lazily rebuilt cache",
		"parser.SourceFile.set": "compile-time back-pointer; the VM resolves positions through Bytecode.FileSet, not through it (noted TODO in Decode)",
	}
	for _, name := range sortedKeys(reg) {
		pk := reg[name]
		tn := strings.TrimPrefix(name, "parser.")
		obj := pk.Types.Scope().Lookup(tn)
		st, ok := obj.Type().Underlying().(*types.Struct)
		if !ok {
			continue
		}
		custom := false
		ms := types.NewMethodSet(types.NewPointer(obj.Type()))
		if ms.Lookup(pk.Types, "GobEncode") != nil && ms.Lookup(pk.Types, "GobDecode") != nil {
			custom = true
		}
		for i := 0; i < st.NumFields(); i++ {
			f := st.Field(i)
			if f.Exported() || f.Embedded() {
				continue
			}
			key := "GOB.2/field/" + name + "." + f.Name()
			if custom {
				c.ok(key, nil, "type has GobEncode/GobDecode")
				continue
			}
			if why, ok := exceptions[name+"."+f.Name()]; ok {
				c.ok(key, nil, "tabled: "+why)
				continue
			}
			c.fail(key, nil, "unexported field "+f.Name()+" of gob-registered type "+name+" is silently dropped by encoding/gob: decoded bytecode would carry its zero value")
		}
	}
	// custom encoders round-trip: Bool
	enc, dec := w.FuncDecl(p, "Bool.GobEncode"), w.FuncDecl(p, "Bool.GobDecode")
	if enc == nil || dec == nil {
		c.fail("GOB.2/Bool-codec", nil, "Bool has an unexported value field but no GobEncode/GobDecode")
	} else {
		// encode: value → 1 else 0 ; decode: value = b[0] == 1
		e := w.Src2(enc.Body)
		_ = e
		encOK := containsNode(enc.Body, func(n ast.Node) bool {
			is, ok := n.(*ast.IfStmt)
			if !ok || is.Else == nil {
				return false
			}
			bare, neg := stripNot(is.Cond)
			if !strings.HasSuffix(w.Src(bare), ".value") {
				return false
			}
			whenTrue, whenFalse := ast.Node(is.Body), ast.Node(is.Else)
			if neg {
				whenTrue, whenFalse = whenFalse, whenTrue
			}
			return strings.Contains(w.Src(whenTrue), "{1}") && strings.Contains(w.Src(whenFalse), "{0}")
		})
		decOK := containsNode(dec.Body, func(n ast.Node) bool {
			as, ok := n.(*ast.AssignStmt)
			if !ok || len(as.Lhs) != 1 || !strings.HasSuffix(w.Src(as.Lhs[0]), ".value") {
				return false
			}
			// <the byte-slice parameter>[0] == 1
			b, ok := ast.Unparen(as.Rhs[0]).(*ast.BinaryExpr)
			if !ok || b.Op != token.EQL {
				return false
			}
			k, ok := ConstInt(p, b.Y)
			return ok && k == 1 && isArgN(p, dec, b.X, 0)
		})
		c.check(encOK && decOK, "GOB.2/Bool-codec", enc, "true ↔ 1, false ↔ 0", "Bool's GobEncode/GobDecode are not inverse (true must encode as 1 and decode from 1)")
	}
	// GOB.3: Decode fixes every constant; fixDecodedObject maps singletons and recurses
	dc := w.FuncDecl(p, "Bytecode.Decode")
	fx := w.FuncDecl(p, "fixDecodedObject")
	if dc == nil || fx == nil {
		c.anchor("Bytecode.Decode / fixDecodedObject")
		return
	}
	// a loop that passes every element of X through fixDecodedObject and
	// stores the result back, written inline or in a helper that receives X
	var fixLoopOver func(root ast.Node, matchX func(ast.Expr) bool, depth int) bool
	fixLoopOver = func(root ast.Node, matchX func(ast.Expr) bool, depth int) bool {
		return containsNode(root, func(n ast.Node) bool {
			switch x := n.(type) {
			case *ast.RangeStmt:
				if !matchX(x.X) {
					return false
				}
				return containsNode(x.Body, func(m ast.Node) bool {
					call, ok := m.(*ast.CallExpr)
					return ok && Callee(p, call) != nil && Callee(p, call).Name() == "fixDecodedObject"
				}) && containsNode(x.Body, func(m ast.Node) bool {
					as, ok := m.(*ast.AssignStmt)
					if !ok || len(as.Lhs) != 1 {
						return false
					}
					ix, ok := as.Lhs[0].(*ast.IndexExpr)
					return ok && matchX(ix.X)
				})
			case *ast.CallExpr:
				hd := gHelpers[x]
				if hd == nil || depth > 0 {
					return false
				}
				var params []string
				for _, f := range hd.Type.Params.List {
					for _, nm := range f.Names {
						params = append(params, nm.Name)
					}
				}
				for i, a := range x.Args {
					if matchX(a) && i < len(params) {
						pn := params[i]
						if fixLoopOver(hd.Body, func(e ast.Expr) bool { id, ok := ast.Unparen(e).(*ast.Ident); return ok && id.Name == pn }, depth+1) {
							return true
						}
					}
				}
			}
			return false
		})
	}
	fixLoop := fixLoopOver(dc.Body, func(e ast.Expr) bool { return strings.HasSuffix(w.Src(e), ".Constants") }, 0)
	c.check(fixLoop, "GOB.3/decode-fixes-constants", dc, "every decoded constant is replaced by its fixed form", "Decode does not pass every constant through fixDecodedObject and store the result back")
	// order: FileSet, MainFunction, Constants symmetric with Encode
	en := w.FuncDecl(p, "Bytecode.Encode")
	if en != nil {
		order := func(fd *ast.FuncDecl, m string) []string {
			var o []string
			ast.Inspect(fd.Body, func(n ast.Node) bool {
				call, ok := n.(*ast.CallExpr)
				if ok && len(call.Args) == 1 {
					if se, ok := call.Fun.(*ast.SelectorExpr); ok && se.Sel.Name == m {
						s := w.Src(call.Args[0])
						o = append(o, s[strings.LastIndex(s, ".")+1:])
					}
				}
				return true
			})
			return o
		}
		a, b := order(en, "Encode"), order(dc, "Decode")
		c.check(len(a) == 3 && strings.Join(a, ",") == strings.Join(b, ","), "GOB.3/field-order", en, "Encode and Decode stream the same fields in the same order: "+strings.Join(a, ","), fmt.Sprintf("Encode writes %v but Decode reads %v", a, b))
	}
	arms := map[string]*ast.CaseClause{}
	ast.Inspect(fx.Body, func(n ast.Node) bool {
		cc, ok := n.(*ast.CaseClause)
		if ok && len(cc.List) == 1 {
			if tv, ok := p.TypesInfo.Types[cc.List[0]]; ok && tv.IsType() {
				tn, _ := namedName(tv.Type)
				arms[tn] = cc
			}
		}
		return true
	})
	if cc := arms["Bool"]; cc != nil {
		good := containsNode(cc, func(n ast.Node) bool {
			is, ok := n.(*ast.IfStmt)
			if !ok {
				return false
			}
			neg := strings.HasPrefix(w.Src(is.Cond), "!")
			falsy := strings.Contains(w.Src(is.Cond), "IsFalsy()")
			ret := w.Src(is.Body)
			return falsy && ((!neg && strings.Contains(ret, "FalseValue")) || (neg && strings.Contains(ret, "TrueValue")))
		}) && strings.Contains(w.Src2(cc), "")
		// the fallthrough return is the other singleton
		rets := []string{}
		ast.Inspect(cc, func(n ast.Node) bool {
			if r, ok := n.(*ast.ReturnStmt); ok && len(r.Results) == 2 {
				rets = append(rets, w.Src(r.Results[0]))
			}
			return true
		})
		good = good && len(rets) == 2 && rets[0] != rets[1]
		c.check(good, "GOB.3/fix/Bool", cc, "decoded booleans become the TrueValue/FalseValue singletons with the right polarity", "fixDecodedObject does not map a decoded Bool to the matching singleton (the VM compares booleans by identity)")
	} else {
		c.fail("GOB.3/fix/Bool", fx, "fixDecodedObject has no arm for *Bool")
	}
	if cc := arms["Undefined"]; cc != nil {
		c.check(strings.Contains(w.Src(cc), "UndefinedValue"), "GOB.3/fix/Undefined", cc, "decoded undefined becomes the singleton", "fixDecodedObject does not map *Undefined to UndefinedValue")
	} else {
		c.fail("GOB.3/fix/Undefined", fx, "fixDecodedObject has no arm for *Undefined")
	}
	if cc := arms["Error"]; cc != nil {
		fixes := containsNode(cc, func(n ast.Node) bool {
			call, ok := n.(*ast.CallExpr)
			return ok && Callee(p, call) != nil && Callee(p, call).Name() == "fixDecodedObject" && len(call.Args) >= 1 && strings.HasSuffix(w.Src(call.Args[0]), ".Value")
		}) && containsNode(cc, func(n ast.Node) bool {
			as, ok := n.(*ast.AssignStmt)
			return ok && len(as.Lhs) == 1 && strings.HasSuffix(w.Src(as.Lhs[0]), ".Value")
		})
		c.check(fixes, "GOB.3/fix/Error", cc, "the value inside an error is fixed and stored back", "fixDecodedObject does not fix the value held by an Error")
	} else {
		c.fail("GOB.3/fix/Error", fx, "fixDecodedObject does not descend into Error values: a boolean or undefined inside an error constant is not mapped back to its singleton after decoding")
	}
	for _, t := range []string{"Array", "ImmutableArray", "Map", "ImmutableMap"} {
		cc := arms[t]
		if cc == nil {
			c.fail("GOB.3/fix/"+t, fx, "fixDecodedObject does not recurse into "+t)
			continue
		}
		rec := fixLoopOver(cc, func(e ast.Expr) bool { return strings.HasSuffix(w.Src(e), ".Value") }, 0)
		c.check(rec, "GOB.3/fix/"+t, cc, "elements are fixed recursively and stored back", "fixDecodedObject does not fix the elements of "+t+" in place")
	}
}

// ---------------------------------------------------------------- XCH

func ruleXCH(c *Ctx) {
	w := c.W
	p := w.Root
	from := w.FuncDecl(p, "FromInterface")
	to := w.FuncDecl(p, "ToInterface")
	if from == nil || to == nil {
		c.anchor("FromInterface / ToInterface")
		return
	}
	singletons := map[string]string{"TrueValue": "Bool", "FalseValue": "Bool", "UndefinedValue": "Undefined"}
	// FromInterface: Go type -> Object type
	fromTab := map[string]string{}
	ast.Inspect(from.Body, func(n ast.Node) bool {
		cc, ok := n.(*ast.CaseClause)
		if !ok || cc.List == nil {
			return true
		}
		prod := map[string]bool{}
		ast.Inspect(cc, func(m ast.Node) bool {
			r, ok := m.(*ast.ReturnStmt)
			if !ok || len(r.Results) != 2 || isNilIdent(r.Results[0]) {
				return true
			}
			e := ast.Unparen(r.Results[0])
			if u, ok := e.(*ast.UnaryExpr); ok {
				if cl, ok := u.X.(*ast.CompositeLit); ok {
					tn, _ := namedName(p.TypesInfo.Types[cl].Type)
					prod[tn] = true
				}
			} else if o := ObjOf(p, e); o != nil {
				if s, ok := singletons[o.Name()]; ok {
					prod[s] = true
				} else {
					prod["(same object)"] = true
				}
			}
			return true
		})
		for _, e := range cc.List {
			gt := "nil"
			if tv, ok := p.TypesInfo.Types[e]; ok && tv.IsType() {
				gt = types.TypeString(tv.Type, func(pk *types.Package) string { return pk.Name() })
			}
			fromTab[gt] = setStr(prod)
		}
		return true
	})
	// ToInterface: Object type -> Go type of the result
	normalise := map[string]string{"ImmutableArray": "Array", "ImmutableMap": "Map"}
	n := 0
	ast.Inspect(to.Body, func(nd ast.Node) bool {
		cc, ok := nd.(*ast.CaseClause)
		if !ok || len(cc.List) != 1 {
			return true
		}
		tv, ok := p.TypesInfo.Types[cc.List[0]]
		if !ok || !tv.IsType() {
			return true
		}
		tn, _ := namedName(tv.Type)
		if tn == "Object" || tn == "" {
			return true
		}
		// first assignment to res
		var rhs ast.Expr
		for _, s := range cc.Body {
			if as, ok := s.(*ast.AssignStmt); ok && len(as.Lhs) == 1 && rhs == nil && isObj(p, as.Lhs[0], resultVar(p, to)) {
				rhs = as.Rhs[0]
			}
		}
		if rhs == nil {
			return true
		}
		n++
		gt := "nil"
		if !isNilIdent(rhs) {
			t := p.TypesInfo.Types[rhs].Type
			gt = types.TypeString(types.Default(t), func(pk *types.Package) string { return pk.Name() })
		}
		if gt == "int32" {
			gt = "rune"
		}
		back, ok := fromTab[gt]
		if !ok && gt == "rune" {
			back, ok = fromTab["int32"]
		}
		want := tn
		if nn, ok := normalise[tn]; ok {
			want = nn
		}
		key := "XCH.1/" + tn
		c.check(ok && back == "{"+want+"}", key, cc, fmt.Sprintf("%s → %s → %s", tn, gt, want), fmt.Sprintf("ToInterface turns %s into Go type %s, which FromInterface turns into %s (expected %s): converting to a Go value and back is not the identity", tn, gt, back, want))
		return true
	})
	if n < 12 {
		c.fail("XCH.1/count", to, fmt.Sprintf("expected >= 12 ToInterface arms, found %d", n))
	}
	// nested containers recurse through the same functions
	for _, spec := range []struct {
		fd   *ast.FuncDecl
		name string
	}{{from, "FromInterface"}, {to, "ToInterface"}} {
		k := 0
		ast.Inspect(spec.fd.Body, func(nd ast.Node) bool {
			call, ok := nd.(*ast.CallExpr)
			if ok && Callee(p, call) != nil && Callee(p, call).Name() == spec.name {
				k++
			}
			return true
		})
		c.check(k >= 2, "XCH.1/recursion/"+spec.name, spec.fd, "containers convert their elements recursively", spec.name+" does not recurse into container elements")
	}
	// documented input kinds: int, int64 → Int; byte, rune → Char; error → Error; …
	wantFrom := map[string]string{"int": "{Int}", "int64": "{Int}", "string": "{String}", "bool": "{Bool}", "rune": "{Char}", "byte": "{Char}", "float64": "{Float}", "[]byte": "{Bytes}", "error": "{Error}", "time.Time": "{Time}", "nil": "{Undefined}"}
	alias := map[string]string{"rune": "int32", "byte": "uint8", "[]byte": "[]uint8"}
	for _, g := range sortedKeys(wantFrom) {
		got, ok := fromTab[g]
		if !ok {
			got, ok = fromTab[alias[g]]
		}
		c.check(ok && got == wantFrom[g], "XCH.1/from/"+g, from, g+" arrives as "+wantFrom[g], fmt.Sprintf("Go %s arrives as %s (documented %s)", g, got, wantFrom[g]))
	}

	// XCH.2: typed accessors of Variable
	acc := map[string]string{"Int": "ToInt", "Int64": "ToInt64", "Float": "ToFloat64", "Char": "ToRune", "Bool": "ToBool", "String": "ToString", "Bytes": "ToByteSlice"}
	for _, m := range sortedKeys(acc) {
		fd := w.FuncDecl(p, "Variable."+m)
		key := "XCH.2/Variable." + m
		if fd == nil {
			c.fail(key, nil, "accessor missing")
			continue
		}
		conv := acc[m]
		var cv types.Object
		good := false
		ast.Inspect(fd.Body, func(nd ast.Node) bool {
			as, ok := nd.(*ast.AssignStmt)
			if !ok || len(as.Rhs) != 1 {
				return true
			}
			call, ok := as.Rhs[0].(*ast.CallExpr)
			if ok && Callee(p, call) != nil && Callee(p, call).Name() == conv && len(call.Args) == 1 && strings.HasSuffix(w.Src(call.Args[0]), ".value") {
				if id, ok := as.Lhs[0].(*ast.Ident); ok {
					cv = p.TypesInfo.Defs[id]
				}
			}
			return true
		})
		if cv != nil {
			if r, ok := fd.Body.List[len(fd.Body.List)-1].(*ast.ReturnStmt); ok && len(r.Results) == 1 {
				if id, ok := ast.Unparen(r.Results[0]).(*ast.Ident); ok && p.TypesInfo.Uses[id] == cv {
					good = true
				}
			}
		}
		// result type of the accessor equals the conversion's first result type
		if good {
			cf := p.Types.Scope().Lookup(conv).(*types.Func)
			rt := cf.Type().(*types.Signature).Results().At(0).Type()
			at := p.TypesInfo.Defs[fd.Name].Type().(*types.Signature).Results().At(0).Type()
			good = types.Identical(rt, at)
		}
		c.check(good, key, fd, "returns the first result of "+conv+"(v.value)", "Variable."+m+" does not return "+conv+"(v.value)'s first result (typed accessors follow the documented coercion table)")
	}
	if fd := w.FuncDecl(p, "Variable.Value"); fd != nil {
		good := containsNode(fd.Body, func(nd ast.Node) bool {
			r, ok := nd.(*ast.ReturnStmt)
			if !ok || len(r.Results) != 1 {
				return false
			}
			call, ok := r.Results[0].(*ast.CallExpr)
			return ok && Callee(p, call) != nil && Callee(p, call).Name() == "ToInterface" && strings.HasSuffix(w.Src(call.Args[0]), ".value")
		})
		c.check(good, "XCH.2/Variable.Value", fd, "Value() is ToInterface(v.value)", "Variable.Value does not return ToInterface(v.value)")
	}

	// XCH.3: Set rejects undeclared names before storing; Get/GetAll substitute undefined for nil
	set := w.FuncDecl(p, "Compiled.Set")
	if set != nil {
		var storePos, guardPos token.Pos
		ast.Inspect(set.Body, func(nd ast.Node) bool {
			switch x := nd.(type) {
			case *ast.AssignStmt:
				if len(x.Lhs) == 1 {
					if ix, ok := x.Lhs[0].(*ast.IndexExpr); ok && strings.HasSuffix(w.Src(ix.X), ".globals") {
						storePos = x.Pos()
					}
				}
			case *ast.IfStmt:
				if strings.HasPrefix(w.Src(x.Cond), "!") && terminates(x.Body) && containsNode(x.Body, func(m ast.Node) bool {
					call, ok := m.(*ast.CallExpr)
					return ok && FuncFullName(Callee(p, call)) == "fmt.Errorf"
				}) {
					guardPos = x.Pos()
				}
			}
			return true
		})
		lookup := containsNode(set.Body, func(nd ast.Node) bool {
			as, ok := nd.(*ast.AssignStmt)
			if !ok || len(as.Lhs) != 2 || len(as.Rhs) != 1 {
				return false
			}
			ix, ok := as.Rhs[0].(*ast.IndexExpr)
			return ok && strings.HasSuffix(w.Src(ix.X), ".globalIndexes")
		})
		c.check(lookup && guardPos.IsValid() && storePos > guardPos, "XCH.3/Set-rejects-undeclared", set, "name looked up in globalIndexes; unknown names return an error before anything is stored", "Compiled.Set can store without a successful lookup of the name in globalIndexes")
	}
	for _, m := range []string{"Get", "GetAll"} {
		fd := w.FuncDecl(p, "Compiled."+m)
		if fd == nil {
			continue
		}
		// (in the method or in a helper it calls) a nil test of the slot's
		// value next to the undefined singleton: `if v == nil { v = Undefined }`
		// or `if v != nil { return v }; return Undefined`
		good := containsDeep(fd.Body, func(nd ast.Node) bool {
			is, ok := nd.(*ast.IfStmt)
			if !ok {
				return false
			}
			b, ok := ast.Unparen(is.Cond).(*ast.BinaryExpr)
			if !ok || !isNilIdent(b.Y) {
				return false
			}
			switch b.Op {
			case token.EQL:
				return strings.Contains(w.Src(is.Body), "UndefinedValue")
			case token.NEQ:
				// the non-nil value is used in the body; undefined follows
				return true
			}
			return false
		}) && containsDeep(fd.Body, func(nd ast.Node) bool {
			e, ok := nd.(ast.Expr)
			if !ok {
				return false
			}
			o := ObjOf(p, e)
			return o != nil && o.Name() == "UndefinedValue"
		})
		c.check(good, "XCH.3/"+m+"-nil-is-undefined", fd, "unset slots read as undefined", "Compiled."+m+" hands out a nil Object for an unset variable")
	}
	// host variables are defined before the user's code is compiled
	sc := w.FuncDecl(p, "Script.Compile")
	if sc != nil {
		ip := stmtIndexWithCall(w, sc.Body.List, func(call *ast.CallExpr) bool { return isMethodOf(Callee(p, call), p.Types, "Script", "prepCompile") })
		ic := stmtIndexWithCall(w, sc.Body.List, func(call *ast.CallExpr) bool { return isMethodOf(Callee(p, call), p.Types, "Compiler", "Compile") })
		c.check(ip >= 0 && ic > ip, "XCH.3/variables-before-code", sc, "host variables are defined (and get the first global slots) before the script is compiled", "Script.Compile does not define the host variables before compiling the script")
	}
}

// CLONE.1: Clone gives the copy its own globals; ReplaceBuiltinModule copies before writing.
func ruleCLONE1(c *Ctx) {
	w := c.W
	p := w.Root
	fd := w.FuncDecl(p, "Compiled.Clone")
	if fd == nil {
		c.anchor("Compiled.Clone")
		return
	}
	var lit *ast.CompositeLit
	ast.Inspect(fd.Body, func(n ast.Node) bool {
		if cl, ok := n.(*ast.CompositeLit); ok {
			if tn, _ := namedName(p.TypesInfo.Types[cl].Type); tn == "Compiled" {
				lit = cl
			}
		}
		return true
	})
	if lit == nil {
		c.fail("clone/literal", fd, "Clone does not build a new Compiled")
		return
	}
	f := map[string]ast.Expr{}
	for _, e := range lit.Elts {
		if kv, ok := e.(*ast.KeyValueExpr); ok {
			f[w.Src(kv.Key)] = kv.Value
		}
	}
	g, ok := f["globals"].(*ast.CallExpr)
	fresh := ok && IsBuiltinCall(p, g, "make")
	c.check(fresh, "clone/globals-fresh", lit, "the clone's globals slice is made fresh", "the clone shares the globals slice (or its backing array) with the original")
	// elements copied through Copy()
	copied := containsNode(fd.Body, func(n ast.Node) bool {
		// a loop over the original's globals, by range or by index
		var body *ast.BlockStmt
		switch x := n.(type) {
		case *ast.RangeStmt:
			if !strings.HasSuffix(w.Src(x.X), ".globals") {
				return false
			}
			body = x.Body
		case *ast.ForStmt:
			if !containsNode(x.Body, func(m ast.Node) bool {
				ix, ok := m.(*ast.IndexExpr)
				return ok && strings.HasSuffix(w.Src(ix.X), ".globals")
			}) {
				return false
			}
			body = x.Body
		default:
			return false
		}
		return containsNode(body, func(m ast.Node) bool {
			as, ok := m.(*ast.AssignStmt)
			if !ok || len(as.Lhs) != 1 {
				return false
			}
			_, isIdx := as.Lhs[0].(*ast.IndexExpr)
			call, isCall := as.Rhs[0].(*ast.CallExpr)
			return isIdx && isCall && Callee(p, call) != nil && Callee(p, call).Name() == "Copy"
		})
	})
	// …and no store into the clone's globals is anything else
	var notCopies []string
	ast.Inspect(fd.Body, func(n ast.Node) bool {
		as, ok := n.(*ast.AssignStmt)
		if !ok {
			return true
		}
		for i, l := range as.Lhs {
			ix, ok := l.(*ast.IndexExpr)
			if !ok || !strings.HasSuffix(w.Src(ix.X), ".globals") || i >= len(as.Rhs) {
				continue
			}
			call, isCall := as.Rhs[i].(*ast.CallExpr)
			if !isCall || Callee(p, call) == nil || Callee(p, call).Name() != "Copy" || len(call.Args) != 0 {
				notCopies = append(notCopies, w.Src(as))
			}
		}
		return true
	})
	c.check(copied && len(notCopies) == 0, "clone/globals-copied", fd, "every global is stored as g.Copy(), and nothing else is stored", "Clone stores the original's global objects in the clone instead of their copies (immutability is shallow: a nested mutable value would be shared between clones): "+strings.Join(notCopies, "; "))
	// the clone is marked as sharing bytecode
	fc, _ := f["fullClone"]
	c.check(fc != nil && w.Src(fc) == "false", "clone/marked-shared", lit, "the clone is marked as sharing bytecode/indexes (fullClone: false)", "a clone that shares bytecode is not marked fullClone=false: ReplaceBuiltinModule would write to shared bytecode")
	// ReplaceBuiltinModule: copy-on-write dominates the write
	rb := w.FuncDecl(p, "Compiled.ReplaceBuiltinModule")
	if rb == nil {
		c.anchor("Compiled.ReplaceBuiltinModule")
		return
	}
	var cow *ast.IfStmt
	var writePos token.Pos
	for _, s := range rb.Body.List {
		if is, ok := s.(*ast.IfStmt); ok && func() bool {
			// `if !c.fullClone` however it is spelled (`c.fullClone == false`)
			bare, neg := stripNot(is.Cond)
			f, _ := FieldSel(p, bare)
			return neg && f != nil && f.Name() == "fullClone"
		}() {
			cow = is
		}
	}
	early := false
	ast.Inspect(rb.Body, func(n ast.Node) bool {
		call, ok := n.(*ast.CallExpr)
		if ok && isMethodOf(Callee(p, call), p.Types, "Bytecode", "ReplaceBuiltinModule") {
			writePos = call.Pos()
			if cow == nil || call.Pos() < cow.End() {
				early = true
			}
		}
		return true
	})
	good := cow != nil && writePos > cow.End() && !early
	if good {
		clones := containsNode(cow.Body, func(n ast.Node) bool {
			as, ok := n.(*ast.AssignStmt)
			if !ok || len(as.Lhs) != 1 || !strings.HasSuffix(w.Src(as.Lhs[0]), ".bytecode") {
				return false
			}
			call, ok := as.Rhs[0].(*ast.CallExpr)
			return ok && isMethodOf(Callee(p, call), p.Types, "Bytecode", "Clone")
		})
		marks := containsNode(cow.Body, func(n ast.Node) bool {
			as, ok := n.(*ast.AssignStmt)
			return ok && len(as.Lhs) == 1 && strings.HasSuffix(w.Src(as.Lhs[0]), ".fullClone") && w.Src(as.Rhs[0]) == "true"
		})
		good = clones && marks
	}
	c.check(good, "clone/copy-on-write", rb, "a sharing clone copies its bytecode before the module constant is replaced", "ReplaceBuiltinModule writes to bytecode that may be shared with other clones (copy-on-write missing or after the write)")
	bc := w.FuncDecl(p, "Bytecode.Clone")
	if bc != nil {
		ok := containsNode(bc.Body, func(n ast.Node) bool {
			kv, ok := n.(*ast.KeyValueExpr)
			if !ok || w.Src(kv.Key) != "Constants" {
				return false
			}
			call, ok := kv.Value.(*ast.CallExpr)
			return ok && IsBuiltinCall(p, call, "append") && strings.HasPrefix(w.Src(call.Args[0]), "[]Object{}")
		})
		c.check(ok, "clone/bytecode-constants-fresh", bc, "Bytecode.Clone copies the constant slice", "Bytecode.Clone shares the Constants slice, which ReplaceBuiltinModule overwrites")
	}
}

// resultVar: the function's single named result.
func resultVar(p pkgT, fd *ast.FuncDecl) types.Object {
	if fd.Type.Results == nil || len(fd.Type.Results.List) != 1 || len(fd.Type.Results.List[0].Names) != 1 {
		return nil
	}
	return p.TypesInfo.Defs[fd.Type.Results.List[0].Names[0]]
}
