package main

// rules_wave3.go: rules added after the third round of seeded changes:
// CMP.4 (Equals arms are one canonical comparison, mirrored across types and
// agreeing with the ordering arms), POOL.1 (sync.Pool typestate: one Put per
// Get, by the getter, no use afterwards), SYM.1 (who may write a scope's
// symbol store).

import (
	"fmt"
	"go/ast"
	"go/token"
	"go/types"
	"sort"
	"strings"
)

// ---------------------------------------------------------------- CMP.4 (C10)

type eqArm struct {
	Recv, Arg string // type names
	Body      []ast.Stmt
	ArgVar    types.Object
	Node      ast.Node
}

// equalsArms extracts the per-argument-type arms of an Equals method. Shapes:
// a type switch on the parameter; `if t, ok := x.(*T); ok { … }` chains; and
// `t, ok := x.(*T); if !ok { return false }; …rest`.
func equalsArms(w *World, recv string, fd *ast.FuncDecl) (arms []eqArm, whole bool) {
	p := w.Root
	if fd.Type.Params.NumFields() != 1 || len(fd.Type.Params.List[0].Names) != 1 {
		return nil, true
	}
	param := p.TypesInfo.Defs[fd.Type.Params.List[0].Names[0]]
	isParam := func(e ast.Expr) bool {
		id, ok := ast.Unparen(e).(*ast.Ident)
		return ok && p.TypesInfo.Uses[id] == param
	}
	list := fd.Body.List
	for i, s := range list {
		switch x := s.(type) {
		case *ast.TypeSwitchStmt:
			var ta *ast.TypeAssertExpr
			switch a := x.Assign.(type) {
			case *ast.AssignStmt:
				ta, _ = a.Rhs[0].(*ast.TypeAssertExpr)
			case *ast.ExprStmt:
				ta, _ = a.X.(*ast.TypeAssertExpr)
			}
			if ta == nil || !isParam(ta.X) {
				return nil, true
			}
			for _, cl := range x.Body.List {
				cc := cl.(*ast.CaseClause)
				for _, te := range cc.List {
					tn, _ := namedName(p.TypesInfo.Types[te].Type)
					arms = append(arms, eqArm{recv, tn, cc.Body, p.TypesInfo.Implicits[cc], cc})
				}
			}
		case *ast.IfStmt:
			as, ok := x.Init.(*ast.AssignStmt)
			if !ok || len(as.Lhs) != 2 || len(as.Rhs) != 1 {
				return nil, true
			}
			ta, ok := as.Rhs[0].(*ast.TypeAssertExpr)
			if !ok || !isParam(ta.X) || ta.Type == nil || w.Src(x.Cond) != w.Src(as.Lhs[1]) {
				return nil, true
			}
			tn, _ := namedName(p.TypesInfo.Types[ta.Type].Type)
			var av types.Object
			if id, ok := as.Lhs[0].(*ast.Ident); ok {
				av = p.TypesInfo.Defs[id]
			}
			arms = append(arms, eqArm{recv, tn, x.Body.List, av, x})
		case *ast.AssignStmt:
			// t, ok := x.(*T); if !ok { return false }; rest
			if len(x.Lhs) == 2 && len(x.Rhs) == 1 && i+1 < len(list) {
				if ta, ok := x.Rhs[0].(*ast.TypeAssertExpr); ok && isParam(ta.X) && ta.Type != nil {
					if is, ok := list[i+1].(*ast.IfStmt); ok && w.Src(is.Cond) == "!"+w.Src(x.Lhs[1]) && len(is.Body.List) == 1 {
						if r, ok := is.Body.List[0].(*ast.ReturnStmt); ok && len(r.Results) == 1 && w.Src(r.Results[0]) == "false" {
							tn, _ := namedName(p.TypesInfo.Types[ta.Type].Type)
							var av types.Object
							if id, ok := x.Lhs[0].(*ast.Ident); ok {
								av = p.TypesInfo.Defs[id]
							}
							arms = append(arms, eqArm{recv, tn, list[i+2:], av, x})
							return arms, false
						}
					}
				}
			}
			return nil, true
		case *ast.ReturnStmt:
			// trailing `return false`
			if len(x.Results) == 1 && w.Src(x.Results[0]) == "false" && len(arms) > 0 {
				continue
			}
			return nil, true
		default:
			return nil, true
		}
	}
	return arms, false
}

// boolOf reduces a statement list that returns a bool on every path to one
// expression string, or "" when the shape is not understood.
func boolOf(w *World, list []ast.Stmt) ast.Expr {
	if len(list) == 0 {
		return nil
	}
	switch x := list[0].(type) {
	case *ast.ReturnStmt:
		if len(x.Results) == 1 {
			return x.Results[0]
		}
	case *ast.IfStmt:
		// if C { return true }; return false   →  C
		if x.Init == nil && x.Else == nil && len(x.Body.List) == 1 && len(list) == 2 {
			r1, ok1 := x.Body.List[0].(*ast.ReturnStmt)
			r2, ok2 := list[1].(*ast.ReturnStmt)
			if ok1 && ok2 && len(r1.Results) == 1 && len(r2.Results) == 1 && w.Src(r1.Results[0]) == "true" && w.Src(r2.Results[0]) == "false" {
				return x.Cond
			}
		}
	}
	return nil
}

// sideOf describes one operand of an equality: which value it is (receiver's
// or argument's Value) and the conversion applied ("" or the target type).
func sideOf(w *World, e ast.Expr, recvObj, argObj types.Object) (role, conv string, ok bool) {
	p := w.Root
	e = ast.Unparen(e)
	if call, isCall := e.(*ast.CallExpr); isCall && len(call.Args) == 1 {
		if tv, okT := p.TypesInfo.Types[call.Fun]; okT && tv.IsType() {
			conv = types.TypeString(tv.Type, nil)
			e = ast.Unparen(call.Args[0])
		}
	}
	se, isSel := e.(*ast.SelectorExpr)
	if !isSel || se.Sel.Name != "Value" {
		return "", "", false
	}
	id, isId := ast.Unparen(se.X).(*ast.Ident)
	if !isId {
		return "", "", false
	}
	switch p.TypesInfo.Uses[id] {
	case recvObj:
		return "recv", conv, true
	case argObj:
		return "arg", conv, true
	}
	return "", "", false
}

func ruleCMP4(c *Ctx) {
	w := c.W
	p := w.Root
	scalars := map[string]bool{"Int": true, "Float": true, "Char": true, "String": true, "Bytes": true, "Time": true}
	tabledCalls := map[string]string{"Bytes": "bytes.Equal", "Time": "time.Equal"}
	// sig[T][U] = conversion applied to the T-side and to the U-side
	type sig struct{ t, u string }
	eq := map[string]map[string]sig{}
	decls := w.objectMethodDecls("Equals")
	var names []string
	for tn := range decls {
		names = append(names, tn)
	}
	sort.Strings(names)
	for _, tn := range names {
		if !scalars[tn] {
			continue
		}
		fd := decls[tn]
		if len(fd.Recv.List[0].Names) == 0 {
			continue
		}
		recvObj := p.TypesInfo.Defs[fd.Recv.List[0].Names[0]]
		arms, whole := equalsArms(w, tn, fd)
		if whole || len(arms) == 0 {
			c.fail("equals/"+tn, fd, "Equals of "+tn+" is not a dispatch on the argument's type with one comparison per type (shape not understood)")
			continue
		}
		for _, a := range arms {
			key := "equals/" + tn + "~" + a.Arg
			e := boolOf(w, a.Body)
			if e == nil {
				c.fail(key, a.Node, "the arm is not a single comparison of the two values (extra cases make == disagree with <, <=, >, >= and with the mirrored arm)")
				continue
			}
			e = ast.Unparen(e)
			if call, ok := e.(*ast.CallExpr); ok {
				want := tabledCalls[tn]
				fn := Callee(p, call)
				got := ""
				if fn != nil && fn.Pkg() != nil {
					got = fn.Pkg().Name() + "." + fn.Name()
				}
				okc := want != "" && got == want && a.Arg == tn
				// operands: recv.Value and arg.Value in any order
				var ops []ast.Expr
				if se, isSel := call.Fun.(*ast.SelectorExpr); isSel && got == "time.Equal" {
					ops = append(ops, se.X)
				}
				ops = append(ops, call.Args...)
				roles := map[string]bool{}
				for _, o := range ops {
					r, cv, ok := sideOf(w, o, recvObj, a.ArgVar)
					if !ok || cv != "" {
						okc = false
					}
					roles[r] = true
				}
				c.check(okc && roles["recv"] && roles["arg"] && len(ops) == 2, key, a.Node, got+"(receiver value, argument value)", "the arm does not compare the receiver's and the argument's value with "+want)
				continue
			}
			b, ok := e.(*ast.BinaryExpr)
			if !ok || b.Op != token.EQL {
				c.fail(key, a.Node, "the arm is not `value == value`: "+w.Src(e))
				continue
			}
			r1, c1, ok1 := sideOf(w, b.X, recvObj, a.ArgVar)
			r2, c2, ok2 := sideOf(w, b.Y, recvObj, a.ArgVar)
			if !ok1 || !ok2 || r1 == r2 {
				c.fail(key, a.Node, "the arm does not compare the receiver's Value with the argument's Value (optionally converted): "+w.Src(e))
				continue
			}
			s := sig{c1, c2}
			if r1 == "arg" {
				s = sig{c2, c1}
			}
			if eq[tn] == nil {
				eq[tn] = map[string]sig{}
			}
			eq[tn][a.Arg] = s
			if a.Arg == tn {
				c.check(s.t == "" && s.u == "", key, a.Node, "same-type equality compares the values directly", "same-type equality converts an operand: "+w.Src(e))
			} else {
				c.ok(key, a.Node, fmt.Sprintf("%s side %s, %s side %s", tn, orNone(s.t), a.Arg, orNone(s.u)))
			}
		}
	}
	// mirror law: T.Equals(U) and U.Equals(T) convert each type's value the same way
	for _, tn := range names {
		for un, s := range eq[tn] {
			if un <= tn {
				continue
			}
			m, ok := eq[un][tn]
			key := "equals-mirror/" + tn + "~" + un
			if !ok {
				c.fail(key, decls[tn], un+".Equals has no canonical arm for "+tn+" although "+tn+".Equals has one for "+un)
				continue
			}
			c.check(s.t == m.u && s.u == m.t, key, decls[tn], "both directions convert the operands identically", fmt.Sprintf("%s.Equals(%s) compares %s(%s) with %s(%s) but %s.Equals(%s) compares %s(%s) with %s(%s): a == b and b == a can differ", tn, un, orNone(s.t), tn, orNone(s.u), un, un, tn, orNone(m.t), un, orNone(m.u), tn))
		}
	}
	// agreement with the ordering arms: T < U converts the operands as T == U does
	for _, a := range w.binArms() {
		if _, isCmp := cmpTokens[a.Tok]; !isCmp || a.RHS == "" || a.RHS == "default" || !scalars[a.Recv] {
			continue
		}
		s, ok := eq[a.Recv][a.RHS]
		if !ok {
			continue
		}
		var cmp *ast.BinaryExpr
		for _, st := range a.Body {
			ast.Inspect(st, func(n ast.Node) bool {
				if b, ok := n.(*ast.BinaryExpr); ok && cmp == nil {
					switch b.Op {
					case token.LSS, token.GTR, token.LEQ, token.GEQ:
						cmp = b
					}
				}
				return true
			})
		}
		if cmp == nil {
			continue
		}
		r1, c1, ok1 := sideOf(w, cmp.X, a.RecvObj, a.RhsVar)
		r2, c2, ok2 := sideOf(w, cmp.Y, a.RecvObj, a.RhsVar)
		if !ok1 || !ok2 || r1 == r2 {
			continue
		}
		o := sig{c1, c2}
		if r1 == "arg" {
			o = sig{c2, c1}
		}
		key := "equals-vs-order/" + a.key()
		c.check(o == s, key, a.Node, "the ordering arm converts its operands exactly as Equals does", fmt.Sprintf("%s %s %s converts (%s, %s) but %s.Equals(%s) converts (%s, %s): `<=` is no longer `<` or `==`", a.Recv, a.Tok, a.RHS, orNone(o.t), orNone(o.u), a.Recv, a.RHS, orNone(s.t), orNone(s.u)))
	}
}

func orNone(s string) string {
	if s == "" {
		return "as is"
	}
	return "as " + s
}

// ---------------------------------------------------------------- POOL.1 (C08, C17)

// POOL.1: typestate of pooled objects. For every sync.Pool variable of the
// module: Get is called only inside a getter wrapper that returns the object;
// Put only inside a putter wrapper (a method of the pooled type, or a function
// taking it). Every call of the putter passes an object that the calling
// function itself obtained from the getter, happens at most once per function
// outside loops, and the object is not mentioned afterwards. A second Put
// hands one object to two concurrent users.
func rulePOOL1(c *Ctx) {
	w := c.W
	n := 0
	for _, p := range []pkgT{w.Root, w.Parser, w.Stdlib, w.JSON} {
		pools := map[types.Object]bool{}
		for _, name := range p.Types.Scope().Names() {
			o := p.Types.Scope().Lookup(name)
			if v, ok := o.(*types.Var); ok && types.TypeString(v.Type(), nil) == "sync.Pool" {
				pools[v] = true
			}
		}
		if len(pools) == 0 {
			continue
		}
		getters, putters := map[*types.Func]bool{}, map[*types.Func]bool{}
		w.AllFuncDecls(p, func(fd *ast.FuncDecl) {
			fn, _ := p.TypesInfo.Defs[fd.Name].(*types.Func)
			ast.Inspect(fd.Body, func(nd ast.Node) bool {
				call, ok := nd.(*ast.CallExpr)
				if !ok {
					return true
				}
				se, ok := call.Fun.(*ast.SelectorExpr)
				if !ok {
					return true
				}
				id, ok := ast.Unparen(se.X).(*ast.Ident)
				if !ok || !pools[p.TypesInfo.Uses[id]] {
					return true
				}
				switch se.Sel.Name {
				case "Get":
					getters[fn] = true
				case "Put":
					putters[fn] = true
				}
				return true
			})
		})
		for g := range getters {
			c.check(!putters[g], "pool/getter/"+g.Name(), nil, "the getter only takes from the pool", g.Name()+" both gets from and puts into the pool")
			n++
		}
		// every putter call site
		w.AllFuncDecls(p, func(fd *ast.FuncDecl) {
			fn, _ := p.TypesInfo.Defs[fd.Name].(*types.Func)
			if putters[fn] {
				return
			}
			// locals obtained from a getter in this function
			got := map[types.Object]bool{}
			ast.Inspect(fd.Body, func(nd ast.Node) bool {
				as, ok := nd.(*ast.AssignStmt)
				if !ok || len(as.Lhs) != 1 || len(as.Rhs) != 1 {
					return true
				}
				if call, ok := ast.Unparen(as.Rhs[0]).(*ast.CallExpr); ok && getters[Callee(p, call)] {
					if id, ok := as.Lhs[0].(*ast.Ident); ok {
						if o := p.TypesInfo.ObjectOf(id); o != nil {
							got[o] = true
						}
					}
				}
				return true
			})
			puts := 0
			inspectWithStack(fd.Body, func(nd ast.Node, stack []ast.Node) bool {
				call, ok := nd.(*ast.CallExpr)
				if !ok || !putters[Callee(p, call)] {
					return true
				}
				n++
				puts++
				key := fmt.Sprintf("pool/put/%s#%d", funcName(fd), puts)
				var obj ast.Expr
				if se, ok := call.Fun.(*ast.SelectorExpr); ok {
					if sel := p.TypesInfo.Selections[se]; sel != nil {
						obj = se.X
					}
				}
				if obj == nil && len(call.Args) > 0 {
					obj = call.Args[0]
				}
				id, _ := ast.Unparen(obj).(*ast.Ident)
				if id == nil || !got[p.TypesInfo.Uses[id]] {
					c.fail(key, call, "the object returned to the pool was not taken from the pool by this function: whoever took it returns it as well, so it enters the pool twice and two concurrent callers end up sharing one object")
					return true
				}
				o := p.TypesInfo.Uses[id]
				var probs []string
				for _, s := range stack {
					switch s.(type) {
					case *ast.ForStmt, *ast.RangeStmt:
						probs = append(probs, "inside a loop")
					case *ast.FuncLit:
						probs = append(probs, "inside a function literal")
					}
				}
				if puts > 1 {
					probs = append(probs, "second return to the pool in one function")
				}
				// no mention of the object after the put
				cont, _ := contStmts(stack)
				for _, s := range cont {
					if containsNode(s, func(m ast.Node) bool {
						mid, ok := m.(*ast.Ident)
						return ok && p.TypesInfo.Uses[mid] == o
					}) {
						probs = append(probs, "the object is used after it was returned to the pool ("+w.Site(s)+")")
					}
				}
				c.check(len(probs) == 0, key, call, "returned once, by the function that took it, and not used afterwards", strings.Join(probs, "; "))
				return true
			})
		})
	}
	if n == 0 {
		c.fail("pool/none", nil, "no sync.Pool use found (the formatter's printer pool must show up)")
	}
}

// ---------------------------------------------------------------- SYM.1 (C01, C11)

// SYM.1: a scope's symbol store holds exactly the names declared in that
// scope plus, for function scopes, the captured variables. It is written only
// by Define, DefineBuiltin (root table) and defineFree; Resolve reaches
// defineFree only behind `!t.block` (a function boundary) for a non-global,
// non-builtin symbol found in an enclosing table, and never writes the store
// itself. Anything else makes a looked-up outer name look like a declaration
// of the inner scope (`x := …` is then rejected as a redeclaration, or an
// assignment targets the wrong variable).
func ruleSYM1(c *Ctx) {
	w := c.W
	p := w.Root
	store := structField(p.Types, "SymbolTable", "store")
	if store == nil {
		c.anchor("SymbolTable.store")
		return
	}
	writers := map[string]bool{"SymbolTable.Define": true, "SymbolTable.DefineBuiltin": true, "SymbolTable.defineFree": true}
	n := 0
	w.AllFuncDecls(p, func(fd *ast.FuncDecl) {
		ast.Inspect(fd.Body, func(nd ast.Node) bool {
			switch x := nd.(type) {
			case *ast.AssignStmt:
				for _, l := range x.Lhs {
					target := ast.Unparen(l)
					if ix, ok := target.(*ast.IndexExpr); ok {
						target = ix.X
					}
					if f, _ := FieldSel(p, target); f == store {
						n++
						c.check(writers[funcName(fd)], fmt.Sprintf("store-write/%s#%d", funcName(fd), n), x, "the store is written by a defining function", "SymbolTable.store is written in "+funcName(fd)+": only Define, DefineBuiltin and defineFree may add names to a scope (a lookup that records its result makes an outer variable look declared in the inner scope)")
					}
				}
			case *ast.CallExpr:
				if IsBuiltinCall(p, x, "delete") && len(x.Args) == 2 {
					if f, _ := FieldSel(p, x.Args[0]); f == store {
						n++
						c.fail(fmt.Sprintf("store-write/%s#%d", funcName(fd), n), x, "a name is deleted from a scope's store in "+funcName(fd))
					}
				}
			}
			return true
		})
	})
	// defineFree is called only from Resolve, under !t.block
	df := w.FuncDecl(p, "SymbolTable.defineFree")
	rs := w.FuncDecl(p, "SymbolTable.Resolve")
	if df == nil || rs == nil {
		c.anchor("SymbolTable.defineFree / Resolve")
		return
	}
	dfObj := p.TypesInfo.Defs[df.Name]
	calls := 0
	w.AllFuncDecls(p, func(fd *ast.FuncDecl) {
		inspectWithStack(fd.Body, func(nd ast.Node, stack []ast.Node) bool {
			call, ok := nd.(*ast.CallExpr)
			if !ok || Callee(p, call) != dfObj {
				return true
			}
			calls++
			key := fmt.Sprintf("define-free/%s#%d", funcName(fd), calls)
			if fd != rs {
				c.fail(key, call, "defineFree is called outside Resolve")
				return true
			}
			guarded := false
			for _, s := range stack {
				if is, ok := s.(*ast.IfStmt); ok && containsNode(is.Body, func(m ast.Node) bool { return m == nd }) {
					src := strings.ReplaceAll(w.Src(is.Cond), " ", "")
					if strings.Contains(src, "!t.block") && strings.Contains(src, "!=ScopeGlobal") && strings.Contains(src, "!=ScopeBuiltin") {
						guarded = true
					}
				}
			}
			if !guarded {
				// structural fallback: the guard mentions the block flag negated and both scopes
				for _, s := range stack {
					if is, ok := s.(*ast.IfStmt); ok {
						hasBlock, hasG, hasB := false, false, false
						ast.Inspect(is.Cond, func(m ast.Node) bool {
							if u, ok := m.(*ast.UnaryExpr); ok && u.Op == token.NOT {
								if f, _ := FieldSel(p, u.X); f != nil && f.Name() == "block" {
									hasBlock = true
								}
							}
							if b, ok := m.(*ast.BinaryExpr); ok && b.Op == token.NEQ {
								if o := ObjOf(p, b.Y); o != nil {
									hasG = hasG || o.Name() == "ScopeGlobal"
									hasB = hasB || o.Name() == "ScopeBuiltin"
								}
							}
							return true
						})
						guarded = guarded || (hasBlock && hasG && hasB)
					}
				}
			}
			c.check(guarded, key, call, "a captured variable is recorded only at a function boundary for a local/free symbol of an enclosing function", "defineFree is not guarded by `!t.block && scope != Global && scope != Builtin`")
			return true
		})
	})
	c.check(calls >= 1 && n >= 3, "store-write/count", rs, fmt.Sprintf("%d store writes, %d defineFree calls", n, calls), fmt.Sprintf("expected >= 3 store writes and >= 1 defineFree call, found %d / %d", n, calls))
}

// ---------------------------------------------------------------- LOOP.1 (C05, C07)

// LOOP.1: a builtin or value method that loops for ever is out of reach of
// Abort (the flag is polled between instructions only) and of the allocation
// budget. Every `for` statement in a function reachable from VM.Run, other
// than the dispatch loop, is classified:
//
//	range      - range over a value (finite)
//	counted    - `i++`/`i--`/constant step, condition compares the counter
//	progress   - no post statement; the body changes a variable of the condition
//	var-step   - `i += step` with a non-constant step: the body must hold an
//	             overflow guard (`i > MaxInt64-step` / `i < MinInt64+step`
//	             leaving the loop), else the counter wraps and never reaches the bound
//	open       - `for {}`: must contain a return or break of that loop
//
// Anything else is undecided. Only var-step and open loops carry an obligation
// that can fail; the rest are counted as evidence of what was looked at.
func ruleLOOP1(c *Ctx) {
	w := c.W
	entries := w.runEntries()
	if entries[0] == nil {
		c.anchor("VM.Run")
		return
	}
	vi := w.vm()
	reach := w.reachable(entries)
	type item struct {
		fn  string
		pkg pkgT
		nd  ast.Node
	}
	var fns []item
	for fn := range reach {
		if !w.inModule(fn) || fn.Syntax() == nil {
			continue
		}
		var p pkgT
		for _, q := range w.All {
			if fn.Pkg != nil && q.Types == fn.Pkg.Pkg {
				p = q
			} else if fn.Parent() != nil && fn.Parent().Pkg != nil && q.Types == fn.Parent().Pkg.Pkg {
				p = q
			}
		}
		if p == nil {
			continue
		}
		fns = append(fns, item{fn.String(), p, fn.Syntax()})
	}
	sort.Slice(fns, func(i, j int) bool { return fns[i].nd.Pos() < fns[j].nd.Pos() })
	seq := seqKeys{}
	counts := map[string]int{}
	for _, it := range fns {
		p := it.pkg
		var body *ast.BlockStmt
		switch x := it.nd.(type) {
		case *ast.FuncDecl:
			body = x.Body
		case *ast.FuncLit:
			body = x.Body
		}
		if body == nil {
			continue
		}
		ctx := w.ctxKey(body.Pos())
		if i := strings.Index(ctx, "/"); i >= 0 {
			ctx = ctx[:i]
		}
		var visit func(n ast.Node) bool
		visit = func(n ast.Node) bool {
			switch x := n.(type) {
			case *ast.FuncLit:
				return x == it.nd
			case *ast.RangeStmt:
				counts["range"]++
			case *ast.ForStmt:
				if vi.err == "" && x == vi.Loop {
					counts["dispatch"]++
					return true
				}
				key := seq.next("loop/" + ctx)
				leaves := func() bool {
					found := false
					var walk func(m ast.Node, depth int)
					walk = func(m ast.Node, depth int) {
						ast.Inspect(m, func(k ast.Node) bool {
							switch y := k.(type) {
							case *ast.FuncLit:
								return false
							case *ast.ReturnStmt:
								found = true
							case *ast.BranchStmt:
								if y.Tok == token.BREAK && (depth == 0 || y.Label != nil) {
									found = true
								}
								if y.Tok == token.GOTO {
									found = true
								}
							case *ast.ForStmt:
								if y != x {
									walk(y.Body, depth+1)
									return false
								}
							case *ast.RangeStmt:
								walk(y.Body, depth+1)
								return false
							case *ast.SwitchStmt, *ast.TypeSwitchStmt, *ast.SelectStmt:
								// a bare break inside leaves the switch, not the loop
								if k != m {
									walk2 := depth + 1
									ast.Inspect(k, func(q ast.Node) bool {
										if q == k {
											return true
										}
										switch z := q.(type) {
										case *ast.FuncLit:
											return false
										case *ast.ReturnStmt:
											found = true
										case *ast.BranchStmt:
											if z.Label != nil || z.Tok == token.GOTO {
												found = true
											}
										}
										_ = walk2
										return true
									})
									return false
								}
							}
							return true
						})
					}
					walk(x.Body, 0)
					return found
				}
				if x.Cond == nil {
					counts["open"]++
					if vi.err == "" && ast.Node(it.nd) == ast.Node(vi.Fn) {
						c.fail(key, x, "an open loop inside the VM's dispatch function: it runs out of reach of the abort flag")
						return true
					}
					c.check(leaves(), key, x, "open loop with a return or break", "`for {}` without any return or break of the loop in a function reachable from VM.Run: it can never be aborted")
					return true
				}
				condVars := map[types.Object]bool{}
				ast.Inspect(x.Cond, func(m ast.Node) bool {
					if id, ok := m.(*ast.Ident); ok {
						if o := p.TypesInfo.Uses[id]; o != nil {
							if _, isVar := o.(*types.Var); isVar {
								condVars[o] = true
							}
						}
					}
					return true
				})
				stepOf := func(s ast.Stmt) (types.Object, ast.Expr, bool) {
					switch y := s.(type) {
					case *ast.IncDecStmt:
						if id, ok := ast.Unparen(y.X).(*ast.Ident); ok {
							return p.TypesInfo.Uses[id], nil, true
						}
					case *ast.AssignStmt:
						if len(y.Lhs) == 1 && (y.Tok == token.ADD_ASSIGN || y.Tok == token.SUB_ASSIGN) {
							if id, ok := ast.Unparen(y.Lhs[0]).(*ast.Ident); ok {
								return p.TypesInfo.Uses[id], y.Rhs[0], true
							}
						}
					}
					return nil, nil, false
				}
				if x.Post != nil {
					v, step, ok := stepOf(x.Post)
					if ok && condVars[v] {
						if step == nil {
							counts["counted"]++
							return true
						}
						if tv, okc := p.TypesInfo.Types[step]; okc && tv.Value != nil {
							counts["counted"]++
							return true
						}
						// variable step: overflow guard required
						counts["var-step"]++
						stepSrc := w.Src(step)
						guard := containsNode(x.Body, func(m ast.Node) bool {
							is, ok := m.(*ast.IfStmt)
							if !ok {
								return false
							}
							s := strings.ReplaceAll(w.Src(is.Cond), " ", "")
							mentions := (strings.Contains(s, "MaxInt64-"+stepSrc) || strings.Contains(s, "MinInt64+"+stepSrc)) && containsNode(is.Cond, func(k ast.Node) bool {
								id, ok := k.(*ast.Ident)
								return ok && p.TypesInfo.Uses[id] == v
							})
							return mentions && containsNode(is.Body, func(k ast.Node) bool {
								switch z := k.(type) {
								case *ast.BranchStmt:
									return z.Tok == token.BREAK
								case *ast.ReturnStmt:
									return true
								}
								return false
							})
						})
						c.check(guard, key, x, "variable-step loop leaves before the counter can wrap around", fmt.Sprintf("`%s` steps its counter by the run-time value %s without an overflow guard (`%s > math.MaxInt64-%s` / `%s < math.MinInt64+%s` leaving the loop): near the int64 limits the counter wraps and the loop never ends - out of reach of Abort and of the allocation limit", w.Src(x.Post), stepSrc, v.Name(), stepSrc, v.Name(), stepSrc))
						return true
					}
				}
				// progress loop: the body (or post) assigns a variable of the condition, or calls a method on one
				progress := false
				check := func(m ast.Node) bool {
					switch y := m.(type) {
					case *ast.FuncLit:
						return false
					case *ast.AssignStmt:
						for _, l := range y.Lhs {
							root := l
							for {
								switch r := ast.Unparen(root).(type) {
								case *ast.SelectorExpr:
									root = r.X
									continue
								case *ast.IndexExpr:
									root = r.X
									continue
								case *ast.StarExpr:
									root = r.X
									continue
								}
								break
							}
							if id, ok := ast.Unparen(root).(*ast.Ident); ok && condVars[p.TypesInfo.ObjectOf(id)] {
								progress = true
							}
						}
					case *ast.IncDecStmt:
						root := y.X
						for {
							if r, ok := ast.Unparen(root).(*ast.SelectorExpr); ok {
								root = r.X
								continue
							}
							break
						}
						if id, ok := ast.Unparen(root).(*ast.Ident); ok && condVars[p.TypesInfo.ObjectOf(id)] {
							progress = true
						}
					case *ast.CallExpr:
						if se, ok := y.Fun.(*ast.SelectorExpr); ok {
							root := se.X
							for {
								if r, ok := ast.Unparen(root).(*ast.SelectorExpr); ok {
									root = r.X
									continue
								}
								break
							}
							if id, ok := ast.Unparen(root).(*ast.Ident); ok && condVars[p.TypesInfo.ObjectOf(id)] {
								progress = true // method on a condition variable (scanner.next(), iterator.Next())
							}
						}
					}
					return true
				}
				ast.Inspect(x.Body, check)
				if x.Post != nil {
					ast.Inspect(x.Post, check)
				}
				if progress || leaves() {
					counts["progress"]++
					// inside the dispatch function the abort flag is polled between
					// instructions only: a loop there must have its trip count fixed
					// before it starts (range, counted), or it can spin out of reach
					if vi.err == "" && ast.Node(it.nd) == ast.Node(vi.Fn) {
						c.fail(key, x, "a loop inside the VM's dispatch function other than a range or counted loop ("+w.Src(x.Cond)+"): its trip count depends on what it reads (e.g. a cycle of jumps), so it can run for ever without the abort flag being polled")
					}
					return true
				}
				c.undecided(key, x, "loop whose condition variables are never changed in its body and which has no exit: shape not understood (possible endless loop reachable from VM.Run)")
			}
			return true
		}
		ast.Inspect(body, visit)
	}
	total := 0
	for _, n := range counts {
		total += n
	}
	c.note("LOOP.1 loops in %d functions reachable from VM.Run: %v", len(fns), counts)
	c.check(counts["dispatch"] == 1 && counts["var-step"] >= 1 && total >= 50, "loop/census", nil, fmt.Sprintf("%d loops classified: %v", total, counts), fmt.Sprintf("loop census incomplete: %v (expected the dispatch loop, >= 1 variable-step loop, >= 50 loops)", counts))
}

// ---------------------------------------------------------------- CMP.5 (C10)

// CMP.5: "copy yields an equal value". For every Object type whose Copy builds
// a new object, Equals must be able to hold between two distinct objects: an
// Equals that is pointer identity or constant false makes copy(x) == x false.
// Types that never are script values are tabled.
func ruleCMP5(c *Ctx) {
	w := c.W
	notValues := map[string]string{
		"ObjectPtr": "captured-variable cell, never a script value", "ObjectImpl": "embedding base",
		"ArrayIterator": "iterators live on the VM stack only", "MapIterator": "iterators live on the VM stack only",
		"StringIterator": "iterators live on the VM stack only", "BytesIterator": "iterators live on the VM stack only",
	}
	eqs := w.objectMethodDecls("Equals")
	cps := w.objectMethodDecls("Copy")
	n := 0
	for _, tn := range sortedKeys(cps) {
		if _, skip := notValues[tn]; skip {
			continue
		}
		cp, eq := cps[tn], eqs[tn]
		if eq == nil {
			continue
		}
		recv := recvName(cp)
		// does Copy return the receiver itself on every path?
		identityCopy := true
		ast.Inspect(cp.Body, func(nd ast.Node) bool {
			if r, ok := nd.(*ast.ReturnStmt); ok && len(r.Results) == 1 {
				if id, ok := ast.Unparen(r.Results[0]).(*ast.Ident); !ok || id.Name != recv {
					identityCopy = false
				}
			}
			return true
		})
		if identityCopy {
			continue // singletons: identity is the right equality
		}
		n++
		// Equals degenerate: the only return is `false`, or `recv == param`
		degenerate := ""
		if len(eq.Body.List) == 1 {
			if r, ok := eq.Body.List[0].(*ast.ReturnStmt); ok && len(r.Results) == 1 {
				switch x := ast.Unparen(r.Results[0]).(type) {
				case *ast.Ident:
					if x.Name == "false" {
						degenerate = "always false"
					}
				case *ast.BinaryExpr:
					if x.Op == token.EQL {
						if l, ok := ast.Unparen(x.X).(*ast.Ident); ok && l.Name == recvName(eq) {
							degenerate = "pointer identity"
						}
					}
				}
			}
		}
		c.check(degenerate == "", "copy-equal/"+tn, eq, "Equals can hold between an object and its copy", fmt.Sprintf("%s.Copy builds a new object but %s.Equals is %s: copy(x) == x is false for every %s", tn, tn, degenerate, strings.ToLower(tn)))
	}
	if n < 10 {
		c.fail("copy-equal/count", nil, fmt.Sprintf("only %d copying types examined", n))
	}
}

// ---------------------------------------------------------------- SEMI.2 (C20), SCAN.1 (C20, C04), XCH.4 (C15)

// SEMI.2: the look-ahead that decides whether a comment after a
// semicolon-arming token carries the line end. A //-comment always does; for
// /*-comments the scan continues over every following comment on the line, so
// the loop must be able to reach its next iteration (it consumes the next '/'),
// answers true at a newline or EOF and false at any other token.
func ruleSEMI2(c *Ctx) {
	w := c.W
	p := w.Parser
	fd := w.FuncDecl(p, "Scanner.findLineEnd")
	if fd == nil {
		c.anchor("Scanner.findLineEnd")
		return
	}
	var loop *ast.ForStmt
	for _, s := range fd.Body.List {
		if f, ok := s.(*ast.ForStmt); ok && f.Cond != nil {
			loop = f
		}
	}
	if loop == nil {
		c.fail("lookahead/loop", fd, "findLineEnd has no look-ahead loop over the comments that follow")
		return
	}
	cond := strings.ReplaceAll(w.Src(loop.Cond), " ", "")
	c.check(strings.Contains(cond, "'/'") && strings.Contains(cond, "'*'"), "lookahead/loop", loop, "loops while the next thing is a comment", "the look-ahead loop is not `for s.ch == '/' || s.ch == '*'`: "+w.Src(loop.Cond))
	allReturn := false
	if n := len(loop.Body.List); n > 0 {
		_, lastIsReturn := loop.Body.List[n-1].(*ast.ReturnStmt)
		hasContinue := containsNode(loop.Body, func(m ast.Node) bool {
			b, ok := m.(*ast.BranchStmt)
			return ok && b.Tok == token.CONTINUE
		})
		allReturn = lastIsReturn && !hasContinue
	}
	c.check(!allReturn, "lookahead/iterates", loop, "a comment without a newline is followed by a look at the next comment", "every path through the look-ahead loop returns in its first iteration: only the first comment after the token is examined, so `x /* a */ // b` + newline gets no semicolon")
	// the three answers
	type ans struct{ key, cond, val, good, bad string }
	for _, a := range []ans{
		{"lookahead/line-comment", "recv.ch=='/'", "true", "a //-comment contains the line end", "a //-comment is not answered with true"},
		{"lookahead/newline-or-eof", "recv.ch=='\\n'", "true", "newline or EOF after the comments: true", "newline / EOF after a comment is not answered with true"},
		{"lookahead/other-token", "recv.ch!='/'", "false", "another token on the line: false", "a non-comment token after the comment is not answered with false"},
	} {
		found := containsNode(loop.Body, func(n ast.Node) bool {
			is, ok := n.(*ast.IfStmt)
			if !ok || !strings.Contains(w.SrcRecv(fd, is.Cond), a.cond) {
				return false
			}
			return containsNode(is.Body, func(m ast.Node) bool {
				r, ok := m.(*ast.ReturnStmt)
				return ok && len(r.Results) == 1 && w.Src(r.Results[0]) == a.val
			})
		})
		c.check(found, a.key, loop, a.good, a.bad)
	}
	// the state is restored whatever the answer (deferred reset)
	c.check(containsNode(fd.Body, func(n ast.Node) bool { _, ok := n.(*ast.DeferStmt); return ok }), "lookahead/restores", fd, "scanner state restored by defer", "findLineEnd does not restore the scanner state with a deferred reset")
}

// SCAN.1: the literal scanners are ports of go/scanner.
var scanPorts = map[string]struct {
	tengo, ref []string
	why        string
}{
	"Scanner.scanEscape": {}, "Scanner.scanRune": {}, "Scanner.scanString": {}, "Scanner.scanRawString": {},
	"Scanner.skipWhitespace": {}, "Scanner.switch2": {}, "Scanner.switch3": {}, "Scanner.switch4": {},
}

func ruleSCAN1(c *Ctx) {
	w := c.W
	ref, err := w.loadRef("go/scanner")
	if err != nil {
		c.anchor("reference package go/scanner: " + err.Error())
		return
	}
	checkNearPorts(c, w.Parser, ref, "go/scanner", scanPorts, map[string]string{"StripCR": "stripCR"}, func(n string) string { return n }, nil, nil)
}

// XCH.4: Compiled.Set stores the converted value on every path that reports
// success: between the successful lookup of the name and the store there is
// no way out except an error return ("a variable reads as the last value set").
func ruleXCH4(c *Ctx) {
	w := c.W
	p := w.Root
	set := w.FuncDecl(p, "Compiled.Set")
	if set == nil {
		c.anchor("Compiled.Set")
		return
	}
	isStore := func(s ast.Stmt) bool {
		as, ok := s.(*ast.AssignStmt)
		if !ok || len(as.Lhs) != 1 {
			return false
		}
		ix, ok := as.Lhs[0].(*ast.IndexExpr)
		if !ok {
			return false
		}
		f, _ := FieldSel(p, ix.X)
		return f != nil && f.Name() == "globals"
	}
	r := pathSeq(set.Body.List, func(s ast.Stmt) bool {
		if isStore(s) {
			return true
		}
		// error exits count as "handled": return <non-nil>
		if rs, ok := s.(*ast.ReturnStmt); ok && len(rs.Results) == 1 && !isNilIdent(rs.Results[0]) {
			return true
		}
		return false
	})
	c.check(r == pHit, "XCH.4/set-always-stores", set, "every successful path of Set stores the value", "Compiled.Set can report success without storing the value (an early `return nil` before c.globals[idx] = obj): a later Get or run sees the old value")
	// the stored value is the conversion of the argument
	conv := containsNode(set.Body, func(n ast.Node) bool {
		call, ok := n.(*ast.CallExpr)
		return ok && Callee(p, call) != nil && Callee(p, call).Name() == "FromInterface"
	})
	c.check(conv, "XCH.4/set-converts", set, "the value is converted with FromInterface", "Compiled.Set does not convert the host value with FromInterface")
}

// ---------------------------------------------------------------- SYM.2 (C11, C15)

// SYM.2: NewCompiler defines the builtin functions in the very symbol table
// the caller passes in - the one that holds the host's variables
// (Script.prepCompile) and will hold the program's globals. A name defined
// there by the host is overwritten by the builtin of the same name, and a
// top-level `len := …` is a redeclaration although the same statement in a
// function body or block shadows the builtin. The rule holds when builtins
// are defined in a scope of their own (a parent of the globals' scope) or
// when DefineBuiltin never replaces an existing entry.
func ruleSYM2(c *Ctx) {
	w := c.W
	p := w.Root
	nc := w.FuncDecl(p, "NewCompiler")
	db := w.FuncDecl(p, "SymbolTable.DefineBuiltin")
	if nc == nil || db == nil {
		c.anchor("NewCompiler / SymbolTable.DefineBuiltin")
		return
	}
	// which parameter of NewCompiler is the symbol table?
	var stParam types.Object
	for _, f := range nc.Type.Params.List {
		for _, nm := range f.Names {
			if tn, _ := namedName(p.TypesInfo.Defs[nm].Type()); tn == "SymbolTable" {
				stParam = p.TypesInfo.Defs[nm]
			}
		}
	}
	onCallerTable := containsNode(nc.Body, func(nd ast.Node) bool {
		call, ok := nd.(*ast.CallExpr)
		if !ok || !isMethodOf(Callee(p, call), p.Types, "SymbolTable", "DefineBuiltin") {
			return false
		}
		se, _ := call.Fun.(*ast.SelectorExpr)
		if se == nil {
			return false
		}
		id, ok := ast.Unparen(se.X).(*ast.Ident)
		return ok && p.TypesInfo.Uses[id] == stParam
	})
	// does DefineBuiltin keep an existing entry?
	keeps := containsNode(db.Body, func(nd ast.Node) bool {
		is, ok := nd.(*ast.IfStmt)
		if !ok {
			return false
		}
		return strings.Contains(w.Src(is), ".store[") && containsNode(is.Body, func(m ast.Node) bool { _, ok := m.(*ast.ReturnStmt); return ok }) && strings.Contains(w.Src(is.Cond)+w.Src(is.Init), "ok")
	})
	c.check(!onCallerTable || keeps, "builtin-scope/shared-with-globals", nc, "builtins live in a scope of their own", "NewCompiler defines the builtin functions in the caller's symbol table, replacing entries of the same name: a host variable added as \"len\" disappears (IsDefined false, Set fails, the script sees the builtin), and `len := 3` is a redeclaration at top level but shadows the builtin inside a function or block")
}

// ---------------------------------------------------------------- CMP.6 (C10)

// CMP.6: structural equality of maps. Equal lengths and, for every key of the
// receiver, the other map's entry under the same key Equals the value - where
// a key missing from the other map must make the result false. The value
// handed to Equals is therefore exactly what the lookup in the other map
// yields (nil when the key is missing: every Equals answers false to nil), or
// the lookup is a comma-ok form whose failure returns false. Substituting
// anything for a missing key (undefined, a default) makes {x: undefined, y: 1}
// equal {y: 1, z: 5} in one direction only.
func ruleCMP6(c *Ctx) {
	w := c.W
	p := w.Root
	eqs := w.objectMethodDecls("Equals")
	n := 0
	for _, tn := range []string{"Map", "ImmutableMap"} {
		fd := eqs[tn]
		if fd == nil {
			c.anchor(tn + ".Equals")
			continue
		}
		var loop *ast.RangeStmt
		ast.Inspect(fd.Body, func(nd ast.Node) bool {
			if r, ok := nd.(*ast.RangeStmt); ok && loop == nil {
				loop = r
			}
			return true
		})
		if loop == nil {
			c.fail("map-equals/"+tn, fd, "no loop over the receiver's entries")
			continue
		}
		n++
		// length comparison before the loop
		lenCmp := containsNode(fd.Body, func(nd ast.Node) bool {
			b, ok := nd.(*ast.BinaryExpr)
			if !ok || (b.Op != token.NEQ && b.Op != token.EQL) {
				return false
			}
			lx, okx := ast.Unparen(b.X).(*ast.CallExpr)
			ly, oky := ast.Unparen(b.Y).(*ast.CallExpr)
			return okx && oky && IsBuiltinCall(p, lx, "len") && IsBuiltinCall(p, ly, "len") && b.Pos() < loop.Pos()
		})
		// the Equals call inside the loop
		var call *ast.CallExpr
		ast.Inspect(loop.Body, func(nd ast.Node) bool {
			if cl, ok := nd.(*ast.CallExpr); ok && Callee(p, cl) != nil && Callee(p, cl).Name() == "Equals" && len(cl.Args) == 1 && call == nil {
				call = cl
			}
			return true
		})
		var probs []string
		if !lenCmp {
			probs = append(probs, "the two maps' lengths are not compared before the entries")
		}
		if call == nil {
			probs = append(probs, "entries are not compared with Equals")
		} else {
			isLookup := func(e ast.Expr) bool {
				ix, ok := ast.Unparen(e).(*ast.IndexExpr)
				if !ok {
					return false
				}
				_, isMap := p.TypesInfo.Types[ix.X].Type.Underlying().(*types.Map)
				return isMap && isObj(p, ix.Index, p.TypesInfo.ObjectOf(identOf(loop.Key)))
			}
			arg := ast.Unparen(call.Args[0])
			switch {
			case isLookup(arg):
			default:
				id, ok := arg.(*ast.Ident)
				if !ok {
					probs = append(probs, "the value compared is not the other map's entry under the same key: "+w.Src(arg))
					break
				}
				obj := p.TypesInfo.Uses[id]
				assigns, good := 0, false
				ast.Inspect(fd.Body, func(nd ast.Node) bool {
					as, ok := nd.(*ast.AssignStmt)
					if !ok {
						return true
					}
					for i, l := range as.Lhs {
						lid, ok := l.(*ast.Ident)
						if !ok || p.TypesInfo.ObjectOf(lid) != obj {
							continue
						}
						assigns++
						if i == 0 && len(as.Rhs) == 1 && isLookup(as.Rhs[0]) {
							if len(as.Lhs) == 1 {
								good = true
							} else if len(as.Lhs) == 2 {
								// comma-ok: a failed lookup must return false
								okObj := p.TypesInfo.ObjectOf(identOf(as.Lhs[1]))
								good = containsNode(loop.Body, func(m ast.Node) bool {
									is, ok := m.(*ast.IfStmt)
									if !ok {
										return false
									}
									bare, neg := stripNot(is.Cond)
									return neg && isObj(p, bare, okObj) && containsNode(is.Body, func(k ast.Node) bool {
										r, ok := k.(*ast.ReturnStmt)
										return ok && len(r.Results) == 1 && w.Src(r.Results[0]) == "false"
									})
								})
							}
						}
					}
					return true
				})
				if assigns != 1 || !good {
					probs = append(probs, fmt.Sprintf("the value compared is not simply the other map's entry under the same key (%d assignments to %s): a key missing from the other map must make the maps unequal, not be replaced by another value", assigns, id.Name))
				}
			}
		}
		c.check(len(probs) == 0, "map-equals/"+tn, fd, "equal lengths and every entry Equals the other map's entry under the same key (missing → false)", strings.Join(probs, "; "))
	}
	if n < 2 {
		c.fail("map-equals/count", nil, "Map.Equals / ImmutableMap.Equals not found")
	}
}

// ---------------------------------------------------------------- JMP.3, SEM.3 (C01, C02, C03)

// JMP.3: the unconditional jumps that separate alternatives (the jump over
// the else branch of an if / conditional expression, the back edge of a loop,
// break and continue) are emitted unconditionally once their construct is
// being compiled: an OpJump emission may only be nested under tests of what
// the construct *is* (`node.Else != nil`, the branch statement's token), never
// under a test of what the compiled body looks like. An "optimisation" that
// drops the jump when the then-branch "always returns" makes the then-branch
// fall into the else-branch whenever that analysis is wrong.
func ruleJMP3(c *Ctx) {
	w := c.W
	p := w.Root
	n := 0
	seq := seqKeys{}
	for _, es := range w.emitSites() {
		if es.Kind != "emit" || len(es.Ops) != 1 || es.Ops[0] != "OpJump" {
			continue
		}
		n++
		var stack []ast.Node
		inspectWithStack(es.Fn, func(nd ast.Node, st []ast.Node) bool {
			if nd == ast.Node(es.Call) {
				stack = append([]ast.Node{}, st...)
			}
			return true
		})
		key := seq.next("jump-unconditional/" + w.ctxKey(es.Call.Pos()))
		allowed := func(cond ast.Expr) bool {
			ok := true
			ast.Inspect(cond, func(m ast.Node) bool {
				switch x := m.(type) {
				case *ast.CallExpr:
					ok = false // a computed property of the code being compiled
				case *ast.SelectorExpr:
					if f, _ := FieldSel(p, x); f != nil && f.Name() != "Else" && f.Name() != "Token" {
						ok = false
					}
					return false
				case *ast.Ident:
					// nil, token constants and loop-context variables compared with nil are fine
				}
				return true
			})
			return ok
		}
		var bad []string
		for i := len(stack) - 1; i > 0; i-- {
			switch par := stack[i-1].(type) {
			case *ast.IfStmt:
				if stack[i] == ast.Node(par.Body) || (par.Else != nil && stack[i] == ast.Node(par.Else)) {
					if !allowed(par.Cond) {
						bad = append(bad, w.Src(par.Cond))
					}
				}
			case *ast.CaseClause:
				for _, e := range par.List {
					if _, isType := p.TypesInfo.Types[e]; isType && p.TypesInfo.Types[e].IsType() {
						continue
					}
					if !allowed(e) {
						bad = append(bad, w.Src(e))
					}
				}
			case *ast.FuncDecl, *ast.FuncLit:
				i = 0
			}
		}
		c.check(len(bad) == 0, key, es.Call, "emitted whenever the construct is compiled", "the jump that separates the alternatives of this construct is only emitted under "+strings.Join(bad, " / ")+": when that test is wrong the first alternative runs into the second")
	}
	if n < 5 {
		c.fail("jump-unconditional/count", nil, fmt.Sprintf("expected >= 5 OpJump emission sites (if/else, conditional expression, loops, break, continue), found %d", n))
	}
}

// SEM.3: compound assignment. compileAssign decides twice what kind of
// assignment it compiles: once to load the current value of the left side as
// the first operand, and once to emit the binary operation. Both decisions
// are evaluated for every assignment token; they must agree (a token that
// gets the operation but not the load pops an operand that was never pushed).
func ruleSEM3(c *Ctx) {
	w := c.W
	p := w.Root
	fd := w.FuncDecl(p, "Compiler.compileAssign")
	if fd == nil {
		c.anchor("Compiler.compileAssign")
		return
	}
	// the operator parameter: the one of type token.Token
	var opObj types.Object
	for _, f := range fd.Type.Params.List {
		for _, nm := range f.Names {
			if o := p.TypesInfo.Defs[nm]; o != nil && strings.HasSuffix(types.TypeString(o.Type(), nil), "token.Token") {
				opObj = o
			}
		}
	}
	// lhs parameter: the first []parser.Expr
	var lhsObj types.Object
	for _, f := range fd.Type.Params.List {
		for _, nm := range f.Names {
			if o := p.TypesInfo.Defs[nm]; o != nil && lhsObj == nil && strings.HasSuffix(types.TypeString(o.Type(), nil), "[]github.com/d5/tengo/v2/parser.Expr") {
				lhsObj = o
			}
		}
	}
	if opObj == nil || lhsObj == nil {
		c.anchor("compileAssign parameters (operator token, left-hand sides)")
		return
	}
	loadsLHS := func(n ast.Node) bool {
		return containsNode(n, func(m ast.Node) bool {
			call, ok := m.(*ast.CallExpr)
			if !ok || !isMethodOf(Callee(p, call), p.Types, "Compiler", "Compile") || len(call.Args) != 1 {
				return false
			}
			ix, ok := ast.Unparen(call.Args[0]).(*ast.IndexExpr)
			return ok && isObj(p, ix.X, lhsObj)
		})
	}
	emitsBinOp := func(n ast.Node) bool {
		return containsNode(n, func(m ast.Node) bool {
			call, ok := m.(*ast.CallExpr)
			if !ok || !isMethodOf(Callee(p, call), p.Types, "Compiler", "emit") || len(call.Args) < 2 {
				return false
			}
			co := ConstObj(p, call.Args[1])
			return co != nil && co.Name() == "OpBinaryOp"
		})
	}
	// the two deciding statements, top level of the function
	var loadStmt, opStmt ast.Stmt
	for _, s := range fd.Body.List {
		switch s.(type) {
		case *ast.IfStmt, *ast.SwitchStmt:
			if loadStmt == nil && loadsLHS(s) && !emitsBinOp(s) {
				loadStmt = s
			}
			if opStmt == nil && emitsBinOp(s) {
				opStmt = s
			}
		}
	}
	if loadStmt == nil || opStmt == nil {
		c.fail("compound/anchors", fd, "compileAssign no longer has a statement that loads the left side and one that emits the binary operation")
		return
	}
	// decide(stmt, tok): does the statement take its loading/emitting branch for op == tok?
	var evalCond func(e ast.Expr, tok types.Object) (bool, bool)
	evalCond = func(e ast.Expr, tok types.Object) (bool, bool) {
		switch x := ast.Unparen(e).(type) {
		case *ast.Ident:
			// a named condition: `isDefine := op == token.Define`
			if d := singleDef(p, fd, x); d != nil {
				return evalCond(d, tok)
			}
		case *ast.UnaryExpr:
			if x.Op == token.NOT {
				v, ok := evalCond(x.X, tok)
				return !v, ok
			}
		case *ast.BinaryExpr:
			switch x.Op {
			case token.LAND, token.LOR:
				l, ok1 := evalCond(x.X, tok)
				r, ok2 := evalCond(x.Y, tok)
				if !ok1 || !ok2 {
					return false, false
				}
				if x.Op == token.LAND {
					return l && r, true
				}
				return l || r, true
			case token.EQL, token.NEQ:
				var other ast.Expr
				switch {
				case isObj(p, x.X, opObj):
					other = x.Y
				case isObj(p, x.Y, opObj):
					other = x.X
				default:
					return false, false
				}
				co := ConstObj(p, other)
				if co == nil {
					return false, false
				}
				return (co == tok) == (x.Op == token.EQL), true
			}
		}
		return false, false
	}
	decide := func(s ast.Stmt, tok types.Object, has func(ast.Node) bool) (bool, bool) {
		switch x := s.(type) {
		case *ast.IfStmt:
			v, ok := evalCond(x.Cond, tok)
			if !ok {
				return false, false
			}
			if v {
				return has(x.Body), true
			}
			if x.Else != nil {
				return has(x.Else), true
			}
			return false, true
		case *ast.SwitchStmt:
			if !isObj(p, x.Tag, opObj) {
				return false, false
			}
			var def *ast.CaseClause
			for _, cl := range x.Body.List {
				cc := cl.(*ast.CaseClause)
				if cc.List == nil {
					def = cc
				}
				for _, e := range cc.List {
					if ConstObj(p, e) == tok {
						return has(cc), true
					}
				}
			}
			if def != nil {
				return has(def), true
			}
			return false, true
		}
		return false, false
	}
	tk := w.Token.Types.Scope()
	n := 0
	for _, name := range tk.Names() {
		co, ok := tk.Lookup(name).(*types.Const)
		if !ok || !(strings.HasSuffix(name, "Assign") || name == "Define") || !strings.HasSuffix(co.Type().String(), "token.Token") {
			continue
		}
		n++
		a, oka := decide(loadStmt, co, loadsLHS)
		b, okb := decide(opStmt, co, emitsBinOp)
		if !oka || !okb {
			c.undecided("compound/"+name, fd, "cannot evaluate compileAssign's two decisions for token "+name)
			continue
		}
		c.check(a == b, "compound/"+name, fd, fmt.Sprintf("left side loaded: %v, binary operation emitted: %v", a, b), fmt.Sprintf("for %s compileAssign loads the left side: %v but emits the binary operation: %v - the operation would pop an operand that was never pushed (or leave one behind)", name, a, b))
	}
	if n < 10 {
		c.fail("compound/count", fd, fmt.Sprintf("only %d assignment tokens found in package token", n))
	}
}

// ---------------------------------------------------------------- SCAN.2 (C04)

// SCAN.2: every loop of the scanner that consumes input stops at the end of
// the input. At EOF the current character is -1 and next() no longer
// advances, so a loop that would continue for ch == -1 never ends. Each loop
// whose condition or exits read the scanner's current character is evaluated
// for ch = -1 (comparisons with constants are decided; the character-class
// helpers isLetter, isDigit and digitVal(ch) < base are false at EOF): its
// condition must be false there, or its body must hold an exit whose condition
// is true there.
func ruleSCAN2(c *Ctx) {
	w := c.W
	p := w.Parser
	chField := structField(p.Types, "Scanner", "ch")
	if chField == nil {
		c.anchor("Scanner.ch")
		return
	}
	isCh := func(e ast.Expr) bool {
		e = ast.Unparen(e)
		if f, _ := FieldSel(p, e); f == chField {
			return true
		}
		return false
	}
	// locals that hold a copy of the current character (`ch := s.ch`)
	n := 0
	seq := seqKeys{}
	w.AllFuncDecls(p, func(fd *ast.FuncDecl) {
		if recvTypeName(fd) != "Scanner" && fd.Name.Name != "NewScanner" {
			return
		}
		copies := map[types.Object]bool{}
		ast.Inspect(fd.Body, func(nd ast.Node) bool {
			if as, ok := nd.(*ast.AssignStmt); ok && len(as.Lhs) == 1 && len(as.Rhs) == 1 && isCh(as.Rhs[0]) {
				if id, ok := as.Lhs[0].(*ast.Ident); ok {
					copies[p.TypesInfo.ObjectOf(id)] = true
				}
			}
			return true
		})
		chLike := func(e ast.Expr) bool {
			if isCh(e) {
				return true
			}
			if id, ok := ast.Unparen(e).(*ast.Ident); ok && copies[p.TypesInfo.ObjectOf(id)] {
				return true
			}
			return false
		}
		// value of a condition when the current character is -1
		var atEOF func(e ast.Expr) (val, known, reads bool)
		atEOF = func(e ast.Expr) (bool, bool, bool) {
			switch x := ast.Unparen(e).(type) {
			case *ast.UnaryExpr:
				if x.Op == token.NOT {
					v, k, r := atEOF(x.X)
					return !v, k, r
				}
			case *ast.BinaryExpr:
				switch x.Op {
				case token.LAND, token.LOR:
					l, lk, lr := atEOF(x.X)
					r, rk, rr := atEOF(x.Y)
					reads := lr || rr
					if x.Op == token.LAND {
						if (lk && !l) || (rk && !r) {
							return false, true, reads
						}
						return l && r, lk && rk, reads
					}
					if (lk && l) || (rk && r) {
						return true, true, reads
					}
					return l || r, lk && rk, reads
				case token.EQL, token.NEQ, token.LSS, token.LEQ, token.GTR, token.GEQ:
					var k int64
					var okc, left bool
					if chLike(x.X) {
						k, okc = ConstInt(p, x.Y)
						left = true
					} else if chLike(x.Y) {
						k, okc = ConstInt(p, x.X)
					} else {
						// character-class helpers applied to the character are false at EOF
						cls := false
						ast.Inspect(x, func(m ast.Node) bool {
							if call, ok := m.(*ast.CallExpr); ok && len(call.Args) == 1 && chLike(call.Args[0]) {
								if fn := Callee(p, call); fn != nil && fn.Name() == "digitVal" {
									cls = true
								}
							}
							return true
						})
						if cls {
							return false, true, true
						}
						return false, false, false
					}
					if !okc {
						return false, false, true
					}
					a, b := int64(-1), k
					if !left {
						a, b = k, int64(-1)
					}
					var v bool
					switch x.Op {
					case token.EQL:
						v = a == b
					case token.NEQ:
						v = a != b
					case token.LSS:
						v = a < b
					case token.LEQ:
						v = a <= b
					case token.GTR:
						v = a > b
					case token.GEQ:
						v = a >= b
					}
					return v, true, true
				}
			case *ast.CallExpr:
				if len(x.Args) == 1 && chLike(x.Args[0]) {
					if fn := Callee(p, x); fn != nil && (fn.Name() == "isLetter" || fn.Name() == "isDigit") {
						return false, true, true
					}
				}
			}
			return false, false, false
		}
		ast.Inspect(fd.Body, func(nd ast.Node) bool {
			loop, ok := nd.(*ast.ForStmt)
			if !ok {
				return true
			}
			// exits inside the body that fire at EOF
			exitAtEOF := containsNode(loop.Body, func(m ast.Node) bool {
				is, ok := m.(*ast.IfStmt)
				if !ok {
					return false
				}
				v, k, r := atEOF(is.Cond)
				if !(r && k && v) {
					return false
				}
				return containsNode(is.Body, func(q ast.Node) bool {
					switch z := q.(type) {
					case *ast.ReturnStmt:
						return true
					case *ast.BranchStmt:
						return z.Tok == token.BREAK || z.Tok == token.GOTO
					}
					return false
				})
			})
			if loop.Cond == nil {
				// an open loop that consumes input
				consumes := containsNode(loop.Body, func(m ast.Node) bool {
					call, ok := m.(*ast.CallExpr)
					return ok && isMethodOf(Callee(p, call), p.Types, "Scanner", "next")
				})
				if !consumes {
					return true
				}
				n++
				c.check(exitAtEOF, seq.next("eof/"+funcName(fd)), loop, "the open loop leaves when the input ends", "an open loop of the scanner consumes input without an exit that fires at end of input (ch < 0): an unterminated construct at the end of the source makes scanning loop for ever")
				return true
			}
			v, k, r := atEOF(loop.Cond)
			if !r {
				return true // not driven by the current character
			}
			n++
			key := seq.next("eof/" + funcName(fd))
			switch {
			case k && !v:
				c.ok(key, loop, "condition is false at end of input: "+w.Src(loop.Cond))
			case exitAtEOF:
				c.ok(key, loop, "the body leaves at end of input")
			case !k:
				c.undecided(key, loop, "cannot decide whether `"+w.Src(loop.Cond)+"` holds at end of input (ch = -1)")
			default:
				c.fail(key, loop, "the loop condition `"+w.Src(loop.Cond)+"` still holds at end of input (ch = -1) and the body has no exit for it: a source that ends inside this construct makes the scanner loop for ever")
			}
			return true
		})
	})
	if n < 8 {
		c.fail("eof/count", nil, fmt.Sprintf("expected >= 8 character-driven loops in the scanner, found %d", n))
	}
}

// ---------------------------------------------------------------- REC.3 (C05, C07)

// REC.3: who may start the VM without the recovering goroutine. VM.Run is
// called directly (no recover around it) by Compiled.Run, the non-context
// entry point. Every function that takes a context.Context must reach the VM
// only through the context-aware method that REC.1 verifies: it may not call
// VM.Run, Compiled.Run or Script.Run on any path (a "fast path" for contexts
// that cannot be cancelled loses the recover handler: a run-time panic of the
// script then reaches the host).
func ruleREC3(c *Ctx) {
	w := c.W
	p := w.Root
	ri := w.runContext()
	n := 0
	w.AllFuncDecls(p, func(fd *ast.FuncDecl) {
		hasCtx := false
		for _, f := range fd.Type.Params.List {
			if t := p.TypesInfo.Types[f.Type].Type; t != nil && types.TypeString(t, nil) == "context.Context" {
				hasCtx = true
			}
		}
		if !hasCtx {
			return
		}
		n++
		name := funcName(fd)
		var bad []string
		inspectWithStack(fd.Body, func(nd ast.Node, stack []ast.Node) bool {
			call, ok := nd.(*ast.CallExpr)
			if !ok {
				return true
			}
			fn := Callee(p, call)
			if fn == nil || fn.Name() != "Run" || fn.Pkg() != p.Types {
				return true
			}
			// the one place where it is right: inside the goroutine whose first
			// statement defers the recover handler (verified by REC.1)
			if ri.err == "" && fd == ri.Fn {
				for _, s := range stack {
					if s == ast.Node(ri.Go) {
						return true
					}
				}
			}
			bad = append(bad, w.Src(call)+" ("+w.Site(call)+")")
			return true
		})
		c.check(len(bad) == 0, "context-entry/"+name, fd, "reaches the VM only through the recovering goroutine", name+" takes a context but starts the VM without the recover handler: "+strings.Join(bad, ", ")+" - a run-time panic of the script reaches the embedding program")
	})
	if n < 2 {
		c.fail("context-entry/count", nil, fmt.Sprintf("expected Script.RunContext and Compiled.RunContext, found %d context-taking functions", n))
	}
}

// ---------------------------------------------------------------- NIL.1 (C05)

// NIL.1: no Go nil becomes a script value. A lookup in a map[string]Object
// yields nil for a missing key (for instance a key the script deleted while
// iterating). Such a lookup may be used only where nil is harmless or
// handled: as a comma-ok lookup, compared with nil, passed to Equals (every
// Equals answers false to nil), or assigned to a variable that the function
// tests against nil / with ok before using it. Returned or stored as it is, the
// nil ends up on the VM stack and in variables, and the host's next call on
// that value (String(), ToInterface, Copy) dereferences it.
func ruleNIL1(c *Ctx) {
	w := c.W
	n := 0
	seq := seqKeys{}
	for _, p := range []pkgT{w.Root, w.Stdlib, w.JSON} {
		w.AllFuncDecls(p, func(fd *ast.FuncDecl) {
			inspectWithStack(fd.Body, func(nd ast.Node, stack []ast.Node) bool {
				ix, ok := nd.(*ast.IndexExpr)
				if !ok {
					return true
				}
				tv, ok := p.TypesInfo.Types[ix.X]
				if !ok {
					return true
				}
				mt, ok := tv.Type.Underlying().(*types.Map)
				if !ok || !types.IsInterface(mt.Elem()) {
					return true
				}
				if en, _ := namedName(mt.Elem()); en != "Object" {
					return true
				}
				if len(stack) < 2 {
					return true
				}
				parent := stack[len(stack)-2] // the stack ends with the node itself
				// writes and deletes are not reads
				if as, ok := parent.(*ast.AssignStmt); ok {
					for _, l := range as.Lhs {
						if l == ast.Expr(ix) {
							return true
						}
					}
				}
				n++
				key := seq.next("map-read/" + funcName(fd))
				good, why := false, ""
				switch par := parent.(type) {
				case *ast.AssignStmt:
					if len(par.Lhs) == 2 && len(par.Rhs) == 1 {
						if okid, isId := par.Lhs[1].(*ast.Ident); isId && okid.Name != "_" {
							good, why = true, "comma-ok lookup"
						}
						break
					}
					// v := m[k] … tested against nil before use?
					if len(par.Lhs) == 1 && len(par.Rhs) == 1 {
						if id, ok := par.Lhs[0].(*ast.Ident); ok {
							o := p.TypesInfo.ObjectOf(id)
							tested := containsNode(fd.Body, func(m ast.Node) bool {
								b, ok := m.(*ast.BinaryExpr)
								return ok && (b.Op == token.EQL || b.Op == token.NEQ) && isNilIdent(b.Y) && isObj(p, b.X, o)
							})
							onlyEquals := true
							uses := 0
							ast.Inspect(fd.Body, func(m ast.Node) bool {
								call, ok := m.(*ast.CallExpr)
								if ok {
									for _, a := range call.Args {
										if isObj(p, a, o) {
											uses++
											if fn := Callee(p, call); fn == nil || fn.Name() != "Equals" {
												onlyEquals = false
											}
										}
									}
								}
								return true
							})
							if tested {
								good, why = true, "tested against nil"
							} else if uses > 0 && onlyEquals {
								// also no other use (return, store)
								other := containsNode(fd.Body, func(m ast.Node) bool {
									switch z := m.(type) {
									case *ast.ReturnStmt:
										for _, r := range z.Results {
											if isObj(p, r, o) {
												return true
											}
										}
									case *ast.AssignStmt:
										for _, r := range z.Rhs {
											if isObj(p, r, o) {
												return true
											}
										}
									}
									return false
								})
								if !other {
									good, why = true, "only handed to Equals, which answers false to nil"
								}
							}
						}
					}
				case *ast.BinaryExpr:
					if (par.Op == token.EQL || par.Op == token.NEQ) && (isNilIdent(par.X) || isNilIdent(par.Y)) {
						good, why = true, "compared with nil"
					}
				case *ast.CallExpr:
					if fn := Callee(p, par); fn != nil && fn.Name() == "Equals" {
						good, why = true, "handed to Equals, which answers false to nil"
					}
				case *ast.TypeAssertExpr, *ast.TypeSwitchStmt:
					good, why = true, "type-tested (nil matches no type)"
				case *ast.ExprStmt:
					good, why = true, "unused"
				}
				if !good {
					if _, isTS := parent.(*ast.AssignStmt); isTS {
						if len(stack) >= 3 {
							if _, ok := stack[len(stack)-3].(*ast.TypeSwitchStmt); ok {
								good, why = true, "type-switched (nil matches no case but default)"
							}
						}
					}
				}
				c.check(good, key, ix, why, "the entry read from a map of Objects is used as it is ("+w.Src(parent)+"): for a missing key - e.g. one deleted while iterating - this is a Go nil that becomes a script value and makes the host's next call on it panic")
				return true
			})
		})
	}
	if n < 8 {
		c.fail("map-read/count", nil, fmt.Sprintf("only %d reads of map[string]Object found", n))
	}
}

// ---------------------------------------------------------------- CALL.1 (C16, C01), ADPT.6 (C19), DEDUP.3 (C12), XCH.5 (C15)

// CALL.1: the arguments a call collects are the callee's own. Every array the
// OpCall arm builds (the roll-up of variadic arguments) stands on storage made
// in that arm; it never adopts the slice of an operand (a spread array), which
// the caller - or, in a self tail call, the previous activation and the
// closures it created - still holds and may write.
func ruleCALL1(c *Ctx) {
	w := c.W
	fi := w.flow()
	if fi.err != "" {
		c.anchor(fi.err)
		return
	}
	seq := seqKeys{}
	n := 0
	for _, s := range fi.Sinks {
		if s.Kind != skStoreMutValue {
			continue
		}
		ctx := w.ctxKey(s.Pos)
		if !strings.HasPrefix(ctx, "VM.run/") || !strings.Contains(ctx, "OpCall") {
			continue
		}
		n++
		key := seq.next(ctx + "/argument-array-storage")
		c.check(s.Origin == oFresh, key, &posNode{s.Pos}, "built on storage made in the arm", "the array handed to the callee is built on storage of origin "+originStr(s.Origin)+" (not fresh): caller and callee - in a tail call, successive activations - share elements, so a write in one is seen through the other")
	}
	if n < 1 {
		c.fail("argument-array-storage/count", nil, "the variadic roll-up of OpCall was not found among the container constructions")
	}
}

// ADPT.6: text.re_replace / regexp.replace re-implement ReplaceAllString with a
// size limit. The text substituted for each match is always the expansion of
// the template ($0, ${name}, $$ …) by the regexp package; the template is never
// inserted as it is.
func ruleADPT6(c *Ctx) {
	w := c.W
	p := w.Stdlib
	fd := w.FuncDecl(p, "doTextRegexpReplace")
	if fd == nil {
		c.anchor("doTextRegexpReplace")
		return
	}
	// the accumulated output: the string variable returned first
	var loop *ast.RangeStmt
	ast.Inspect(fd.Body, func(nd ast.Node) bool {
		if r, ok := nd.(*ast.RangeStmt); ok && loop == nil {
			loop = r
		}
		return true
	})
	if loop == nil {
		c.fail("regexp-replace/loop", fd, "no loop over the matches")
		return
	}
	matches := containsNode(loop.X, func(nd ast.Node) bool {
		call, ok := nd.(*ast.CallExpr)
		return ok && Callee(p, call) != nil && Callee(p, call).Name() == "FindAllStringSubmatchIndex"
	})
	c.check(matches, "regexp-replace/matches", loop, "iterates over FindAllStringSubmatchIndex(src, -1)", "the replacement loop does not range over all submatch indexes of the source")
	// every []byte / string variable appended to the output inside the loop
	// is defined only by ExpandString/Expand
	isExpand := func(e ast.Expr) bool {
		call, ok := ast.Unparen(e).(*ast.CallExpr)
		if !ok {
			return false
		}
		fn := Callee(p, call)
		return fn != nil && fn.Pkg() != nil && fn.Pkg().Path() == "regexp" && (fn.Name() == "ExpandString" || fn.Name() == "Expand")
	}
	var expVars []types.Object
	ast.Inspect(loop.Body, func(nd ast.Node) bool {
		as, ok := nd.(*ast.AssignStmt)
		if ok && len(as.Lhs) == 1 && len(as.Rhs) == 1 && isExpand(as.Rhs[0]) {
			if id, ok := as.Lhs[0].(*ast.Ident); ok {
				expVars = append(expVars, p.TypesInfo.ObjectOf(id))
			}
		}
		return true
	})
	if len(expVars) == 0 {
		c.fail("regexp-replace/expands-template", loop, "the template is not expanded with regexp's ExpandString for each match")
		return
	}
	var probs []string
	for _, o := range expVars {
		ast.Inspect(fd.Body, func(nd ast.Node) bool {
			switch x := nd.(type) {
			case *ast.AssignStmt:
				for i, l := range x.Lhs {
					if id, ok := l.(*ast.Ident); ok && p.TypesInfo.ObjectOf(id) == o && i < len(x.Rhs) && !isExpand(x.Rhs[i]) {
						probs = append(probs, w.Src(x))
					}
				}
			case *ast.ValueSpec:
				for i, nm := range x.Names {
					if p.TypesInfo.Defs[nm] == o && i < len(x.Values) && !isExpand(x.Values[i]) {
						probs = append(probs, w.Src(x))
					}
				}
			}
			return true
		})
	}
	// the expansion is what is appended: the loop's output assignment mentions the variable
	used := containsNode(loop.Body, func(nd ast.Node) bool {
		as, ok := nd.(*ast.AssignStmt)
		if !ok || (as.Tok != token.ADD_ASSIGN && as.Tok != token.ASSIGN) {
			return false
		}
		return containsNode(as.Rhs[0], func(m ast.Node) bool {
			id, ok := m.(*ast.Ident)
			return ok && p.TypesInfo.Uses[id] == expVars[0]
		})
	})
	c.check(len(probs) == 0 && used, "regexp-replace/expands-template", loop, "every match is replaced by regexp's expansion of the template", "the text substituted for a match is not always the expansion of the template: "+strings.Join(probs, "; ")+" - for templates like $0, ${0} or $$ the result differs from regexp.ReplaceAllString")
}

// DEDUP.3: constants that RemoveDuplicates merges must be indistinguishable
// to the program. Numbers, strings and chars are merged by value and builtin
// module maps by module name; so the Equals of these types may not look at
// object identity (a pointer comparison of receiver and argument): two imports
// of one module compare differently before and after de-duplication otherwise.
func ruleDEDUP3(c *Ctx) {
	w := c.W
	p := w.Root
	eqs := w.objectMethodDecls("Equals")
	n := 0
	for _, tn := range []string{"Int", "Float", "String", "Char", "ImmutableMap"} {
		fd := eqs[tn]
		if fd == nil {
			c.anchor(tn + ".Equals")
			continue
		}
		n++
		recv := p.TypesInfo.Defs[fd.Recv.List[0].Names[0]]
		identity := containsNode(fd.Body, func(nd ast.Node) bool {
			b, ok := nd.(*ast.BinaryExpr)
			if !ok || (b.Op != token.EQL && b.Op != token.NEQ) {
				return false
			}
			mentionsRecv := func(e ast.Expr) bool {
				e = ast.Unparen(e)
				if call, ok := e.(*ast.CallExpr); ok && len(call.Args) == 1 {
					if tv, ok := p.TypesInfo.Types[call.Fun]; ok && tv.IsType() {
						e = ast.Unparen(call.Args[0])
					}
				}
				return isObj(p, e, recv)
			}
			return mentionsRecv(b.X) || mentionsRecv(b.Y)
		})
		c.check(!identity, "merged-constants/"+tn, fd, "equality does not depend on object identity", tn+".Equals compares object identity, but RemoveDuplicates merges equal "+tn+" constants into one object: `import(\"m\") == import(\"m\")` (or two equal literals) changes its value after de-duplication")
	}
	if n < 5 {
		c.fail("merged-constants/count", nil, "Equals methods of the merged constant types not found")
	}
}

// XCH.5: a value the host hands over is the value the script gets. prepCompile
// (Add) and Set store the Object itself - the result of FromInterface - never a
// Copy of it: Copy turns immutable arrays and maps into mutable ones, so the
// documented type of the variable would change on the way in.
func ruleXCH5(c *Ctx) {
	w := c.W
	p := w.Root
	n := 0
	for _, name := range []string{"Script.prepCompile", "Compiled.Set"} {
		fd := w.FuncDecl(p, name)
		if fd == nil {
			c.anchor(name)
			continue
		}
		ast.Inspect(fd.Body, func(nd ast.Node) bool {
			as, ok := nd.(*ast.AssignStmt)
			if !ok || len(as.Lhs) != 1 || len(as.Rhs) != 1 {
				return true
			}
			ix, ok := as.Lhs[0].(*ast.IndexExpr)
			if !ok {
				return true
			}
			// any store into a slice of Objects in these two functions is the
			// store into the globals (whatever the slice is called)
			if t := p.TypesInfo.Types[ix.X].Type; t == nil || types.TypeString(t, func(*types.Package) string { return "" }) != "[]Object" {
				return true
			}
			n++
			// the stored value (or the variable it comes from) is not produced by Copy
			copied := containsNode(fd.Body, func(m ast.Node) bool {
				call, ok := m.(*ast.CallExpr)
				return ok && Callee(p, call) != nil && Callee(p, call).Name() == "Copy" && len(call.Args) == 0
			})
			c.check(!copied, "host-value-stored-as-is/"+name, as, "the host's object is stored as it is", name+" stores a Copy() of the host's value: Copy turns an immutable array or map into a mutable one, so the variable no longer has the type (or the write protection) the host gave it")
			return true
		})
	}
	if n < 2 {
		c.fail("host-value-stored-as-is/count", nil, fmt.Sprintf("expected the stores into the globals slice of prepCompile and Set, found %d", n))
	}
}

// ---------------------------------------------------------------- COPY.2 (C14, C08, C10), ADPT.7 (C19)

// COPY.2: a copy is complete. The composite literal with which a Copy method
// builds its result mentions every field of the type (embedded bases and
// tabled caches aside): a field left out is silently zero in the copy - for a
// compiled function the source map, without which a run-time error inside the
// copy has no location.
func ruleCOPY2(c *Ctx) {
	w := c.W
	p := w.Root
	caches := map[string]string{"String.runeStr": "lazily rebuilt cache"}
	cps := w.objectMethodDecls("Copy")
	n := 0
	for _, tn := range sortedKeys(cps) {
		fd := cps[tn]
		tobj := p.Types.Scope().Lookup(tn)
		if tobj == nil {
			continue
		}
		st, ok := tobj.Type().Underlying().(*types.Struct)
		if !ok {
			continue
		}
		var lit *ast.CompositeLit
		ast.Inspect(fd.Body, func(nd ast.Node) bool {
			cl, ok := nd.(*ast.CompositeLit)
			if !ok || lit != nil {
				return true
			}
			// the copy: same type, or the mutable twin of an immutable container
			if ln, _ := namedName(p.TypesInfo.Types[cl].Type); ln == tn || "Immutable"+ln == tn {
				lit = cl
			}
			return true
		})
		if lit == nil {
			continue // returns the receiver (singletons) or builds the copy in steps (checked by COPY.1)
		}
		set := map[string]bool{}
		keyed := true
		for _, e := range lit.Elts {
			kv, ok := e.(*ast.KeyValueExpr)
			if !ok {
				keyed = false
				continue
			}
			if id, ok := kv.Key.(*ast.Ident); ok {
				set[id.Name] = true
			}
		}
		if !keyed {
			continue
		}
		// fields assigned after construction count as well
		ast.Inspect(fd.Body, func(nd ast.Node) bool {
			if as, ok := nd.(*ast.AssignStmt); ok {
				for _, l := range as.Lhs {
					if f, _ := FieldSel(p, l); f != nil {
						set[f.Name()] = true
					}
				}
			}
			return true
		})
		n++
		var missing []string
		for i := 0; i < st.NumFields(); i++ {
			f := st.Field(i)
			if f.Embedded() || set[f.Name()] {
				continue
			}
			if _, ok := caches[tn+"."+f.Name()]; ok {
				continue
			}
			missing = append(missing, f.Name())
		}
		c.check(len(missing) == 0, "copy-complete/"+tn, fd, "every field is carried over", fmt.Sprintf("%s.Copy leaves out %s: the copy has the zero value there (for a function's SourceMap: errors inside the copy have no location)", tn, strings.Join(missing, ", ")))
	}
	if n < 8 {
		c.fail("copy-complete/count", nil, fmt.Sprintf("only %d copying types with keyed literals examined", n))
	}
}

// ADPT.7: indexes that come from the wrapped function are checked before they
// are used. A submatch index pair of regexp's Find…Index is -1,-1 for a group
// that did not take part in the match: slicing the subject with it must sit
// behind a `>= 0` test (or after a `< 0 → continue`); and a string argument is
// indexed at a constant position only behind a test of its length.
func ruleADPT7(c *Ctx) {
	w := c.W
	p := w.Stdlib
	n := 0
	seq := seqKeys{}
	w.AllFuncDecls(p, func(fd *ast.FuncDecl) {
		inspectWithStack(fd.Body, func(nd ast.Node, stack []ast.Node) bool {
			switch x := nd.(type) {
			case *ast.SliceExpr:
				// s[m[i]:m[i+1]] with m an []int
				lo, ok1 := ast.Unparen(x.Low).(*ast.IndexExpr)
				hi, ok2 := ast.Unparen(x.High).(*ast.IndexExpr)
				if x.Low == nil || x.High == nil || !ok1 || !ok2 {
					return true
				}
				if t := p.TypesInfo.Types[lo.X].Type; t == nil || types.TypeString(t, nil) != "[]int" {
					return true
				}
				if t := p.TypesInfo.Types[x.X].Type; t == nil || types.TypeString(t.Underlying(), nil) != "string" {
					return true
				}
				_ = hi
				n++
				msrc := strings.ReplaceAll(w.Src(lo), " ", "")
				guarded := false
				for i := len(stack) - 1; i > 0 && !guarded; i-- {
					switch par := stack[i-1].(type) {
					case *ast.IfStmt:
						if stack[i] == ast.Node(par.Body) {
							cs := strings.ReplaceAll(w.Src(par.Cond), " ", "")
							if strings.Contains(cs, msrc+">=0") || strings.Contains(cs, "0<="+msrc) {
								guarded = true
							}
						}
					case *ast.BlockStmt:
						for _, s := range par.List {
							if ast.Node(s) == stack[i] {
								break
							}
							if is, ok := s.(*ast.IfStmt); ok && is.Else == nil && blockTerminates(is.Body.List) {
								cs := strings.ReplaceAll(w.Src(is.Cond), " ", "")
								if strings.Contains(cs, msrc+"<0") || strings.Contains(cs, "0>"+msrc) {
									guarded = true
								}
							}
						}
					}
				}
				c.check(guarded, seq.next("submatch-index/"+funcName(fd)), x, "submatch indexes tested against -1 before slicing", "the subject is sliced with a submatch index pair without testing it: a group that did not take part in the match has index -1 and the slice panics (Go's own API reports -1)")
			case *ast.IndexExpr:
				k, ok := ConstInt(p, x.Index)
				if !ok {
					return true
				}
				t := p.TypesInfo.Types[x.X].Type
				if t == nil || types.TypeString(t.Underlying(), nil) != "string" {
					return true
				}
				id, ok := ast.Unparen(x.X).(*ast.Ident)
				if !ok {
					return true
				}
				n++
				guarded := containsNode(fd.Body, func(m ast.Node) bool {
					is, ok := m.(*ast.IfStmt)
					if !ok || is.Pos() > x.Pos() {
						return false
					}
					return containsNode(is.Cond, func(q ast.Node) bool {
						call, ok := q.(*ast.CallExpr)
						return ok && IsBuiltinCall(p, call, "len") && len(call.Args) == 1 && isObj(p, call.Args[0], p.TypesInfo.Uses[id])
					})
				})
				c.check(guarded, seq.next(fmt.Sprintf("string-index/%s[%d]", funcName(fd), k)), x, "the string's length is tested before it is indexed", fmt.Sprintf("%s[%d] is read without a test of the string's length: an empty (or short) argument makes the function panic", id.Name, k))
			}
			return true
		})
	})
	if n < 3 {
		c.fail("checked-indexes/count", nil, fmt.Sprintf("only %d index uses examined", n))
	}
}
