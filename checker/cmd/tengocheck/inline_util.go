package main

import (
	"go/ast"
	goparser "go/parser"
)

func parserParseExpr(s string) (ast.Expr, error) { return goparser.ParseExpr(s) }
