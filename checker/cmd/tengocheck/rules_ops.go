package main

// rules_ops.go: C10 CMP.1-3, C01 OPARM — the per-type operator arms.

import (
	"fmt"
	"go/ast"
	"go/token"
	"go/types"
	"sort"
	"strings"
)

// tokenSpelling: token constant name -> spelling, from token.tokens.
func (w *World) tokenSpelling() map[string]string {
	out := map[string]string{}
	lit := w.pkgVarLit(w.Token, "tokens")
	if lit == nil {
		return out
	}
	for _, e := range lit.Elts {
		kv, ok := e.(*ast.KeyValueExpr)
		if !ok {
			continue
		}
		c := ConstObj(w.Token, kv.Key)
		tv, ok2 := w.Token.TypesInfo.Types[kv.Value]
		if c == nil || !ok2 || tv.Value == nil {
			continue
		}
		out[c.Name()] = strings.Trim(tv.Value.ExactString(), "\"")
	}
	return out
}

type binArm struct {
	Recv    string
	Tok     string
	RHS     string // type name, "default", or "" (any)
	Body    []ast.Stmt
	Node    ast.Node
	RhsVar  types.Object
	RecvObj types.Object
	Fn      *ast.FuncDecl
}

func (a *binArm) key() string {
	r := a.RHS
	if r == "" {
		r = "any"
	}
	return fmt.Sprintf("%s %s %s", a.Recv, a.Tok, r)
}

var binArmsCache []*binArm

// binArms extracts every (receiver, token, rhs type) arm of every BinaryOp.
func (w *World) binArms() []*binArm {
	if binArmsCache != nil {
		return binArmsCache
	}
	p := w.Root
	var out []*binArm
	for tname, fd := range w.objectMethodDecls("BinaryOp") {
		if fd.Type.Params.NumFields() != 2 || len(fd.Recv.List[0].Names) == 0 {
			continue
		}
		var opObj, rhsObj types.Object
		idx := 0
		for _, f := range fd.Type.Params.List {
			for _, nm := range f.Names {
				if idx == 0 {
					opObj = p.TypesInfo.Defs[nm]
				} else if idx == 1 {
					rhsObj = p.TypesInfo.Defs[nm]
				}
				idx++
			}
		}
		if opObj == nil || rhsObj == nil {
			continue // unnamed params: default implementation
		}
		recvObj := p.TypesInfo.Defs[fd.Recv.List[0].Names[0]]
		type ctx struct {
			tok, rhsT string
			rhsVar    types.Object
		}
		isRhs := func(e ast.Expr, cur types.Object) bool {
			id, ok := ast.Unparen(e).(*ast.Ident)
			if !ok {
				return false
			}
			o := p.TypesInfo.Uses[id]
			return o == rhsObj || (cur != nil && o == cur)
		}
		var walk func(list []ast.Stmt, c ctx)
		walk = func(list []ast.Stmt, c ctx) {
			for i, s := range list {
				switch x := s.(type) {
				case *ast.TypeSwitchStmt:
					var ta *ast.TypeAssertExpr
					switch a := x.Assign.(type) {
					case *ast.AssignStmt:
						ta, _ = a.Rhs[0].(*ast.TypeAssertExpr)
					case *ast.ExprStmt:
						ta, _ = a.X.(*ast.TypeAssertExpr)
					}
					if ta != nil && isRhs(ta.X, c.rhsVar) {
						for _, cl := range x.Body.List {
							cc := cl.(*ast.CaseClause)
							c2 := c
							c2.rhsVar = p.TypesInfo.Implicits[cc]
							if cc.List == nil {
								c2.rhsT = "default"
								walk(cc.Body, c2)
								continue
							}
							for _, te := range cc.List {
								c3 := c2
								c3.rhsT, _ = namedName(p.TypesInfo.Types[te].Type)
								walk(cc.Body, c3)
							}
						}
						continue
					}
				case *ast.IfStmt:
					// if rhs, ok := rhs.(*T); ok { … }
					if as, ok := x.Init.(*ast.AssignStmt); ok && len(as.Rhs) == 1 && len(as.Lhs) == 2 {
						if ta, ok := as.Rhs[0].(*ast.TypeAssertExpr); ok && isRhs(ta.X, c.rhsVar) && ta.Type != nil {
							c2 := c
							c2.rhsT, _ = namedName(p.TypesInfo.Types[ta.Type].Type)
							if id, ok := as.Lhs[0].(*ast.Ident); ok {
								c2.rhsVar = p.TypesInfo.Defs[id]
							}
							walk(x.Body.List, c2)
							continue
						}
					}
				case *ast.SwitchStmt:
					if id, ok := ast.Unparen(x.Tag).(*ast.Ident); ok && x.Tag != nil && p.TypesInfo.Uses[id] == opObj {
						for _, cl := range x.Body.List {
							cc := cl.(*ast.CaseClause)
							for _, te := range cc.List {
								if co := ConstObj(p, te); co != nil {
									c2 := c
									c2.tok = co.Name()
									walk(cc.Body, c2)
								}
							}
						}
						continue
					}
				}
				if c.tok != "" {
					out = append(out, &binArm{Recv: tname, Tok: c.tok, RHS: c.rhsT, Body: list[i:], Node: s, RhsVar: c.rhsVar, RecvObj: recvObj, Fn: fd})
					return
				}
			}
		}
		walk(fd.Body.List, ctx{})
	}
	sort.Slice(out, func(i, j int) bool { return out[i].Node.Pos() < out[j].Node.Pos() })
	binArmsCache = out
	return out
}

var cmpTokens = map[string]string{"Less": "<", "Greater": ">", "LessEq": "<=", "GreaterEq": ">="}
var mirrorTok = map[string]string{"Less": "Greater", "Greater": "Less", "LessEq": "GreaterEq", "GreaterEq": "LessEq"}

type relSet struct{ lt, eq, gt bool }

func (r relSet) String() string {
	var s []string
	if r.lt {
		s = append(s, "<")
	}
	if r.eq {
		s = append(s, "==")
	}
	if r.gt {
		s = append(s, ">")
	}
	return "{" + strings.Join(s, ",") + "}"
}

var expectedRel = map[string]relSet{
	"Less": {lt: true}, "LessEq": {lt: true, eq: true}, "Greater": {gt: true}, "GreaterEq": {gt: true, eq: true},
}

// side classifies an expression as derived from the receiver's value ("L"),
// the right operand's value ("R") or neither (""). Conversions and local
// variables defined from such values are looked through.
func (w *World) side(a *binArm, e ast.Expr, depth int) string {
	p := w.Root
	e = stripConv(p, e)
	switch x := e.(type) {
	case *ast.SelectorExpr:
		if id, ok := ast.Unparen(x.X).(*ast.Ident); ok {
			o := p.TypesInfo.Uses[id]
			if o == a.RecvObj && (x.Sel.Name == "Value" || x.Sel.Name == "value") {
				return "L"
			}
			if a.RhsVar != nil && o == a.RhsVar && (x.Sel.Name == "Value" || x.Sel.Name == "value") {
				return "R"
			}
		}
	case *ast.CallExpr:
		// rhs.String() and similar: derived from the right operand
		if se, ok := x.Fun.(*ast.SelectorExpr); ok {
			if id, ok := ast.Unparen(se.X).(*ast.Ident); ok {
				o := p.TypesInfo.Uses[id]
				if a.RhsVar != nil && o == a.RhsVar {
					return "R"
				}
				if o == a.RecvObj {
					return "L"
				}
			}
		}
	case *ast.UnaryExpr:
		if x.Op == token.SUB {
			return w.side(a, x.X, depth)
		}
	case *ast.Ident:
		if depth > 3 {
			return ""
		}
		o := p.TypesInfo.Uses[x]
		res := ""
		for _, s := range a.Body {
			ast.Inspect(s, func(n ast.Node) bool {
				as, ok := n.(*ast.AssignStmt)
				if !ok || len(as.Lhs) != len(as.Rhs) {
					return true
				}
				for i, l := range as.Lhs {
					if id, ok := l.(*ast.Ident); ok && p.TypesInfo.Defs[id] == o && o != nil {
						res = w.side(a, as.Rhs[i], depth+1)
					}
				}
				return true
			})
		}
		return res
	}
	return ""
}

// condRel evaluates a comparison condition into a relation set between the
// receiver's value (left) and the right operand's value.
func (w *World) condRel(a *binArm, e ast.Expr) (relSet, types.Type, string) {
	p := w.Root
	e = ast.Unparen(e)
	switch x := e.(type) {
	case *ast.BinaryExpr:
		if x.Op == token.LOR {
			r1, t1, e1 := w.condRel(a, x.X)
			r2, t2, e2 := w.condRel(a, x.Y)
			if e1 != "" {
				return relSet{}, nil, e1
			}
			if e2 != "" {
				return relSet{}, nil, e2
			}
			t := t1
			if t == nil {
				t = t2
			}
			return relSet{r1.lt || r2.lt, r1.eq || r2.eq, r1.gt || r2.gt}, t, ""
		}
		if x.Op == token.LAND {
			// a conjunction holds for the orderings both sides hold for
			r1, t1, e1 := w.condRel(a, x.X)
			r2, t2, e2 := w.condRel(a, x.Y)
			if e1 != "" {
				return relSet{}, nil, e1
			}
			if e2 != "" {
				return relSet{}, nil, e2
			}
			t := t1
			if t == nil {
				t = t2
			}
			return relSet{r1.lt && r2.lt, r1.eq && r2.eq, r1.gt && r2.gt}, t, ""
		}
		var r relSet
		switch x.Op {
		case token.LSS:
			r = relSet{lt: true}
		case token.LEQ:
			r = relSet{lt: true, eq: true}
		case token.GTR:
			r = relSet{gt: true}
		case token.GEQ:
			r = relSet{gt: true, eq: true}
		case token.EQL:
			r = relSet{eq: true}
		default:
			return relSet{}, nil, "unsupported operator in comparison condition: " + w.Src(e)
		}
		sx, sy := w.side(a, x.X, 0), w.side(a, x.Y, 0)
		switch {
		case sx == "L" && sy == "R":
		case sx == "R" && sy == "L":
			r = relSet{lt: r.gt, eq: r.eq, gt: r.lt}
		default:
			return relSet{}, nil, "comparison is not between the receiver's value and the right operand's value: " + w.Src(e)
		}
		return r, p.TypesInfo.Types[x.X].Type, ""
	case *ast.CallExpr:
		// time: o.Value.Before(rhs.Value) etc.
		if se, ok := x.Fun.(*ast.SelectorExpr); ok && len(x.Args) == 1 {
			fn := Callee(p, x)
			if fn != nil && fn.Pkg() != nil && fn.Pkg().Path() == "time" {
				var r relSet
				switch fn.Name() {
				case "Before":
					r = relSet{lt: true}
				case "After":
					r = relSet{gt: true}
				case "Equal":
					r = relSet{eq: true}
				default:
					return relSet{}, nil, "unsupported time method in comparison: " + fn.Name()
				}
				sx, sy := w.side(a, se.X, 0), w.side(a, x.Args[0], 0)
				switch {
				case sx == "L" && sy == "R":
				case sx == "R" && sy == "L":
					r = relSet{lt: r.gt, eq: r.eq, gt: r.lt}
				default:
					return relSet{}, nil, "time comparison is not between receiver and right operand: " + w.Src(e)
				}
				return r, p.TypesInfo.Types[se.X].Type, ""
			}
		}
	case *ast.UnaryExpr:
		if x.Op == token.NOT {
			r, t, er := w.condRel(a, x.X)
			if er != "" {
				return r, t, er
			}
			if b, ok := t.Underlying().(*types.Basic); ok && b.Info()&types.IsFloat != 0 {
				return relSet{}, nil, "negated floating-point comparison (differs from the direct operator on NaN): " + w.Src(e)
			}
			return relSet{!r.lt, !r.eq, !r.gt}, t, ""
		}
	}
	return relSet{}, nil, "unrecognised comparison condition: " + w.Src(e)
}

func isSingleton(w *World, e ast.Expr, name string) bool {
	o := ObjOf(w.Root, e)
	return o != nil && o.Name() == name && o.Pkg() == w.Root.Types
}

// valueType of the Value/value field of a root-package object type.
func (w *World) valueType(tname string) types.Type {
	tn := w.Root.Types.Scope().Lookup(tname)
	if tn == nil {
		return nil
	}
	st, ok := tn.Type().Underlying().(*types.Struct)
	if !ok {
		return nil
	}
	for i := 0; i < st.NumFields(); i++ {
		if n := st.Field(i).Name(); n == "Value" || n == "value" {
			return st.Field(i).Type()
		}
	}
	return nil
}

func numRank(t types.Type) int {
	if t == nil {
		return 0
	}
	b, ok := t.Underlying().(*types.Basic)
	if !ok {
		return 0
	}
	switch b.Kind() {
	case types.Int32:
		return 1
	case types.Int64:
		return 2
	case types.Float64:
		return 3
	}
	return 0
}

func ruleCMP1(c *Ctx) {
	w := c.W
	arms := w.binArms()
	if len(arms) < 60 {
		c.anchor(fmt.Sprintf("BinaryOp arms (found %d)", len(arms)))
		return
	}
	for _, a := range arms {
		if _, ok := cmpTokens[a.Tok]; !ok {
			continue
		}
		key := "cmp/" + a.key()
		// shape: if COND { return X, nil }; return Y, nil
		var rel relSet
		var ct types.Type
		bad := ""
		if len(a.Body) < 2 {
			bad = "arm is not `if cond { return TrueValue } return FalseValue`"
		} else {
			is, ok1 := a.Body[0].(*ast.IfStmt)
			rt, ok2 := a.Body[1].(*ast.ReturnStmt)
			if !ok1 || !ok2 || is.Else != nil || is.Init != nil || len(is.Body.List) != 1 {
				bad = "arm is not `if cond { return TrueValue } return FalseValue`"
			} else if r1, ok := is.Body.List[0].(*ast.ReturnStmt); !ok || len(r1.Results) != 2 || len(rt.Results) != 2 {
				bad = "arm is not `if cond { return TrueValue } return FalseValue`"
			} else {
				var er string
				rel, ct, er = w.condRel(a, is.Cond)
				bad = er
				t1, f1 := isSingleton(w, r1.Results[0], "TrueValue"), isSingleton(w, r1.Results[0], "FalseValue")
				t2, f2 := isSingleton(w, rt.Results[0], "TrueValue"), isSingleton(w, rt.Results[0], "FalseValue")
				switch {
				case bad != "":
				case t1 && f2:
				case f1 && t2:
					if b, ok := ct.Underlying().(*types.Basic); ok && b.Info()&types.IsFloat != 0 {
						bad = "inverted result of a floating-point comparison (differs on NaN)"
					}
					rel = relSet{!rel.lt, !rel.eq, !rel.gt}
				default:
					bad = "comparison arm does not return the TrueValue/FalseValue singletons"
				}
			}
		}
		if bad != "" {
			c.undecided(key, a.Node, bad)
			continue
		}
		want := expectedRel[a.Tok]
		if rel != want {
			c.fail(key, a.Node, fmt.Sprintf("%s (%s) of %s with %s is implemented as relation %s between left and right; the token denotes %s", a.Tok, cmpTokens[a.Tok], a.Recv, a.RHS, rel, want))
			continue
		}
		// comparison type: the wider of the two value types
		lt, rtT := w.valueType(a.Recv), w.valueType(a.RHS)
		if numRank(lt) > 0 && numRank(rtT) > 0 {
			wantRank := numRank(lt)
			if numRank(rtT) > wantRank {
				wantRank = numRank(rtT)
			}
			if numRank(ct) != wantRank {
				c.fail(key, a.Node, fmt.Sprintf("operands are compared as %s; %s vs %s must be compared in the wider type (int/float as float64, int/char as int64) or values are truncated", ct, lt, rtT))
				continue
			}
		}
		c.ok(key, a.Node, fmt.Sprintf("relation %s compared as %s", rel, ct))
	}
}

func ruleCMP2(c *Ctx) {
	w := c.W
	arms := w.binArms()
	have := map[string]*binArm{}
	for _, a := range arms {
		have[a.key()] = a
	}
	for _, a := range arms {
		if _, ok := cmpTokens[a.Tok]; !ok {
			continue
		}
		if a.RHS == "" || a.RHS == "default" {
			continue
		}
		m := fmt.Sprintf("%s %s %s", a.RHS, mirrorTok[a.Tok], a.Recv)
		_, ok := have[m]
		c.check(ok, "mirror/"+a.key(), a.Node, "mirrored arm "+m+" exists", fmt.Sprintf("%s accepts (%s, %s) but %s has no arm for (%s, %s): a < b would be defined while b > a is an error", a.Recv, a.Tok, a.RHS, a.RHS, mirrorTok[a.Tok], a.Recv))
	}
	// the four comparison tokens come as a complete set per (recv, rhs)
	pairs := map[string]map[string]bool{}
	var pairNode = map[string]ast.Node{}
	for _, a := range arms {
		if _, ok := cmpTokens[a.Tok]; ok {
			k := a.Recv + " vs " + a.RHS
			if pairs[k] == nil {
				pairs[k] = map[string]bool{}
			}
			pairs[k][a.Tok] = true
			pairNode[k] = a.Node
		}
	}
	for _, k := range sortedKeys(pairs) {
		c.check(len(pairs[k]) == 4, "complete/"+k, pairNode[k], "<, >, <=, >= all defined", fmt.Sprintf("only %v of the four comparison operators are defined for %s", sortedKeys(pairs[k]), k))
	}
	// Equals acceptance symmetry
	p := w.Root
	acc := map[string]map[string]bool{}
	decls := w.objectMethodDecls("Equals")
	for tname, fd := range decls {
		set := map[string]bool{}
		ast.Inspect(fd.Body, func(n ast.Node) bool {
			switch x := n.(type) {
			case *ast.TypeAssertExpr:
				if x.Type != nil {
					if tn, _ := namedName(p.TypesInfo.Types[x.Type].Type); tn != "" {
						set[tn] = true
					}
				}
			case *ast.CaseClause:
				for _, e := range x.List {
					if tv, ok := p.TypesInfo.Types[e]; ok && tv.IsType() {
						if tn, _ := namedName(tv.Type); tn != "" {
							set[tn] = true
						}
					}
				}
			}
			return true
		})
		acc[tname] = set
	}
	for _, t := range sortedKeys(acc) {
		for _, u := range sortedKeys(acc[t]) {
			if u == t {
				continue
			}
			ok := acc[u] != nil && acc[u][t]
			c.check(ok, "equals-symmetric/"+t+"~"+u, decls[t], u+".Equals accepts "+t+" as well", fmt.Sprintf("%s.Equals accepts %s but %s.Equals does not accept %s: == would not be symmetric", t, u, u, t))
		}
	}
}

func ruleCMP3(c *Ctx) {
	w := c.W
	p := w.Root
	vi := w.vm()
	if vi.err != "" {
		c.anchor(vi.err)
		return
	}
	for _, spec := range []struct{ op, thenV, elseV string }{{"OpEqual", "TrueValue", "FalseValue"}, {"OpNotEqual", "FalseValue", "TrueValue"}} {
		cc := vi.Arms[spec.op]
		if cc == nil {
			c.anchor(spec.op + " arm")
			continue
		}
		var probs []string
		var is *ast.IfStmt
		for _, s := range cc.Body {
			if x, ok := s.(*ast.IfStmt); ok {
				is = x
			}
		}
		if is == nil || is.Else == nil {
			c.fail("vm/"+spec.op, cc, "arm is not `if left.Equals(right) { push X } else { push Y }`")
			continue
		}
		// `if !a.Equals(b) { X } else { Y }` is `if a.Equals(b) { Y } else { X }`
		cond := ast.Unparen(is.Cond)
		negated := false
		for {
			u, ok := cond.(*ast.UnaryExpr)
			if !ok || u.Op != token.NOT {
				break
			}
			negated = !negated
			cond = ast.Unparen(u.X)
		}
		call, ok := cond.(*ast.CallExpr)
		if !ok {
			c.fail("vm/"+spec.op, cc, "condition is not a call of Equals, possibly negated (an extra clause changes the law): "+w.Src(is.Cond))
			continue
		}
		fn := Callee(p, call)
		if fn == nil || fn.Name() != "Equals" || len(call.Args) != 1 {
			probs = append(probs, "condition does not call Equals")
		} else {
			// receiver = stack[sp-2], arg = stack[sp-1]
			origin := func(e ast.Expr) int {
				id, ok := ast.Unparen(e).(*ast.Ident)
				if !ok {
					return 0
				}
				o := p.TypesInfo.Uses[id]
				res := 0
				for _, s := range cc.Body {
					as, ok := s.(*ast.AssignStmt)
					if !ok || len(as.Lhs) != 1 {
						continue
					}
					if lid, ok := as.Lhs[0].(*ast.Ident); ok && p.TypesInfo.Defs[lid] == o {
						if ix, ok := as.Rhs[0].(*ast.IndexExpr); ok {
							if b, ok := ix.Index.(*ast.BinaryExpr); ok && b.Op == token.SUB {
								if k, ok := ConstInt(p, b.Y); ok {
									res = int(k)
								}
							}
						}
					}
				}
				return res
			}
			se, _ := call.Fun.(*ast.SelectorExpr)
			if se == nil || origin(se.X) != 2 || origin(call.Args[0]) != 1 {
				probs = append(probs, "Equals is not called as (second from top).Equals(top of stack)")
			}
		}
		pushed := func(b ast.Stmt) string {
			res := ""
			ast.Inspect(b, func(n ast.Node) bool {
				if as, ok := n.(*ast.AssignStmt); ok && len(as.Rhs) == 1 {
					if o := ObjOf(p, as.Rhs[0]); o != nil && (o.Name() == "TrueValue" || o.Name() == "FalseValue") {
						res = o.Name()
					}
				}
				return true
			})
			return res
		}
		whenEq, whenNe := pushed(is.Body), pushed(is.Else)
		if negated {
			whenEq, whenNe = whenNe, whenEq
		}
		if whenEq != spec.thenV || whenNe != spec.elseV {
			probs = append(probs, fmt.Sprintf("pushes %s/%s for equal/unequal, expected %s/%s", whenEq, whenNe, spec.thenV, spec.elseV))
		}
		c.check(len(probs) == 0, "vm/"+spec.op, cc, "left.Equals(right) → "+spec.thenV+" else "+spec.elseV, strings.Join(probs, "; "))
	}
}

// ---------------------------------------------------------------- OPARM (C01)

var goOpSpelling = map[token.Token]string{
	token.ADD: "+", token.SUB: "-", token.MUL: "*", token.QUO: "/", token.REM: "%",
	token.AND: "&", token.OR: "|", token.XOR: "^", token.AND_NOT: "&^", token.SHL: "<<", token.SHR: ">>",
}
var commutative = map[string]bool{"*": true, "&": true, "|": true, "^": true}

func ruleOPARM(c *Ctx) {
	w := c.W
	p := w.Root
	spell := w.tokenSpelling()
	if len(spell) < 40 {
		c.anchor("token.tokens spelling table")
		return
	}
	arms := w.binArms()
	for _, a := range arms {
		if _, isCmp := cmpTokens[a.Tok]; isCmp {
			continue
		}
		key := "op/" + a.key()
		want := spell[a.Tok]
		if want == "" {
			c.undecided(key, a.Node, "token "+a.Tok+" has no spelling")
			continue
		}
		// Time arithmetic: method based
		if a.Recv == "Time" {
			ruleTimeArm(c, a, key)
			continue
		}
		// container concatenation: append order
		if a.Recv == "Array" || a.Recv == "ImmutableArray" || a.Recv == "Bytes" {
			var sides []string
			for _, s := range a.Body {
				ast.Inspect(s, func(n ast.Node) bool {
					call, ok := n.(*ast.CallExpr)
					if ok && IsBuiltinCall(p, call, "append") && call.Ellipsis.IsValid() && len(call.Args) == 2 {
						sides = append(sides, w.side(a, call.Args[1], 0))
					}
					return true
				})
			}
			good := a.Tok == "Add" && len(sides) == 2 && sides[0] == "L" && sides[1] == "R"
			c.check(good, key, a.Node, "result = left elements followed by right elements", fmt.Sprintf("concatenation arm appends %v (expected the receiver's elements, then the right operand's)", sides))
			continue
		}
		// scalar arithmetic: find core operations
		type core struct {
			op   string
			l, r string
			t    types.Type
			n    ast.Node
		}
		var cores []core
		for _, s := range a.Body {
			ast.Inspect(s, func(n ast.Node) bool {
				b, ok := n.(*ast.BinaryExpr)
				if !ok {
					return true
				}
				sp, isArith := goOpSpelling[b.Op]
				if !isArith {
					return true
				}
				l, r := w.side(a, b.X, 0), w.side(a, b.Y, 0)
				if l != "" && r != "" && l != r {
					cores = append(cores, core{sp, l, r, p.TypesInfo.Types[b].Type, b})
				}
				return true
			})
		}
		if len(cores) != 1 {
			c.undecided(key, a.Node, fmt.Sprintf("expected exactly one operation combining the receiver's and the right operand's value, found %d", len(cores)))
			continue
		}
		co := cores[0]
		var probs []string
		if co.op != want {
			probs = append(probs, fmt.Sprintf("token %s (%s) is computed with Go operator %s", a.Tok, want, co.op))
		}
		if !(co.l == "L" && co.r == "R") && !(commutative[want] || (want == "+" && numRank(co.t) > 0)) {
			probs = append(probs, "operands are swapped in a non-commutative operation")
		}
		// result type: float if either is float, else char if either is char, else int
		lt, rt := w.valueType(a.Recv), w.valueType(a.RHS)
		if numRank(lt) > 0 && numRank(rt) > 0 && want != "<<" && want != ">>" {
			wantRank := 2
			if numRank(lt) == 3 || numRank(rt) == 3 {
				wantRank = 3
			} else if numRank(lt) == 1 || numRank(rt) == 1 {
				wantRank = 1
			}
			if numRank(co.t) != wantRank {
				probs = append(probs, fmt.Sprintf("operation is carried out in %s; %s %s %s must yield %s", co.t, a.Recv, want, a.RHS, map[int]string{1: "char (rune)", 2: "int (int64)", 3: "float (float64)"}[wantRank]))
			}
		}
		if want == "<<" || want == ">>" {
			if b, ok := co.n.(*ast.BinaryExpr); ok && lt != nil && !types.Identical(p.TypesInfo.Types[b.X].Type, lt) {
				probs = append(probs, fmt.Sprintf("shifted operand has type %s, not the receiver's %s (arithmetic vs logical shift)", p.TypesInfo.Types[b.X].Type, lt))
			}
		}
		// the identity shortcut may only return the receiver when the result equals the receiver's value
		for _, s := range a.Body {
			if is, ok := s.(*ast.IfStmt); ok {
				retRecv := containsNode(is.Body, func(n ast.Node) bool {
					r, ok := n.(*ast.ReturnStmt)
					if !ok || len(r.Results) == 0 {
						return false
					}
					id, ok := ast.Unparen(r.Results[0]).(*ast.Ident)
					return ok && p.TypesInfo.Uses[id] == a.RecvObj
				})
				if retRecv {
					b, ok := ast.Unparen(is.Cond).(*ast.BinaryExpr)
					good := ok && b.Op == token.EQL
					if good {
						sx, sy := w.side(a, b.X, 0), w.side(a, b.Y, 0)
						// r == o.Value : one side is the result variable (derives from both → side() gives "" or L), other is L
						_ = sx
						good = sy == "L" || sx == "L"
						// and the other side must be the variable holding the core result
						other := b.X
						if sx == "L" {
							other = b.Y
						}
						if id, ok := ast.Unparen(other).(*ast.Ident); ok {
							defd := false
							for _, s2 := range a.Body {
								if as, ok := s2.(*ast.AssignStmt); ok && len(as.Lhs) == 1 {
									if lid, ok := as.Lhs[0].(*ast.Ident); ok && p.TypesInfo.Defs[lid] == p.TypesInfo.Uses[id] {
										if containsNode(as.Rhs[0], func(n ast.Node) bool { return n == co.n }) {
											defd = true
										}
									}
								}
							}
							good = good && defd
						} else {
							good = false
						}
					}
					if !good {
						probs = append(probs, "receiver is returned under a condition other than `result == receiver's value`")
					}
				}
			}
		}
		c.check(len(probs) == 0, key, a.Node, fmt.Sprintf("computed as left %s right in %s", co.op, co.t), strings.Join(probs, "; "))
	}
}

func ruleTimeArm(c *Ctx, a *binArm, key string) {
	w := c.W
	p := w.Root
	var call *ast.CallExpr
	neg := false
	for _, s := range a.Body {
		ast.Inspect(s, func(n ast.Node) bool {
			x, ok := n.(*ast.CallExpr)
			if !ok {
				return true
			}
			fn := Callee(p, x)
			if fn != nil && fn.Pkg() != nil && fn.Pkg().Path() == "time" && (fn.Name() == "Add" || fn.Name() == "Sub") && call == nil {
				call = x
				if len(x.Args) == 1 {
					neg = containsNode(x.Args[0], func(m ast.Node) bool {
						u, ok := m.(*ast.UnaryExpr)
						return ok && u.Op == token.SUB
					})
				}
			}
			return true
		})
	}
	if call == nil {
		c.undecided(key, a.Node, "time arithmetic arm does not call Time.Add/Sub")
		return
	}
	fn := Callee(p, call)
	se := call.Fun.(*ast.SelectorExpr)
	l, r := w.side(a, se.X, 0), w.side(a, call.Args[0], 0)
	var probs []string
	if l != "L" || r != "R" {
		probs = append(probs, "not receiver.Method(right operand)")
	}
	switch {
	case a.Tok == "Add" && a.RHS == "Int":
		if fn.Name() != "Add" || neg {
			probs = append(probs, "time + int must be Time.Add(duration)")
		}
	case a.Tok == "Sub" && a.RHS == "Int":
		if fn.Name() != "Add" || !neg {
			probs = append(probs, "time - int must be Time.Add(-duration)")
		}
	case a.Tok == "Sub" && a.RHS == "Time":
		if fn.Name() != "Sub" {
			probs = append(probs, "time - time must be Time.Sub")
		}
	default:
		probs = append(probs, "unexpected time arithmetic arm")
	}
	c.check(len(probs) == 0, key, a.Node, "time arithmetic via "+fn.Name(), strings.Join(probs, "; "))
}

// OPDOC: the documented operator table equals the implemented arms.
func ruleOPDOC(c *Ctx) {
	w := c.W
	spell := w.tokenSpelling()
	arms := w.binArms()
	typeDoc := map[string]string{"Int": "int", "Float": "float", "String": "string", "Char": "char", "Bool": "bool", "Bytes": "bytes",
		"Time": "time", "Array": "array", "ImmutableArray": "immutable-array", "Map": "map", "ImmutableMap": "immutable-map"}
	impl := map[string]ast.Node{}
	for _, a := range arms {
		r := typeDoc[a.RHS]
		if a.RHS == "default" {
			r = "other types"
		}
		impl[fmt.Sprintf("(%s) %s (%s)", typeDoc[a.Recv], spell[a.Tok], r)] = a.Node
	}
	doc, err := readRepoFile(w, "docs/operators.md")
	if err != nil {
		c.anchor("docs/operators.md")
		return
	}
	documented := map[string]bool{}
	for _, line := range strings.Split(doc, "\n") {
		line = strings.TrimSpace(line)
		if !strings.HasPrefix(line, "- `(") {
			continue
		}
		end := strings.Index(line[3:], "`")
		if end < 0 {
			continue
		}
		expr := line[3 : 3+end]
		if i := strings.Index(expr, " = "); i >= 0 {
			expr = expr[:i]
		}
		f := strings.Fields(expr)
		if len(f) < 3 {
			continue
		}
		op := f[1]
		if op == "==" || op == "!=" {
			continue // equality is not a BinaryOp arm (CMP.2/CMP.3)
		}
		documented[strings.TrimSpace(expr)] = true
	}
	undocumentedOK := map[string]string{
		"(bytes) + (bytes)":                     "implemented concatenation that docs/operators.md does not list",
		"(immutable-array) + (immutable-array)": "docs list `(array) + (array)` under the heading \"Array and ImmutableArray\"",
	}
	for _, k := range sortedKeys(impl) {
		if why, ok := undocumentedOK[k]; ok {
			c.ok("doc/"+k, impl[k], "tabled: "+why)
			continue
		}
		c.check(documented[k], "doc/"+k, impl[k], "implemented arm is documented", "operator arm "+k+" is implemented but not in docs/operators.md (an arm accepting more than documented changes which programs are errors)")
	}
	for _, k := range sortedKeys(documented) {
		_, ok := impl[k]
		c.check(ok, "impl/"+k, nil, "documented operator has an arm", "docs/operators.md documents "+k+" but no BinaryOp arm implements it")
	}
}
