package main

// rules_wave7.go: rules added after the fourth round of seeded changes.
//   RET.2  (C02)      `return` is rejected outside a function: the scope test skips blocks
//   OPT.5  (C03)      every jump's destination is registered, unconditionally
//   SYM.3  (C01, C11) the name a `:=` defines comes into scope after its right side, except for a function literal
//   DEDUP.4 (C12)     float constants come from literals only (premise of keying them by ==)

import (
	"fmt"
	"go/ast"
	"go/token"
	"go/types"
	"strconv"
	"strings"
)

// scopeTest: e is `X.Parent(a) == nil` or `!= nil`; returns the call and whether it is the == form.
func scopeTest(w *World, e ast.Expr) (*ast.CallExpr, bool, bool) {
	p := w.Root
	b, ok := ast.Unparen(e).(*ast.BinaryExpr)
	if !ok || (b.Op != token.EQL && b.Op != token.NEQ) {
		return nil, false, false
	}
	var other ast.Expr
	switch {
	case isNilIdent(b.Y):
		other = b.X
	case isNilIdent(b.X):
		other = b.Y
	default:
		return nil, false, false
	}
	call, ok := ast.Unparen(other).(*ast.CallExpr)
	if !ok || !isMethodOf(Callee(p, call), p.Types, "SymbolTable", "Parent") || len(call.Args) != 1 {
		return nil, false, false
	}
	return call, b.Op == token.EQL, true
}

func constBool(p pkgT, e ast.Expr) (bool, bool) {
	tv, ok := p.TypesInfo.Types[e]
	if !ok || tv.Value == nil {
		return false, false
	}
	s := tv.Value.String()
	if s == "true" {
		return true, true
	}
	if s == "false" {
		return false, true
	}
	return false, false
}

// RET.2: "is there an enclosing function" is asked of the symbol table with
// blocks skipped. Parent(false) of a block scope is the scope around the block
// - not nil inside any `if` or `for` at top level - so a test written with it
// lets `return` through in a top-level block: RET lands in the main function,
// where the VM has no frame to return to.
func ruleRET2(c *Ctx) {
	w := c.W
	p := w.Root
	seq := seqKeys{}
	n := 0
	w.AllFuncDecls(p, func(fd *ast.FuncDecl) {
		ast.Inspect(fd.Body, func(nd ast.Node) bool {
			e, ok := nd.(*ast.BinaryExpr)
			if !ok {
				return true
			}
			call, _, ok := scopeTest(w, e)
			if !ok {
				return true
			}
			n++
			v, known := constBool(p, call.Args[0])
			c.check(known && v, seq.next("scope-test/"+funcKey(fd)), call, "the test for 'no enclosing function' skips block scopes",
				"the symbol table is asked for its parent with skipBlock = "+w.Src(call.Args[0])+" and the answer compared with nil: inside a block (if, for, for-in, nested braces) the parent is the scope around the block, never nil, so the test takes a top-level block for a function body")
			return true
		})
	})
	arm := w.compileArm("ReturnStmt")
	if arm == nil {
		c.anchor("Compile arm for *parser.ReturnStmt")
		return
	}
	comp := w.FuncDecl(p, "Compiler.Compile")
	m := 0
	for _, es := range w.emitSites() {
		if es.Kind != "emit" || es.Call.Pos() < arm.Pos() || es.Call.End() > arm.End() {
			continue
		}
		isRet := false
		for _, op := range es.Ops {
			if op == "OpReturn" {
				isRet = true
			}
		}
		if !isRet {
			continue
		}
		m++
		var stack []ast.Node
		inspectWithStack(comp, func(nd ast.Node, st []ast.Node) bool {
			if nd == ast.Node(es.Call) {
				stack = append([]ast.Node{}, st...)
			}
			return true
		})
		// outside(e): e is true exactly when there is no enclosing function
		// (the scope test itself, its negation, or a boolean local defined
		// once from one of these)
		var outside func(e ast.Expr, depth int) (bool, bool)
		outside = func(e ast.Expr, depth int) (bool, bool) {
			e = ast.Unparen(e)
			if u, ok := e.(*ast.UnaryExpr); ok && u.Op == token.NOT {
				v, ok := outside(u.X, depth)
				return !v, ok
			}
			if _, eq, ok := scopeTest(w, e); ok {
				return eq, true
			}
			if id, ok := e.(*ast.Ident); ok && depth < 3 {
				obj := p.TypesInfo.ObjectOf(id)
				var def ast.Expr
				defs := 0
				ast.Inspect(comp.Body, func(m ast.Node) bool {
					as, ok := m.(*ast.AssignStmt)
					if !ok || len(as.Lhs) != len(as.Rhs) {
						return true
					}
					for i, l := range as.Lhs {
						if lid, ok := l.(*ast.Ident); ok && p.TypesInfo.ObjectOf(lid) == obj {
							defs++
							def = as.Rhs[i]
						}
					}
					return true
				})
				if defs == 1 {
					return outside(def, depth+1)
				}
			}
			return false, false
		}
		guarded := false
		for _, g := range precedingGuards(stack) {
			for _, d := range splitOr(g.Cond) {
				if v, ok := outside(d, 0); ok && v {
					guarded = true
				}
			}
		}
		for i, nd := range stack {
			if is, ok := nd.(*ast.IfStmt); ok && i+1 < len(stack) {
				if stack[i+1] == ast.Node(is.Body) {
					for _, conj := range splitAnd(is.Cond) {
						if v, ok := outside(conj, 0); ok && !v {
							guarded = true
						}
					}
				}
				if is.Else != nil && stack[i+1] == ast.Node(is.Else) {
					for _, d := range splitOr(is.Cond) {
						if v, ok := outside(d, 0); ok && v {
							guarded = true
						}
					}
				}
			}
		}
		c.check(guarded, seq.next("return-inside-function"), es.Call, "RET is emitted only behind the test that rejects `return` outside a function",
			"the return arm emits RET without first rejecting a `return` that has no enclosing function: in the main function the VM's return arm has no caller frame")
	}
	if n < 2 || m < 1 {
		c.fail("scope-test/count", arm, fmt.Sprintf("expected the scope tests of Define and of the return arm and the RET emits, found %d tests, %d emits", n, m))
	}
}

func splitOr(e ast.Expr) []ast.Expr {
	if b, ok := ast.Unparen(e).(*ast.BinaryExpr); ok && b.Op == token.LOR {
		return append(splitOr(b.X), splitOr(b.Y)...)
	}
	return []ast.Expr{e}
}

func funcKey(fd *ast.FuncDecl) string {
	if fd.Recv != nil && len(fd.Recv.List) == 1 {
		t := fd.Recv.List[0].Type
		if s, ok := t.(*ast.StarExpr); ok {
			t = s.X
		}
		if id, ok := t.(*ast.Ident); ok {
			return id.Name + "." + fd.Name.Name
		}
	}
	return fd.Name.Name
}

// OPT.5: the set of jump destinations that ends dead regions holds the target
// of every jump. In optimizeFunc the set is the map consulted by the
// `case set[pos]:` clause that revives code; every store into it sits under
// nothing but the dispatch on the opcode - no condition on the operands or on
// the position (a backward jump's target is a destination like any other: the
// loop head of a loop inside dead code is reached only through it).
func ruleOPT5(c *Ctx) {
	w := c.W
	p := w.Root
	opt := w.FuncDecl(p, "Compiler.optimizeFunc")
	if opt == nil {
		c.anchor("Compiler.optimizeFunc")
		return
	}
	// the destination set
	var set types.Object
	ast.Inspect(opt.Body, func(nd ast.Node) bool {
		cc, ok := nd.(*ast.CaseClause)
		if !ok || len(cc.List) != 1 {
			return true
		}
		ix, ok := ast.Unparen(cc.List[0]).(*ast.IndexExpr)
		if !ok {
			return true
		}
		if id, ok := ast.Unparen(ix.X).(*ast.Ident); ok {
			if _, isMap := p.TypesInfo.TypeOf(id).Underlying().(*types.Map); isMap {
				set = p.TypesInfo.ObjectOf(id)
			}
		}
		return true
	})
	if set == nil {
		c.anchor("the jump-destination set of optimizeFunc (case set[pos])")
		return
	}
	n := 0
	seq := seqKeys{}
	inspectWithStack(opt.Body, func(nd ast.Node, stack []ast.Node) bool {
		as, ok := nd.(*ast.AssignStmt)
		if !ok || len(as.Lhs) != 1 {
			return true
		}
		ix, ok := ast.Unparen(as.Lhs[0]).(*ast.IndexExpr)
		if !ok {
			return true
		}
		id, ok := ast.Unparen(ix.X).(*ast.Ident)
		if !ok || p.TypesInfo.ObjectOf(id) != set {
			return true
		}
		n++
		// ancestors up to the callback: only the dispatch on the opcode
		var fl *ast.FuncLit
		var opParam types.Object
		for i := len(stack) - 1; i >= 0; i-- {
			if f, ok := stack[i].(*ast.FuncLit); ok {
				fl = f
				break
			}
		}
		if fl != nil {
			for _, f := range fl.Type.Params.List {
				for _, nm := range f.Names {
					if o := p.TypesInfo.Defs[nm]; o != nil && strings.HasSuffix(types.TypeString(o.Type(), nil), "parser.Opcode") {
						opParam = o
					}
				}
			}
		}
		onlyOpcode := func(e ast.Expr) bool {
			// the condition mentions no variable other than the opcode parameter
			ok := true
			ast.Inspect(e, func(m ast.Node) bool {
				if id, isId := m.(*ast.Ident); isId {
					if v, isVar := p.TypesInfo.ObjectOf(id).(*types.Var); isVar && !v.IsField() && types.Object(v) != opParam {
						ok = false
					}
				}
				return ok
			})
			return ok
		}
		var cond []string
		started := fl == nil
		for i, a := range stack {
			if a == ast.Node(fl) {
				started = true
				continue
			}
			if !started {
				continue
			}
			switch x := a.(type) {
			case *ast.IfStmt:
				if !onlyOpcode(x.Cond) {
					cond = append(cond, "if "+w.Src(x.Cond))
				}
			case *ast.SwitchStmt:
				if x.Tag != nil && !onlyOpcode(x.Tag) {
					cond = append(cond, "switch "+w.Src(x.Tag))
				}
			case *ast.CaseClause:
				if i > 0 {
					if sw, ok := stack[i-1].(*ast.BlockStmt); ok && i > 1 {
						if s2, ok := stack[i-2].(*ast.SwitchStmt); ok && s2.Body == sw && s2.Tag == nil {
							for _, e := range x.List {
								if !onlyOpcode(e) {
									cond = append(cond, "case "+w.Src(e))
								}
							}
						}
					}
				}
			case *ast.ForStmt, *ast.RangeStmt:
				cond = append(cond, "a loop")
			}
		}
		c.check(len(cond) == 0, seq.next("destination-registered"), as, "registered for every jump (only the dispatch on the opcode stands above the store)",
			"a jump's target is entered into the destination set only under "+strings.Join(cond, ", ")+": the targets left out do not end a dead region, so live code behind a return is removed (or a surviving jump points at a removed instruction)")
		return true
	})
	if n < 1 {
		c.fail("destination-registered/count", opt, "no store into the destination set found")
	}
}

// SYM.3: a name defined by `:=` is in scope in its own right-hand side only
// when the right-hand side is a function literal (so that the function can
// call itself). In compileAssign the Define that runs before the right side
// is compiled is taken exactly when a flag holds whose one definition is the
// comma-ok assertion of the right side to *parser.FuncLit; the Define after
// it exactly when the flag does not hold.
func ruleSYM3(c *Ctx) {
	w := c.W
	p := w.Root
	fd := w.FuncDecl(p, "Compiler.compileAssign")
	if fd == nil {
		c.anchor("Compiler.compileAssign")
		return
	}
	// the loop that compiles the right-hand sides: a range over a []parser.Expr parameter whose body calls Compile
	var loop *ast.RangeStmt
	var rhs types.Object
	ast.Inspect(fd.Body, func(nd ast.Node) bool {
		r, ok := nd.(*ast.RangeStmt)
		if !ok || loop != nil {
			return true
		}
		id, ok := ast.Unparen(r.X).(*ast.Ident)
		if !ok {
			return true
		}
		o := p.TypesInfo.ObjectOf(id)
		if _, isParam := paramIndex(p, fd, o); !isParam {
			return true
		}
		if containsNode(r.Body, func(m ast.Node) bool {
			call, ok := m.(*ast.CallExpr)
			return ok && isMethodOf(Callee(p, call), p.Types, "Compiler", "Compile")
		}) {
			loop, rhs = r, o
		}
		return true
	})
	if loop == nil {
		c.anchor("the loop of compileAssign that compiles the right-hand sides")
		return
	}
	// candidate flags: bool locals defined by `_, f := rhs[i].(*parser.FuncLit)`
	flags := map[types.Object]bool{}
	writes := map[types.Object]int{}
	ast.Inspect(fd.Body, func(nd ast.Node) bool {
		as, ok := nd.(*ast.AssignStmt)
		if !ok {
			return true
		}
		for _, l := range as.Lhs {
			if id, ok := l.(*ast.Ident); ok && id.Name != "_" {
				if o := p.TypesInfo.ObjectOf(id); o != nil {
					writes[o]++
				}
			}
		}
		if len(as.Lhs) == 2 && len(as.Rhs) == 1 {
			ta, ok := ast.Unparen(as.Rhs[0]).(*ast.TypeAssertExpr)
			if !ok || ta.Type == nil {
				return true
			}
			if !namedIs(p.TypesInfo.TypeOf(ta.Type), w.Parser.Types, "FuncLit") {
				return true
			}
			ix, ok := ast.Unparen(ta.X).(*ast.IndexExpr)
			if !ok {
				return true
			}
			if bid, ok := ast.Unparen(ix.X).(*ast.Ident); !ok || p.TypesInfo.ObjectOf(bid) != rhs {
				return true
			}
			if id, ok := as.Lhs[1].(*ast.Ident); ok && id.Name != "_" {
				flags[p.TypesInfo.ObjectOf(id)] = true
			}
		}
		return true
	})
	// three-valued evaluation of a condition for a given value of the flag
	var eval func(e ast.Expr, flag types.Object, v bool) (bool, bool)
	eval = func(e ast.Expr, flag types.Object, v bool) (bool, bool) {
		switch x := ast.Unparen(e).(type) {
		case *ast.Ident:
			if p.TypesInfo.ObjectOf(x) == flag {
				return v, true
			}
			if b, ok := constBool(p, x); ok {
				return b, true
			}
		case *ast.UnaryExpr:
			if x.Op == token.NOT {
				r, ok := eval(x.X, flag, v)
				return !r, ok
			}
		case *ast.BinaryExpr:
			l, okl := eval(x.X, flag, v)
			r, okr := eval(x.Y, flag, v)
			switch x.Op {
			case token.LAND:
				if (okl && !l) || (okr && !r) {
					return false, true
				}
				return l && r, okl && okr
			case token.LOR:
				if (okl && l) || (okr && r) {
					return true, true
				}
				return l || r, okl && okr
			case token.EQL:
				return l == r, okl && okr
			case token.NEQ:
				return l != r, okl && okr
			}
		}
		return false, false
	}
	// can the node be reached when flag == v? (false only when some enclosing condition rules it out)
	reachable := func(stack []ast.Node, flag types.Object, v bool) bool {
		for i, a := range stack {
			is, ok := a.(*ast.IfStmt)
			if !ok || i+1 >= len(stack) {
				continue
			}
			r, known := eval(is.Cond, flag, v)
			if !known {
				continue
			}
			if stack[i+1] == ast.Node(is.Body) && !r {
				return false
			}
			if is.Else != nil && stack[i+1] == ast.Node(is.Else) && r {
				return false
			}
		}
		return true
	}
	early, late := 0, 0
	seq := seqKeys{}
	inspectWithStack(fd.Body, func(nd ast.Node, stack []ast.Node) bool {
		call, ok := nd.(*ast.CallExpr)
		if !ok || !isMethodOf(Callee(p, call), p.Types, "SymbolTable", "Define") {
			return true
		}
		isEarly := call.Pos() < loop.Pos()
		// a flag with one definition that separates the two cases
		good := false
		for f := range flags {
			if writes[f] != 1 {
				continue
			}
			if isEarly && !reachable(stack, f, false) {
				good = true
			}
			if !isEarly && !reachable(stack, f, true) {
				good = true
			}
		}
		if isEarly {
			early++
			c.check(good, seq.next("define-before-rhs"), call, "only when the right-hand side is a function literal",
				"the variable is defined before its right-hand side is compiled under a condition that is not exactly 'the right-hand side is a function literal': the right side then resolves the name to the variable being declared instead of the enclosing one (or compiles a program that must be rejected as an unresolved reference)")
		} else {
			late++
			c.check(good, seq.next("define-after-rhs"), call, "exactly when the right-hand side is not a function literal",
				"the definition after the right-hand side is not the exact complement of the early definition for function literals")
		}
		return true
	})
	if early != 1 || late != 1 {
		c.fail("define-order/count", fd, fmt.Sprintf("expected one definition before and one after the right-hand side, found %d and %d", early, late))
	}
}

func paramIndex(p pkgT, fd *ast.FuncDecl, o types.Object) (int, bool) {
	i := 0
	for _, f := range fd.Type.Params.List {
		for _, nm := range f.Names {
			if p.TypesInfo.Defs[nm] == o {
				return i, true
			}
			i++
		}
	}
	return 0, false
}

// DEDUP.4: RemoveDuplicates keys float constants by ==, under which 0.0 and
// -0.0 are one key although a program tells them apart (1/x). That is sound
// as long as the compiler creates float constants from literals only, which
// have no sign. Every &Float{…} the compiler adds to the constant pool takes
// its value straight from a *parser.FloatLit - or the key is bit-exact.
func ruleDEDUP4(c *Ctx) {
	w := c.W
	p := w.Root
	rd := w.FuncDecl(p, "Bytecode.RemoveDuplicates")
	if rd == nil {
		c.anchor("Bytecode.RemoveDuplicates")
		return
	}
	floatKeyed := containsNode(rd.Body, func(nd ast.Node) bool {
		e, ok := nd.(ast.Expr)
		if !ok {
			return false
		}
		tv, ok := p.TypesInfo.Types[e]
		if !ok || !tv.IsType() {
			return false
		}
		m, ok := tv.Type.Underlying().(*types.Map)
		if !ok {
			return false
		}
		b, ok := m.Key().Underlying().(*types.Basic)
		return ok && b.Info()&types.IsFloat != 0
	})
	n := 0
	seq := seqKeys{}
	w.AllFuncDecls(p, func(fd *ast.FuncDecl) {
		if fd.Recv == nil || funcKey(fd)[:strings.Index(funcKey(fd)+".", ".")] != "Compiler" {
			return
		}
		ast.Inspect(fd.Body, func(nd ast.Node) bool {
			call, ok := nd.(*ast.CallExpr)
			if !ok || !isMethodOf(Callee(p, call), p.Types, "Compiler", "addConstant") || len(call.Args) != 1 {
				return true
			}
			u, ok := ast.Unparen(call.Args[0]).(*ast.UnaryExpr)
			if !ok || u.Op != token.AND {
				return true
			}
			cl, ok := u.X.(*ast.CompositeLit)
			if !ok || !namedIs(p.TypesInfo.TypeOf(cl), p.Types, "Float") {
				return true
			}
			n++
			fromLit := false
			for _, el := range cl.Elts {
				v := el
				if kv, ok := el.(*ast.KeyValueExpr); ok {
					v = kv.Value
				}
				if f, x := FieldSel(p, v); f != nil && namedIs(p.TypesInfo.TypeOf(x), w.Parser.Types, "FloatLit") {
					fromLit = true
				}
			}
			c.check(fromLit || !floatKeyed, seq.next("float-constant/"+funcKey(fd)), call, "the value is a float literal's (no sign, no NaN), or the de-duplication key is bit-exact",
				"the compiler adds a float constant computed from "+w.Src(cl)+" while RemoveDuplicates keys floats by ==: a constant -0.0 is merged with 0.0 (and the program tells them apart by 1/x)")
			return true
		})
	})
	if n < 1 {
		c.fail("float-constant/count", rd, "no float constant site found in the compiler")
	}
}

// SING.1 (C15, C10, C12): values compared by identity are never re-made. A
// package-level variable initialised with &T{…} and compared with == or !=
// somewhere in the module (true, false, undefined) makes T a singleton type:
// the conversion layer, Equals and the VM recognise the value by its address.
// No other composite literal or new(T) of such a type exists (the prototype
// handed to gob.Register aside; decoded values are normalised, GOB.3) - a
// Copy that allocates a fresh Bool yields a value that is true and yet is not
// TrueValue.
func ruleSING1(c *Ctx) {
	w := c.W
	p := w.Root
	// candidates: package-level vars initialised with &T{...}
	type single struct {
		v    types.Object
		t    *types.Named
		init *ast.CompositeLit
	}
	var singles []single
	for _, f := range p.Syntax {
		for _, d := range f.Decls {
			gd, ok := d.(*ast.GenDecl)
			if !ok || gd.Tok != token.VAR {
				continue
			}
			for _, sp := range gd.Specs {
				vs := sp.(*ast.ValueSpec)
				for i, nm := range vs.Names {
					if i >= len(vs.Values) {
						continue
					}
					u, ok := ast.Unparen(vs.Values[i]).(*ast.UnaryExpr)
					if !ok || u.Op != token.AND {
						continue
					}
					cl, ok := u.X.(*ast.CompositeLit)
					if !ok {
						continue
					}
					if nt, ok := p.TypesInfo.TypeOf(cl).(*types.Named); ok && nt.Obj().Pkg() == p.Types {
						singles = append(singles, single{p.TypesInfo.Defs[nm], nt, cl})
					}
				}
			}
		}
	}
	// compared by identity somewhere in the module
	compared := map[types.Object]bool{}
	for _, pk := range w.All {
		if !w.inModulePkg(pk.Types) {
			continue
		}
		for _, f := range pk.Syntax {
			ast.Inspect(f, func(nd ast.Node) bool {
				b, ok := nd.(*ast.BinaryExpr)
				if !ok || (b.Op != token.EQL && b.Op != token.NEQ) {
					return true
				}
				for _, e := range []ast.Expr{b.X, b.Y} {
					switch x := ast.Unparen(e).(type) {
					case *ast.Ident:
						compared[pk.TypesInfo.ObjectOf(x)] = true
					case *ast.SelectorExpr:
						compared[pk.TypesInfo.ObjectOf(x.Sel)] = true
					}
				}
				return true
			})
		}
	}
	stypes := map[*types.TypeName][]string{}
	inits := map[*ast.CompositeLit]bool{}
	isSingle := map[*types.TypeName]bool{}
	for _, s := range singles {
		if compared[s.v] {
			isSingle[s.t.Obj()] = true
		}
	}
	for _, s := range singles {
		// every package-level value of such a type is one of its singletons
		if isSingle[s.t.Obj()] {
			stypes[s.t.Obj()] = append(stypes[s.t.Obj()], s.v.Name())
			inits[s.init] = true
		}
	}
	if len(stypes) < 2 {
		c.fail("singleton/types", nil, fmt.Sprintf("expected the boolean and undefined singletons, found %d singleton types", len(stypes)))
		return
	}
	seq := seqKeys{}
	for _, pk := range w.All {
		if !w.inModulePkg(pk.Types) {
			continue
		}
		for _, f := range pk.Syntax {
			inspectWithStack(f, func(nd ast.Node, stack []ast.Node) bool {
				var tn *types.TypeName
				switch x := nd.(type) {
				case *ast.CompositeLit:
					if inits[x] {
						return true
					}
					if nt, ok := pk.TypesInfo.TypeOf(x).(*types.Named); ok {
						tn = nt.Obj()
					}
				case *ast.CallExpr:
					if IsBuiltinCall(pk, x, "new") && len(x.Args) == 1 {
						if nt, ok := pk.TypesInfo.TypeOf(x.Args[0]).(*types.Named); ok {
							tn = nt.Obj()
						}
					}
				}
				if tn == nil || stypes[tn] == nil {
					return true
				}
				// the prototype handed to gob.Register
				for i := len(stack) - 1; i >= 0; i-- {
					if call, ok := stack[i].(*ast.CallExpr); ok && FuncFullName(Callee(pk, call)) == "encoding/gob.Register" {
						c.ok(seq.next("singleton/"+tn.Name()+"/gob-prototype"), nd, "type registration prototype (decoded values are normalised to the singletons)")
						return true
					}
				}
				c.fail(seq.next("singleton/"+tn.Name()+"/"+w.ctxKey(nd.Pos())), nd, "a second "+tn.Name()+" value is made here, but "+strings.Join(stypes[tn], "/")+" are recognised by identity (== in the conversion functions, Equals and the VM): the new value is not equal to the singleton it stands for")
				return true
			})
		}
	}
	for tn, vs := range stypes {
		c.ok("singleton/"+tn.Name()+"/declared", nil, "singletons "+strings.Join(vs, ", ")+" are the only values of the type")
	}
}

// POS.2 (C14): files of a file set occupy disjoint position ranges. Containment
// is inclusive at both ends (SEARCH.1: Base <= p <= Base+Size; the end position
// is the position of EOF), so the file added next must start beyond
// Base+Size: AddFile advances the set's base by the size plus at least one.
func rulePOS2(c *Ctx) {
	w := c.W
	p := w.Parser
	fd := w.FuncDecl(p, "SourceFileSet.AddFile")
	if fd == nil {
		c.anchor("SourceFileSet.AddFile")
		return
	}
	// parameters: the int ones are base and size, in that order
	var ints []types.Object
	for _, f := range fd.Type.Params.List {
		for _, nm := range f.Names {
			o := p.TypesInfo.Defs[nm]
			if b, ok := o.Type().Underlying().(*types.Basic); ok && b.Kind() == types.Int {
				ints = append(ints, o)
			}
		}
	}
	if len(ints) != 2 {
		c.anchor("AddFile(name, base, size int)")
		return
	}
	// symbolic value of each int local/param
	vals := map[types.Object]lin{}
	fresh := 0
	sym := func(o types.Object) lin {
		if v, ok := vals[o]; ok {
			return v
		}
		return lin{fmt.Sprintf("%s@%d", o.Name(), o.Pos()): 1}
	}
	var linOf func(e ast.Expr) lin
	linOf = func(e ast.Expr) lin {
		e = ast.Unparen(e)
		if k, ok := ConstInt(p, e); ok {
			return konst(int(k))
		}
		switch x := e.(type) {
		case *ast.Ident:
			if o := p.TypesInfo.ObjectOf(x); o != nil {
				return sym(o)
			}
		case *ast.BinaryExpr:
			switch x.Op {
			case token.ADD:
				return linOf(x.X).add(linOf(x.Y), 1)
			case token.SUB:
				return linOf(x.X).add(linOf(x.Y), -1)
			}
		}
		return lin{"?" + w.SrcRecv(fd, e): 1}
	}
	var fileBase, fileSize, setBase lin
	var haveFile, haveSet bool
	var setNode ast.Node
	var walk func(list []ast.Stmt, nested bool)
	walk = func(list []ast.Stmt, nested bool) {
		for _, st := range list {
			switch x := st.(type) {
			case *ast.AssignStmt:
				if len(x.Lhs) != len(x.Rhs) {
					continue
				}
				for i, l := range x.Lhs {
					if id, ok := l.(*ast.Ident); ok {
						o := p.TypesInfo.ObjectOf(id)
						if b, ok := o.Type().Underlying().(*types.Basic); !ok || b.Kind() != types.Int {
							// a composite literal for the new file?
						} else if nested {
							fresh++
							vals[o] = lin{fmt.Sprintf("%s#%d", o.Name(), fresh): 1}
							continue
						} else {
							switch x.Tok {
							case token.ASSIGN, token.DEFINE:
								vals[o] = linOf(x.Rhs[i])
							case token.ADD_ASSIGN:
								vals[o] = sym(o).add(linOf(x.Rhs[i]), 1)
							case token.SUB_ASSIGN:
								vals[o] = sym(o).add(linOf(x.Rhs[i]), -1)
							}
							continue
						}
					}
					if f, _ := FieldSel(p, l); f != nil && f.Name() == "Base" && !nested {
						if b, ok := f.Type().Underlying().(*types.Basic); ok && b.Kind() == types.Int && namedIs(p.TypesInfo.TypeOf(l.(*ast.SelectorExpr).X), p.Types, "SourceFileSet") {
							setBase, haveSet, setNode = linOf(x.Rhs[i]), true, x
						}
					}
				}
				// the file literal
				for _, r := range x.Rhs {
					ast.Inspect(r, func(nd ast.Node) bool {
						cl, ok := nd.(*ast.CompositeLit)
						if !ok || !namedIs(p.TypesInfo.TypeOf(cl), p.Types, "SourceFile") {
							return true
						}
						for _, el := range cl.Elts {
							if kv, ok := el.(*ast.KeyValueExpr); ok {
								switch w.Src(kv.Key) {
								case "Base":
									fileBase, haveFile = linOf(kv.Value), true
								case "Size":
									fileSize = linOf(kv.Value)
								}
							}
						}
						return false
					})
				}
			case *ast.IfStmt:
				walk(x.Body.List, true)
				if eb, ok := x.Else.(*ast.BlockStmt); ok {
					walk(eb.List, true)
				}
			case *ast.BlockStmt:
				walk(x.List, nested)
			}
		}
	}
	walk(fd.Body.List, false)
	if !haveFile || !haveSet || fileSize == nil {
		c.undecided("file-ranges-disjoint", fd, "AddFile's file literal (Base, Size) or its store to the set's Base was not found")
		return
	}
	gap := setBase.add(fileBase, -1).add(fileSize, -1)
	okGap := true
	for t := range gap {
		if t != "" {
			okGap = false
		}
	}
	c.check(okGap && gap[""] >= 1, "file-ranges-disjoint", setNode, fmt.Sprintf("the next file starts %d beyond the end position of this one", gap[""]),
		fmt.Sprintf("the set's base after adding a file is the file's Base + Size + (%s): containment is inclusive of the end position Base+Size (the position of EOF), so the next file's first position must lie at least 1 beyond it - otherwise one position belongs to two files and an error at the first byte of a module is reported in the file added before it", gap))
}

// DEDUP.5 (C12): merging must not create sharing the program can see. Every
// `import("m")` of a builtin module adds its own constant - the Object the
// module's Import hands out, for BuiltinModule a fresh immutable map whose
// attributes are copies - so two imports are two objects; RemoveDuplicates
// merges immutable maps that carry the same module name into one. With a
// mutable attribute (an array or map among the attributes the embedder gave
// the module) a write through one import then shows through the other after
// de-duplication and not before. The rule re-derives the two halves; when both
// hold the merge is reported (a listed finding on the pinned tree).
func ruleDEDUP5(c *Ctx) {
	w := c.W
	p := w.Root
	rd := w.FuncDecl(p, "Bytecode.RemoveDuplicates")
	arm := w.compileArm("ImportExpr")
	if rd == nil || arm == nil {
		c.anchor("Bytecode.RemoveDuplicates / Compile arm for *parser.ImportExpr")
		return
	}
	// (a) the ImmutableMap arm maps an index to one seen before
	var mergeArm *ast.CaseClause
	ast.Inspect(rd.Body, func(nd ast.Node) bool {
		cc, ok := nd.(*ast.CaseClause)
		if !ok || len(cc.List) != 1 {
			return true
		}
		if tv, ok := p.TypesInfo.Types[cc.List[0]]; ok && tv.IsType() && namedIs(tv.Type, p.Types, "ImmutableMap") {
			// a map lookup whose result is stored as the new index
			if containsNode(cc, func(m ast.Node) bool {
				as, ok := m.(*ast.AssignStmt)
				if !ok || len(as.Rhs) != 1 {
					return false
				}
				ix, ok := ast.Unparen(as.Rhs[0]).(*ast.IndexExpr)
				if !ok {
					return false
				}
				_, isMap := p.TypesInfo.TypeOf(ix.X).Underlying().(*types.Map)
				return isMap && len(as.Lhs) == 2
			}) {
				mergeArm = cc
			}
		}
		return true
	})
	// (b) every import of a builtin module adds the freshly imported object
	fresh := false
	ast.Inspect(arm, func(nd ast.Node) bool {
		call, ok := nd.(*ast.CallExpr)
		if !ok || !isMethodOf(Callee(p, call), p.Types, "Compiler", "addConstant") || len(call.Args) != 1 {
			return true
		}
		id, ok := ast.Unparen(call.Args[0]).(*ast.Ident)
		if !ok {
			return true
		}
		// the variable of a type switch over the result of Importable.Import
		if t := p.TypesInfo.TypeOf(id); t != nil && types.TypeString(t, func(*types.Package) string { return "" }) == "Object" {
			if containsNode(arm, func(m ast.Node) bool {
				c2, ok := m.(*ast.CallExpr)
				return ok && Callee(p, c2) != nil && Callee(p, c2).Name() == "Import"
			}) {
				fresh = true
			}
		}
		return true
	})
	switch {
	case mergeArm != nil && fresh:
		c.fail("dedup-merges/builtin-module-instances", mergeArm, "every import of a builtin module adds its own freshly made constant (attributes copied), and RemoveDuplicates merges the constants of one module into one object: a write through one import to a mutable attribute is seen through the other import after de-duplication and not before")
	case mergeArm == nil:
		c.ok("dedup-merges/builtin-module-instances", rd, "module constants are not merged")
	default:
		c.ok("dedup-merges/builtin-module-instances", arm, "imports of one module share one constant before de-duplication too")
	}
}

// BLT.1 (C01): the builtin table. (a) every entry binds its name to the
// function that is spelled like it (is_immutable_map -> builtinIsImmutableMap);
// (b) the documented builtins are the table's; (c) every is_<type> predicate
// answers true for exactly the type its name says: the set of types under
// whose assertion (or switch case) it returns the true singleton is {Type},
// and everything else falls to the false singleton.
func ruleBLT1(c *Ctx) {
	w := c.W
	p := w.Root
	lit := w.pkgVarLit(p, "builtinFuncs")
	if lit == nil {
		c.anchor("builtinFuncs")
		return
	}
	camel := func(s string) string {
		var b strings.Builder
		for _, part := range strings.Split(s, "_") {
			if part != "" {
				b.WriteString(strings.ToUpper(part[:1]) + part[1:])
			}
		}
		return b.String()
	}
	names := map[string]bool{}
	trueObj := p.Types.Scope().Lookup("TrueValue")
	falseObj := p.Types.Scope().Lookup("FalseValue")
	for _, el := range lit.Elts {
		cl, ok := el.(*ast.CompositeLit)
		if !ok {
			if u, isU := el.(*ast.UnaryExpr); isU {
				cl, ok = u.X.(*ast.CompositeLit)
			}
		}
		if !ok {
			continue
		}
		var name string
		var fn *types.Func
		for _, f := range cl.Elts {
			kv, ok := f.(*ast.KeyValueExpr)
			if !ok {
				continue
			}
			switch w.Src(kv.Key) {
			case "Name":
				if tv, ok := p.TypesInfo.Types[kv.Value]; ok && tv.Value != nil {
					name, _ = strconv.Unquote(tv.Value.ExactString())
				}
			case "Value":
				if id, ok := ast.Unparen(kv.Value).(*ast.Ident); ok {
					fn, _ = p.TypesInfo.ObjectOf(id).(*types.Func)
				}
			}
		}
		if name == "" {
			c.undecided("builtin/entry", cl, "a builtin table entry without a constant name")
			continue
		}
		names[name] = true
		want := "builtin" + camel(name)
		c.check(fn != nil && fn.Name() == want, "builtin/"+name+"/bound", cl, "bound to "+want, "the builtin "+name+" is bound to "+func() string {
			if fn == nil {
				return "a value that is not a declared function"
			}
			return fn.Name()
		}()+", expected the function spelled like it ("+want+")")
		if !strings.HasPrefix(name, "is_") || fn == nil {
			continue
		}
		fd := w.FuncDecl(p, fn.Name())
		if fd == nil {
			c.anchor(fn.Name())
			continue
		}
		tn := camel(strings.TrimPrefix(name, "is_"))
		switch tn {
		case "Function":
			tn = "CompiledFunction"
		}
		// what the predicate tests
		var trueTypes []string
		other := ""
		ast.Inspect(fd.Body, func(nd ast.Node) bool {
			retTrue := func(body []ast.Stmt) bool {
				for _, st := range body {
					if r, ok := st.(*ast.ReturnStmt); ok && len(r.Results) >= 1 {
						if id, ok := ast.Unparen(r.Results[0]).(*ast.Ident); ok && p.TypesInfo.ObjectOf(id) == trueObj {
							return true
						}
					}
				}
				return false
			}
			switch x := nd.(type) {
			case *ast.IfStmt:
				if !retTrue(x.Body.List) {
					return true
				}
				var ta *ast.TypeAssertExpr
				if as, ok := x.Init.(*ast.AssignStmt); ok && len(as.Rhs) == 1 {
					ta, _ = ast.Unparen(as.Rhs[0]).(*ast.TypeAssertExpr)
				}
				if ta != nil && ta.Type != nil {
					n, _ := namedName(p.TypesInfo.TypeOf(ta.Type))
					trueTypes = append(trueTypes, n)
				} else {
					other = w.Src(x.Cond)
				}
			case *ast.CaseClause:
				if !retTrue(x.Body) {
					return true
				}
				for _, e := range x.List {
					if tv, ok := p.TypesInfo.Types[e]; ok && tv.IsType() {
						n, _ := namedName(tv.Type)
						trueTypes = append(trueTypes, n)
					}
				}
			}
			return true
		})
		endsFalse := false
		if n := len(fd.Body.List); n > 0 {
			if r, ok := fd.Body.List[n-1].(*ast.ReturnStmt); ok && len(r.Results) >= 1 {
				if id, ok := ast.Unparen(r.Results[0]).(*ast.Ident); ok && p.TypesInfo.ObjectOf(id) == falseObj {
					endsFalse = true
				}
			}
		}
		key := "builtin/" + name + "/tests"
		switch tn {
		case "Undefined", "Callable", "Iterable":
			wantCond := map[string]string{"Undefined": "UndefinedValue", "Callable": "CanCall()", "Iterable": "CanIterate()"}[tn]
			c.check(len(trueTypes) == 0 && strings.Contains(other, wantCond) && !strings.Contains(other, "!") && endsFalse, key, fd, "true exactly when "+other, name+" answers true under `"+other+"` / for the types "+strings.Join(trueTypes, ",")+"; expected the test "+wantCond)
		default:
			c.check(len(trueTypes) == 1 && trueTypes[0] == tn && other == "" && endsFalse, key, fd, "true exactly for *"+tn, fmt.Sprintf("%s answers true for the types [%s]%s; expected exactly *%s and false otherwise", name, strings.Join(trueTypes, ", "), map[bool]string{true: " and under `" + other + "`", false: ""}[other != ""], tn))
		}
	}
	// (b) docs/builtins.md
	doc, err := readRepoFile(w, "docs/builtins.md")
	if err != nil {
		c.anchor("docs/builtins.md")
		return
	}
	documented := map[string]bool{}
	for _, l := range strings.Split(doc, "\n") {
		if strings.HasPrefix(l, "## ") {
			documented[strings.TrimSpace(strings.TrimPrefix(l, "## "))] = true
		}
	}
	undocumented := map[string]string{"range": "added after the document was written (docs/builtins.md has no section for it)"}
	for n := range names {
		if _, tabled := undocumented[n]; tabled && !documented[n] {
			c.ok("builtin/"+n+"/documented", nil, "tabled: "+undocumented[n])
			continue
		}
		c.check(documented[n], "builtin/"+n+"/documented", nil, "has a section in docs/builtins.md", "the builtin "+n+" is not documented in docs/builtins.md")
	}
	for n := range documented {
		if !names[n] {
			c.fail("builtin/"+n+"/exists", nil, "docs/builtins.md documents "+n+", which is not in the builtin table")
		}
	}
}
