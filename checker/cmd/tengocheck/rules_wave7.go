package main

// rules_wave7.go: rules added after the fourth round of seeded changes.
//   RET.2  (C02)      `return` is rejected outside a function: the scope test skips blocks
//   OPT.5  (C03)      every jump's destination is registered, unconditionally
//   SYM.3  (C01, C11) the name a `:=` defines comes into scope after its right side, except for a function literal
//   DEDUP.4 (C12)     float constants come from literals only (premise of keying them by ==)

import (
	"fmt"
	"go/ast"
	"go/token"
	"go/types"
	"strconv"
	"strings"
)

// scopeTest: e is `X.Parent(a) == nil` or `!= nil`; returns the call and whether it is the == form.
func scopeTest(w *World, e ast.Expr) (*ast.CallExpr, bool, bool) {
	p := w.Root
	b, ok := ast.Unparen(e).(*ast.BinaryExpr)
	if !ok || (b.Op != token.EQL && b.Op != token.NEQ) {
		return nil, false, false
	}
	var other ast.Expr
	switch {
	case isNilIdent(b.Y):
		other = b.X
	case isNilIdent(b.X):
		other = b.Y
	default:
		return nil, false, false
	}
	call, ok := ast.Unparen(other).(*ast.CallExpr)
	if !ok || !isMethodOf(Callee(p, call), p.Types, "SymbolTable", "Parent") || len(call.Args) != 1 {
		return nil, false, false
	}
	return call, b.Op == token.EQL, true
}

func constBool(p pkgT, e ast.Expr) (bool, bool) {
	tv, ok := p.TypesInfo.Types[e]
	if !ok || tv.Value == nil {
		return false, false
	}
	s := tv.Value.String()
	if s == "true" {
		return true, true
	}
	if s == "false" {
		return false, true
	}
	return false, false
}

// RET.2: "is there an enclosing function" is asked of the symbol table with
// blocks skipped. Parent(false) of a block scope is the scope around the block
// - not nil inside any `if` or `for` at top level - so a test written with it
// lets `return` through in a top-level block: RET lands in the main function,
// where the VM has no frame to return to.
func ruleRET2(c *Ctx) {
	w := c.W
	p := w.Root
	seq := seqKeys{}
	n := 0
	w.AllFuncDecls(p, func(fd *ast.FuncDecl) {
		ast.Inspect(fd.Body, func(nd ast.Node) bool {
			e, ok := nd.(*ast.BinaryExpr)
			if !ok {
				return true
			}
			call, _, ok := scopeTest(w, e)
			if !ok {
				return true
			}
			n++
			v, known := constBool(p, call.Args[0])
			c.check(known && v, seq.next("scope-test/"+funcKey(fd)), call, "the test for 'no enclosing function' skips block scopes",
				"the symbol table is asked for its parent with skipBlock = "+w.Src(call.Args[0])+" and the answer compared with nil: inside a block (if, for, for-in, nested braces) the parent is the scope around the block, never nil, so the test takes a top-level block for a function body")
			return true
		})
	})
	arm := w.compileArm("ReturnStmt")
	if arm == nil {
		c.anchor("Compile arm for *parser.ReturnStmt")
		return
	}
	comp := w.FuncDecl(p, "Compiler.Compile")
	m := 0
	for _, es := range w.emitSites() {
		if es.Kind != "emit" || es.Call.Pos() < arm.Pos() || es.Call.End() > arm.End() {
			continue
		}
		isRet := false
		for _, op := range es.Ops {
			if op == "OpReturn" {
				isRet = true
			}
		}
		if !isRet {
			continue
		}
		m++
		var stack []ast.Node
		inspectWithStack(comp, func(nd ast.Node, st []ast.Node) bool {
			if nd == ast.Node(es.Call) {
				stack = append([]ast.Node{}, st...)
			}
			return true
		})
		// outside(e): e is true exactly when there is no enclosing function
		// (the scope test itself, its negation, or a boolean local defined
		// once from one of these)
		var outside func(e ast.Expr, depth int) (bool, bool)
		outside = func(e ast.Expr, depth int) (bool, bool) {
			e = ast.Unparen(e)
			if u, ok := e.(*ast.UnaryExpr); ok && u.Op == token.NOT {
				v, ok := outside(u.X, depth)
				return !v, ok
			}
			if _, eq, ok := scopeTest(w, e); ok {
				return eq, true
			}
			if id, ok := e.(*ast.Ident); ok && depth < 3 {
				obj := p.TypesInfo.ObjectOf(id)
				var def ast.Expr
				defs := 0
				ast.Inspect(comp.Body, func(m ast.Node) bool {
					as, ok := m.(*ast.AssignStmt)
					if !ok || len(as.Lhs) != len(as.Rhs) {
						return true
					}
					for i, l := range as.Lhs {
						if lid, ok := l.(*ast.Ident); ok && p.TypesInfo.ObjectOf(lid) == obj {
							defs++
							def = as.Rhs[i]
						}
					}
					return true
				})
				if defs == 1 {
					return outside(def, depth+1)
				}
			}
			return false, false
		}
		guarded := false
		for _, g := range precedingGuards(stack) {
			for _, d := range splitOr(g.Cond) {
				if v, ok := outside(d, 0); ok && v {
					guarded = true
				}
			}
		}
		for i, nd := range stack {
			if is, ok := nd.(*ast.IfStmt); ok && i+1 < len(stack) {
				if stack[i+1] == ast.Node(is.Body) {
					for _, conj := range splitAnd(is.Cond) {
						if v, ok := outside(conj, 0); ok && !v {
							guarded = true
						}
					}
				}
				if is.Else != nil && stack[i+1] == ast.Node(is.Else) {
					for _, d := range splitOr(is.Cond) {
						if v, ok := outside(d, 0); ok && v {
							guarded = true
						}
					}
				}
			}
		}
		c.check(guarded, seq.next("return-inside-function"), es.Call, "RET is emitted only behind the test that rejects `return` outside a function",
			"the return arm emits RET without first rejecting a `return` that has no enclosing function: in the main function the VM's return arm has no caller frame")
	}
	if n < 2 || m < 1 {
		c.fail("scope-test/count", arm, fmt.Sprintf("expected the scope tests of Define and of the return arm and the RET emits, found %d tests, %d emits", n, m))
	}
}

func splitOr(e ast.Expr) []ast.Expr {
	if b, ok := ast.Unparen(e).(*ast.BinaryExpr); ok && b.Op == token.LOR {
		return append(splitOr(b.X), splitOr(b.Y)...)
	}
	return []ast.Expr{e}
}

func funcKey(fd *ast.FuncDecl) string {
	if fd.Recv != nil && len(fd.Recv.List) == 1 {
		t := fd.Recv.List[0].Type
		if s, ok := t.(*ast.StarExpr); ok {
			t = s.X
		}
		if id, ok := t.(*ast.Ident); ok {
			return id.Name + "." + fd.Name.Name
		}
	}
	return fd.Name.Name
}

// OPT.5: the set of jump destinations that ends dead regions holds the target
// of every jump. In optimizeFunc the set is the map consulted by the
// `case set[pos]:` clause that revives code; every store into it sits under
// nothing but the dispatch on the opcode - no condition on the operands or on
// the position (a backward jump's target is a destination like any other: the
// loop head of a loop inside dead code is reached only through it).
func ruleOPT5(c *Ctx) {
	w := c.W
	p := w.Root
	opt := w.FuncDecl(p, "Compiler.optimizeFunc")
	if opt == nil {
		c.anchor("Compiler.optimizeFunc")
		return
	}
	// the destination set
	var set types.Object
	ast.Inspect(opt.Body, func(nd ast.Node) bool {
		cc, ok := nd.(*ast.CaseClause)
		if !ok || len(cc.List) != 1 {
			return true
		}
		ix, ok := ast.Unparen(cc.List[0]).(*ast.IndexExpr)
		if !ok {
			return true
		}
		if id, ok := ast.Unparen(ix.X).(*ast.Ident); ok {
			if _, isMap := p.TypesInfo.TypeOf(id).Underlying().(*types.Map); isMap {
				set = p.TypesInfo.ObjectOf(id)
			}
		}
		return true
	})
	if set == nil {
		c.anchor("the jump-destination set of optimizeFunc (case set[pos])")
		return
	}
	n := 0
	seq := seqKeys{}
	inspectWithStack(opt.Body, func(nd ast.Node, stack []ast.Node) bool {
		as, ok := nd.(*ast.AssignStmt)
		if !ok || len(as.Lhs) != 1 {
			return true
		}
		ix, ok := ast.Unparen(as.Lhs[0]).(*ast.IndexExpr)
		if !ok {
			return true
		}
		id, ok := ast.Unparen(ix.X).(*ast.Ident)
		if !ok || p.TypesInfo.ObjectOf(id) != set {
			return true
		}
		n++
		// ancestors up to the callback: only the dispatch on the opcode
		var fl *ast.FuncLit
		var opParam types.Object
		for i := len(stack) - 1; i >= 0; i-- {
			if f, ok := stack[i].(*ast.FuncLit); ok {
				fl = f
				break
			}
		}
		if fl != nil {
			for _, f := range fl.Type.Params.List {
				for _, nm := range f.Names {
					if o := p.TypesInfo.Defs[nm]; o != nil && strings.HasSuffix(types.TypeString(o.Type(), nil), "parser.Opcode") {
						opParam = o
					}
				}
			}
		}
		onlyOpcode := func(e ast.Expr) bool {
			// the condition mentions no variable other than the opcode parameter
			ok := true
			ast.Inspect(e, func(m ast.Node) bool {
				if id, isId := m.(*ast.Ident); isId {
					if v, isVar := p.TypesInfo.ObjectOf(id).(*types.Var); isVar && !v.IsField() && types.Object(v) != opParam {
						ok = false
					}
				}
				return ok
			})
			return ok
		}
		var cond []string
		started := fl == nil
		for i, a := range stack {
			if a == ast.Node(fl) {
				started = true
				continue
			}
			if !started {
				continue
			}
			switch x := a.(type) {
			case *ast.IfStmt:
				if !onlyOpcode(x.Cond) {
					cond = append(cond, "if "+w.Src(x.Cond))
				}
			case *ast.SwitchStmt:
				if x.Tag != nil && !onlyOpcode(x.Tag) {
					cond = append(cond, "switch "+w.Src(x.Tag))
				}
			case *ast.CaseClause:
				if i > 0 {
					if sw, ok := stack[i-1].(*ast.BlockStmt); ok && i > 1 {
						if s2, ok := stack[i-2].(*ast.SwitchStmt); ok && s2.Body == sw && s2.Tag == nil {
							for _, e := range x.List {
								if !onlyOpcode(e) {
									cond = append(cond, "case "+w.Src(e))
								}
							}
						}
					}
				}
			case *ast.ForStmt, *ast.RangeStmt:
				cond = append(cond, "a loop")
			}
		}
		c.check(len(cond) == 0, seq.next("destination-registered"), as, "registered for every jump (only the dispatch on the opcode stands above the store)",
			"a jump's target is entered into the destination set only under "+strings.Join(cond, ", ")+": the targets left out do not end a dead region, so live code behind a return is removed (or a surviving jump points at a removed instruction)")
		return true
	})
	if n < 1 {
		c.fail("destination-registered/count", opt, "no store into the destination set found")
	}
}

// SYM.3: a name defined by `:=` is in scope in its own right-hand side only
// when the right-hand side is a function literal (so that the function can
// call itself). In compileAssign the Define that runs before the right side
// is compiled is taken exactly when a flag holds whose one definition is the
// comma-ok assertion of the right side to *parser.FuncLit; the Define after
// it exactly when the flag does not hold.
func ruleSYM3(c *Ctx) {
	w := c.W
	p := w.Root
	fd := w.FuncDecl(p, "Compiler.compileAssign")
	if fd == nil {
		c.anchor("Compiler.compileAssign")
		return
	}
	// the loop that compiles the right-hand sides: a range over a []parser.Expr parameter whose body calls Compile
	var loop *ast.RangeStmt
	var rhs types.Object
	ast.Inspect(fd.Body, func(nd ast.Node) bool {
		r, ok := nd.(*ast.RangeStmt)
		if !ok || loop != nil {
			return true
		}
		id, ok := ast.Unparen(r.X).(*ast.Ident)
		if !ok {
			return true
		}
		o := p.TypesInfo.ObjectOf(id)
		if _, isParam := paramIndex(p, fd, o); !isParam {
			return true
		}
		if containsNode(r.Body, func(m ast.Node) bool {
			call, ok := m.(*ast.CallExpr)
			return ok && isMethodOf(Callee(p, call), p.Types, "Compiler", "Compile")
		}) {
			loop, rhs = r, o
		}
		return true
	})
	if loop == nil {
		c.anchor("the loop of compileAssign that compiles the right-hand sides")
		return
	}
	// candidate flags: bool locals defined by `_, f := rhs[i].(*parser.FuncLit)`
	flags := map[types.Object]bool{}
	writes := map[types.Object]int{}
	ast.Inspect(fd.Body, func(nd ast.Node) bool {
		as, ok := nd.(*ast.AssignStmt)
		if !ok {
			return true
		}
		for _, l := range as.Lhs {
			if id, ok := l.(*ast.Ident); ok && id.Name != "_" {
				if o := p.TypesInfo.ObjectOf(id); o != nil {
					writes[o]++
				}
			}
		}
		if len(as.Lhs) == 2 && len(as.Rhs) == 1 {
			ta, ok := ast.Unparen(as.Rhs[0]).(*ast.TypeAssertExpr)
			if !ok || ta.Type == nil {
				return true
			}
			if !namedIs(p.TypesInfo.TypeOf(ta.Type), w.Parser.Types, "FuncLit") {
				return true
			}
			ix, ok := ast.Unparen(ta.X).(*ast.IndexExpr)
			if !ok {
				return true
			}
			if bid, ok := ast.Unparen(ix.X).(*ast.Ident); !ok || p.TypesInfo.ObjectOf(bid) != rhs {
				return true
			}
			if id, ok := as.Lhs[1].(*ast.Ident); ok && id.Name != "_" {
				flags[p.TypesInfo.ObjectOf(id)] = true
			}
		}
		return true
	})
	// three-valued evaluation of a condition for a given value of the flag
	var eval func(e ast.Expr, flag types.Object, v bool) (bool, bool)
	eval = func(e ast.Expr, flag types.Object, v bool) (bool, bool) {
		switch x := ast.Unparen(e).(type) {
		case *ast.Ident:
			if p.TypesInfo.ObjectOf(x) == flag {
				return v, true
			}
			if b, ok := constBool(p, x); ok {
				return b, true
			}
		case *ast.UnaryExpr:
			if x.Op == token.NOT {
				r, ok := eval(x.X, flag, v)
				return !r, ok
			}
		case *ast.BinaryExpr:
			l, okl := eval(x.X, flag, v)
			r, okr := eval(x.Y, flag, v)
			switch x.Op {
			case token.LAND:
				if (okl && !l) || (okr && !r) {
					return false, true
				}
				return l && r, okl && okr
			case token.LOR:
				if (okl && l) || (okr && r) {
					return true, true
				}
				return l || r, okl && okr
			case token.EQL:
				return l == r, okl && okr
			case token.NEQ:
				return l != r, okl && okr
			}
		}
		return false, false
	}
	// can the node be reached when flag == v? (false only when some enclosing condition rules it out)
	reachable := func(stack []ast.Node, flag types.Object, v bool) bool {
		for i, a := range stack {
			is, ok := a.(*ast.IfStmt)
			if !ok || i+1 >= len(stack) {
				continue
			}
			r, known := eval(is.Cond, flag, v)
			if !known {
				continue
			}
			if stack[i+1] == ast.Node(is.Body) && !r {
				return false
			}
			if is.Else != nil && stack[i+1] == ast.Node(is.Else) && r {
				return false
			}
		}
		return true
	}
	early, late := 0, 0
	seq := seqKeys{}
	inspectWithStack(fd.Body, func(nd ast.Node, stack []ast.Node) bool {
		call, ok := nd.(*ast.CallExpr)
		if !ok || !isMethodOf(Callee(p, call), p.Types, "SymbolTable", "Define") {
			return true
		}
		isEarly := call.Pos() < loop.Pos()
		// a flag with one definition that separates the two cases
		good := false
		for f := range flags {
			if writes[f] != 1 {
				continue
			}
			if isEarly && !reachable(stack, f, false) {
				good = true
			}
			if !isEarly && !reachable(stack, f, true) {
				good = true
			}
		}
		if isEarly {
			early++
			c.check(good, seq.next("define-before-rhs"), call, "only when the right-hand side is a function literal",
				"the variable is defined before its right-hand side is compiled under a condition that is not exactly 'the right-hand side is a function literal': the right side then resolves the name to the variable being declared instead of the enclosing one (or compiles a program that must be rejected as an unresolved reference)")
		} else {
			late++
			c.check(good, seq.next("define-after-rhs"), call, "exactly when the right-hand side is not a function literal",
				"the definition after the right-hand side is not the exact complement of the early definition for function literals")
		}
		return true
	})
	if early != 1 || late != 1 {
		c.fail("define-order/count", fd, fmt.Sprintf("expected one definition before and one after the right-hand side, found %d and %d", early, late))
	}
}

func paramIndex(p pkgT, fd *ast.FuncDecl, o types.Object) (int, bool) {
	i := 0
	for _, f := range fd.Type.Params.List {
		for _, nm := range f.Names {
			if p.TypesInfo.Defs[nm] == o {
				return i, true
			}
			i++
		}
	}
	return 0, false
}

// DEDUP.4: RemoveDuplicates keys float constants by ==, under which 0.0 and
// -0.0 are one key although a program tells them apart (1/x). That is sound
// as long as the compiler creates float constants from literals only, which
// have no sign. Every &Float{…} the compiler adds to the constant pool takes
// its value straight from a *parser.FloatLit - or the key is bit-exact.
func ruleDEDUP4(c *Ctx) {
	w := c.W
	p := w.Root
	rd := w.FuncDecl(p, "Bytecode.RemoveDuplicates")
	if rd == nil {
		c.anchor("Bytecode.RemoveDuplicates")
		return
	}
	floatKeyed := containsNode(rd.Body, func(nd ast.Node) bool {
		e, ok := nd.(ast.Expr)
		if !ok {
			return false
		}
		tv, ok := p.TypesInfo.Types[e]
		if !ok || !tv.IsType() {
			return false
		}
		m, ok := tv.Type.Underlying().(*types.Map)
		if !ok {
			return false
		}
		b, ok := m.Key().Underlying().(*types.Basic)
		return ok && b.Info()&types.IsFloat != 0
	})
	n := 0
	seq := seqKeys{}
	w.AllFuncDecls(p, func(fd *ast.FuncDecl) {
		if fd.Recv == nil || funcKey(fd)[:strings.Index(funcKey(fd)+".", ".")] != "Compiler" {
			return
		}
		ast.Inspect(fd.Body, func(nd ast.Node) bool {
			call, ok := nd.(*ast.CallExpr)
			if !ok || !isMethodOf(Callee(p, call), p.Types, "Compiler", "addConstant") || len(call.Args) != 1 {
				return true
			}
			u, ok := ast.Unparen(call.Args[0]).(*ast.UnaryExpr)
			if !ok || u.Op != token.AND {
				return true
			}
			cl, ok := u.X.(*ast.CompositeLit)
			if !ok || !namedIs(p.TypesInfo.TypeOf(cl), p.Types, "Float") {
				return true
			}
			n++
			fromLit := false
			for _, el := range cl.Elts {
				v := el
				if kv, ok := el.(*ast.KeyValueExpr); ok {
					v = kv.Value
				}
				if f, x := FieldSel(p, v); f != nil && namedIs(p.TypesInfo.TypeOf(x), w.Parser.Types, "FloatLit") {
					fromLit = true
				}
			}
			c.check(fromLit || !floatKeyed, seq.next("float-constant/"+funcKey(fd)), call, "the value is a float literal's (no sign, no NaN), or the de-duplication key is bit-exact",
				"the compiler adds a float constant computed from "+w.Src(cl)+" while RemoveDuplicates keys floats by ==: a constant -0.0 is merged with 0.0 (and the program tells them apart by 1/x)")
			return true
		})
	})
	if n < 1 {
		c.fail("float-constant/count", rd, "no float constant site found in the compiler")
	}
}

// SING.1 (C15, C10, C12): values compared by identity are never re-made. A
// package-level variable initialised with &T{…} and compared with == or !=
// somewhere in the module (true, false, undefined) makes T a singleton type:
// the conversion layer, Equals and the VM recognise the value by its address.
// No other composite literal or new(T) of such a type exists (the prototype
// handed to gob.Register aside; decoded values are normalised, GOB.3) - a
// Copy that allocates a fresh Bool yields a value that is true and yet is not
// TrueValue.
func ruleSING1(c *Ctx) {
	w := c.W
	p := w.Root
	// candidates: package-level vars initialised with &T{...}
	type single struct {
		v    types.Object
		t    *types.Named
		init *ast.CompositeLit
	}
	var singles []single
	for _, f := range p.Syntax {
		for _, d := range f.Decls {
			gd, ok := d.(*ast.GenDecl)
			if !ok || gd.Tok != token.VAR {
				continue
			}
			for _, sp := range gd.Specs {
				vs := sp.(*ast.ValueSpec)
				for i, nm := range vs.Names {
					if i >= len(vs.Values) {
						continue
					}
					u, ok := ast.Unparen(vs.Values[i]).(*ast.UnaryExpr)
					if !ok || u.Op != token.AND {
						continue
					}
					cl, ok := u.X.(*ast.CompositeLit)
					if !ok {
						continue
					}
					if nt, ok := p.TypesInfo.TypeOf(cl).(*types.Named); ok && nt.Obj().Pkg() == p.Types {
						singles = append(singles, single{p.TypesInfo.Defs[nm], nt, cl})
					}
				}
			}
		}
	}
	// compared by identity somewhere in the module
	compared := map[types.Object]bool{}
	for _, pk := range w.All {
		if !w.inModulePkg(pk.Types) {
			continue
		}
		for _, f := range pk.Syntax {
			ast.Inspect(f, func(nd ast.Node) bool {
				b, ok := nd.(*ast.BinaryExpr)
				if !ok || (b.Op != token.EQL && b.Op != token.NEQ) {
					return true
				}
				for _, e := range []ast.Expr{b.X, b.Y} {
					switch x := ast.Unparen(e).(type) {
					case *ast.Ident:
						compared[pk.TypesInfo.ObjectOf(x)] = true
					case *ast.SelectorExpr:
						compared[pk.TypesInfo.ObjectOf(x.Sel)] = true
					}
				}
				return true
			})
		}
	}
	stypes := map[*types.TypeName][]string{}
	inits := map[*ast.CompositeLit]bool{}
	isSingle := map[*types.TypeName]bool{}
	for _, s := range singles {
		if compared[s.v] {
			isSingle[s.t.Obj()] = true
		}
	}
	for _, s := range singles {
		// every package-level value of such a type is one of its singletons
		if isSingle[s.t.Obj()] {
			stypes[s.t.Obj()] = append(stypes[s.t.Obj()], s.v.Name())
			inits[s.init] = true
		}
	}
	if len(stypes) < 2 {
		c.fail("singleton/types", nil, fmt.Sprintf("expected the boolean and undefined singletons, found %d singleton types", len(stypes)))
		return
	}
	seq := seqKeys{}
	for _, pk := range w.All {
		if !w.inModulePkg(pk.Types) {
			continue
		}
		for _, f := range pk.Syntax {
			inspectWithStack(f, func(nd ast.Node, stack []ast.Node) bool {
				var tn *types.TypeName
				switch x := nd.(type) {
				case *ast.CompositeLit:
					if inits[x] {
						return true
					}
					if nt, ok := pk.TypesInfo.TypeOf(x).(*types.Named); ok {
						tn = nt.Obj()
					}
				case *ast.CallExpr:
					if IsBuiltinCall(pk, x, "new") && len(x.Args) == 1 {
						if nt, ok := pk.TypesInfo.TypeOf(x.Args[0]).(*types.Named); ok {
							tn = nt.Obj()
						}
					}
				}
				if tn == nil || stypes[tn] == nil {
					return true
				}
				// the prototype handed to gob.Register
				for i := len(stack) - 1; i >= 0; i-- {
					if call, ok := stack[i].(*ast.CallExpr); ok && FuncFullName(Callee(pk, call)) == "encoding/gob.Register" {
						c.ok(seq.next("singleton/"+tn.Name()+"/gob-prototype"), nd, "type registration prototype (decoded values are normalised to the singletons)")
						return true
					}
				}
				c.fail(seq.next("singleton/"+tn.Name()+"/"+w.ctxKey(nd.Pos())), nd, "a second "+tn.Name()+" value is made here, but "+strings.Join(stypes[tn], "/")+" are recognised by identity (== in the conversion functions, Equals and the VM): the new value is not equal to the singleton it stands for")
				return true
			})
		}
	}
	for tn, vs := range stypes {
		c.ok("singleton/"+tn.Name()+"/declared", nil, "singletons "+strings.Join(vs, ", ")+" are the only values of the type")
	}
}

// POS.2 (C14): files of a file set occupy disjoint position ranges. Containment
// is inclusive at both ends (SEARCH.1: Base <= p <= Base+Size; the end position
// is the position of EOF), so the file added next must start beyond
// Base+Size: AddFile advances the set's base by the size plus at least one.
func rulePOS2(c *Ctx) {
	w := c.W
	p := w.Parser
	fd := w.FuncDecl(p, "SourceFileSet.AddFile")
	if fd == nil {
		c.anchor("SourceFileSet.AddFile")
		return
	}
	// parameters: the int ones are base and size, in that order
	var ints []types.Object
	for _, f := range fd.Type.Params.List {
		for _, nm := range f.Names {
			o := p.TypesInfo.Defs[nm]
			if b, ok := o.Type().Underlying().(*types.Basic); ok && b.Kind() == types.Int {
				ints = append(ints, o)
			}
		}
	}
	if len(ints) != 2 {
		c.anchor("AddFile(name, base, size int)")
		return
	}
	// symbolic value of each int local/param
	vals := map[types.Object]lin{}
	fresh := 0
	sym := func(o types.Object) lin {
		if v, ok := vals[o]; ok {
			return v
		}
		return lin{fmt.Sprintf("%s@%d", o.Name(), o.Pos()): 1}
	}
	var linOf func(e ast.Expr) lin
	linOf = func(e ast.Expr) lin {
		e = ast.Unparen(e)
		if k, ok := ConstInt(p, e); ok {
			return konst(int(k))
		}
		switch x := e.(type) {
		case *ast.Ident:
			if o := p.TypesInfo.ObjectOf(x); o != nil {
				return sym(o)
			}
		case *ast.BinaryExpr:
			switch x.Op {
			case token.ADD:
				return linOf(x.X).add(linOf(x.Y), 1)
			case token.SUB:
				return linOf(x.X).add(linOf(x.Y), -1)
			}
		}
		return lin{"?" + w.SrcRecv(fd, e): 1}
	}
	var fileBase, fileSize, setBase lin
	var haveFile, haveSet bool
	var setNode ast.Node
	var walk func(list []ast.Stmt, nested bool)
	walk = func(list []ast.Stmt, nested bool) {
		for _, st := range list {
			switch x := st.(type) {
			case *ast.AssignStmt:
				if len(x.Lhs) != len(x.Rhs) {
					continue
				}
				for i, l := range x.Lhs {
					if id, ok := l.(*ast.Ident); ok {
						o := p.TypesInfo.ObjectOf(id)
						if b, ok := o.Type().Underlying().(*types.Basic); !ok || b.Kind() != types.Int {
							// a composite literal for the new file?
						} else if nested {
							fresh++
							vals[o] = lin{fmt.Sprintf("%s#%d", o.Name(), fresh): 1}
							continue
						} else {
							switch x.Tok {
							case token.ASSIGN, token.DEFINE:
								vals[o] = linOf(x.Rhs[i])
							case token.ADD_ASSIGN:
								vals[o] = sym(o).add(linOf(x.Rhs[i]), 1)
							case token.SUB_ASSIGN:
								vals[o] = sym(o).add(linOf(x.Rhs[i]), -1)
							}
							continue
						}
					}
					if f, _ := FieldSel(p, l); f != nil && f.Name() == "Base" && !nested {
						if b, ok := f.Type().Underlying().(*types.Basic); ok && b.Kind() == types.Int && namedIs(p.TypesInfo.TypeOf(l.(*ast.SelectorExpr).X), p.Types, "SourceFileSet") {
							setBase, haveSet, setNode = linOf(x.Rhs[i]), true, x
						}
					}
				}
				// the file literal
				for _, r := range x.Rhs {
					ast.Inspect(r, func(nd ast.Node) bool {
						cl, ok := nd.(*ast.CompositeLit)
						if !ok || !namedIs(p.TypesInfo.TypeOf(cl), p.Types, "SourceFile") {
							return true
						}
						for _, el := range cl.Elts {
							if kv, ok := el.(*ast.KeyValueExpr); ok {
								switch w.Src(kv.Key) {
								case "Base":
									fileBase, haveFile = linOf(kv.Value), true
								case "Size":
									fileSize = linOf(kv.Value)
								}
							}
						}
						return false
					})
				}
			case *ast.IfStmt:
				walk(x.Body.List, true)
				if eb, ok := x.Else.(*ast.BlockStmt); ok {
					walk(eb.List, true)
				}
			case *ast.BlockStmt:
				walk(x.List, nested)
			}
		}
	}
	walk(fd.Body.List, false)
	if !haveFile || !haveSet || fileSize == nil {
		c.undecided("file-ranges-disjoint", fd, "AddFile's file literal (Base, Size) or its store to the set's Base was not found")
		return
	}
	gap := setBase.add(fileBase, -1).add(fileSize, -1)
	okGap := true
	for t := range gap {
		if t != "" {
			okGap = false
		}
	}
	c.check(okGap && gap[""] >= 1, "file-ranges-disjoint", setNode, fmt.Sprintf("the next file starts %d beyond the end position of this one", gap[""]),
		fmt.Sprintf("the set's base after adding a file is the file's Base + Size + (%s): containment is inclusive of the end position Base+Size (the position of EOF), so the next file's first position must lie at least 1 beyond it - otherwise one position belongs to two files and an error at the first byte of a module is reported in the file added before it", gap))
}

// DEDUP.5 (C12): merging must not create sharing the program can see. Every
// `import("m")` of a builtin module adds its own constant - the Object the
// module's Import hands out, for BuiltinModule a fresh immutable map whose
// attributes are copies - so two imports are two objects; RemoveDuplicates
// merges immutable maps that carry the same module name into one. With a
// mutable attribute (an array or map among the attributes the embedder gave
// the module) a write through one import then shows through the other after
// de-duplication and not before. The rule re-derives the two halves; when both
// hold the merge is reported (a listed finding on the pinned tree).
func ruleDEDUP5(c *Ctx) {
	w := c.W
	p := w.Root
	rd := w.FuncDecl(p, "Bytecode.RemoveDuplicates")
	arm := w.compileArm("ImportExpr")
	if rd == nil || arm == nil {
		c.anchor("Bytecode.RemoveDuplicates / Compile arm for *parser.ImportExpr")
		return
	}
	// (a) the ImmutableMap arm maps an index to one seen before
	var mergeArm *ast.CaseClause
	ast.Inspect(rd.Body, func(nd ast.Node) bool {
		cc, ok := nd.(*ast.CaseClause)
		if !ok || len(cc.List) != 1 {
			return true
		}
		if tv, ok := p.TypesInfo.Types[cc.List[0]]; ok && tv.IsType() && namedIs(tv.Type, p.Types, "ImmutableMap") {
			// a map lookup whose result is stored as the new index
			if containsNode(cc, func(m ast.Node) bool {
				as, ok := m.(*ast.AssignStmt)
				if !ok || len(as.Rhs) != 1 {
					return false
				}
				ix, ok := ast.Unparen(as.Rhs[0]).(*ast.IndexExpr)
				if !ok {
					return false
				}
				_, isMap := p.TypesInfo.TypeOf(ix.X).Underlying().(*types.Map)
				return isMap && len(as.Lhs) == 2
			}) {
				mergeArm = cc
			}
		}
		return true
	})
	// (b) every import of a builtin module adds the freshly imported object
	fresh := false
	ast.Inspect(arm, func(nd ast.Node) bool {
		call, ok := nd.(*ast.CallExpr)
		if !ok || !isMethodOf(Callee(p, call), p.Types, "Compiler", "addConstant") || len(call.Args) != 1 {
			return true
		}
		id, ok := ast.Unparen(call.Args[0]).(*ast.Ident)
		if !ok {
			return true
		}
		// the variable of a type switch over the result of Importable.Import
		if t := p.TypesInfo.TypeOf(id); t != nil && types.TypeString(t, func(*types.Package) string { return "" }) == "Object" {
			if containsNode(arm, func(m ast.Node) bool {
				c2, ok := m.(*ast.CallExpr)
				return ok && Callee(p, c2) != nil && Callee(p, c2).Name() == "Import"
			}) {
				fresh = true
			}
		}
		return true
	})
	switch {
	case mergeArm != nil && fresh:
		c.fail("dedup-merges/builtin-module-instances", mergeArm, "every import of a builtin module adds its own freshly made constant (attributes copied), and RemoveDuplicates merges the constants of one module into one object: a write through one import to a mutable attribute is seen through the other import after de-duplication and not before")
	case mergeArm == nil:
		c.ok("dedup-merges/builtin-module-instances", rd, "module constants are not merged")
	default:
		c.ok("dedup-merges/builtin-module-instances", arm, "imports of one module share one constant before de-duplication too")
	}
}

// BLT.1 (C01): the builtin table. (a) every entry binds its name to the
// function that is spelled like it (is_immutable_map -> builtinIsImmutableMap);
// (b) the documented builtins are the table's; (c) every is_<type> predicate
// answers true for exactly the type its name says: the set of types under
// whose assertion (or switch case) it returns the true singleton is {Type},
// and everything else falls to the false singleton.
func ruleBLT1(c *Ctx) {
	w := c.W
	p := w.Root
	lit := w.pkgVarLit(p, "builtinFuncs")
	if lit == nil {
		c.anchor("builtinFuncs")
		return
	}
	camel := func(s string) string {
		var b strings.Builder
		for _, part := range strings.Split(s, "_") {
			if part != "" {
				b.WriteString(strings.ToUpper(part[:1]) + part[1:])
			}
		}
		return b.String()
	}
	names := map[string]bool{}
	trueObj := p.Types.Scope().Lookup("TrueValue")
	falseObj := p.Types.Scope().Lookup("FalseValue")
	for _, el := range lit.Elts {
		cl, ok := el.(*ast.CompositeLit)
		if !ok {
			if u, isU := el.(*ast.UnaryExpr); isU {
				cl, ok = u.X.(*ast.CompositeLit)
			}
		}
		if !ok {
			continue
		}
		var name string
		var fn *types.Func
		for _, f := range cl.Elts {
			kv, ok := f.(*ast.KeyValueExpr)
			if !ok {
				continue
			}
			switch w.Src(kv.Key) {
			case "Name":
				if tv, ok := p.TypesInfo.Types[kv.Value]; ok && tv.Value != nil {
					name, _ = strconv.Unquote(tv.Value.ExactString())
				}
			case "Value":
				if id, ok := ast.Unparen(kv.Value).(*ast.Ident); ok {
					fn, _ = p.TypesInfo.ObjectOf(id).(*types.Func)
				}
			}
		}
		if name == "" {
			c.undecided("builtin/entry", cl, "a builtin table entry without a constant name")
			continue
		}
		names[name] = true
		want := "builtin" + camel(name)
		c.check(fn != nil && fn.Name() == want, "builtin/"+name+"/bound", cl, "bound to "+want, "the builtin "+name+" is bound to "+func() string {
			if fn == nil {
				return "a value that is not a declared function"
			}
			return fn.Name()
		}()+", expected the function spelled like it ("+want+")")
		if !strings.HasPrefix(name, "is_") || fn == nil {
			continue
		}
		fd := w.FuncDecl(p, fn.Name())
		if fd == nil {
			c.anchor(fn.Name())
			continue
		}
		tn := camel(strings.TrimPrefix(name, "is_"))
		switch tn {
		case "Function":
			tn = "CompiledFunction"
		}
		// what the predicate tests
		var trueTypes []string
		other := ""
		ast.Inspect(fd.Body, func(nd ast.Node) bool {
			retTrue := func(body []ast.Stmt) bool {
				for _, st := range body {
					if r, ok := st.(*ast.ReturnStmt); ok && len(r.Results) >= 1 {
						if id, ok := ast.Unparen(r.Results[0]).(*ast.Ident); ok && p.TypesInfo.ObjectOf(id) == trueObj {
							return true
						}
					}
				}
				return false
			}
			switch x := nd.(type) {
			case *ast.IfStmt:
				if !retTrue(x.Body.List) {
					return true
				}
				var ta *ast.TypeAssertExpr
				if as, ok := x.Init.(*ast.AssignStmt); ok && len(as.Rhs) == 1 {
					ta, _ = ast.Unparen(as.Rhs[0]).(*ast.TypeAssertExpr)
				}
				if ta != nil && ta.Type != nil {
					n, _ := namedName(p.TypesInfo.TypeOf(ta.Type))
					trueTypes = append(trueTypes, n)
				} else {
					other = w.Src(x.Cond)
				}
			case *ast.CaseClause:
				if !retTrue(x.Body) {
					return true
				}
				for _, e := range x.List {
					if tv, ok := p.TypesInfo.Types[e]; ok && tv.IsType() {
						n, _ := namedName(tv.Type)
						trueTypes = append(trueTypes, n)
					}
				}
			}
			return true
		})
		endsFalse := false
		if n := len(fd.Body.List); n > 0 {
			if r, ok := fd.Body.List[n-1].(*ast.ReturnStmt); ok && len(r.Results) >= 1 {
				if id, ok := ast.Unparen(r.Results[0]).(*ast.Ident); ok && p.TypesInfo.ObjectOf(id) == falseObj {
					endsFalse = true
				}
			}
		}
		key := "builtin/" + name + "/tests"
		switch tn {
		case "Undefined", "Callable", "Iterable":
			wantCond := map[string]string{"Undefined": "UndefinedValue", "Callable": "CanCall()", "Iterable": "CanIterate()"}[tn]
			c.check(len(trueTypes) == 0 && strings.Contains(other, wantCond) && !strings.Contains(other, "!") && endsFalse, key, fd, "true exactly when "+other, name+" answers true under `"+other+"` / for the types "+strings.Join(trueTypes, ",")+"; expected the test "+wantCond)
		default:
			c.check(len(trueTypes) == 1 && trueTypes[0] == tn && other == "" && endsFalse, key, fd, "true exactly for *"+tn, fmt.Sprintf("%s answers true for the types [%s]%s; expected exactly *%s and false otherwise", name, strings.Join(trueTypes, ", "), map[bool]string{true: " and under `" + other + "`", false: ""}[other != ""], tn))
		}
	}
	// (b) docs/builtins.md
	doc, err := readRepoFile(w, "docs/builtins.md")
	if err != nil {
		c.anchor("docs/builtins.md")
		return
	}
	documented := map[string]bool{}
	for _, l := range strings.Split(doc, "\n") {
		if strings.HasPrefix(l, "## ") {
			documented[strings.TrimSpace(strings.TrimPrefix(l, "## "))] = true
		}
	}
	undocumented := map[string]string{"range": "added after the document was written (docs/builtins.md has no section for it)"}
	for n := range names {
		if _, tabled := undocumented[n]; tabled && !documented[n] {
			c.ok("builtin/"+n+"/documented", nil, "tabled: "+undocumented[n])
			continue
		}
		c.check(documented[n], "builtin/"+n+"/documented", nil, "has a section in docs/builtins.md", "the builtin "+n+" is not documented in docs/builtins.md")
	}
	for n := range documented {
		if !names[n] {
			c.fail("builtin/"+n+"/exists", nil, "docs/builtins.md documents "+n+", which is not in the builtin table")
		}
	}
}

// ADPT.8 (C19): a wrapper rejects only what the wrapped function cannot take.
// Where a hand-written stdlib wrapper hands an integer argument straight to a
// function of the Go standard library and guards it first (`if v < a || v > b
// { return error }`), the guard may reject a value only if that function
// panics for it. The panic domain is read from the function's own source in
// the toolchain that builds /repo: leading `if cond { panic(…) }` statements
// over the parameter, followed through the calls that pass the parameter on.
// Guard and domain are evaluated over a window of integers (finite-domain
// evaluation of two conditions; nothing is run). Not decided: guards on values
// that are not passed straight through, and functions whose source shows no
// such leading panic (the rule is then silent).
func ruleADPT8(c *Ctx) {
	w := c.W
	p := w.Stdlib
	seq := seqKeys{}
	n := 0
	// evaluate an integer condition over one variable
	var evalInt func(pk pkgT, e ast.Expr, v types.Object, x int64) (int64, bool)
	var evalCond func(pk pkgT, e ast.Expr, v types.Object, x int64) (bool, bool)
	evalInt = func(pk pkgT, e ast.Expr, v types.Object, x int64) (int64, bool) {
		e = ast.Unparen(e)
		if k, ok := ConstInt(pk, e); ok {
			return k, true
		}
		switch y := e.(type) {
		case *ast.Ident:
			if pk.TypesInfo.ObjectOf(y) == v {
				return x, true
			}
		case *ast.CallExpr:
			if tv, ok := pk.TypesInfo.Types[y.Fun]; ok && tv.IsType() && len(y.Args) == 1 {
				return evalInt(pk, y.Args[0], v, x)
			}
		case *ast.BinaryExpr:
			a, ok1 := evalInt(pk, y.X, v, x)
			b, ok2 := evalInt(pk, y.Y, v, x)
			if ok1 && ok2 {
				switch y.Op {
				case token.ADD:
					return a + b, true
				case token.SUB:
					return a - b, true
				}
			}
		}
		return 0, false
	}
	evalCond = func(pk pkgT, e ast.Expr, v types.Object, x int64) (bool, bool) {
		e = ast.Unparen(e)
		switch y := e.(type) {
		case *ast.UnaryExpr:
			if y.Op == token.NOT {
				r, ok := evalCond(pk, y.X, v, x)
				return !r, ok
			}
		case *ast.BinaryExpr:
			switch y.Op {
			case token.LAND, token.LOR:
				a, ok1 := evalCond(pk, y.X, v, x)
				b, ok2 := evalCond(pk, y.Y, v, x)
				if y.Op == token.LAND {
					if (ok1 && !a) || (ok2 && !b) {
						return false, true
					}
					return a && b, ok1 && ok2
				}
				if (ok1 && a) || (ok2 && b) {
					return true, true
				}
				return a || b, ok1 && ok2
			case token.LSS, token.LEQ, token.GTR, token.GEQ, token.EQL, token.NEQ:
				a, ok1 := evalInt(pk, y.X, v, x)
				b, ok2 := evalInt(pk, y.Y, v, x)
				if !ok1 || !ok2 {
					return false, false
				}
				switch y.Op {
				case token.LSS:
					return a < b, true
				case token.LEQ:
					return a <= b, true
				case token.GTR:
					return a > b, true
				case token.GEQ:
					return a >= b, true
				case token.EQL:
					return a == b, true
				default:
					return a != b, true
				}
			}
		}
		return false, false
	}
	// panic domain of parameter k of a standard-library function: the leading `if cond { panic }` conditions
	type domain struct {
		pk    pkgT
		cond  ast.Expr
		param types.Object
	}
	var panicDomain func(fn *types.Func, k int, depth int) []domain
	panicDomain = func(fn *types.Func, k int, depth int) []domain {
		if fn == nil || fn.Pkg() == nil || depth > 3 {
			return nil
		}
		rp, err := w.loadRef(fn.Pkg().Path())
		if err != nil || rp == nil {
			return nil
		}
		var fd *ast.FuncDecl
		for _, f := range rp.Syntax {
			for _, d := range f.Decls {
				if x, ok := d.(*ast.FuncDecl); ok && x.Body != nil && x.Name.Name == fn.Name() && (x.Recv == nil) == (fn.Type().(*types.Signature).Recv() == nil) {
					fd = x
				}
			}
		}
		if fd == nil {
			return nil
		}
		var params []types.Object
		for _, f := range fd.Type.Params.List {
			for _, nm := range f.Names {
				params = append(params, rp.TypesInfo.Defs[nm])
			}
		}
		if k >= len(params) || params[k] == nil {
			return nil
		}
		pobj := params[k]
		var out []domain
		ast.Inspect(fd.Body, func(nd ast.Node) bool {
			switch y := nd.(type) {
			case *ast.IfStmt:
				if len(y.Body.List) >= 1 {
					if es, ok := y.Body.List[len(y.Body.List)-1].(*ast.ExprStmt); ok {
						if call, ok := es.X.(*ast.CallExpr); ok && IsBuiltinCall(rp, call, "panic") {
							if containsNode(y.Cond, func(m ast.Node) bool {
								id, ok := m.(*ast.Ident)
								return ok && rp.TypesInfo.ObjectOf(id) == pobj
							}) {
								out = append(out, domain{rp, y.Cond, pobj})
							}
						}
					}
				}
			case *ast.CallExpr:
				callee := Callee(rp, y)
				if callee == nil || callee.Pkg() == nil || callee.Pkg().Path() != fn.Pkg().Path() || (callee.Name() == fn.Name() && depth > 0) {
					return true
				}
				for i, a := range y.Args {
					if id, ok := ast.Unparen(a).(*ast.Ident); ok && rp.TypesInfo.ObjectOf(id) == pobj {
						out = append(out, panicDomain(callee, i, depth+1)...)
					}
				}
			}
			return true
		})
		return out
	}
	w.AllFuncDecls(p, func(fd *ast.FuncDecl) {
		if fd.Recv != nil || fd.Type.Params.NumFields() != 1 || fd.Type.Results.NumFields() != 2 {
			return
		}
		if _, variadic := fd.Type.Params.List[0].Type.(*ast.Ellipsis); !variadic {
			return
		}
		inspectWithStack(fd.Body, func(nd ast.Node, stack []ast.Node) bool {
			call, ok := nd.(*ast.CallExpr)
			if !ok {
				return true
			}
			fn := Callee(p, call)
			if fn == nil || fn.Pkg() == nil || w.inModulePkg(fn.Pkg()) || strings.Contains(strings.SplitN(fn.Pkg().Path(), "/", 2)[0], ".") {
				return true
			}
			for k, a := range call.Args {
				id, ok := ast.Unparen(a).(*ast.Ident)
				if !ok {
					continue
				}
				v, ok := p.TypesInfo.ObjectOf(id).(*types.Var)
				if !ok || v.IsField() {
					continue
				}
				if b, ok := v.Type().Underlying().(*types.Basic); !ok || b.Info()&types.IsInteger == 0 {
					continue
				}
				// guards on v that end the wrapper before the call
				var guards []*ast.IfStmt
				for _, g := range precedingGuards(stack) {
					if _, ok := evalCond(p, g.Cond, v, 0); ok {
						guards = append(guards, g)
					}
				}
				n++
				key := seq.next("value-guard/" + funcKey(fd) + "/" + fn.Pkg().Name() + "." + fn.Name())
				if len(guards) == 0 {
					c.ok(key, call, "the argument reaches "+fn.Name()+" unguarded")
					continue
				}
				doms := panicDomain(fn, k, 0)
				if len(doms) == 0 {
					c.ok(key, call, "guarded; "+fn.Name()+"'s source shows no leading panic over that parameter (not decided)")
					continue
				}
				var bad []int64
				for x := int64(-70); x <= 300; x++ {
					rejected := false
					for _, g := range guards {
						if r, _ := evalCond(p, g.Cond, v, x); r {
							rejected = true
						}
					}
					if !rejected {
						continue
					}
					panics := false
					for _, d := range doms {
						if r, ok := evalCond(d.pk, d.cond, d.param, x); ok && r {
							panics = true
						}
					}
					if !panics {
						bad = append(bad, x)
					}
				}
				if len(bad) > 0 {
					c.fail(key, guards[0], fmt.Sprintf("the wrapper rejects %s = %v, which %s.%s accepts (it panics only under `%s`): for these values the script function does not compute what the Go function computes", id.Name, bad, fn.Pkg().Name(), fn.Name(), w.Src(doms[0].cond)))
				} else {
					c.ok(key, call, "the guard rejects only values for which "+fn.Name()+" panics")
				}
			}
			return true
		})
	})
	if n < 5 {
		c.fail("value-guard/count", nil, fmt.Sprintf("only %d integer arguments handed straight to standard-library functions found in the stdlib wrappers", n))
	}
}

// ALIAS.1 (C17, C01): a tail cut off a buffer does not survive appends to the
// buffer. `t = x[i:]` shares x's backing array up to its end; once x is cut
// back (`x = x[:k]`) an `x = append(x, …)` writes into the very bytes t still
// shows. If t is read after such an append it must have been copied
// (`append(t[:0:0], x[i:]...)`, a separate array). The formatter's exponent
// handling (fmtFloat, as in fmt) depends on that copy.
func ruleALIAS1(c *Ctx) {
	w := c.W
	seq := seqKeys{}
	funcs := 0
	for _, p := range w.All {
		if !w.inModulePkg(p.Types) {
			continue
		}
		w.AllFuncDecls(p, func(fd *ast.FuncDecl) {
			funcs++
			type cut struct {
				t, x types.Object
				at   ast.Node
			}
			var cuts []cut
			isSliceVar := func(e ast.Expr) types.Object {
				id, ok := ast.Unparen(e).(*ast.Ident)
				if !ok {
					return nil
				}
				v, ok := p.TypesInfo.ObjectOf(id).(*types.Var)
				if !ok || v.IsField() {
					return nil
				}
				if _, ok := v.Type().Underlying().(*types.Slice); !ok {
					return nil
				}
				return v
			}
			ast.Inspect(fd.Body, func(n ast.Node) bool {
				as, ok := n.(*ast.AssignStmt)
				if !ok || len(as.Lhs) != len(as.Rhs) {
					return true
				}
				for i, l := range as.Lhs {
					t := isSliceVar(l)
					se, ok := ast.Unparen(as.Rhs[i]).(*ast.SliceExpr)
					if t == nil || !ok || se.High != nil || se.Max != nil || se.Low == nil {
						continue
					}
					if k, isK := ConstInt(p, se.Low); isK && k == 0 {
						continue
					}
					x := isSliceVar(se.X)
					if x == nil || x == t {
						continue
					}
					cuts = append(cuts, cut{t, x, as})
				}
				return true
			})
			for _, ct := range cuts {
				// after the cut: x truncated, then appended to, then t read
				var truncAt, appendAt token.Pos
				ast.Inspect(fd.Body, func(n ast.Node) bool {
					as, ok := n.(*ast.AssignStmt)
					if !ok || as.Pos() <= ct.at.Pos() || len(as.Lhs) != 1 || len(as.Rhs) != 1 || isSliceVar(as.Lhs[0]) != ct.x {
						return true
					}
					switch r := ast.Unparen(as.Rhs[0]).(type) {
					case *ast.SliceExpr:
						if isSliceVar(r.X) == ct.x && r.High != nil && !truncAt.IsValid() {
							truncAt = as.Pos()
						}
					case *ast.CallExpr:
						if IsBuiltinCall(p, r, "append") && len(r.Args) >= 2 && truncAt.IsValid() && !appendAt.IsValid() {
							base := ast.Unparen(r.Args[0])
							if sl, ok := base.(*ast.SliceExpr); ok {
								base = sl.X
							}
							if isSliceVar(base) == ct.x {
								// appending t itself first is the hand-back, not an overwrite
								if len(r.Args) == 2 && r.Ellipsis.IsValid() && isSliceVar(r.Args[1]) == ct.t {
									return true
								}
								appendAt = as.Pos()
							}
						}
					}
					return true
				})
				if !appendAt.IsValid() {
					continue
				}
				usedAfter := false
				ast.Inspect(fd.Body, func(n ast.Node) bool {
					id, ok := n.(*ast.Ident)
					if ok && id.Pos() > appendAt && p.TypesInfo.Uses[id] == ct.t {
						usedAfter = true
					}
					return !usedAfter
				})
				if usedAfter {
					c.fail(seq.next("tail-alias/"+funcKey(fd)), ct.at, w.Src(ct.at)+": the tail shares the buffer's backing array; the buffer is then cut back and appended to, which overwrites the bytes the tail still shows, and the tail is read afterwards - it must be copied before the buffer is reused")
				}
			}
		})
	}
	c.check(funcs > 100, "tail-alias/scan", nil, fmt.Sprintf("%d functions of the module examined: no tail of a buffer is read after the buffer was cut back and appended to", funcs), "too few functions examined")
}

// CONV.2 (C15, C10): strings convert to numbers the decimal way. The string
// arms of the integer conversions call strconv.ParseInt(s, 10, 64) and the
// float conversion strconv.ParseFloat(s, 64): a script string "010" is ten in
// int("010"), in Variable.Int() and wherever else the coercion table applies
// (the base-0 spellings belong to literals, which the parser converts).
func ruleCONV2(c *Ctx) {
	w := c.W
	p := w.Root
	n := 0
	for _, name := range []string{"ToInt", "ToInt64", "ToFloat64"} {
		fd := w.FuncDecl(p, name)
		if fd == nil {
			c.anchor(name)
			continue
		}
		ast.Inspect(fd.Body, func(nd ast.Node) bool {
			call, ok := nd.(*ast.CallExpr)
			if !ok {
				return true
			}
			switch FuncFullName(Callee(p, call)) {
			case "strconv.ParseInt":
				n++
				base, ok1 := ConstInt(p, call.Args[1])
				bits, ok2 := ConstInt(p, call.Args[2])
				c.check(len(call.Args) == 3 && ok1 && base == 10 && ok2 && bits == 64, "string-to-number/"+name, call, "ParseInt(s, 10, 64)", name+" converts strings with "+w.Src(call)+": the coercion of a script string to an integer is decimal and 64 bits wide (base 0 would read \"010\" as 8 and accept 0x…, 0b…, 1_000)")
			case "strconv.ParseFloat":
				n++
				bits, ok := ConstInt(p, call.Args[1])
				c.check(len(call.Args) == 2 && ok && bits == 64, "string-to-number/"+name, call, "ParseFloat(s, 64)", name+" converts strings with "+w.Src(call))
			case "strconv.Atoi":
				n++
				c.ok("string-to-number/"+name, call, "Atoi (decimal)")
			}
			return true
		})
	}
	if n < 3 {
		c.fail("string-to-number/count", nil, fmt.Sprintf("expected the string arms of ToInt, ToInt64 and ToFloat64, found %d conversions", n))
	}
}

// SCOPE.2 (C11, C01): a function's body is a block below its parameters, as
// the body of an if or a for is a block below the surrounding scope: the
// function-literal arm compiles node.Body through Compile (the BlockStmt arm,
// which forks a block table), not statement by statement in the table that
// holds the parameters and the captured names.
func ruleSCOPE2(c *Ctx) {
	w := c.W
	p := w.Root
	arm := w.compileArm("FuncLit")
	if arm == nil {
		c.anchor("Compile arm for *parser.FuncLit")
		return
	}
	viaBlock := containsNode(arm, func(nd ast.Node) bool {
		call, ok := nd.(*ast.CallExpr)
		if !ok || !isMethodOf(Callee(p, call), p.Types, "Compiler", "Compile") || len(call.Args) != 1 {
			return false
		}
		return namedIs(p.TypesInfo.TypeOf(call.Args[0]), w.Parser.Types, "BlockStmt")
	})
	c.check(viaBlock, "function-body-is-a-block", arm, "the body is compiled as a block statement (its own block scope below the parameters)", "the function-literal arm does not compile the body as a block statement: its declarations land in the table that holds the parameters and the names captured so far, so `x := …` after a use of an outer x is a redeclaration inside a function and fine at top level")
	blk := w.compileArm("BlockStmt")
	forks := blk != nil && containsNode(blk, func(nd ast.Node) bool {
		call, ok := nd.(*ast.CallExpr)
		if !ok || !isMethodOf(Callee(p, call), p.Types, "SymbolTable", "Fork") || len(call.Args) != 1 {
			return false
		}
		v, known := constBool(p, call.Args[0])
		return known && v
	})
	c.check(forks, "block-forks-scope", blk, "a block statement forks a block scope", "the block-statement arm does not fork a block scope (Fork(true))")
}

// paramWritten: does the function assign to (or take the address of) the object?
func objWritten(p pkgT, body ast.Node, o types.Object) ast.Node {
	var at ast.Node
	ast.Inspect(body, func(n ast.Node) bool {
		switch x := n.(type) {
		case *ast.AssignStmt:
			for _, l := range x.Lhs {
				if id, ok := ast.Unparen(l).(*ast.Ident); ok && p.TypesInfo.ObjectOf(id) == o && p.TypesInfo.Defs[id] == nil {
					at = x
				}
			}
		case *ast.IncDecStmt:
			if id, ok := ast.Unparen(x.X).(*ast.Ident); ok && p.TypesInfo.ObjectOf(id) == o {
				at = x
			}
		case *ast.UnaryExpr:
			if id, ok := ast.Unparen(x.X).(*ast.Ident); ok && x.Op == token.AND && p.TypesInfo.ObjectOf(id) == o {
				at = x
			}
		}
		return at == nil
	})
	return at
}

// MOD.6 (C13): one name per module. The cycle check, the cache of compiled
// modules and the compiler forked for the module all identify the module by
// the same string: compileModule hands one unmodified parameter to
// checkCyclicImports, loadCompiledModule, fork and storeCompiledModule. If
// the cache key is normalised and the cycle check is not (or the other way
// round), a self-import through another spelling is never detected, and two
// modules whose names normalise alike share one body.
func ruleMOD6(c *Ctx) {
	w := c.W
	p := w.Root
	fd := w.FuncDecl(p, "Compiler.compileModule")
	if fd == nil {
		c.anchor("Compiler.compileModule")
		return
	}
	argObj := func(method string, idx int) (types.Object, *ast.CallExpr) {
		var o types.Object
		var at *ast.CallExpr
		ast.Inspect(fd.Body, func(n ast.Node) bool {
			call, ok := n.(*ast.CallExpr)
			if !ok || !isMethodOf(Callee(p, call), p.Types, "Compiler", method) || idx >= len(call.Args) {
				return true
			}
			at = call
			if id, ok := ast.Unparen(call.Args[idx]).(*ast.Ident); ok {
				o = p.TypesInfo.ObjectOf(id)
			}
			return true
		})
		return o, at
	}
	cyc, cycAt := argObj("checkCyclicImports", 1)
	if cycAt == nil {
		c.anchor("checkCyclicImports call in compileModule")
		return
	}
	_, isParam := paramIndex(p, fd, cyc)
	c.check(cyc != nil && isParam, "module-name/cycle-check", cycAt, "the cycle check gets the module name compileModule was called with", "the cycle check is not given compileModule's own module-name parameter")
	if cyc == nil {
		return
	}
	if at := objWritten(p, fd.Body, cyc); at != nil {
		c.fail("module-name/unmodified", at, "compileModule rewrites the module name ("+w.Src(at)+"): the cycle check, the cache and the forked compiler no longer identify the module by one and the same string - a self-import through another spelling of the name is not detected, and modules whose names normalise alike share one compiled body")
	} else {
		c.ok("module-name/unmodified", fd, "the module name is not rewritten")
	}
	for _, m := range []struct {
		name string
		idx  int
	}{{"loadCompiledModule", 0}, {"storeCompiledModule", 0}, {"fork", 1}} {
		o, at := argObj(m.name, m.idx)
		if at == nil {
			c.fail("module-name/"+m.name, fd, "compileModule does not call "+m.name)
			continue
		}
		c.check(o == cyc, "module-name/"+m.name, at, m.name+" identifies the module by the same name as the cycle check", m.name+" is given "+w.Src(at.Args[m.idx])+", not the name the cycle check sees")
	}
}

// JSON.7 (C18): the bytes validated are the bytes given. Decode hands its
// parameter, unmodified, to the validity automaton (JSON.1-2 decide that
// automaton against encoding/json's); trimming or rewriting the input first
// changes which documents are accepted.
func ruleJSON7(c *Ctx) {
	w := c.W
	p := w.JSON
	fd := w.FuncDecl(p, "Decode")
	if fd == nil {
		c.anchor("json.Decode")
		return
	}
	var data types.Object
	for _, f := range fd.Type.Params.List {
		for _, nm := range f.Names {
			if t, ok := p.TypesInfo.Defs[nm].Type().Underlying().(*types.Slice); ok {
				if b, ok := t.Elem().Underlying().(*types.Basic); ok && b.Kind() == types.Byte {
					data = p.TypesInfo.Defs[nm]
				}
			}
		}
	}
	if data == nil {
		c.anchor("the []byte parameter of json.Decode")
		return
	}
	var cv *ast.CallExpr
	ast.Inspect(fd.Body, func(n ast.Node) bool {
		if call, ok := n.(*ast.CallExpr); ok && Callee(p, call) != nil && Callee(p, call).Name() == "checkValid" {
			cv = call
		}
		return true
	})
	if cv == nil {
		c.fail("validates-input-as-given", fd, "Decode does not call checkValid")
		return
	}
	id, ok := ast.Unparen(cv.Args[0]).(*ast.Ident)
	c.check(ok && p.TypesInfo.ObjectOf(id) == data, "validates-input-as-given", cv, "checkValid is given Decode's parameter", "checkValid is given "+w.Src(cv.Args[0])+", not the bytes Decode was called with")
	if at := objWritten(p, fd.Body, data); at != nil {
		c.fail("input-unmodified", at, "Decode rewrites its input before validating it ("+w.Src(at)+"): the set of accepted documents is no longer the automaton's (bytes.TrimSpace, for one, also drops \\v, \\f, U+0085, U+00A0, which JSON does not allow)")
	} else {
		c.ok("input-unmodified", fd, "the input is not rewritten")
	}
}

// LIT.2 (C20, C04): wherever the parser turns the text of a string token
// into a value it does so with strconv.Unquote. In every branch taken for
// token.String, the token's text is used only as the argument of
// strconv.Unquote, as the Literal field of a node, or in an error message.
func ruleLIT2(c *Ctx) {
	w := c.W
	p := w.Parser
	strTok := w.Token.Types.Scope().Lookup("String")
	if strTok == nil {
		c.anchor("token.String")
		return
	}
	isStringTest := func(e ast.Expr) bool {
		b, ok := ast.Unparen(e).(*ast.BinaryExpr)
		if !ok || b.Op != token.EQL {
			return false
		}
		return ConstObj(p, b.X) == strTok || ConstObj(p, b.Y) == strTok
	}
	seq := seqKeys{}
	n := 0
	check := func(fd *ast.FuncDecl, branch ast.Node) {
		inspectWithStack(branch, func(nd ast.Node, stack []ast.Node) bool {
			f, _ := func() (*types.Var, ast.Expr) {
				if e, ok := nd.(ast.Expr); ok {
					return FieldSel(p, e)
				}
				return nil, nil
			}()
			if f == nil || f.Name() != "tokenLit" {
				return true
			}
			n++
			okUse := false
			why := ""
			// `lit := p.tokenLit` and every use of lit is one of the allowed ones
			par := len(stack) - 1
			if par >= 0 && stack[par] == nd {
				par--
			}
			if par >= 0 {
				if as, ok := stack[par].(*ast.AssignStmt); ok && len(as.Lhs) == 1 && len(as.Rhs) == 1 && ast.Unparen(as.Rhs[0]) == nd {
					if lid, ok := as.Lhs[0].(*ast.Ident); ok {
						lobj := p.TypesInfo.ObjectOf(lid)
						all, any := true, false
						inspectWithStack(fd.Body, func(m ast.Node, st2 []ast.Node) bool {
							id, ok := m.(*ast.Ident)
							if !ok || p.TypesInfo.Uses[id] != lobj {
								return true
							}
							any = true
							good := false
							for j := len(st2) - 1; j >= 0 && !good; j-- {
								switch y := st2[j].(type) {
								case *ast.CallExpr:
									fn := Callee(p, y)
									if FuncFullName(fn) == "strconv.Unquote" && len(y.Args) == 1 && ast.Unparen(y.Args[0]) == ast.Expr(id) {
										good = true
									}
									if fn != nil && (isMethodOf(fn, p.Types, "Parser", "error") || isMethodOf(fn, p.Types, "Parser", "errorExpected")) {
										good = true
									}
								case *ast.KeyValueExpr:
									if w.Src(y.Key) == "Literal" && ast.Unparen(y.Value) == ast.Expr(id) {
										good = true
									}
								}
							}
							if !good {
								all = false
							}
							return true
						})
						if all && any {
							okUse, why = true, "held in a local that is only unquoted, kept as literal text or reported"
						}
					}
				}
			}
			for i := len(stack) - 1; i >= 0 && !okUse; i-- {
				switch x := stack[i].(type) {
				case *ast.CallExpr:
					fn := Callee(p, x)
					switch {
					case FuncFullName(fn) == "strconv.Unquote" && len(x.Args) == 1 && ast.Unparen(x.Args[0]) == nd:
						okUse, why = true, "converted by strconv.Unquote"
					case fn != nil && (isMethodOf(fn, p.Types, "Parser", "error") || isMethodOf(fn, p.Types, "Parser", "errorExpected") || fn.Name() == "printTrace"):
						okUse, why = true, "error / trace text"
					}
				case *ast.KeyValueExpr:
					if w.Src(x.Key) == "Literal" && ast.Unparen(x.Value) == nd {
						okUse, why = true, "kept as the node's literal text"
					}
				}
			}
			c.check(okUse, seq.next("string-token-text/"+funcKey(fd)), nd, why, "the text of a string token is used as "+w.Src(stack[len(stack)-1])+" in "+funcKey(fd)+": a string literal denotes what strconv.Unquote says it denotes (quotes, escapes, raw strings); trimming or slicing the text gives other values for some literals")
			return false
		})
	}
	w.AllFuncDecls(p, func(fd *ast.FuncDecl) {
		ast.Inspect(fd.Body, func(nd ast.Node) bool {
			switch x := nd.(type) {
			case *ast.IfStmt:
				// the branch taken for a string token: the body, or the else
				// branch of the negated test
				bare, neg := stripNot(x.Cond)
				if isStringTest(bare) {
					if !neg {
						check(fd, x.Body)
					} else if x.Else != nil {
						check(fd, x.Else)
					}
				}
			case *ast.CaseClause:
				for _, e := range x.List {
					if ConstObj(p, e) == strTok {
						for _, st := range x.Body {
							check(fd, st)
						}
					}
				}
			}
			return true
		})
	})
	if n < 2 {
		c.fail("string-token-text/count", nil, fmt.Sprintf("expected the string arms of parseOperand and parseMapElementLit, found %d uses of the token text", n))
	}
}

// COPY.3 (C11): a copied closure keeps its variables. A function literal that
// refers to a global still refers to the same global after copy(); for the
// same statements to mean the same inside a function or module body, a
// captured local must stay shared as well: CompiledFunction.Copy hands the
// receiver's variable cells on and makes none of its own. (That the clones of
// a Compiled then share closure state is the listed C08 finding - the two
// properties pull in opposite directions here, and tengo sides with C11.)
func ruleCOPY3(c *Ctx) {
	w := c.W
	p := w.Root
	fd := w.FuncDecl(p, "CompiledFunction.Copy")
	if fd == nil {
		c.anchor("CompiledFunction.Copy")
		return
	}
	var made ast.Node
	ast.Inspect(fd.Body, func(n ast.Node) bool {
		switch x := n.(type) {
		case *ast.CompositeLit:
			if namedIs(p.TypesInfo.TypeOf(x), p.Types, "ObjectPtr") {
				made = x
			}
		case *ast.CallExpr:
			if IsBuiltinCall(p, x, "new") && len(x.Args) == 1 && namedIs(p.TypesInfo.TypeOf(x.Args[0]), p.Types, "ObjectPtr") {
				made = x
			}
		}
		return made == nil
	})
	c.check(made == nil, "closure-copy/cells-shared", fd, "the copy refers to the same captured variables as the original", "CompiledFunction.Copy makes variable cells of its own: a copied closure over a local no longer sees writes through the original (and the other way round), while a copied function that refers to a global still does - the same statements then compute different values at top level and inside a function or module body")
	// and it does hand them on: the receiver's list of cells is read, and the
	// copy's Free field is given a value
	reads := containsNode(fd.Body, func(n ast.Node) bool {
		e, ok := n.(ast.Expr)
		if !ok {
			return false
		}
		f, base := FieldSel(p, e)
		if f == nil || f.Name() != "Free" {
			return false
		}
		id, ok := ast.Unparen(base).(*ast.Ident)
		return ok && fd.Recv != nil && len(fd.Recv.List[0].Names) == 1 && p.TypesInfo.ObjectOf(id) == p.TypesInfo.Defs[fd.Recv.List[0].Names[0]]
	})
	sets := containsNode(fd.Body, func(n ast.Node) bool {
		switch x := n.(type) {
		case *ast.KeyValueExpr:
			return w.Src(x.Key) == "Free"
		case *ast.AssignStmt:
			for _, l := range x.Lhs {
				if f, _ := FieldSel(p, l); f != nil && f.Name() == "Free" {
					return true
				}
			}
		}
		return false
	})
	keeps := reads && sets
	c.check(keeps, "closure-copy/cells-handed-on", fd, "Free of the copy is built from the receiver's Free", "the copy's captured-variable list is not built from the receiver's")
}

// OPT.6 (C03, C09): the optimizer removes only dead code. In the pass of
// optimizeFunc that copies instructions into the new stream, an instruction is
// skipped (the callback returns before the copy) only under the dead-code flag
// - the boolean the pass sets after a RET and clears at a jump destination.
// Any other reason to drop an instruction ("IMMUT after IMMUT is a no-op",
// say) ignores that the second one may be a jump target whose path never ran
// the first.
func ruleOPT6(c *Ctx) {
	w := c.W
	p := w.Root
	opt := w.FuncDecl(p, "Compiler.optimizeFunc")
	if opt == nil {
		c.anchor("Compiler.optimizeFunc")
		return
	}
	var pass *ast.FuncLit
	var copyAt token.Pos
	ast.Inspect(opt.Body, func(n ast.Node) bool {
		fl, ok := n.(*ast.FuncLit)
		if !ok {
			return true
		}
		ast.Inspect(fl.Body, func(m ast.Node) bool {
			call, ok := m.(*ast.CallExpr)
			if ok && Callee(p, call) != nil && Callee(p, call).Name() == "MakeInstruction" && call.Ellipsis.IsValid() {
				pass, copyAt = fl, call.Pos()
			}
			return true
		})
		return true
	})
	if pass == nil {
		c.anchor("the copying pass of optimizeFunc (MakeInstruction(opcode, operands...))")
		return
	}
	// the dead-code flag: a bool variable the pass sets to true
	flags := map[types.Object]bool{}
	ast.Inspect(pass.Body, func(n ast.Node) bool {
		as, ok := n.(*ast.AssignStmt)
		if !ok || len(as.Lhs) != 1 || len(as.Rhs) != 1 {
			return true
		}
		if v, isB := constBool(p, as.Rhs[0]); isB && v {
			if id, ok := as.Lhs[0].(*ast.Ident); ok {
				flags[p.TypesInfo.ObjectOf(id)] = true
			}
		}
		return true
	})
	if len(flags) == 0 {
		c.anchor("the dead-code flag of optimizeFunc")
		return
	}
	mentionsFlag := func(e ast.Node) bool {
		return containsNode(e, func(m ast.Node) bool {
			id, ok := m.(*ast.Ident)
			return ok && flags[p.TypesInfo.ObjectOf(id)]
		})
	}
	seq := seqKeys{}
	n := 0
	inspectWithStack(pass.Body, func(nd ast.Node, stack []ast.Node) bool {
		r, ok := nd.(*ast.ReturnStmt)
		if !ok || r.Pos() > copyAt {
			return true
		}
		n++
		under := false
		for i, a := range stack {
			switch x := a.(type) {
			case *ast.IfStmt:
				if i+1 < len(stack) && stack[i+1] == ast.Node(x.Body) && mentionsFlag(x.Cond) {
					under = true
				}
			case *ast.CaseClause:
				for _, e := range x.List {
					if mentionsFlag(e) {
						under = true
					}
				}
			}
		}
		c.check(under, seq.next("skip-only-dead-code"), r, "the instruction is skipped under the dead-code flag", "the copying pass skips an instruction for a reason other than dead code: an instruction that some path executes (a jump may land on it) is removed from the function")
		return true
	})
	if n < 2 {
		c.fail("skip-only-dead-code/count", pass, fmt.Sprintf("expected the two skips of dead instructions, found %d", n))
	}
}

// SEM.4 (C01): the compiler is syntax-directed: it compiles the tree it is
// given. No function of the compiler builds syntax-tree nodes of its own,
// except the one tabled desugaring (`x++` is `x += 1`: the literal 1). A
// rewritten tree is where algebraic "optimisations" enter that do not hold
// for every value - `!(a < b)` is not `a >= b` when an operand is NaN.
func ruleSEM4(c *Ctx) {
	w := c.W
	p := w.Root
	nodeI, _ := w.Parser.Types.Scope().Lookup("Node").Type().Underlying().(*types.Interface)
	if nodeI == nil {
		c.anchor("parser.Node")
		return
	}
	tabled := map[string]string{"IncDecStmt/IntLit": "`x++` / `x--` compile as `x += 1` / `x -= 1`: the literal 1"}
	seq := seqKeys{}
	n := 0
	w.AllFuncDecls(p, func(fd *ast.FuncDecl) {
		if fd.Recv == nil || !strings.HasPrefix(funcKey(fd), "Compiler.") {
			return
		}
		inspectWithStack(fd.Body, func(nd ast.Node, stack []ast.Node) bool {
			cl, ok := nd.(*ast.CompositeLit)
			if !ok {
				return true
			}
			t := p.TypesInfo.TypeOf(cl)
			nt, ok := t.(*types.Named)
			if !ok || nt.Obj().Pkg() != w.Parser.Types || !types.Implements(types.NewPointer(nt), nodeI) {
				return true
			}
			n++
			ctx := ""
			for i := len(stack) - 1; i >= 0; i-- {
				if cc, ok := stack[i].(*ast.CaseClause); ok && len(cc.List) == 1 {
					if tv, ok := p.TypesInfo.Types[cc.List[0]]; ok && tv.IsType() {
						ctx, _ = namedName(tv.Type)
						break
					}
				}
			}
			k := ctx + "/" + nt.Obj().Name()
			if why, ok := tabled[k]; ok {
				c.ok(seq.next("synthesized-node/"+k), cl, "tabled: "+why)
				return true
			}
			c.fail(seq.next("synthesized-node/"+funcKey(fd)+"/"+k), cl, "the compiler builds a syntax-tree node of its own ("+w.Src(cl)+") and compiles that instead of the tree it was given: a rewrite of the program that must then be right for every operand value (NaN, overflow, side effects and their order)")
			return true
		})
	})
	if n < 1 {
		c.fail("synthesized-node/count", nil, "the tabled desugaring of IncDecStmt was not found")
	}
}

// JSON.8 (C18): every string the decoder hands out — an object key or a
// string value — is the result of unquote / unquoteBytes on the token's
// bytes, on every path. unquote is where escapes are resolved and where
// malformed UTF-8 becomes U+FFFD, as in encoding/json; a shortcut that strips
// the quotes itself yields other data for some valid documents.
func ruleJSON8(c *Ctx) {
	w := c.W
	p := w.JSON
	fromUnquote := func(fd *ast.FuncDecl, e ast.Expr) (bool, ast.Node) {
		var rec func(e ast.Expr, depth int) (bool, ast.Node)
		rec = func(e ast.Expr, depth int) (bool, ast.Node) {
			e = ast.Unparen(e)
			if depth > 4 {
				return false, e
			}
			if call, ok := e.(*ast.CallExpr); ok && len(call.Args) == 1 && p.TypesInfo.Types[call.Fun].IsType() {
				return rec(call.Args[0], depth+1)
			}
			id, ok := e.(*ast.Ident)
			if !ok {
				return false, e
			}
			obj := p.TypesInfo.ObjectOf(id)
			defs := 0
			var bad ast.Node
			ast.Inspect(fd.Body, func(n ast.Node) bool {
				as, ok := n.(*ast.AssignStmt)
				if !ok {
					return true
				}
				for i, l := range as.Lhs {
					lid, ok := l.(*ast.Ident)
					if !ok || p.TypesInfo.ObjectOf(lid) != obj {
						continue
					}
					defs++
					if len(as.Rhs) == 1 && len(as.Lhs) == 2 && i == 0 {
						if call, ok := ast.Unparen(as.Rhs[0]).(*ast.CallExpr); ok {
							if f := Callee(p, call); f != nil && f.Pkg() == p.Types && (f.Name() == "unquote" || f.Name() == "unquoteBytes") {
								continue
							}
						}
					}
					if len(as.Rhs) == len(as.Lhs) {
						if ok2, _ := rec(as.Rhs[i], depth+1); ok2 {
							continue
						}
					}
					if bad == nil {
						bad = as
					}
				}
				return true
			})
			if defs == 0 {
				return false, id
			}
			return bad == nil, bad
		}
		return rec(e, 0)
	}
	// object keys
	obj := w.FuncDecl(p, "decodeState.object")
	if obj == nil {
		c.anchor("(*decodeState).object")
		return
	}
	nKeys := 0
	ast.Inspect(obj.Body, func(n ast.Node) bool {
		as, ok := n.(*ast.AssignStmt)
		if !ok {
			return true
		}
		for _, l := range as.Lhs {
			ix, ok := l.(*ast.IndexExpr)
			if !ok {
				continue
			}
			if _, isMap := p.TypesInfo.TypeOf(ix.X).Underlying().(*types.Map); !isMap {
				continue
			}
			nKeys++
			good, at := fromUnquote(obj, ix.Index)
			if good {
				c.ok("object-key-unquoted", ix, "the key is unquote's result on every path")
			} else {
				c.fail("object-key-unquoted", at, "an object key reaches the map without going through unquote ("+w.Src(at)+"): escapes are not resolved or malformed UTF-8 is kept as it is, where encoding/json yields U+FFFD — other data for a valid document")
			}
		}
		return true
	})
	if nKeys == 0 {
		c.anchor("the map store of (*decodeState).object")
	}
	// string values
	lit := w.FuncDecl(p, "decodeState.literal")
	if lit == nil {
		c.anchor("(*decodeState).literal")
		return
	}
	nStr := 0
	ast.Inspect(lit.Body, func(n ast.Node) bool {
		cl, ok := n.(*ast.CompositeLit)
		if !ok {
			return true
		}
		if tn, _ := namedName(p.TypesInfo.TypeOf(cl)); tn != "String" {
			return true
		}
		for _, el := range cl.Elts {
			kv, ok := el.(*ast.KeyValueExpr)
			if !ok || w.Src(kv.Key) != "Value" {
				continue
			}
			nStr++
			good, at := fromUnquote(lit, kv.Value)
			if good {
				c.ok("string-value-unquoted", cl, "the string value is unquote's result on every path")
			} else {
				c.fail("string-value-unquoted", at, "a string value is built without going through unquote ("+w.Src(at)+")")
			}
		}
		return true
	})
	if nStr == 0 {
		c.anchor("the String value built by (*decodeState).literal")
	}
}
