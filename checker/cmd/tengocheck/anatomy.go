package main

// anatomy.go: role-based anchors of the instruction format and the VM
// dispatch function, extracted once per run from the current source.

import (
	"fmt"
	"go/ast"
	"go/constant"
	"go/token"
	"go/types"
	"sort"

	"golang.org/x/tools/go/packages"
)

type OpInfo struct {
	Names   []string         // opcode constant names ordered by value
	Val     map[string]int64 // name -> value
	ByVal   map[int64]string // value -> name
	Widths  map[string][]int // name -> operand widths (from OpcodeOperands)
	HasName map[string]bool  // keys of OpcodeNames
	Decl    *ast.GenDecl
	err     string
}

func (o *OpInfo) Total(op string) int {
	t := 0
	for _, w := range o.Widths[op] {
		t += w
	}
	return t
}

var opInfoCache *OpInfo

// opcodes extracts the opcode constants and both tables from package parser.
func (w *World) opcodes() *OpInfo {
	if opInfoCache != nil {
		return opInfoCache
	}
	oi := &OpInfo{Val: map[string]int64{}, ByVal: map[int64]string{}, Widths: map[string][]int{}, HasName: map[string]bool{}}
	opInfoCache = oi
	p := w.Parser
	opType := p.Types.Scope().Lookup("Opcode")
	if opType == nil {
		oi.err = "type parser.Opcode not found"
		return oi
	}
	for _, f := range p.Syntax {
		for _, d := range f.Decls {
			gd, ok := d.(*ast.GenDecl)
			if !ok || gd.Tok != token.CONST || len(gd.Specs) == 0 {
				continue
			}
			vs := gd.Specs[0].(*ast.ValueSpec)
			id, ok := vs.Type.(*ast.Ident)
			if !ok || p.TypesInfo.Uses[id] != opType {
				continue
			}
			oi.Decl = gd
			for _, s := range gd.Specs {
				for _, n := range s.(*ast.ValueSpec).Names {
					c, ok := p.TypesInfo.Defs[n].(*types.Const)
					if !ok {
						continue
					}
					v, _ := ConstIntOf(c)
					oi.Val[n.Name] = v
					oi.ByVal[v] = n.Name
				}
			}
		}
	}
	if oi.Decl == nil {
		oi.err = "opcode const block (first spec typed Opcode) not found"
		return oi
	}
	oi.Names = sortedKeys(oi.Val)
	sort.Slice(oi.Names, func(i, j int) bool { return oi.Val[oi.Names[i]] < oi.Val[oi.Names[j]] })
	// tables
	for _, name := range []string{"OpcodeNames", "OpcodeOperands"} {
		lit := w.pkgVarLit(p, name)
		if lit == nil {
			oi.err = "table parser." + name + " not found as a composite literal"
			return oi
		}
		for _, el := range lit.Elts {
			kv, ok := el.(*ast.KeyValueExpr)
			if !ok {
				oi.err = name + ": element without key"
				return oi
			}
			c := ConstObj(p, kv.Key)
			if c == nil {
				oi.err = name + ": key is not an opcode constant: " + w.Src(kv.Key)
				return oi
			}
			if name == "OpcodeNames" {
				oi.HasName[c.Name()] = true
				continue
			}
			wl, ok := kv.Value.(*ast.CompositeLit)
			if !ok {
				oi.err = name + ": value not a literal"
				return oi
			}
			ws := []int{}
			for _, we := range wl.Elts {
				v, ok := ConstInt(p, we)
				if !ok {
					oi.err = name + ": width not constant"
					return oi
				}
				ws = append(ws, int(v))
			}
			oi.Widths[c.Name()] = ws
		}
	}
	return oi
}

func ConstIntOf(c *types.Const) (int64, bool) {
	v := c.Val()
	if i, ok := constantInt64(v); ok {
		return i, true
	}
	return 0, false
}

// pkgVarLit returns the composite literal initialising package-level var name.
func (w *World) pkgVarLit(p *packages.Package, name string) *ast.CompositeLit {
	e := w.pkgVarInit(p, name)
	if e == nil {
		return nil
	}
	if u, ok := e.(*ast.UnaryExpr); ok && u.Op == token.AND {
		e = u.X
	}
	cl, _ := e.(*ast.CompositeLit)
	return cl
}

// pkgVarInit returns the initialiser expression of package-level var name.
func (w *World) pkgVarInit(p *packages.Package, name string) ast.Expr {
	for _, f := range p.Syntax {
		for _, d := range f.Decls {
			gd, ok := d.(*ast.GenDecl)
			if !ok || gd.Tok != token.VAR {
				continue
			}
			for _, s := range gd.Specs {
				vs := s.(*ast.ValueSpec)
				for i, n := range vs.Names {
					if n.Name == name && i < len(vs.Values) {
						return vs.Values[i]
					}
				}
			}
		}
	}
	return nil
}

func constantInt64(v constant.Value) (int64, bool) {
	v = constant.ToInt(v)
	if v.Kind() != constant.Int {
		return 0, false
	}
	return constant.Int64Val(v)
}

// VMInfo describes the dispatch function.
type VMInfo struct {
	Fn       *ast.FuncDecl
	Recv     types.Object
	Loop     *ast.ForStmt
	Switch   *ast.SwitchStmt
	Insts    *types.Var // the instruction-stream field indexed by the switch tag
	IP       *types.Var // the instruction pointer field
	Arms     map[string]*ast.CaseClause
	Default  *ast.CaseClause
	Dup      []string
	NonConst []string
	err      string
}

var vmInfoCache *VMInfo

// vm finds "the VM dispatch function": the method of a type in the root
// package whose body contains `for … { recv.ip++; switch recv.insts[recv.ip] {
// case <opcode constants> … } }`.
func (w *World) vm() *VMInfo {
	if vmInfoCache != nil {
		return vmInfoCache
	}
	vi := &VMInfo{Arms: map[string]*ast.CaseClause{}}
	vmInfoCache = vi
	oi := w.opcodes()
	if oi.err != "" {
		vi.err = oi.err
		return vi
	}
	p := w.Root
	var best *ast.SwitchStmt
	var bestFn *ast.FuncDecl
	var bestLoop *ast.ForStmt
	bestN := 0
	w.AllFuncDecls(p, func(fd *ast.FuncDecl) {
		if fd.Recv == nil {
			return
		}
		inspectWithStack(fd.Body, func(n ast.Node, stack []ast.Node) bool {
			sw, ok := n.(*ast.SwitchStmt)
			if !ok || sw.Tag == nil {
				return true
			}
			cnt := 0
			for _, cc := range sw.Body.List {
				for _, e := range cc.(*ast.CaseClause).List {
					if c := ConstObj(p, e); c != nil {
						if _, ok := oi.Val[c.Name()]; ok && c.Pkg() == w.Parser.Types {
							cnt++
						}
					}
				}
			}
			if _, isIdx := ast.Unparen(sw.Tag).(*ast.IndexExpr); isIdx && cnt > bestN {
				bestN, best, bestFn = cnt, sw, fd
				bestLoop = nil
				for i := len(stack) - 1; i >= 0; i-- {
					if fs, ok := stack[i].(*ast.ForStmt); ok {
						bestLoop = fs
						break
					}
				}
			}
			return true
		})
	})
	if best == nil || bestN < 10 {
		vi.err = "VM dispatch switch (switch insts[ip] over opcode constants) not found"
		return vi
	}
	vi.Fn, vi.Switch, vi.Loop = bestFn, best, bestLoop
	if vi.Loop == nil {
		vi.err = "dispatch switch is not inside a for loop"
		return vi
	}
	ix := ast.Unparen(best.Tag).(*ast.IndexExpr)
	vi.Insts, _ = FieldSel(p, ix.X)
	vi.IP, _ = FieldSel(p, ix.Index)
	if vi.Insts == nil || vi.IP == nil {
		vi.err = "dispatch switch tag is not recv.insts[recv.ip]: " + w.Src(best.Tag)
		return vi
	}
	if len(bestFn.Recv.List[0].Names) == 1 {
		vi.Recv = p.TypesInfo.Defs[bestFn.Recv.List[0].Names[0]]
	}
	for _, s := range best.Body.List {
		cc := s.(*ast.CaseClause)
		if cc.List == nil {
			vi.Default = cc
			continue
		}
		for _, e := range cc.List {
			c := ConstObj(p, e)
			if c == nil {
				vi.NonConst = append(vi.NonConst, w.Src(e))
				continue
			}
			if _, ok := oi.Val[c.Name()]; !ok {
				vi.NonConst = append(vi.NonConst, c.Name())
				continue
			}
			if _, dup := vi.Arms[c.Name()]; dup {
				vi.Dup = append(vi.Dup, c.Name())
			}
			vi.Arms[c.Name()] = cc
		}
	}
	return vi
}

func describeWidths(ws []int) string { return fmt.Sprint(ws) }
