package main

// rules_limits.go: C06 — ALLOC.1-2, LIMIT.1-3, FRAMES.1.

import (
	"fmt"
	"go/ast"
	"go/token"
	"go/types"
	"sort"
	"strings"

	"golang.org/x/tools/go/packages"
)

// ---------------------------------------------------------------- ALLOC

type allocInfo struct {
	Counter *types.Var
	ErrF    *types.Var
	err     string
}

// allocCounter: the VM field tested in `if F == 0 { err = ErrObjectAllocLimit; return }`.
func (w *World) allocCounter() *allocInfo {
	p := w.Root
	vi := w.vm()
	ai := &allocInfo{}
	if vi.err != "" {
		ai.err = vi.err
		return ai
	}
	ast.Inspect(vi.Switch, func(n ast.Node) bool {
		is, ok := n.(*ast.IfStmt)
		if !ok || ai.Counter != nil {
			return true
		}
		if f, ef := allocGuard(p, is); f != nil {
			ai.Counter, ai.ErrF = f, ef
		}
		return true
	})
	if ai.Counter == nil {
		ai.err = "no `if F == 0 { err = ErrObjectAllocLimit; return }` guard in the dispatch function"
	}
	return ai
}

// allocGuard recognises the guard and returns the counter field and the error field.
func allocGuard(p *packages.Package, is *ast.IfStmt) (*types.Var, *types.Var) {
	b, ok := ast.Unparen(is.Cond).(*ast.BinaryExpr)
	if !ok || b.Op != token.EQL || is.Else != nil || is.Init != nil {
		return nil, nil
	}
	k, okc := ConstInt(p, b.Y)
	f, _ := FieldSel(p, b.X)
	if !okc || k != 0 || f == nil {
		return nil, nil
	}
	if len(is.Body.List) != 2 {
		return nil, nil
	}
	as, ok := is.Body.List[0].(*ast.AssignStmt)
	if !ok || len(as.Lhs) != 1 || len(as.Rhs) != 1 {
		return nil, nil
	}
	ef, _ := FieldSel(p, as.Lhs[0])
	o := ObjOf(p, as.Rhs[0])
	if ef == nil || o == nil || o.Name() != "ErrObjectAllocLimit" {
		return nil, nil
	}
	if r, ok := is.Body.List[1].(*ast.ReturnStmt); !ok || len(r.Results) != 0 {
		return nil, nil
	}
	return f, ef
}

func isCounterDec(p *packages.Package, s ast.Stmt, f *types.Var) bool {
	id, ok := s.(*ast.IncDecStmt)
	if !ok || id.Tok != token.DEC {
		return false
	}
	v, _ := FieldSel(p, id.X)
	return v == f
}

// maxDecs: maximum number of counter decrements along any path of a statement list.
func maxDecs(p *packages.Package, list []ast.Stmt, f *types.Var, inLoop *bool) int {
	total := 0
	for _, s := range list {
		total += maxDecStmt(p, s, f, inLoop)
	}
	return total
}

func maxDecStmt(p *packages.Package, s ast.Stmt, f *types.Var, inLoop *bool) int {
	if isCounterDec(p, s, f) {
		return 1
	}
	mx := func(a, b int) int {
		if a > b {
			return a
		}
		return b
	}
	switch x := s.(type) {
	case *ast.BlockStmt:
		return maxDecs(p, x.List, f, inLoop)
	case *ast.IfStmt:
		a := maxDecs(p, x.Body.List, f, inLoop)
		b := 0
		if x.Else != nil {
			b = maxDecStmt(p, x.Else, f, inLoop)
		}
		return mx(a, b)
	case *ast.SwitchStmt:
		m := 0
		for _, c := range x.Body.List {
			m = mx(m, maxDecs(p, c.(*ast.CaseClause).Body, f, inLoop))
		}
		return m
	case *ast.TypeSwitchStmt:
		m := 0
		for _, c := range x.Body.List {
			m = mx(m, maxDecs(p, c.(*ast.CaseClause).Body, f, inLoop))
		}
		return m
	case *ast.ForStmt:
		if maxDecs(p, x.Body.List, f, inLoop) > 0 {
			*inLoop = true
		}
	case *ast.RangeStmt:
		if maxDecs(p, x.Body.List, f, inLoop) > 0 {
			*inLoop = true
		}
	}
	return 0
}

func ruleALLOC1(c *Ctx) {
	w := c.W
	p := w.Root
	vi := w.vm()
	ai := w.allocCounter()
	if ai.err != "" {
		c.anchor(ai.err)
		return
	}
	// (a) who writes / reads the counter
	seq := seqKeys{}
	for _, pk := range w.All {
		for _, file := range pk.Syntax {
			inspectWithStack(file, func(n ast.Node, stack []ast.Node) bool {
				se, ok := n.(*ast.SelectorExpr)
				if !ok {
					return true
				}
				f, _ := FieldSel(pk, se)
				if f != ai.Counter {
					return true
				}
				fd := w.enclosingFunc(pk, se.Pos())
				fname := "?"
				if fd != nil {
					fname = funcName(fd)
				}
				par := stack[len(stack)-2]
				key := seq.next("counter-access/" + w.ctxKey(se.Pos()))
				switch x := par.(type) {
				case *ast.IncDecStmt:
					c.check(x.Tok == token.DEC && fd == vi.Fn, key, se, "decrement in the dispatch function", "the allocation counter is modified by "+w.Src(x)+" in "+fname+" (only `--` inside the dispatch function and the reset in Run are allowed)")
				case *ast.AssignStmt:
					// the reset: F = maxAllocs + 1
					good := false
					if len(x.Lhs) == 1 && x.Lhs[0] == ast.Expr(se) && x.Tok == token.ASSIGN {
						if b, ok := ast.Unparen(x.Rhs[0]).(*ast.BinaryExpr); ok && b.Op == token.ADD {
							mf, _ := FieldSel(pk, b.X)
							k, okc := ConstInt(pk, b.Y)
							if mf != nil && mf.Name() == "maxAllocs" && okc && k == 1 && fname == "VM.Run" {
								good = true
							}
						}
					}
					c.check(good, key, se, "reset to maxAllocs+1 at the start of Run", "the allocation counter is assigned by "+w.Src(x)+" in "+fname+" (the only allowed assignment is the reset `maxAllocs + 1` in VM.Run: budget N admits exactly N allocations, -1 means unlimited)")
				case *ast.BinaryExpr:
					k, okc := ConstInt(pk, x.Y)
					c.check(x.Op == token.EQL && okc && k == 0 && x.X == ast.Expr(se), key, se, "compared with zero", "the allocation counter is read in "+w.Src(x)+" (only `== 0` guards may read it; monotonicity in the budget follows from count-down-and-compare-with-zero)")
				default:
					c.fail(key, se, "unexpected use of the allocation counter: "+w.Src(par))
				}
				return true
			})
		}
	}
	// (b) each decrement is immediately followed by the guard; (c) each guard preceded by a decrement
	decs, guards := 0, 0
	var visit func(list []ast.Stmt)
	visit = func(list []ast.Stmt) {
		for i, s := range list {
			if isCounterDec(p, s, ai.Counter) {
				decs++
				good := false
				if i+1 < len(list) {
					if is, ok := list[i+1].(*ast.IfStmt); ok {
						if f, _ := allocGuard(p, is); f == ai.Counter {
							good = true
						}
					}
				}
				c.check(good, fmt.Sprintf("dec-then-guard/%s#%d", w.ctxKey(s.Pos()), decs), s, "`--` immediately followed by the `== 0` guard that stores ErrObjectAllocLimit and returns", "allocation counted but the limit check does not follow immediately: the budget can be overrun (or the counter can pass zero and never trigger)")
			}
			if is, ok := s.(*ast.IfStmt); ok {
				if f, _ := allocGuard(p, is); f == ai.Counter {
					guards++
					good := i > 0 && isCounterDec(p, list[i-1], ai.Counter)
					if !good {
						c.fail(fmt.Sprintf("guard-without-dec/%s#%d", w.ctxKey(s.Pos()), guards), s, "limit guard not preceded by a decrement")
					}
				}
			}
		}
	}
	ast.Inspect(vi.Fn.Body, func(n ast.Node) bool {
		switch x := n.(type) {
		case *ast.BlockStmt:
			visit(x.List)
		case *ast.CaseClause:
			visit(x.Body)
		}
		return true
	})
	// (d) at most one decrement per path through an arm
	for _, op := range w.opcodes().Names {
		cc := vi.Arms[op]
		if cc == nil {
			continue
		}
		inLoop := false
		m := maxDecs(p, cc.Body, ai.Counter, &inLoop)
		if m == 0 && !inLoop {
			continue
		}
		c.check(m <= 1 && !inLoop, "one-count-per-instruction/"+op, cc, "at most one allocation counted per dispatched instruction", fmt.Sprintf("arm can decrement the allocation counter %d times on one path (in a loop: %v): one site is counted twice", m, inLoop))
	}
}

// objectCreations finds, in the statements of a VM arm, the sites that create
// a script-visible object.
func ruleALLOC2(c *Ctx) {
	w := c.W
	p := w.Root
	vi := w.vm()
	ai := w.allocCounter()
	if ai.err != "" {
		c.anchor(ai.err)
		return
	}
	objT := p.Types.Scope().Lookup("Object")
	objI, _ := objT.Type().Underlying().(*types.Interface)
	countedProducers := map[string]bool{"BinaryOp": true, "Call": true, "Iterate": true}
	uncountedByDesign := map[string]string{
		"IndexGet": "element access; the Int/Char/String it may allocate is not counted by the VM by design (stated limitation)",
		"Key":      "iterator key; not counted by design (stated limitation)",
		"Value":    "iterator value; not counted by design (stated limitation)",
	}
	exemptTypes := map[string]string{"ObjectPtr": "closure cell, not a script value"}
	isDec := func(s ast.Stmt) bool { return isCounterDec(p, s, ai.Counter) }

	for _, op := range w.opcodes().Names {
		cc := vi.Arms[op]
		if cc == nil {
			continue
		}
		seq := seqKeys{}
		inspectWithStack(cc, func(n ast.Node, stack []ast.Node) bool {
			kind := ""
			switch x := n.(type) {
			case *ast.CompositeLit:
				t := p.TypesInfo.Types[x].Type
				tn, pk := namedName(t)
				if pk != p.Types || tn == "" {
					return true
				}
				if _, isStruct := t.Underlying().(*types.Struct); !isStruct {
					return true
				}
				if !types.Implements(types.NewPointer(t), objI) {
					return true
				}
				if why, ok := exemptTypes[tn]; ok {
					c.ok(seq.next("create/"+w.ctxKey(x.Pos())+"/"+tn), x, "exempt: "+why)
					return true
				}
				kind = "&" + tn + "{}"
			case *ast.CallExpr:
				fn := Callee(p, x)
				if fn == nil {
					return true
				}
				sig := fn.Type().(*types.Signature)
				if sig.Recv() == nil || sig.Results().Len() == 0 {
					return true
				}
				if _, isIface := sig.Recv().Type().Underlying().(*types.Interface); !isIface {
					return true
				}
				rt := sig.Results().At(0).Type()
				if !types.IsInterface(rt) || !types.Implements(rt, objI) {
					return true
				}
				if why, ok := uncountedByDesign[fn.Name()]; ok {
					c.ok(seq.next("produce/"+w.ctxKey(x.Pos())+"/"+fn.Name()), x, "not counted by design: "+why)
					return true
				}
				if !countedProducers[fn.Name()] {
					c.undecided(seq.next("produce/"+w.ctxKey(x.Pos())+"/"+fn.Name()), x, "object-returning interface call "+fn.Name()+" in the VM is neither a counted producer nor a tabled exception")
					return true
				}
				kind = fn.Name() + "()"
			default:
				return true
			}
			// continuation: the rest of every enclosing statement list up to the arm
			var cont []ast.Stmt
			var child ast.Node = n
			for i := len(stack) - 2; i >= 0; i-- {
				var list []ast.Stmt
				switch par := stack[i].(type) {
				case *ast.BlockStmt:
					list = par.List
				case *ast.CaseClause:
					list = par.Body
				}
				if list != nil {
					for j, s := range list {
						if s == child {
							cont = append(cont, list[j+1:]...)
						}
					}
				}
				if _, isLoop := stack[i].(*ast.ForStmt); isLoop {
					cont = nil // creation inside a loop: handled below
					c.undecided(seq.next("create/"+w.ctxKey(n.Pos())+"/"+kind), n, "object created inside a loop in a VM arm")
					return true
				}
				child = stack[i]
				if stack[i] == ast.Node(cc) {
					break
				}
			}
			// every path from here to the end of the arm (fall-through or
			// `continue`) must pass a decrement; `return` (error exit) is fine
			// the variable the new object is stored in is not nil from here on:
			// a later `if v != nil { … }` is its body on these paths
			var holder types.Object
			if len(stack) >= 2 {
				switch par := stack[len(stack)-2].(type) {
				case *ast.AssignStmt:
					if len(par.Lhs) == 1 {
						if id, ok := par.Lhs[0].(*ast.Ident); ok {
							holder = p.TypesInfo.ObjectOf(id)
						}
					}
				case *ast.UnaryExpr:
					if len(stack) >= 3 {
						if as, ok := stack[len(stack)-3].(*ast.AssignStmt); ok && len(as.Lhs) == 1 {
							if id, ok := as.Lhs[0].(*ast.Ident); ok {
								holder = p.TypesInfo.ObjectOf(id)
							}
						}
					}
				}
			}
			if holder != nil {
				var cont2 []ast.Stmt
				for _, st := range cont {
					if is, ok := st.(*ast.IfStmt); ok && is.Init == nil {
						if b, ok := ast.Unparen(is.Cond).(*ast.BinaryExpr); ok && (b.Op == token.NEQ || b.Op == token.EQL) && (isNilIdent(b.Y) || isNilIdent(b.X)) {
							other := b.X
							if isNilIdent(b.X) {
								other = b.Y
							}
							if id, ok := ast.Unparen(other).(*ast.Ident); ok && p.TypesInfo.ObjectOf(id) == holder {
								if b.Op == token.NEQ {
									cont2 = append(cont2, is.Body.List...)
								} else if eb, ok := is.Else.(*ast.BlockStmt); ok {
									cont2 = append(cont2, eb.List...)
								}
								continue
							}
						}
					}
					cont2 = append(cont2, st)
				}
				cont = cont2
			}
			res := pathSeqRet(cont, isDec)
			key := seq.next("create/" + w.ctxKey(n.Pos()) + "/" + kind)
			c.check(res == pHit, key, n, "counted against the allocation budget before the instruction completes", "object created by "+kind+" reaches the end of the instruction on some path without being counted against the allocation budget")
			return true
		})
	}
}

// pathSeqRet is pathSeq where `return` counts as acceptable (error exit) and
// `continue` as leaving without a hit.
func pathSeqRet(list []ast.Stmt, hit func(ast.Stmt) bool) pathRes {
	h := func(s ast.Stmt) bool {
		if hit(s) {
			return true
		}
		if _, ok := s.(*ast.ReturnStmt); ok {
			return true
		}
		return false
	}
	r := pathSeq(list, h)
	return r
}

// ---------------------------------------------------------------- FRAMES.1

func ruleFRAMES1(c *Ctx) {
	w := c.W
	p := w.Root
	vi := w.vm()
	if vi.err != "" {
		c.anchor(vi.err)
		return
	}
	framesF := structFieldOfRecv(w, vi, "frames")
	idxF := structFieldOfRecv(w, vi, "framesIndex")
	if framesF == nil || idxF == nil {
		c.anchor("VM.frames / VM.framesIndex")
		return
	}
	n := 0
	inspectWithStack(vi.Switch, func(nd ast.Node, stack []ast.Node) bool {
		// a frame push: recv.framesIndex++
		inc, ok := nd.(*ast.IncDecStmt)
		if !ok || inc.Tok != token.INC {
			return true
		}
		if f, _ := FieldSel(p, inc.X); f != idxF {
			return true
		}
		n++
		// dominating guard: a preceding sibling (at some enclosing level within
		// the arm) `if framesIndex >= MaxFrames { err = ErrStackOverflow; return }`
		good := false
		for _, g := range precedingGuards(stack) {
			b, ok := gtExpr(g.Cond)
			if !ok || (b.Op != token.GEQ && b.Op != token.GTR) {
				continue
			}
			lf, _ := FieldSel(p, b.X)
			mo := ObjOf(p, b.Y)
			if lf != idxF || mo == nil || mo.Name() != "MaxFrames" {
				continue
			}
			if b.Op == token.GTR {
				continue // `>` admits index == MaxFrames: out of bounds
			}
			setsOverflow := containsNode(g.Body, func(m ast.Node) bool {
				id, ok := m.(*ast.Ident)
				return ok && id.Name == "ErrStackOverflow"
			})
			if setsOverflow {
				good = true
			}
		}
		c.check(good, fmt.Sprintf("frame-push/%s#%d", w.ctxKey(inc.Pos()), n), inc, "frame push dominated by `framesIndex >= MaxFrames` → ErrStackOverflow", "a frame is pushed without a dominating `framesIndex >= MaxFrames` check that reports ErrStackOverflow")
		return true
	})
	if n == 0 {
		c.fail("frame-push/none", vi.Switch, "no frame push found in the dispatch function")
	}
	// the frames array has exactly MaxFrames elements
	if at, ok := framesF.Type().Underlying().(*types.Array); ok {
		mf := p.Types.Scope().Lookup("MaxFrames")
		if mc, ok := mf.(*types.Const); ok {
			v, _ := ConstIntOf(mc)
			c.check(at.Len() == v, "frames-array-size", nil, "len(frames) == MaxFrames", fmt.Sprintf("frames array has %d slots but MaxFrames is %d", at.Len(), v))
		}
	}
}

// precedingGuards: for a node with the given ancestor stack, the `if` statements
// (without else, body ending in return or panic) that precede an ancestor in
// an enclosing statement list of the same function — they dominate the node.
func precedingGuards(stack []ast.Node) []*ast.IfStmt {
	var out []*ast.IfStmt
	for i := len(stack) - 1; i > 0; i-- {
		child := stack[i]
		var list []ast.Stmt
		switch par := stack[i-1].(type) {
		case *ast.BlockStmt:
			list = par.List
		case *ast.CaseClause:
			list = par.Body
		case *ast.CommClause:
			list = par.Body
		case *ast.FuncDecl, *ast.FuncLit:
			return out
		}
		for _, s := range list {
			if s == child {
				break
			}
			if is, ok := s.(*ast.IfStmt); ok && is.Else == nil && terminates(is.Body) {
				out = append(out, is)
			}
		}
	}
	return out
}

func terminates(b *ast.BlockStmt) bool {
	if len(b.List) == 0 {
		return false
	}
	switch x := b.List[len(b.List)-1].(type) {
	case *ast.ReturnStmt:
		return true
	case *ast.ExprStmt:
		if call, ok := x.X.(*ast.CallExpr); ok {
			if id, ok := call.Fun.(*ast.Ident); ok && id.Name == "panic" {
				return true
			}
		}
	}
	return false
}

// ---------------------------------------------------------------- LIMIT.1

type leafSet map[string]bool

func (l leafSet) String() string {
	var s []string
	for k := range l {
		s = append(s, k)
	}
	sort.Strings(s)
	return "{" + strings.Join(s, ", ") + "}"
}

// sizeLeaves: the operands that determine the length of expression e.
func (w *World) sizeLeaves(p *packages.Package, fd ast.Node, e ast.Expr, depth int, out leafSet) {
	w.sizeLeavesV(p, fd, e, depth, out, map[types.Object]bool{})
}

func (w *World) sizeLeavesV(p *packages.Package, fd ast.Node, e ast.Expr, depth int, out leafSet, visiting map[types.Object]bool) {
	e = ast.Unparen(e)
	if depth > 12 {
		out["expr:"+w.Src(e)] = true
		return
	}
	switch x := e.(type) {
	case *ast.BinaryExpr:
		if x.Op == token.ADD {
			w.sizeLeavesV(p, fd, x.X, depth+1, out, visiting)
			w.sizeLeavesV(p, fd, x.Y, depth+1, out, visiting)
			return
		}
	case *ast.BasicLit:
		return
	case *ast.CompositeLit:
		if len(x.Elts) == 0 {
			return
		}
	case *ast.SliceExpr:
		// a sub-slice is no longer than what it slices
		w.sizeLeavesV(p, fd, x.X, depth+1, out, visiting)
		return
	case *ast.CallExpr:
		if tv, ok := p.TypesInfo.Types[x.Fun]; ok && tv.IsType() && len(x.Args) == 1 {
			w.sizeLeavesV(p, fd, x.Args[0], depth+1, out, visiting)
			return
		}
		if IsBuiltinCall(p, x, "append") {
			for _, a := range x.Args {
				w.sizeLeavesV(p, fd, a, depth+1, out, visiting)
			}
			return
		}
		if IsBuiltinCall(p, x, "len") && len(x.Args) == 1 {
			arg := ast.Unparen(x.Args[0])
			if st, ok := arg.(*ast.StarExpr); ok {
				arg = st.X
			}
			w.sizeLeavesV(p, fd, arg, depth+1, out, visiting)
			return
		}
		if IsBuiltinCall(p, x, "make") {
			if len(x.Args) >= 2 {
				if k, ok := ConstInt(p, x.Args[1]); ok && k == 0 {
					return
				}
				out["size:"+w.Src(stripConv(p, x.Args[1]))] = true
			}
			return
		}
		if fn := Callee(p, x); fn != nil {
			out["call:"+fn.Name()] = true
			return
		}
	case *ast.SelectorExpr:
		if f, base := FieldSel(p, x); f != nil && f.Name() == "Value" {
			if tn, _ := namedName(p.TypesInfo.Types[base].Type); tn == "String" || tn == "Bytes" {
				out["existing:"+tn+":"+w.Src(x)] = true
				return
			}
		}
	case *ast.IndexExpr:
		out["elem-of:"+w.Src(x.X)] = true
		return
	case *ast.Ident:
		obj := p.TypesInfo.Uses[x]
		if visiting[obj] {
			return // self reference (b = append(b, …))
		}
		if v, ok := obj.(*types.Var); ok && !v.IsField() {
			// local variable: union over its definitions in this function
			var defs []ast.Expr
			isParam := false
			ast.Inspect(fd, func(n ast.Node) bool {
				switch d := n.(type) {
				case *ast.AssignStmt:
					for i, l := range d.Lhs {
						if id, ok := l.(*ast.Ident); ok && (p.TypesInfo.Defs[id] == obj || p.TypesInfo.Uses[id] == obj) {
							if len(d.Lhs) == len(d.Rhs) {
								defs = append(defs, d.Rhs[i])
							} else if len(d.Rhs) == 1 {
								defs = append(defs, d.Rhs[0]) // tuple from one call
							} else {
								defs = append(defs, nil)
							}
						}
					}
				case *ast.Field:
					for _, nm := range d.Names {
						if p.TypesInfo.Defs[nm] == obj {
							isParam = true
						}
					}
				}
				return true
			})
			if !isParam && len(defs) > 0 {
				for _, d := range defs {
					if d == nil {
						out["var:"+x.Name] = true
						continue
					}
					// skip self-reference b = append(b, …): handled by the append arm
					visiting[obj] = true
					w.sizeLeavesV(p, fd, d, depth+1, out, visiting)
					delete(visiting, obj)
				}
				return
			}
			out["var:"+x.Name] = true
			return
		}
	}
	out["expr:"+w.Src(e)] = true
}

func stripConv(p *packages.Package, e ast.Expr) ast.Expr {
	for {
		e = ast.Unparen(e)
		c, ok := e.(*ast.CallExpr)
		if !ok || len(c.Args) != 1 {
			return e
		}
		if tv, ok := p.TypesInfo.Types[c.Fun]; !ok || !tv.IsType() {
			return e
		}
		e = c.Args[0]
	}
}

// guardLeaves: operands measured by a guard expression E in `E > Max`.
func (w *World) guardLeaves(p *packages.Package, fd ast.Node, e ast.Expr, out leafSet) {
	e = stripConv(p, e)
	switch x := e.(type) {
	case *ast.BinaryExpr:
		if x.Op == token.ADD {
			w.guardLeaves(p, fd, x.X, out)
			w.guardLeaves(p, fd, x.Y, out)
			return
		}
	case *ast.CallExpr:
		if IsBuiltinCall(p, x, "len") {
			// len(*b) of a buffer pointer
			arg := ast.Unparen(x.Args[0])
			if st, ok := arg.(*ast.StarExpr); ok {
				arg = st.X
			}
			w.sizeLeaves(p, fd, arg, 0, out)
			return
		}
		if fn := Callee(p, x); fn != nil {
			out["call:"+fn.Name()] = true
			return
		}
	}
	// a bare integer operand (e.g. n.Value for make([]byte, n))
	out["size:"+w.Src(e)] = true
	sub := leafSet{}
	w.sizeLeaves(p, fd, e, 0, sub)
	for k := range sub {
		out[k] = true
	}
}

// limit1Exceptions: sites bounded by construction; keyed function + leaf.
var limit1Exceptions = map[string]string{
	"builtinTypeName|call:TypeName":           "TypeName() results are short constant names",
	"MapIterator.Key|elem-of:recv.k":          "an existing map key (already a script string)",
	"BuiltinModule.AsImmutableMap|var:param0": "module name supplied by the embedder / import expression, not produced by an operator or builtin",
	"FromInterface|call:Error":                "host boundary: error text supplied by the embedding program",
	"builtinFormat|call:Format":               "Format enforces MaxStringLen on its own output buffer (LIMIT.2)",
}

// roleLeaf rewrites the variable a leaf starts with into its role (receiver,
// n-th parameter), so that the exception table does not depend on names.
func roleLeaf(fd *ast.FuncDecl, k string) string {
	i := strings.Index(k, ":")
	if i < 0 {
		return k
	}
	kind, rest := k[:i+1], k[i+1:]
	head, tail := rest, ""
	if j := strings.IndexAny(rest, ".[("); j >= 0 {
		head, tail = rest[:j], rest[j:]
	}
	if fd.Recv != nil && len(fd.Recv.List) == 1 && len(fd.Recv.List[0].Names) == 1 && fd.Recv.List[0].Names[0].Name == head {
		return kind + "recv" + tail
	}
	n := 0
	for _, f := range fd.Type.Params.List {
		for _, nm := range f.Names {
			if nm.Name == head {
				return fmt.Sprintf("%sparam%d%s", kind, n, tail)
			}
			n++
		}
	}
	return k
}

func ruleLIMIT1(c *Ctx) {
	w := c.W
	p := w.Root
	seq := seqKeys{}
	w.AllFuncDecls(p, func(fd *ast.FuncDecl) {
		inspectWithStack(fd, func(n ast.Node, stack []ast.Node) bool {
			cl, ok := n.(*ast.CompositeLit)
			if !ok {
				return true
			}
			tn, pk := namedName(p.TypesInfo.Types[cl].Type)
			if pk != p.Types || (tn != "String" && tn != "Bytes") {
				return true
			}
			var val ast.Expr
			for _, e := range cl.Elts {
				if kv, ok := e.(*ast.KeyValueExpr); ok {
					if id, ok := kv.Key.(*ast.Ident); ok && id.Name == "Value" {
						val = kv.Value
					}
				} else if val == nil {
					val = e // positional
				}
			}
			if val == nil {
				return true
			}
			maxName := "Max" + tn + "Len"
			if tn == "String" {
				maxName = "MaxStringLen"
			} else {
				maxName = "MaxBytesLen"
			}
			key := seq.next(w.ctxKey(cl.Pos()) + "/" + tn)
			leaves := leafSet{}
			w.sizeLeaves(p, fd, val, 0, leaves)
			// bounded by construction: a single existing value (copy / sub-slice / identity)
			if len(leaves) == 1 {
				for k := range leaves {
					// of the same kind: a string is bounded by MaxStringLen, which says
					// nothing about MaxBytesLen (and the other way round)
					if strings.HasPrefix(k, "existing:"+tn+":") {
						c.ok(key, cl, "bounded by construction: no longer than the existing value "+k)
						return true
					}
				}
			}
			if len(leaves) == 0 {
				c.ok(key, cl, "constant/empty value")
				return true
			}
			// tabled exceptions
			allTabled := true
			var reasons []string
			for k := range leaves {
				if why, ok := limit1Exceptions[funcName(fd)+"|"+roleLeaf(fd, k)]; ok {
					reasons = append(reasons, why)
				} else {
					allTabled = false
				}
			}
			if allTabled {
				c.ok(key, cl, "tabled: "+strings.Join(reasons, "; "))
				return true
			}
			// guarded: a dominating `E > Max…Len` whose operands cover all leaves
			covered := leafSet{}
			for _, g := range precedingGuards(stack) {
				b, ok := ast.Unparen(g.Cond).(*ast.BinaryExpr)
				if !ok {
					continue
				}
				var measured, lim ast.Expr
				switch b.Op {
				case token.GTR, token.GEQ:
					measured, lim = b.X, b.Y
				case token.LSS, token.LEQ:
					measured, lim = b.Y, b.X
				default:
					continue
				}
				lo := ObjOf(p, stripConv(p, lim))
				if lo == nil || lo.Name() != maxName || lo.Pkg() != p.Types {
					continue
				}
				w.guardLeaves(p, fd, measured, covered)
			}
			var missing []string
			for k := range leaves {
				if !covered[k] {
					if _, ok := limit1Exceptions[funcName(fd)+"|"+roleLeaf(fd, k)]; !ok {
						missing = append(missing, k)
					}
				}
			}
			sort.Strings(missing)
			c.check(len(missing) == 0, key, cl, "guarded: a dominating comparison with "+maxName+" measures "+leaves.String(),
				fmt.Sprintf("%s value built from %s is not covered by a dominating `… > %s` guard (unmeasured: %v)", tn, leaves.String(), maxName, missing))
			return true
		})
	})
}

// ---------------------------------------------------------------- LIMIT.2

func ruleLIMIT2(c *Ctx) {
	w := c.W
	p := w.Root
	bufT := p.Types.Scope().Lookup("fmtbuf")
	if bufT == nil {
		c.anchor("type fmtbuf")
		return
	}
	isBuf := func(t types.Type) bool { return t != nil && types.Identical(t, bufT.Type()) }
	seq := seqKeys{}
	w.AllFuncDecls(p, func(fd *ast.FuncDecl) {
		inspectWithStack(fd.Body, func(n ast.Node, stack []ast.Node) bool {
			as, ok := n.(*ast.AssignStmt)
			if !ok {
				return true
			}
			for i, l := range as.Lhs {
				lt := p.TypesInfo.Types[l].Type
				if !isBuf(lt) {
					continue
				}
				// stores into the shared buffer: *ptr = … or x.buf = …; plain
				// local temporaries (buf := *f.buf; buf = append(buf, …)) only matter
				// when written back
				if _, isLocal := ast.Unparen(l).(*ast.Ident); isLocal {
					continue
				}
				var rhs ast.Expr
				if len(as.Rhs) == len(as.Lhs) {
					rhs = as.Rhs[i]
				}
				key := seq.next(funcName(fd) + "/buffer-store")
				// shrinking re-slice buf[:0] is not a growth
				if se, ok := ast.Unparen(rhs).(*ast.SliceExpr); ok && se.Low == nil && se.High != nil {
					if k, ok := ConstInt(p, se.High); ok && k == 0 {
						c.ok(key, as, "buffer reset")
						continue
					}
				}
				good := false
				for _, g := range precedingGuards(stack) {
					b, ok := gtExpr(g.Cond)
					if !ok || (b.Op != token.GTR && b.Op != token.GEQ) {
						continue
					}
					lo := ObjOf(p, stripConv(p, b.Y))
					if lo == nil || lo.Name() != "MaxStringLen" {
						continue
					}
					// the guard panics with / returns ErrStringLimit
					if containsNode(g.Body, func(m ast.Node) bool {
						id, ok := m.(*ast.Ident)
						return ok && id.Name == "ErrStringLimit"
					}) {
						good = true
					}
				}
				c.check(good, key, as, "output buffer grown only after a dominating comparison with MaxStringLen", "the formatter's output buffer is extended in "+funcName(fd)+" without a dominating MaxStringLen check: format() can return a string longer than the limit")
			}
			return true
		})
	})
}

// ---------------------------------------------------------------- LIMIT.3

func ruleLIMIT3(c *Ctx) {
	w := c.W
	p := w.Root
	comp := w.FuncDecl(p, "Compiler.Compile")
	if comp == nil {
		c.anchor("Compiler.Compile")
		return
	}
	// every addConstant(&String{…}) in the compiler is covered by LIMIT.1's
	// guard rule; here: the two literal arms exist and compare before adding
	n := 0
	inspectWithStack(comp.Body, func(nd ast.Node, stack []ast.Node) bool {
		call, ok := nd.(*ast.CallExpr)
		if !ok {
			return true
		}
		fn := Callee(p, call)
		if !isMethodOf(fn, p.Types, "Compiler", "addConstant") || len(call.Args) != 1 {
			return true
		}
		u, ok := ast.Unparen(call.Args[0]).(*ast.UnaryExpr)
		if !ok {
			return true
		}
		cl, ok := u.X.(*ast.CompositeLit)
		if !ok {
			return true
		}
		if tn, _ := namedName(p.TypesInfo.Types[cl].Type); tn != "String" {
			return true
		}
		n++
		good := false
		for _, g := range precedingGuards(stack) {
			if containsNode(g.Cond, func(m ast.Node) bool {
				id, ok := m.(*ast.Ident)
				return ok && id.Name == "MaxStringLen"
			}) && containsNode(g.Body, func(m ast.Node) bool {
				id, ok := m.(*ast.Ident)
				return ok && id.Name == "ErrStringLimit"
			}) {
				good = true
			}
		}
		c.check(good, fmt.Sprintf("literal/%s#%d", w.ctxKey(call.Pos()), n), call, "literal length compared with MaxStringLen before it becomes a constant", "string literal added to the constant pool without a MaxStringLen check")
		return true
	})
	if n < 2 {
		c.fail("literal/count", comp, fmt.Sprintf("expected the string-literal and map-key arms to add String constants; found %d", n))
	}
}
