package main

// world.go: loading /repo's current working tree (parsed + type-checked) and
// role-based anchor resolution helpers shared by all rules.

import (
	"bytes"
	"fmt"
	"go/ast"
	"go/constant"
	"go/printer"
	"go/token"
	"go/types"
	"os"
	"path/filepath"
	"regexp"
	"sort"
	"strconv"
	"strings"

	"golang.org/x/tools/go/ast/astutil"
	"golang.org/x/tools/go/packages"
)

// World is the resolved program: every non-test package of the module under
// -repo, parsed and type-checked with the build's own flags.
type World struct {
	RepoDir string
	ModPath string
	Fset    *token.FileSet
	All     []*packages.Package
	ByPath  map[string]*packages.Package

	Root, Parser, Token, Stdlib, JSON *packages.Package

	NumFuncs int
	NumFiles int
	GOOS     string
	GOARCH   string
	Ignored  []string // non-test Go files of the module excluded by build constraints in this load (generator tabled)
	ExtraEnv []string // build configuration overrides (GOARCH=386, GOOS=windows) of this load
}

func loadWorld(repo string, extraEnv ...string) (*World, error) {
	abs, err := filepath.Abs(repo)
	if err != nil {
		return nil, err
	}
	env := []string{}
	for _, e := range os.Environ() {
		if strings.HasPrefix(e, "GOWORK=") || strings.HasPrefix(e, "GOFLAGS=") {
			continue
		}
		env = append(env, e)
	}
	env = append(env, "GOFLAGS=-mod=mod", "GOWORK=off", "GOPROXY=off", "GOSUMDB=off", "GOTOOLCHAIN=local")
	env = append(env, extraEnv...)
	fset := token.NewFileSet()
	cfg := &packages.Config{
		Mode: packages.NeedName | packages.NeedFiles | packages.NeedCompiledGoFiles |
			packages.NeedImports | packages.NeedDeps | packages.NeedTypes |
			packages.NeedSyntax | packages.NeedTypesInfo | packages.NeedTypesSizes | packages.NeedModule,
		Dir:  abs,
		Env:  env,
		Fset: fset,
	}
	pkgs, err := packages.Load(cfg, "./...")
	if err != nil {
		return nil, fmt.Errorf("packages.Load: %w", err)
	}
	if len(pkgs) < 5 {
		return nil, fmt.Errorf("only %d packages loaded from %s (expected the whole module)", len(pkgs), abs)
	}
	w := &World{RepoDir: abs, Fset: fset, All: pkgs, ByPath: map[string]*packages.Package{}, ExtraEnv: extraEnv}
	var errs []string
	for _, p := range pkgs {
		for _, e := range p.Errors {
			errs = append(errs, p.PkgPath+": "+e.Error())
		}
		if p.Types == nil || p.TypesInfo == nil {
			errs = append(errs, p.PkgPath+": no type information")
		}
		w.ByPath[p.PkgPath] = p
		if p.Module != nil && w.ModPath == "" {
			w.ModPath = p.Module.Path
		}
		w.NumFiles += len(p.Syntax)
		for _, f := range p.IgnoredFiles {
			b := filepath.Base(f)
			if strings.HasSuffix(b, ".go") && !strings.HasSuffix(b, "_test.go") && b != "gensrcmods.go" { // gensrcmods.go: `+build ignore` generator program
				w.Ignored = append(w.Ignored, b)
			}
		}
		for _, f := range p.Syntax {
			for _, d := range f.Decls {
				if fd, ok := d.(*ast.FuncDecl); ok && fd.Body != nil {
					w.NumFuncs++
				}
			}
		}
	}
	if len(errs) > 0 {
		return nil, fmt.Errorf("load/type errors (the tree must build): %s", strings.Join(errs, "; "))
	}
	if w.ModPath == "" {
		return nil, fmt.Errorf("module path not found")
	}
	need := func(sub string) (*packages.Package, error) {
		pp := w.ModPath
		if sub != "" {
			pp += "/" + sub
		}
		p := w.ByPath[pp]
		if p == nil {
			return nil, fmt.Errorf("package %s not loaded", pp)
		}
		return p, nil
	}
	if w.Root, err = need(""); err != nil {
		return nil, err
	}
	if w.Parser, err = need("parser"); err != nil {
		return nil, err
	}
	if w.Token, err = need("token"); err != nil {
		return nil, err
	}
	if w.Stdlib, err = need("stdlib"); err != nil {
		return nil, err
	}
	if w.JSON, err = need("stdlib/json"); err != nil {
		return nil, err
	}
	// helper map for pattern searches (see containsNode)
	gHelpers = map[*ast.CallExpr]*ast.FuncDecl{}
	decls := map[*types.Func]*ast.FuncDecl{}
	for _, p := range pkgs {
		for _, f := range p.Syntax {
			for _, d := range f.Decls {
				if fd, ok := d.(*ast.FuncDecl); ok && fd.Body != nil && !ast.IsExported(fd.Name.Name) {
					if fn, ok := p.TypesInfo.Defs[fd.Name].(*types.Func); ok {
						decls[fn] = fd
					}
				}
			}
		}
	}
	for _, p := range pkgs {
		for _, f := range p.Syntax {
			ast.Inspect(f, func(n ast.Node) bool {
				if call, ok := n.(*ast.CallExpr); ok {
					if fd := decls[Callee(p, call)]; fd != nil {
						gHelpers[call] = fd
					}
				}
				return true
			})
		}
	}
	return w, nil
}

// Site renders a position relative to the repo ("vm.go:123").
func (w *World) Site(n ast.Node) string {
	if n == nil {
		return "?"
	}
	return w.SitePos(n.Pos())
}

func (w *World) SitePos(p token.Pos) string {
	if !p.IsValid() {
		return "?"
	}
	pos := w.Fset.Position(p)
	rel, err := filepath.Rel(w.RepoDir, pos.Filename)
	if err != nil {
		rel = pos.Filename
	}
	return fmt.Sprintf("%s:%d", rel, pos.Line)
}

// Src prints a node as source text (one line, whitespace collapsed).
func (w *World) Src(n ast.Node) string {
	if n == nil {
		return "<nil>"
	}
	var b bytes.Buffer
	_ = printer.Fprint(&b, w.Fset, n)
	s := strings.Join(strings.Fields(b.String()), " ")
	if len(s) > 160 {
		s = s[:157] + "..."
	}
	return s
}

// FuncDecl finds a function or method declaration: "name" or "Recv.name".
func (w *World) FuncDecl(p *packages.Package, name string) *ast.FuncDecl {
	recv, fn := "", name
	if i := strings.Index(name, "."); i >= 0 {
		recv, fn = name[:i], name[i+1:]
	}
	for _, f := range p.Syntax {
		for _, d := range f.Decls {
			fd, ok := d.(*ast.FuncDecl)
			if !ok || fd.Name.Name != fn {
				continue
			}
			if recvTypeName(fd) == recv {
				return fd
			}
		}
	}
	return nil
}

func recvTypeName(fd *ast.FuncDecl) string {
	if fd.Recv == nil || len(fd.Recv.List) == 0 {
		return ""
	}
	t := fd.Recv.List[0].Type
	for {
		switch x := t.(type) {
		case *ast.StarExpr:
			t = x.X
			continue
		case *ast.ParenExpr:
			t = x.X
			continue
		case *ast.Ident:
			return x.Name
		case *ast.IndexExpr:
			t = x.X
			continue
		}
		return ""
	}
}

func recvName(fd *ast.FuncDecl) string {
	if fd.Recv == nil || len(fd.Recv.List) == 0 || len(fd.Recv.List[0].Names) == 0 {
		return ""
	}
	return fd.Recv.List[0].Names[0].Name
}

// AllFuncDecls iterates over every function declaration with a body in p.
func (w *World) AllFuncDecls(p *packages.Package, f func(fd *ast.FuncDecl)) {
	for _, file := range p.Syntax {
		for _, d := range file.Decls {
			if fd, ok := d.(*ast.FuncDecl); ok && fd.Body != nil {
				f(fd)
			}
		}
	}
}

func funcName(fd *ast.FuncDecl) string {
	if r := recvTypeName(fd); r != "" {
		return r + "." + fd.Name.Name
	}
	return fd.Name.Name
}

// Callee resolves the static callee of a call through type information.
func Callee(p *packages.Package, call *ast.CallExpr) *types.Func {
	var id *ast.Ident
	switch f := ast.Unparen(call.Fun).(type) {
	case *ast.Ident:
		id = f
	case *ast.SelectorExpr:
		id = f.Sel
	case *ast.IndexExpr:
		if x, ok := f.X.(*ast.Ident); ok {
			id = x
		} else if x, ok := f.X.(*ast.SelectorExpr); ok {
			id = x.Sel
		}
	}
	if id == nil {
		return nil
	}
	if fn, ok := p.TypesInfo.Uses[id].(*types.Func); ok {
		return fn
	}
	return nil
}

// IsBuiltinCall reports whether call is a call of the Go builtin `name`.
func IsBuiltinCall(p *packages.Package, call *ast.CallExpr, name string) bool {
	id, ok := ast.Unparen(call.Fun).(*ast.Ident)
	if !ok {
		return false
	}
	b, ok := p.TypesInfo.Uses[id].(*types.Builtin)
	return ok && b.Name() == name
}

// FuncFullName returns "pkgpath.Name" or "pkgpath.(Recv).Name" for a func.
func FuncFullName(fn *types.Func) string {
	if fn == nil {
		return ""
	}
	sig, _ := fn.Type().(*types.Signature)
	if sig != nil && sig.Recv() != nil {
		t := sig.Recv().Type()
		if pt, ok := t.(*types.Pointer); ok {
			t = pt.Elem()
		}
		if nt, ok := t.(*types.Named); ok {
			pk := ""
			if nt.Obj().Pkg() != nil {
				pk = nt.Obj().Pkg().Path()
			}
			return pk + ".(" + nt.Obj().Name() + ")." + fn.Name()
		}
		return "(" + t.String() + ")." + fn.Name()
	}
	if fn.Pkg() == nil {
		return fn.Name()
	}
	return fn.Pkg().Path() + "." + fn.Name()
}

// isMethodOf reports fn is method `name` with receiver (pointer to) named type recv in pkg.
func isMethodOf(fn *types.Func, pkg *types.Package, recv, name string) bool {
	if fn == nil || fn.Name() != name {
		return false
	}
	sig, _ := fn.Type().(*types.Signature)
	if sig == nil || sig.Recv() == nil {
		return false
	}
	return namedIs(sig.Recv().Type(), pkg, recv)
}

// namedIs: t (possibly pointer) is the named type pkg.name.
func namedIs(t types.Type, pkg *types.Package, name string) bool {
	t = types.Unalias(t)
	if pt, ok := t.(*types.Pointer); ok {
		t = types.Unalias(pt.Elem())
	}
	nt, ok := t.(*types.Named)
	if !ok {
		return false
	}
	return nt.Obj().Name() == name && nt.Obj().Pkg() == pkg
}

// namedName returns the name of the named type behind t (through one pointer), and its package.
func namedName(t types.Type) (string, *types.Package) {
	if t == nil {
		return "", nil
	}
	t = types.Unalias(t)
	if pt, ok := t.(*types.Pointer); ok {
		t = types.Unalias(pt.Elem())
	}
	if nt, ok := t.(*types.Named); ok {
		return nt.Obj().Name(), nt.Obj().Pkg()
	}
	return "", nil
}

// ConstInt returns the constant integer value of e, if any.
func ConstInt(p *packages.Package, e ast.Expr) (int64, bool) {
	tv, ok := p.TypesInfo.Types[e]
	if !ok || tv.Value == nil {
		return 0, false
	}
	v := constant.ToInt(tv.Value)
	if v.Kind() != constant.Int {
		return 0, false
	}
	i, exact := constant.Int64Val(v)
	return i, exact
}

// ConstObj returns the *types.Const an identifier/selector expression denotes.
func ConstObj(p *packages.Package, e ast.Expr) *types.Const {
	var id *ast.Ident
	switch x := ast.Unparen(e).(type) {
	case *ast.Ident:
		id = x
	case *ast.SelectorExpr:
		id = x.Sel
	}
	if id == nil {
		return nil
	}
	c, _ := p.TypesInfo.Uses[id].(*types.Const)
	return c
}

// ObjOf returns the object an identifier or selector denotes (use or def).
func ObjOf(p *packages.Package, e ast.Expr) types.Object {
	switch x := ast.Unparen(e).(type) {
	case *ast.Ident:
		if o := p.TypesInfo.Uses[x]; o != nil {
			return o
		}
		return p.TypesInfo.Defs[x]
	case *ast.SelectorExpr:
		if o := p.TypesInfo.Uses[x.Sel]; o != nil {
			return o
		}
	}
	return nil
}

// FieldSel: if e is a selector x.f selecting a struct field, return the field var and x.
func FieldSel(p *packages.Package, e ast.Expr) (*types.Var, ast.Expr) {
	se, ok := ast.Unparen(e).(*ast.SelectorExpr)
	if !ok {
		return nil, nil
	}
	sel := p.TypesInfo.Selections[se]
	if sel == nil || sel.Kind() != types.FieldVal {
		return nil, nil
	}
	v, _ := sel.Obj().(*types.Var)
	return v, se.X
}

// structField finds field `name` of named struct type pkg.typ.
func structField(pkg *types.Package, typ, name string) *types.Var {
	o := pkg.Scope().Lookup(typ)
	if o == nil {
		return nil
	}
	st, ok := o.Type().Underlying().(*types.Struct)
	if !ok {
		return nil
	}
	for i := 0; i < st.NumFields(); i++ {
		if st.Field(i).Name() == name {
			return st.Field(i)
		}
	}
	return nil
}

func sortedKeys[V any](m map[string]V) []string {
	ks := make([]string, 0, len(m))
	for k := range m {
		ks = append(ks, k)
	}
	sort.Strings(ks)
	return ks
}

func setDiff(a, b map[string]bool) []string {
	var d []string
	for k := range a {
		if !b[k] {
			d = append(d, k)
		}
	}
	sort.Strings(d)
	return d
}

// inspectWithStack walks n calling f with the stack of enclosing nodes (outermost first, n last).
func inspectWithStack(root ast.Node, f func(n ast.Node, stack []ast.Node) bool) {
	var stack []ast.Node
	ast.Inspect(root, func(n ast.Node) bool {
		if n == nil {
			stack = stack[:len(stack)-1]
			return true
		}
		stack = append(stack, n)
		if !f(n, stack) {
			stack = stack[:len(stack)-1]
			return false
		}
		return true
	})
}

// enclosingFuncName finds the name of the FuncDecl containing pos in package p.
func (w *World) enclosingFunc(p *packages.Package, pos token.Pos) *ast.FuncDecl {
	for _, f := range p.Syntax {
		if pos < f.Pos() || pos > f.End() {
			continue
		}
		for _, d := range f.Decls {
			if fd, ok := d.(*ast.FuncDecl); ok && fd.Pos() <= pos && pos <= fd.End() {
				return fd
			}
		}
	}
	return nil
}

// ctxKey renders a stable, line-free description of the construct containing
// pos: the enclosing function plus the labels of every enclosing case clause
// ("VM.run/parser.OpSliceIndex/*ImmutableArray").
func (w *World) ctxKey(pos token.Pos) string {
	if !pos.IsValid() {
		return "?"
	}
	for _, p := range w.All {
		for _, f := range p.Syntax {
			if pos < f.Pos() || pos > f.End() {
				continue
			}
			path, _ := astutil.PathEnclosingInterval(f, pos, pos)
			var parts []string
			for i := len(path) - 1; i >= 0; i-- {
				switch n := path[i].(type) {
				case *ast.FuncDecl:
					parts = append(parts, funcName(n))
				case *ast.FuncLit:
					parts = append(parts, "func-literal")
				case *ast.CaseClause:
					if n.List == nil {
						parts = append(parts, "default")
					} else {
						var ls []string
						for _, e := range n.List {
							ls = append(ls, w.Src(e))
						}
						parts = append(parts, strings.Join(ls, ","))
					}
				}
			}
			return strings.Join(parts, "/")
		}
	}
	return "?"
}

// nodeAt returns the innermost AST node path at pos.
func (w *World) pathAt(pos token.Pos) ([]ast.Node, *packages.Package) {
	for _, p := range w.All {
		for _, f := range p.Syntax {
			if pos >= f.Pos() && pos <= f.End() {
				path, _ := astutil.PathEnclosingInterval(f, pos, pos)
				return path, p
			}
		}
	}
	return nil, nil
}

func readRepoFile(w *World, rel string) (string, error) {
	b, err := os.ReadFile(filepath.Join(w.RepoDir, rel))
	return string(b), err
}

type pkgT = *packages.Package

func strconvUnquote(s string) (string, error) { return strconv.Unquote(s) }

// lessForm returns a comparison oriented as < or <= (`a > b` is `b < a`), so
// that rules accept a mirrored spelling of the same test.
func lessForm(b *ast.BinaryExpr) (token.Token, ast.Expr, ast.Expr) {
	switch b.Op {
	case token.GTR:
		return token.LSS, b.Y, b.X
	case token.GEQ:
		return token.LEQ, b.Y, b.X
	}
	return b.Op, b.X, b.Y
}

// paramOfType returns the function's only parameter whose type prints as t
// (unqualified), e.g. "string" or "*SymbolTable"; nil if none or several.
func paramOfType(p pkgT, fd *ast.FuncDecl, t string) types.Object {
	var found types.Object
	n := 0
	for _, f := range fd.Type.Params.List {
		for _, nm := range f.Names {
			o := p.TypesInfo.Defs[nm]
			if o != nil && types.TypeString(o.Type(), func(*types.Package) string { return "" }) == t {
				found = o
				n++
			}
		}
	}
	if n != 1 {
		return nil
	}
	return found
}

// isObj: e is an identifier denoting o.
func isObj(p pkgT, e ast.Expr, o types.Object) bool {
	id, ok := ast.Unparen(e).(*ast.Ident)
	return ok && o != nil && p.TypesInfo.ObjectOf(id) == o
}

// SrcRecv prints a node with the enclosing method's receiver spelled "recv",
// so that a pattern like `recv.ch=='/'` does not depend on the receiver's name.
func (w *World) SrcRecv(fd *ast.FuncDecl, n ast.Node) string {
	s := strings.ReplaceAll(w.Src(n), " ", "")
	if fd == nil || fd.Recv == nil || len(fd.Recv.List) != 1 || len(fd.Recv.List[0].Names) != 1 {
		return s
	}
	name := fd.Recv.List[0].Names[0].Name
	re := recvRe[name]
	if re == nil {
		re = regexp.MustCompile(`\b` + regexp.QuoteMeta(name) + `\.`)
		recvRe[name] = re
	}
	return re.ReplaceAllString(s, "recv.")
}

// gtExpr returns e as a comparison written with the greater operand on the
// left (`a > b`, `a >= b`), whichever way round the source spells it
// (`b < a`, `b <= a`); other binary expressions are returned unchanged. Guard
// recognisers use it so that a mirrored comparison is the same guard.
func gtExpr(e ast.Expr) (*ast.BinaryExpr, bool) {
	b, ok := ast.Unparen(e).(*ast.BinaryExpr)
	if !ok {
		return nil, false
	}
	switch b.Op {
	case token.LSS:
		return &ast.BinaryExpr{X: b.Y, OpPos: b.OpPos, Op: token.GTR, Y: b.X}, true
	case token.LEQ:
		return &ast.BinaryExpr{X: b.Y, OpPos: b.OpPos, Op: token.GEQ, Y: b.X}, true
	}
	return b, true
}

var recvRe = map[string]*regexp.Regexp{}

// singleDef: e is a local variable of fd that is written exactly once, by
// `x := expr` (or `var x = expr`) with one value per name; returns expr. Rules
// that evaluate a condition use it to see through a named condition
// (`isDefine := op == token.Define; if isDefine && …`).
func singleDef(p *packages.Package, fd *ast.FuncDecl, e ast.Expr) ast.Expr {
	id, ok := ast.Unparen(e).(*ast.Ident)
	if !ok || fd == nil || fd.Body == nil {
		return nil
	}
	obj, ok := p.TypesInfo.ObjectOf(id).(*types.Var)
	if !ok || obj.IsField() {
		return nil
	}
	var def ast.Expr
	writes := 0
	ast.Inspect(fd.Body, func(n ast.Node) bool {
		switch x := n.(type) {
		case *ast.AssignStmt:
			for i, l := range x.Lhs {
				if lid, ok := l.(*ast.Ident); ok && p.TypesInfo.ObjectOf(lid) == types.Object(obj) {
					writes++
					if len(x.Lhs) == len(x.Rhs) && (x.Tok == token.DEFINE || x.Tok == token.ASSIGN) {
						def = x.Rhs[i]
					} else {
						def = nil
						writes++
					}
				}
			}
		case *ast.IncDecStmt:
			if lid, ok := x.X.(*ast.Ident); ok && p.TypesInfo.ObjectOf(lid) == types.Object(obj) {
				writes += 2
			}
		case *ast.ValueSpec:
			for i, nm := range x.Names {
				if p.TypesInfo.Defs[nm] == types.Object(obj) {
					writes++
					if i < len(x.Values) && len(x.Values) == len(x.Names) {
						def = x.Values[i]
					}
				}
			}
		case *ast.UnaryExpr:
			if x.Op == token.AND {
				if lid, ok := ast.Unparen(x.X).(*ast.Ident); ok && p.TypesInfo.ObjectOf(lid) == types.Object(obj) {
					writes += 2 // address taken
				}
			}
		case *ast.RangeStmt:
			for _, k := range []ast.Expr{x.Key, x.Value} {
				if lid, ok := k.(*ast.Ident); ok && p.TypesInfo.ObjectOf(lid) == types.Object(obj) {
					writes += 2
				}
			}
		}
		return true
	})
	if writes != 1 {
		return nil
	}
	return def
}

// execFor: the statements of list that run when the subject expression has
// the constant value val - a switch on the subject is replaced by the clause
// it selects, an if-chain whose conditions compare the subject with constants
// by the branch taken. Statements that do not depend on the subject are kept
// as they are. Rules use it to ask "what does this arm do for token T"
// whatever the dispatch is written as.
func execFor(p *packages.Package, list []ast.Stmt, isSubject func(ast.Expr) bool, val types.Object) []ast.Stmt {
	var evalCond func(e ast.Expr) (bool, bool)
	evalCond = func(e ast.Expr) (bool, bool) {
		switch x := ast.Unparen(e).(type) {
		case *ast.UnaryExpr:
			if x.Op == token.NOT {
				v, ok := evalCond(x.X)
				return !v, ok
			}
		case *ast.BinaryExpr:
			switch x.Op {
			case token.LAND, token.LOR:
				l, ok1 := evalCond(x.X)
				r, ok2 := evalCond(x.Y)
				if x.Op == token.LAND {
					if (ok1 && !l) || (ok2 && !r) {
						return false, true
					}
					return l && r, ok1 && ok2
				}
				if (ok1 && l) || (ok2 && r) {
					return true, true
				}
				return l || r, ok1 && ok2
			case token.EQL, token.NEQ:
				var other ast.Expr
				switch {
				case isSubject(x.X):
					other = x.Y
				case isSubject(x.Y):
					other = x.X
				default:
					return false, false
				}
				co := namedValue(p, other)
				if co == nil {
					return false, false
				}
				return (co == val) == (x.Op == token.EQL), true
			}
		}
		return false, false
	}
	var out []ast.Stmt
	var walk func(list []ast.Stmt)
	walk = func(list []ast.Stmt) {
		for _, st := range list {
			switch x := st.(type) {
			case *ast.BlockStmt:
				walk(x.List)
			case *ast.IfStmt:
				v, ok := evalCond(x.Cond)
				if !ok {
					out = append(out, st)
					continue
				}
				if x.Init != nil {
					out = append(out, x.Init)
				}
				if v {
					walk(x.Body.List)
				} else if x.Else != nil {
					walk([]ast.Stmt{x.Else})
				}
			case *ast.SwitchStmt:
				if x.Tag == nil {
					// tagless: first clause whose condition holds
					done := false
					undecided := false
					var def *ast.CaseClause
					for _, cl := range x.Body.List {
						cc := cl.(*ast.CaseClause)
						if cc.List == nil {
							def = cc
							continue
						}
						for _, e := range cc.List {
							v, ok := evalCond(e)
							if !ok {
								undecided = true
							}
							if ok && v && !done && !undecided {
								walk(cc.Body)
								done = true
							}
						}
					}
					if undecided {
						out = append(out, st)
					} else if !done && def != nil {
						walk(def.Body)
					}
					continue
				}
				if !isSubject(x.Tag) {
					out = append(out, st)
					continue
				}
				var def, hit *ast.CaseClause
				for _, cl := range x.Body.List {
					cc := cl.(*ast.CaseClause)
					if cc.List == nil {
						def = cc
					}
					for _, e := range cc.List {
						if co := namedValue(p, e); co != nil && co == val {
							hit = cc
						}
					}
				}
				if hit == nil {
					hit = def
				}
				if hit != nil {
					walk(hit.Body)
				}
			default:
				out = append(out, st)
			}
		}
	}
	walk(list)
	return out
}

// namedValue: the constant or package-level variable (a sentinel such as an
// error value) an expression names.
func namedValue(p *packages.Package, e ast.Expr) types.Object {
	if co := ConstObj(p, e); co != nil {
		return co
	}
	if v, ok := ObjOf(p, e).(*types.Var); ok && !v.IsField() && v.Pkg() != nil && v.Parent() == v.Pkg().Scope() {
		return v
	}
	return nil
}

// funcDeclAt: the function declaration of package p that contains pos.
func funcDeclAt(p *packages.Package, pos token.Pos) *ast.FuncDecl {
	for _, f := range p.Syntax {
		if pos < f.Pos() || pos > f.End() {
			continue
		}
		for _, d := range f.Decls {
			if fd, ok := d.(*ast.FuncDecl); ok && fd.Pos() <= pos && pos <= fd.End() {
				return fd
			}
		}
	}
	return nil
}
