package main

// rules_json.go: C18 — JSON.1-6.

import (
	"fmt"
	"go/ast"
	"go/token"
	"go/types"
	"sort"
	"strings"

	"golang.org/x/tools/go/packages"
)

func ruleJSON1(c *Ctx) {
	w := c.W
	ref, err := w.loadRefJSON("")
	if err != nil {
		c.anchor("reference encoding/json: " + err.Error())
		return
	}
	mine, a1, e1 := w.jsonTables(w.JSON)
	theirs, a2, e2 := w.jsonTables(ref)
	if e1 != "" || e2 != "" {
		c.anchor("scanner tables: " + e1 + e2)
		return
	}
	for k := range a1 {
		c.note("assumption (tengo scanner): %s", k)
	}
	for k := range a2 {
		c.note("assumption (reference scanner): %s", k)
	}
	names := map[string]bool{}
	for n := range mine {
		names[n] = true
	}
	for n := range theirs {
		names[n] = true
	}
	cells := 0
	for _, n := range sortedKeys(names) {
		m, okm := mine[n]
		t, okt := theirs[n]
		key := "state/" + n
		fd := w.FuncDecl(w.JSON, n)
		if !okm || !okt {
			c.fail(key, fd, fmt.Sprintf("state function %s exists in only one of stdlib/json (%v) and encoding/json (%v): the automata cannot be matched state by state", n, okm, okt))
			continue
		}
		var diffs []string
		ks := make([]string, 0, len(m))
		for k := range m {
			ks = append(ks, k)
		}
		sort.Strings(ks)
		for _, k := range ks {
			cells++
			a, b := m[k], t[k]
			if strings.HasPrefix(a.Step, "!") && strings.HasPrefix(b.Step, "!") {
				continue // configuration impossible in both
			}
			if a != b && len(diffs) < 3 {
				parts := strings.SplitN(k, "|", 2)
				diffs = append(diffs, fmt.Sprintf("on byte %s with parse stack %s: tengo → (ret %d, next %s, stack %s, endTop %v, err %v), encoding/json → (ret %d, next %s, stack %s, endTop %v, err %v)", byteName(parts[1]), parts[0], a.Ret, a.Step, a.Stack, a.EndT, a.Err, b.Ret, b.Step, b.Stack, b.EndT, b.Err))
			}
		}
		c.check(len(diffs) == 0, key, fd, fmt.Sprintf("transition table equal to encoding/json's over 256 bytes × 7 stack summaries"), strings.Join(diffs, "; "))
	}
	c.note("JSON.1 compared %d table cells (%d state functions × 256 bytes × 7 parse-stack summaries) against encoding/json of %s", cells, len(names), ref.GoFiles[0])
	// the depth limit of the reference
	hasLimit := func(p *packages.Package) bool {
		fd := w.FuncDecl(p, "scanner.pushParseState")
		if fd == nil {
			return false
		}
		return containsNode(fd.Body, func(n ast.Node) bool {
			b, ok := n.(*ast.BinaryExpr)
			return ok && (b.Op == token.LEQ || b.Op == token.GTR || b.Op == token.LSS || b.Op == token.GEQ) && strings.Contains(w.Src(b), "len(")
		})
	}
	if hasLimit(ref) {
		c.check(hasLimit(w.JSON), "depth-limit", w.FuncDecl(w.JSON, "scanner.pushParseState"), "nesting depth limited like encoding/json", "encoding/json rejects input nested deeper than its maxNestingDepth; stdlib/json has no limit (decode accepts text the reference considers invalid, and the recursive decoder can exhaust the native stack)")
		a, ea := maxAcceptedDepth(w, w.JSON)
		b, eb := maxAcceptedDepth(w, ref)
		if ea != "" || eb != "" {
			c.undecided("depth-limit/value", w.FuncDecl(w.JSON, "scanner.pushParseState"), "cannot derive the deepest accepted nesting: "+ea+eb)
		} else {
			c.check(a == b, "depth-limit/value", w.FuncDecl(w.JSON, "scanner.pushParseState"), fmt.Sprintf("deepest accepted nesting %d, as in encoding/json", a), fmt.Sprintf("stdlib/json accepts nesting up to %d, encoding/json up to %d: a text of depth %d is valid for one and invalid for the other", a, b, max64(a, b)))
		}
	}
}

func byteName(s string) string {
	var n int
	fmt.Sscanf(s, "%d", &n)
	if n >= 32 && n < 127 {
		return fmt.Sprintf("%q", rune(n))
	}
	return fmt.Sprintf("0x%02x", n)
}

func ruleJSON2(c *Ctx) {
	w := c.W
	p := w.JSON
	fd := w.FuncDecl(p, "Decode")
	if fd == nil {
		c.anchor("json.Decode")
		return
	}
	// err := checkValid(data, &d.scan); if err != nil { return nil, err } precede any decoding step
	iv := stmtIndexWithCall(w, fd.Body.List, func(call *ast.CallExpr) bool {
		fn := Callee(p, call)
		return fn != nil && fn.Name() == "checkValid" && len(call.Args) == 2 && w.Src(call.Args[0]) == fd.Type.Params.List[0].Names[0].Name
	})
	good := iv >= 0
	if good {
		// `err := checkValid(…); if err != nil { return … }` or the same with the call in the if's init
		if is, ok := fd.Body.List[iv].(*ast.IfStmt); ok {
			good = is.Init != nil && terminates(is.Body) && strings.Contains(w.Src(is.Cond), "!= nil")
		} else if iv+1 < len(fd.Body.List) {
			is, ok := fd.Body.List[iv+1].(*ast.IfStmt)
			good = ok && terminates(is.Body) && strings.Contains(w.Src(is.Cond), "!= nil")
		} else {
			good = false
		}
	}
	first := true
	for i, s := range fd.Body.List {
		if i >= iv {
			break
		}
		if containsNode(s, func(n ast.Node) bool {
			call, ok := n.(*ast.CallExpr)
			if !ok {
				return false
			}
			fn := Callee(p, call)
			return fn != nil && (fn.Name() == "value" || fn.Name() == "scanWhile" || fn.Name() == "scanNext")
		}) {
			first = false
		}
	}
	c.check(good && first, "decode/validate-first", fd, "the whole input is validated (and the error returned) before any decoding step", "Decode does not validate the whole input with checkValid and return its error before decoding: the decoder's phase panics become reachable")
	// the decoder is fed the same bytes and the scanner is reset
	sameData := containsNode(fd.Body, func(n ast.Node) bool {
		call, ok := n.(*ast.CallExpr)
		if !ok {
			return false
		}
		fn := Callee(p, call)
		return fn != nil && fn.Name() == "init" && len(call.Args) == 1 && w.Src(call.Args[0]) == fd.Type.Params.List[0].Names[0].Name
	})
	reset := containsNode(fd.Body, func(n ast.Node) bool {
		call, ok := n.(*ast.CallExpr)
		if !ok {
			return false
		}
		fn := Callee(p, call)
		return fn != nil && fn.Name() == "reset"
	})
	c.check(sameData && reset, "decode/same-bytes", fd, "decoder initialised with the validated bytes and a reset scanner", "the decoder is not fed the same bytes that were validated, or the scanner is not reset")
	// checkValid: every byte stepped, error returned, eof checked
	cv := w.FuncDecl(p, "checkValid")
	if cv == nil {
		c.anchor("checkValid")
		return
	}
	loop := containsNode(cv.Body, func(n ast.Node) bool {
		rs, ok := n.(*ast.RangeStmt)
		if !ok || w.Src(rs.X) != cv.Type.Params.List[0].Names[0].Name {
			return false
		}
		return containsNode(rs.Body, func(m ast.Node) bool {
			is, ok := m.(*ast.IfStmt)
			return ok && strings.Contains(w.Src(is.Cond), ".step(") && strings.Contains(w.Src(is.Cond), "== scanError") && terminates(is.Body)
		})
	})
	eof := containsNode(cv.Body, func(n ast.Node) bool {
		is, ok := n.(*ast.IfStmt)
		return ok && strings.Contains(w.Src(is.Cond), ".eof() == scanError") && terminates(is.Body)
	})
	c.check(loop && eof, "checkValid/all-bytes-and-eof", cv, "steps every byte, stops at scanError, checks eof", "checkValid does not step every input byte and test eof()")
	// all phase panics live in decoder methods reached only after validation (who-may-call)
	n := 0
	w.AllFuncDecls(p, func(f *ast.FuncDecl) {
		ast.Inspect(f.Body, func(nd ast.Node) bool {
			call, ok := nd.(*ast.CallExpr)
			if ok && IsBuiltinCall(p, call, "panic") {
				n++
				arg := w.Src(call.Args[0])
				good := arg == "phasePanicMsg" && recvTypeName(f) == "decodeState"
				c.check(good, fmt.Sprintf("panic/%s#%d", funcName(f), n), call, "decoder phase panic (unreachable for validated input)", "explicit panic in stdlib/json that is not a decoder phase panic: "+arg)
			}
			return true
		})
	})
	// decodeState methods are entered only through Decode
	var bad []string
	for _, pk := range w.All {
		w.AllFuncDecls(pk, func(f *ast.FuncDecl) {
			if pk == p && (recvTypeName(f) == "decodeState" || f.Name.Name == "Decode") {
				return
			}
			ast.Inspect(f.Body, func(nd ast.Node) bool {
				if cl, ok := nd.(*ast.CompositeLit); ok {
					if tn, tp := namedName(pk.TypesInfo.Types[cl].Type); tn == "decodeState" && tp == p.Types {
						bad = append(bad, funcName(f))
					}
				}
				if vs, ok := nd.(*ast.ValueSpec); ok && vs.Type != nil {
					if tn, tp := namedName(pk.TypesInfo.Types[vs.Type].Type); tn == "decodeState" && tp == p.Types {
						bad = append(bad, funcName(f))
					}
				}
				return true
			})
		})
	}
	c.check(len(bad) == 0, "decode/single-entry", fd, "decodeState is created only in Decode", "decodeState is also created in "+strings.Join(bad, ","))
}

func ruleJSON3(c *Ctx) {
	w := c.W
	p := w.JSON
	sw := w.FuncDecl(p, "decodeState.scanWhile")
	lit := w.FuncDecl(p, "decodeState.literal")
	if sw == nil || lit == nil {
		c.anchor("scanWhile / literal")
		return
	}
	// the float flag: set exactly when the byte is '.', 'e' or 'E'
	var cond ast.Expr
	ast.Inspect(sw.Body, func(n ast.Node) bool {
		is, ok := n.(*ast.IfStmt)
		if ok && containsNode(is.Body, func(m ast.Node) bool {
			as, ok := m.(*ast.AssignStmt)
			return ok && len(as.Lhs) == 1 && w.Src(as.Rhs[0]) == "true"
		}) && cond == nil {
			cond = is.Cond
		}
		return true
	})
	if cond == nil {
		c.fail("number/float-flag", sw, "scanWhile no longer sets a float flag")
		return
	}
	chars := map[string]bool{}
	onlyEq := true
	ast.Inspect(cond, func(n ast.Node) bool {
		b, ok := n.(*ast.BinaryExpr)
		if !ok {
			return true
		}
		switch b.Op {
		case token.LOR:
		case token.EQL:
			if tv, ok := p.TypesInfo.Types[b.Y]; ok && tv.Value != nil {
				chars[tv.Value.ExactString()] = true
			}
		default:
			onlyEq = false
		}
		return true
	})
	want := map[string]bool{"46": true, "101": true, "69": true}
	c.check(onlyEq && sameSet(chars, want), "number/float-flag", sw, "a number is typed float iff it contains '.', 'e' or 'E'", fmt.Sprintf("float flag condition is %s (expected exactly c == '.' || c == 'e' || c == 'E')", w.Src(cond)))
	// literal(): isFloat → ParseFloat → Float; else ParseInt(…, 10, 64) → Int
	var probs []string
	// the flag: the variable assigned from scanWhile(…) in literal()
	var flagObj types.Object
	ast.Inspect(lit.Body, func(n ast.Node) bool {
		as, ok := n.(*ast.AssignStmt)
		if !ok || len(as.Lhs) != 1 || len(as.Rhs) != 1 {
			return true
		}
		if call, ok := as.Rhs[0].(*ast.CallExpr); ok && Callee(p, call) != nil && Callee(p, call).Name() == "scanWhile" {
			if id, ok := as.Lhs[0].(*ast.Ident); ok {
				flagObj = p.TypesInfo.ObjectOf(id)
			}
		}
		return true
	})
	var ifFloat *ast.IfStmt
	ast.Inspect(lit.Body, func(n ast.Node) bool {
		is, ok := n.(*ast.IfStmt)
		if !ok {
			return true
		}
		if id, isId := ast.Unparen(is.Cond).(*ast.Ident); isId && flagObj != nil && p.TypesInfo.Uses[id] == flagObj {
			ifFloat = is
		}
		return true
	})
	if ifFloat == nil {
		probs = append(probs, "no `if isFloat` branch")
	} else {
		pf := containsNode(ifFloat.Body, func(n ast.Node) bool {
			call, ok := n.(*ast.CallExpr)
			return ok && FuncFullName(Callee(p, call)) == "strconv.ParseFloat"
		}) && containsNode(ifFloat.Body, func(n ast.Node) bool {
			cl, ok := n.(*ast.CompositeLit)
			if !ok {
				return false
			}
			tn, _ := namedName(p.TypesInfo.Types[cl].Type)
			return tn == "Float"
		})
		if !pf {
			probs = append(probs, "float branch does not build a Float from strconv.ParseFloat")
		}
	}
	pi := false
	ast.Inspect(lit.Body, func(n ast.Node) bool {
		call, ok := n.(*ast.CallExpr)
		if ok && FuncFullName(Callee(p, call)) == "strconv.ParseInt" && len(call.Args) == 3 {
			b, ok1 := ConstInt(p, call.Args[1])
			z, ok2 := ConstInt(p, call.Args[2])
			if ok1 && ok2 && b == 10 && z == 64 {
				pi = true
			}
		}
		return true
	})
	if !pi {
		probs = append(probs, "integer branch is not strconv.ParseInt(item, 10, 64)")
	}
	// ParseInt's error is looked at (an integer literal beyond int64 must not
	// be clamped silently): the result is assigned to a named variable that a
	// condition tests, and the failing branch builds a Float
	errChecked := containsNode(lit.Body, func(n ast.Node) bool {
		as, ok := n.(*ast.AssignStmt)
		if !ok || len(as.Lhs) != 2 || len(as.Rhs) != 1 {
			return false
		}
		call, ok := as.Rhs[0].(*ast.CallExpr)
		if !ok || FuncFullName(Callee(p, call)) != "strconv.ParseInt" {
			return false
		}
		eid, ok := as.Lhs[1].(*ast.Ident)
		if !ok || eid.Name == "_" {
			return false
		}
		eo := p.TypesInfo.ObjectOf(eid)
		return containsNode(lit.Body, func(m ast.Node) bool {
			is, ok := m.(*ast.IfStmt)
			if !ok || !containsNode(is.Cond, func(k ast.Node) bool { id, ok := k.(*ast.Ident); return ok && p.TypesInfo.Uses[id] == eo }) {
				return false
			}
			return containsNode(is.Body, func(k ast.Node) bool {
				cl, ok := k.(*ast.CompositeLit)
				if !ok {
					return false
				}
				tn, _ := namedName(p.TypesInfo.Types[cl].Type)
				return tn == "Float"
			})
		})
	})
	if !errChecked {
		probs = append(probs, "the range error of strconv.ParseInt is discarded: an integer literal beyond int64 (e.g. the encoding of the float 1e20) is clamped to MaxInt64 instead of staying a float")
	}
	// isFloat comes from scanWhile over the literal
	fromScan := flagObj != nil
	if !fromScan {
		probs = append(probs, "isFloat is not the flag returned by scanWhile for this literal")
	}
	// null/true/false/string arms
	arms := map[string]string{}
	ast.Inspect(lit.Body, func(n ast.Node) bool {
		cc, ok := n.(*ast.CaseClause)
		if !ok {
			return true
		}
		for _, e := range cc.List {
			if tv, ok := p.TypesInfo.Types[e]; ok && tv.Value != nil {
				res := ""
				ast.Inspect(cc, func(m ast.Node) bool {
					if r, ok := m.(*ast.ReturnStmt); ok && len(r.Results) == 2 {
						res += w.Src(r.Results[0]) + ";"
					}
					return true
				})
				arms[tv.Value.ExactString()] = res
			}
		}
		return true
	})
	// the literal's first byte selects the value: evaluate the switch for
	// 'n', 't' and 'f' (shape-independent: `case 't', 'f'` with an inner test
	// of the byte and separate `case 't'` / `case 'f'` arms are the same)
	for _, wnt := range []struct {
		b    int64
		name string
		what string
	}{{'n', "UndefinedValue", "`null` does not decode to undefined"}, {'t', "TrueValue", "`true` does not decode to the true singleton"}, {'f', "FalseValue", "`false` does not decode to the false singleton"}} {
		if got := literalResult(w, p, lit, wnt.b); got != wnt.name {
			probs = append(probs, fmt.Sprintf("%s (first byte %q yields %s)", wnt.what, rune(wnt.b), got))
		}
	}
	if !strings.Contains(arms["34"], "String") {
		probs = append(probs, "string literals do not decode to String")
	}
	c.check(len(probs) == 0, "literal/typing", lit, "null→undefined, t/f→true/false, \"→String, number→Float iff flagged else Int (base 10, 64 bit)", strings.Join(probs, "; "))
}

// literalResult evaluates decodeState.literal's switch on the first byte for
// one concrete byte and returns the name of the object it returns ("?" when
// the shape is not understood).
func literalResult(w *World, p *packages.Package, lit *ast.FuncDecl, b int64) string {
	var sw *ast.SwitchStmt
	ast.Inspect(lit.Body, func(n ast.Node) bool {
		if x, ok := n.(*ast.SwitchStmt); ok && sw == nil {
			sw = x
		}
		return true
	})
	if sw == nil {
		return "?"
	}
	var clause *ast.CaseClause
	for _, cs := range sw.Body.List {
		cc := cs.(*ast.CaseClause)
		for _, e := range cc.List {
			if k, ok := ConstInt(p, e); ok && k == b {
				clause = cc
			}
		}
	}
	if clause == nil {
		return "no-arm"
	}
	var evalCond func(e ast.Expr) (bool, bool)
	evalCond = func(e ast.Expr) (bool, bool) {
		switch x := ast.Unparen(e).(type) {
		case *ast.BinaryExpr:
			switch x.Op {
			case token.EQL, token.NEQ:
				k, ok := ConstInt(p, x.Y)
				other := x.X
				if !ok {
					k, ok = ConstInt(p, x.X)
					other = x.Y
				}
				if _, isId := ast.Unparen(other).(*ast.Ident); !ok || !isId {
					if _, isIdx := ast.Unparen(other).(*ast.IndexExpr); !ok || !isIdx {
						return false, false
					}
				}
				return (k == b) == (x.Op == token.EQL), true
			case token.LAND, token.LOR:
				l, ok1 := evalCond(x.X)
				r, ok2 := evalCond(x.Y)
				if !ok1 || !ok2 {
					return false, false
				}
				if x.Op == token.LAND {
					return l && r, true
				}
				return l || r, true
			}
		case *ast.UnaryExpr:
			if x.Op == token.NOT {
				v, ok := evalCond(x.X)
				return !v, ok
			}
		}
		return false, false
	}
	var run func(list []ast.Stmt) string
	run = func(list []ast.Stmt) string {
		for _, s := range list {
			switch x := s.(type) {
			case *ast.ReturnStmt:
				if len(x.Results) == 0 {
					return "?"
				}
				if o := ObjOf(p, x.Results[0]); o != nil {
					return o.Name()
				}
				return "?"
			case *ast.IfStmt:
				v, ok := evalCond(x.Cond)
				if !ok {
					return "?"
				}
				if v {
					if r := run(x.Body.List); r != "" {
						return r
					}
				} else if x.Else != nil {
					var r string
					if blk, ok := x.Else.(*ast.BlockStmt); ok {
						r = run(blk.List)
					} else {
						r = run([]ast.Stmt{x.Else})
					}
					if r != "" {
						return r
					}
				}
			case *ast.BlockStmt:
				if r := run(x.List); r != "" {
					return r
				}
			}
		}
		return ""
	}
	if r := run(clause.Body); r != "" {
		return r
	}
	return "falls-through"
}

// escape table of a string-unquoting function: escape char -> replacement
func escapeTable(w *World, p *packages.Package, fd *ast.FuncDecl) map[string]string {
	out := map[string]string{}
	ast.Inspect(fd.Body, func(n ast.Node) bool {
		sw, ok := n.(*ast.SwitchStmt)
		if !ok || sw.Tag == nil {
			return true
		}
		if _, isIdx := ast.Unparen(sw.Tag).(*ast.IndexExpr); !isIdx {
			return true
		}
		for _, cs := range sw.Body.List {
			cc := cs.(*ast.CaseClause)
			if cc.List == nil {
				out["default"] = "reject"
				if !containsNode(cc, func(m ast.Node) bool { _, ok := m.(*ast.ReturnStmt); return ok }) {
					out["default"] = "accept"
				}
				continue
			}
			repl := "?"
			ast.Inspect(cc, func(m ast.Node) bool {
				as, ok := m.(*ast.AssignStmt)
				if !ok || len(as.Lhs) != 1 {
					return true
				}
				if _, isIdx := as.Lhs[0].(*ast.IndexExpr); !isIdx {
					return true
				}
				if tv, ok := p.TypesInfo.Types[as.Rhs[0]]; ok && tv.Value != nil {
					repl = tv.Value.ExactString()
				} else if _, isIdx := as.Rhs[0].(*ast.IndexExpr); isIdx {
					repl = "same"
				}
				return true
			})
			if containsNode(cc, func(m ast.Node) bool {
				call, ok := m.(*ast.CallExpr)
				return ok && Callee(p, call) != nil && Callee(p, call).Name() == "getu4"
			}) {
				repl = "unicode"
			}
			for _, e := range cc.List {
				if tv, ok := p.TypesInfo.Types[e]; ok && tv.Value != nil {
					out[tv.Value.ExactString()] = repl
				}
			}
		}
		return false
	})
	return out
}

func ruleJSON4(c *Ctx) {
	w := c.W
	p := w.JSON
	ref, err := w.loadRefJSON("")
	if err != nil {
		c.anchor("reference encoding/json")
		return
	}
	// decoder escapes
	mf, rf := w.FuncDecl(p, "unquoteBytes"), w.FuncDecl(ref, "unquoteBytes")
	if mf == nil || rf == nil {
		c.anchor("unquoteBytes in stdlib/json / encoding/json")
	} else {
		a, b := escapeTable(w, p, mf), escapeTable(w, ref, rf)
		same := len(a) == len(b) && len(a) >= 9
		for k, v := range a {
			if b[k] != v {
				same = false
			}
		}
		c.check(same, "unquote/escape-table", mf, fmt.Sprintf("decoder escape table equals encoding/json's (%d entries)", len(a)), fmt.Sprintf("decoder escapes %v, encoding/json %v", a, b))
	}
	// getu4: hex digit arms
	if gf, rg := w.FuncDecl(p, "getu4"), w.FuncDecl(ref, "getu4"); gf != nil && rg != nil {
		ca := canonFuncBody(p, gf, nil)
		cb := canonFuncBody(ref, rg, nil)
		c.check(ca == cb, "unquote/getu4", gf, "\\uXXXX decoding identical to encoding/json's (up to renaming)", "getu4 differs from encoding/json's: "+firstDiff(ca, cb))
	}
	// encoder: safeSet tables
	ms, rs := w.pkgVarLit(p, "safeSet"), w.pkgVarLit(ref, "safeSet")
	if ms == nil || rs == nil {
		c.anchor("safeSet tables")
	} else {
		tab := func(pk *packages.Package, lit *ast.CompositeLit) map[string]string {
			m := map[string]string{}
			for _, e := range lit.Elts {
				if kv, ok := e.(*ast.KeyValueExpr); ok {
					k, v := pk.TypesInfo.Types[kv.Key], pk.TypesInfo.Types[kv.Value]
					if k.Value != nil && v.Value != nil {
						m[k.Value.ExactString()] = v.Value.ExactString()
					}
				}
			}
			return m
		}
		a, b := tab(p, ms), tab(ref, rs)
		var diff []string
		for k, v := range a {
			if b[k] != v {
				diff = append(diff, k)
			}
		}
		for k := range b {
			if _, ok := a[k]; !ok {
				diff = append(diff, k)
			}
		}
		sort.Strings(diff)
		c.check(len(diff) == 0 && len(a) >= 90, "encode/safeSet", ms, fmt.Sprintf("safeSet equals encoding/json's (%d entries)", len(a)), fmt.Sprintf("safeSet differs from encoding/json's at byte codes %v", diff))
	}
	// encoder escapes for bytes outside safeSet
	es := w.FuncDecl(p, "encodeString")
	if es == nil {
		c.anchor("encodeString")
		return
	}
	// the escaping may live in a helper called from encodeString
	for _, callee := range w.staticCallees(p, es) {
		if callee != es && containsNode(callee.Body, func(n ast.Node) bool {
			b, ok := n.(*ast.BasicLit)
			return ok && strings.Contains(b.Value, "u00")
		}) {
			es = callee
		}
	}
	esc := map[string]bool{}
	ast.Inspect(es.Body, func(n ast.Node) bool {
		cc, ok := n.(*ast.CaseClause)
		if !ok {
			return true
		}
		for _, e := range cc.List {
			if tv, ok := p.TypesInfo.Types[e]; ok && tv.Value != nil {
				esc[tv.Value.ExactString()] = true
			}
		}
		return true
	})
	need := []string{"92", "34", "10", "13", "9"} // \ " \n \r \t
	miss := []string{}
	for _, k := range need {
		if !esc[k] {
			miss = append(miss, k)
		}
	}
	hasU00 := strings.Contains(w.Src(es.Body), "u00") || containsNode(es.Body, func(n ast.Node) bool {
		b, ok := n.(*ast.BasicLit)
		return ok && strings.Contains(b.Value, "u00")
	})
	c.check(len(miss) == 0 && hasU00, "encode/escapes", es, "\\\\ \\\" \\n \\r \\t short escapes and \\u00XX for the remaining control bytes", fmt.Sprintf("encoder lacks escape arms for byte codes %v (or the \\u00XX fallback)", miss))
}

func ruleJSON5(c *Ctx) {
	w := c.W
	p := w.JSON
	fd := w.FuncDecl(p, "Encode")
	if fd == nil {
		c.anchor("json.Encode")
		return
	}
	have := map[string]*ast.CaseClause{}
	ast.Inspect(fd.Body, func(n ast.Node) bool {
		cc, ok := n.(*ast.CaseClause)
		if !ok {
			return true
		}
		for _, e := range cc.List {
			if tv, ok := p.TypesInfo.Types[e]; ok && tv.IsType() {
				tn, _ := namedName(tv.Type)
				have[tn] = cc
			}
		}
		return true
	})
	for _, t := range []string{"Int", "Float", "String", "Bool", "Undefined", "Array", "ImmutableArray", "Map", "ImmutableMap"} {
		cc := have[t]
		key := "encode/arm/" + t
		if cc == nil {
			c.fail(key, fd, "Encode has no arm for "+t)
			continue
		}
		good := true
		why := ""
		switch t {
		case "Undefined":
			good = strings.Contains(w.Src(cc), "null")
			why = "undefined is not encoded as null"
			if !good {
				good = containsNode(cc, func(n ast.Node) bool {
					b, ok := n.(*ast.BasicLit)
					return ok && strings.Contains(b.Value, "null")
				})
			}
		case "Bool":
			good = containsNode(cc, func(n ast.Node) bool {
				call, ok := n.(*ast.CallExpr)
				return ok && Callee(p, call) != nil && Callee(p, call).Name() == "IsFalsy"
			})
			why = "bool is not encoded through IsFalsy()"
			if good {
				// if IsFalsy → false else true
				ast.Inspect(cc, func(n ast.Node) bool {
					is, ok := n.(*ast.IfStmt)
					if !ok {
						return true
					}
					lits := func(b ast.Node) string {
						s := ""
						ast.Inspect(b, func(m ast.Node) bool {
							if bl, ok := m.(*ast.BasicLit); ok {
								s += bl.Value
							}
							if id, ok := m.(*ast.Ident); ok && (id.Name == "true" || id.Name == "false") {
								s += id.Name
							}
							return true
						})
						return s
					}
					neg := strings.HasPrefix(w.Src(is.Cond), "!")
					thenS, elseS := lits(is.Body), ""
					if is.Else != nil {
						elseS = lits(is.Else)
					}
					if !neg && !(strings.Contains(thenS, "false") && strings.Contains(elseS, "true")) {
						good, why = false, "IsFalsy() true must encode as false"
					}
					if neg && !(strings.Contains(thenS, "true") && strings.Contains(elseS, "false")) {
						good, why = false, "!IsFalsy() must encode as true"
					}
					return true
				})
			}
		}
		c.check(good, key, cc, "arm present", why)
	}
}

var _ = types.Typ

func max64(a, b int64) int64 {
	if a > b {
		return a
	}
	return b
}

// maxAcceptedDepth derives, from pushParseState, the deepest nesting the
// scanner accepts: the comparison of len(parseState) with a constant, whether
// it happens before or after the push, and on which side of it success lies.
func maxAcceptedDepth(w *World, p *packages.Package) (int64, string) {
	fd := w.FuncDecl(p, "scanner.pushParseState")
	if fd == nil {
		return 0, "pushParseState not found"
	}
	var appendPos, cmpPos token.Pos
	var cmp *ast.BinaryExpr
	var ifs *ast.IfStmt
	ast.Inspect(fd.Body, func(n ast.Node) bool {
		switch x := n.(type) {
		case *ast.CallExpr:
			if IsBuiltinCall(p, x, "append") && !appendPos.IsValid() {
				appendPos = x.Pos()
			}
		case *ast.IfStmt:
			if b, ok := ast.Unparen(x.Cond).(*ast.BinaryExpr); ok && cmp == nil {
				// len(…) on the left, whichever way the comparison is spelled
				if !strings.Contains(w.Src(b.X), "len(") && strings.Contains(w.Src(b.Y), "len(") {
					m := map[token.Token]token.Token{token.LSS: token.GTR, token.GTR: token.LSS, token.LEQ: token.GEQ, token.GEQ: token.LEQ}
					if op, ok := m[b.Op]; ok {
						b = &ast.BinaryExpr{X: b.Y, OpPos: b.OpPos, Op: op, Y: b.X}
					}
				}
				if strings.Contains(w.Src(b.X), "len(") {
					cmp, ifs, cmpPos = b, x, x.Pos()
				}
			}
		}
		return true
	})
	if cmp == nil || !appendPos.IsValid() {
		return 0, "no length comparison / append in pushParseState"
	}
	k, ok := ConstInt(p, cmp.Y)
	if !ok {
		return 0, "limit is not a constant"
	}
	// does the if-body reject (call error) or accept (return successState)?
	bodyRejects := containsNode(ifs.Body, func(n ast.Node) bool {
		call, ok := n.(*ast.CallExpr)
		return ok && Callee(p, call) != nil && Callee(p, call).Name() == "error"
	})
	// largest len for which the push is accepted, at the moment of comparison
	var okLen int64
	switch cmp.Op {
	case token.LEQ:
		okLen = k // cond true = len <= k
		if bodyRejects {
			return 0, "unexpected polarity"
		}
	case token.LSS:
		okLen = k - 1
		if bodyRejects {
			return 0, "unexpected polarity"
		}
	case token.GTR:
		okLen = k // rejects when len > k
		if !bodyRejects {
			return 0, "unexpected polarity"
		}
	case token.GEQ:
		okLen = k - 1
		if !bodyRejects {
			return 0, "unexpected polarity"
		}
	default:
		return 0, "unsupported comparison"
	}
	if cmpPos < appendPos {
		// compared before the push: the stack is one deeper afterwards
		return okLen + 1, ""
	}
	return okLen, ""
}

// JSON.6: the decoder's and scanner's helper functions are ports of
// encoding/json; compared statement by statement like the formatter's
// (the state functions themselves are decided by JSON.1).
var jsonPorts = map[string]struct {
	tengo, ref []string
	why        string
}{
	"getu4":                  {},
	"unquote":                {},
	"checkValid":             {},
	"quoteChar":              {},
	"scanner.reset":          {},
	"scanner.eof":            {},
	"scanner.pushParseState": {},
	"scanner.popParseState":  {},
	"decodeState.scanNext":   {},
	"decodeState.readIndex":  {},
	"unquoteBytes": {[]string{"call (DecodeRune ()", "ReplacementChar ()"}, []string{"DecodeRune"},
		"the surrogate-pair test is written as a separate statement"},
}

func ruleJSON6(c *Ctx) {
	w := c.W
	ref, err := w.loadRef("encoding/json")
	if err != nil {
		c.anchor("reference package encoding/json: " + err.Error())
		return
	}
	checkNearPorts(c, w.JSON, ref, "encoding/json", jsonPorts, nil, func(n string) string { return n }, nil, nil)
}
