package main

// flow.go: G-FRESH — SSA value-origin analysis of container storage.
//
// A *storage value* is the slice or map held in field `Value` of one of the
// container object types (Array, ImmutableArray, Map, ImmutableMap, Bytes).
// Every SSA value gets a set of origins (bitset):
//   oImm    loaded from the Value field of an immutable container that was not
//           allocated in the same function (i.e. an existing immutable value)
//   oMut    the same for a mutable container (an operand's storage)
//   oFresh  nil / make / new in this function
//   param i the i-th parameter of the enclosing function (for summaries)
// Origins flow through Slice, Phi, conversions, local cells, `append` (arg 0
// to result), struct fields that hold storage ("holder" fields, e.g. the
// iterators' v) and calls (per-function summaries, global fixpoint).

import (
	"fmt"
	"go/token"
	"go/types"
	"sort"
	"strings"

	"golang.org/x/tools/go/ssa"
	"golang.org/x/tools/go/ssa/ssautil"
)

type origin uint64

const (
	oImm   origin = 1 << 0
	oMut   origin = 1 << 1
	oFresh origin = 1 << 2
	// bit 8+i: parameter i
	paramBase = 8
	maxParams = 48
)

func paramBit(i int) origin {
	if i >= maxParams {
		i = maxParams - 1
	}
	return 1 << uint(paramBase+i)
}

func (o origin) fixed() origin  { return o & (oImm | oMut | oFresh) }
func (o origin) params() origin { return o &^ (oImm | oMut | oFresh) }

type SinkKind string

const (
	skStoreMutValue SinkKind = "store-into-mutable-Value"   // S1
	skElemWrite     SinkKind = "element-write"              // S2
	skStoreImmValue SinkKind = "store-into-immutable-Value" // S3
	skExternal      SinkKind = "passed-to-external"         // S4
)

type Sink struct {
	Kind   SinkKind
	Fn     *ssa.Function
	Pos    token.Pos
	Origin origin // origin of the value reaching the sink
	Target string // container type for store sinks, callee for external
	Local  bool   // S3: container allocated locally (construction)
	Via    string // callee summary that performs the write, if any
}

type fnSummary struct {
	ret     origin                // origins of returned values (fixed bits + param bits)
	writes  origin                // param bits: storage passed in param i is written through
	toMut   origin                // param bits: storage passed in param i is stored into a mutable container's Value
	holders map[*types.Var]origin // param bits stored into holder fields
}

type FlowInfo struct {
	Prog      *ssa.Program
	Funcs     []*ssa.Function
	Storage   map[*types.Var]string // Value field var -> container type name
	Immutable map[string]bool       // container type name -> immutable
	holder    map[*types.Var]origin // holder field -> fixed origins stored there
	global    map[*ssa.Global]origin
	sum       map[*ssa.Function]*fnSummary
	val       map[ssa.Value]origin
	Sinks     []Sink
	NumInstr  int
	err       string
}

var flowCache *FlowInfo

func (w *World) ssaProgram() (*ssa.Program, []*ssa.Function) {
	prog, _ := ssautil.Packages(w.All, ssa.InstantiateGenerics)
	prog.Build()
	var fns []*ssa.Function
	inModule := func(p *types.Package) bool {
		return p != nil && (p.Path() == w.ModPath || strings.HasPrefix(p.Path(), w.ModPath+"/"))
	}
	for fn := range ssautil.AllFunctions(prog) {
		if fn.Blocks == nil || fn.Synthetic != "" && fn.Parent() == nil && !strings.HasPrefix(fn.Synthetic, "package init") {
			// keep only functions with source bodies
			if fn.Blocks == nil {
				continue
			}
			if fn.Synthetic != "" {
				continue
			}
		}
		var pk *types.Package
		if fn.Pkg != nil {
			pk = fn.Pkg.Pkg
		} else if fn.Parent() != nil && fn.Parent().Pkg != nil {
			pk = fn.Parent().Pkg.Pkg
		}
		if !inModule(pk) {
			continue
		}
		fns = append(fns, fn)
	}
	sort.Slice(fns, func(i, j int) bool {
		if fns[i].Pos() != fns[j].Pos() {
			return fns[i].Pos() < fns[j].Pos()
		}
		return fns[i].String() < fns[j].String()
	})
	return prog, fns
}

func (w *World) flow() *FlowInfo {
	if flowCache != nil {
		return flowCache
	}
	fi := &FlowInfo{
		Storage: map[*types.Var]string{}, Immutable: map[string]bool{},
		holder: map[*types.Var]origin{}, global: map[*ssa.Global]origin{},
		sum: map[*ssa.Function]*fnSummary{}, val: map[ssa.Value]origin{},
	}
	flowCache = fi
	// storage types by role: struct types of the root package implementing
	// Object with a slice/map field named Value.
	objT := w.Root.Types.Scope().Lookup("Object")
	if objT == nil {
		fi.err = "interface Object not found"
		return fi
	}
	objI, _ := objT.Type().Underlying().(*types.Interface)
	sc := w.Root.Types.Scope()
	for _, name := range sc.Names() {
		tn, ok := sc.Lookup(name).(*types.TypeName)
		if !ok {
			continue
		}
		st, ok := tn.Type().Underlying().(*types.Struct)
		if !ok || objI == nil || !types.Implements(types.NewPointer(tn.Type()), objI) {
			continue
		}
		for i := 0; i < st.NumFields(); i++ {
			f := st.Field(i)
			if f.Name() != "Value" {
				continue
			}
			switch u := f.Type().Underlying().(type) {
			case *types.Slice, *types.Map:
				fi.Storage[f] = name
				// immutable: holds Objects and has no IndexSet of its own
				holdsObj := false
				switch uu := u.(type) {
				case *types.Slice:
					holdsObj = types.Identical(uu.Elem(), objT.Type())
				case *types.Map:
					holdsObj = types.Identical(uu.Elem(), objT.Type())
				}
				own := false
				ms := types.NewMethodSet(types.NewPointer(tn.Type()))
				if sel := ms.Lookup(w.Root.Types, "IndexSet"); sel != nil && len(sel.Index()) == 1 {
					own = true
				}
				fi.Immutable[name] = holdsObj && !own
			}
		}
	}
	if len(fi.Storage) < 5 {
		fi.err = fmt.Sprintf("expected >=5 container types with a Value slice/map field, found %d", len(fi.Storage))
		return fi
	}
	fi.Prog, fi.Funcs = w.ssaProgram()
	for _, fn := range fi.Funcs {
		fi.sum[fn] = &fnSummary{holders: map[*types.Var]origin{}}
		for _, b := range fn.Blocks {
			fi.NumInstr += len(b.Instrs)
		}
	}
	// global fixpoint
	for iter := 0; iter < 30; iter++ {
		changed := false
		for _, fn := range fi.Funcs {
			if fi.analyse(fn, false) {
				changed = true
			}
		}
		if !changed {
			break
		}
	}
	for _, fn := range fi.Funcs {
		fi.analyse(fn, true)
	}
	sort.SliceStable(fi.Sinks, func(i, j int) bool { return fi.Sinks[i].Pos < fi.Sinks[j].Pos })
	return fi
}

func derefStruct(t types.Type) (*types.Struct, bool) {
	t = types.Unalias(t)
	if p, ok := t.Underlying().(*types.Pointer); ok {
		t = p.Elem()
	}
	st, ok := t.Underlying().(*types.Struct)
	return st, ok
}

func isStorageType(t types.Type) bool {
	switch t.Underlying().(type) {
	case *types.Slice, *types.Map:
		return true
	}
	return false
}

// isLocalAlloc: v is an object allocated in this function (construction).
func isLocalAlloc(v ssa.Value) bool {
	switch x := v.(type) {
	case *ssa.Alloc:
		return true
	case *ssa.Phi:
		for _, e := range x.Edges {
			if !isLocalAlloc(e) {
				return false
			}
		}
		return true
	}
	return false
}

// analyse runs the intraprocedural propagation for fn using the current
// summaries; returns whether fn's summary / holder maps changed. With
// report=true it records sinks.
func (fi *FlowInfo) analyse(fn *ssa.Function, report bool) bool {
	sum := fi.sum[fn]
	changed := false
	get := func(v ssa.Value) origin {
		switch x := v.(type) {
		case *ssa.Const:
			return oFresh
		case *ssa.Parameter:
			for i, p := range fn.Params {
				if p == x {
					return paramBit(i)
				}
			}
			return 0
		case *ssa.Global:
			return 0
		}
		return fi.val[v]
	}
	// cell contents: Alloc -> origins stored; (Alloc,field) for local construction
	cell := map[ssa.Value]origin{}
	type af struct {
		a ssa.Value
		f *types.Var
	}
	localField := map[af]origin{}

	fieldOf := func(x ssa.Value, idx int) *types.Var {
		st, ok := derefStruct(x.Type())
		if !ok || idx >= st.NumFields() {
			return nil
		}
		return st.Field(idx)
	}

	loadFrom := func(addr ssa.Value) origin {
		switch a := addr.(type) {
		case *ssa.FieldAddr:
			f := fieldOf(a.X, a.Field)
			if f == nil {
				return 0
			}
			if tname, ok := fi.Storage[f]; ok {
				if isLocalAlloc(a.X) {
					return localField[af{a.X, f}]
				}
				if fi.Immutable[tname] {
					return oImm
				}
				return oMut
			}
			if isStorageType(f.Type()) {
				if isLocalAlloc(a.X) {
					return localField[af{a.X, f}] | fi.holder[f]
				}
				return fi.holder[f]
			}
			return 0
		case *ssa.Alloc:
			return cell[a]
		case *ssa.Global:
			return fi.global[a]
		}
		return 0
	}

	for pass := 0; pass < 12; pass++ {
		stable := true
		set := func(v ssa.Value, o origin) {
			if fi.val[v]|o != fi.val[v] {
				fi.val[v] |= o
				stable = false
			}
		}
		for _, b := range fn.Blocks {
			for _, ins := range b.Instrs {
				switch x := ins.(type) {
				case *ssa.Alloc:
					// the pointer itself; contents tracked in cell
				case *ssa.MakeSlice, *ssa.MakeMap:
					set(x.(ssa.Value), oFresh)
				case *ssa.UnOp:
					if x.Op == token.MUL {
						set(x, loadFrom(x.X))
					}
				case *ssa.Field:
					// value-struct field read
					if st, ok := x.X.Type().Underlying().(*types.Struct); ok && x.Field < st.NumFields() {
						f := st.Field(x.Field)
						if tname, ok := fi.Storage[f]; ok {
							if fi.Immutable[tname] {
								set(x, oImm)
							} else {
								set(x, oMut)
							}
						} else if isStorageType(f.Type()) {
							set(x, fi.holder[f])
						}
					}
				case *ssa.Slice:
					// slicing an array pointer (varargs) is fresh storage
					// only when the array is a local of this function; a slice
					// of an array held in a field (the VM stack) is shared
					if _, isPtr := x.X.Type().Underlying().(*types.Pointer); isPtr {
						if isLocalAlloc(x.X) {
							set(x, oFresh)
						} else {
							set(x, oMut)
						}
					} else {
						set(x, get(x.X))
					}
				case *ssa.Phi:
					var o origin
					for _, e := range x.Edges {
						o |= get(e)
					}
					set(x, o)
				case *ssa.ChangeType:
					set(x, get(x.X))
				case *ssa.Convert:
					if isStorageType(x.Type()) && isStorageType(x.X.Type()) {
						set(x, get(x.X))
					} else if isStorageType(x.Type()) {
						set(x, oFresh) // e.g. []byte(string)
					}
				case *ssa.MakeInterface:
					set(x, get(x.X))
				case *ssa.ChangeInterface:
					set(x, get(x.X))
				case *ssa.TypeAssert:
					set(x, get(x.X))
				case *ssa.Extract:
					set(x, get(x.Tuple))
				case *ssa.Store:
					o := get(x.Val)
					switch a := x.Addr.(type) {
					case *ssa.Alloc:
						if cell[a]|o != cell[a] {
							cell[a] |= o
							stable = false
						}
					case *ssa.FieldAddr:
						f := fieldOf(a.X, a.Field)
						if f != nil && isStorageType(f.Type()) && isLocalAlloc(a.X) {
							k := af{a.X, f}
							if localField[k]|o != localField[k] {
								localField[k] |= o
								stable = false
							}
						}
					}
				case *ssa.Call:
					set(x, fi.callResult(fn, x.Common(), get))
				}
			}
		}
		if stable {
			break
		}
	}

	// second sweep: sinks, summaries, holders
	addSink := func(s Sink) {
		if report {
			s.Fn = fn
			fi.Sinks = append(fi.Sinks, s)
		}
	}
	orSum := func(dst *origin, o origin) {
		if *dst|o != *dst {
			*dst |= o
			changed = true
		}
	}
	writeThrough := func(v ssa.Value, pos token.Pos, via string) {
		o := get(v)
		if !isStorageType(v.Type()) {
			return
		}
		orSum(&sum.writes, o.params())
		addSink(Sink{Kind: skElemWrite, Pos: pos, Origin: o, Via: via})
	}
	for _, b := range fn.Blocks {
		for _, ins := range b.Instrs {
			switch x := ins.(type) {
			case *ssa.Store:
				o := get(x.Val)
				switch a := x.Addr.(type) {
				case *ssa.FieldAddr:
					f := fieldOf(a.X, a.Field)
					if f == nil {
						break
					}
					if tname, ok := fi.Storage[f]; ok {
						if fi.Immutable[tname] {
							addSink(Sink{Kind: skStoreImmValue, Pos: x.Pos(), Origin: o, Target: tname, Local: isLocalAlloc(a.X)})
						} else {
							orSum(&sum.toMut, o.params())
							addSink(Sink{Kind: skStoreMutValue, Pos: x.Pos(), Origin: o, Target: tname, Local: isLocalAlloc(a.X)})
						}
					} else if isStorageType(f.Type()) {
						if fi.holder[f]|o.fixed() != fi.holder[f] {
							fi.holder[f] |= o.fixed()
							changed = true
						}
						if p := o.params(); p != 0 && sum.holders[f]|p != sum.holders[f] {
							sum.holders[f] |= p
							changed = true
						}
					}
				case *ssa.IndexAddr:
					// element store: base is a slice value (or pointer to array: ignore)
					if _, isSlice := a.X.Type().Underlying().(*types.Slice); isSlice {
						writeThrough(a.X, x.Pos(), "")
					}
				case *ssa.Global:
					if isStorageType(x.Val.Type()) && fi.global[a]|o.fixed() != fi.global[a] {
						fi.global[a] |= o.fixed()
						changed = true
					}
				}
			case *ssa.MapUpdate:
				writeThrough(x.Map, x.Pos(), "")
			case *ssa.Return:
				for _, r := range x.Results {
					if isStorageType(r.Type()) || types.IsInterface(r.Type()) {
						orSum(&sum.ret, get(r))
					}
				}
			case ssa.CallInstruction:
				cc := x.Common()
				if b, ok := cc.Value.(*ssa.Builtin); ok {
					switch b.Name() {
					case "copy", "delete", "clear":
						if len(cc.Args) > 0 {
							writeThrough(cc.Args[0], x.Pos(), "builtin "+b.Name())
						}
					}
					continue
				}
				callee := cc.StaticCallee()
				if cs, ok := fi.sum[callee]; ok && callee != nil {
					for i, a := range cc.Args {
						o := get(a)
						if o == 0 {
							continue
						}
						pb := paramBit(i)
						if cs.writes&pb != 0 {
							orSum(&sum.writes, o.params())
							addSink(Sink{Kind: skElemWrite, Pos: x.Pos(), Origin: o, Via: callee.String()})
						}
						if cs.toMut&pb != 0 {
							orSum(&sum.toMut, o.params())
							addSink(Sink{Kind: skStoreMutValue, Pos: x.Pos(), Origin: o, Via: callee.String(), Target: "(in callee)"})
						}
						for f, hp := range cs.holders {
							if hp&pb != 0 {
								if fi.holder[f]|o.fixed() != fi.holder[f] {
									fi.holder[f] |= o.fixed()
									changed = true
								}
								if p := o.params(); p != 0 && sum.holders[f]|p != sum.holders[f] {
									sum.holders[f] |= p
									changed = true
								}
							}
						}
					}
					continue
				}
				// external or dynamic callee
				if cc.IsInvoke() {
					continue // Object/Iterator methods take Objects, not raw storage
				}
				name := "dynamic"
				if callee != nil {
					name = callee.String()
				}
				for _, a := range cc.Args {
					if !isStorageType(a.Type()) {
						continue
					}
					o := get(a)
					if o&(oImm) != 0 {
						addSink(Sink{Kind: skExternal, Pos: x.Pos(), Origin: o, Target: name})
					}
				}
			}
		}
	}
	return changed
}

func (fi *FlowInfo) callResult(fn *ssa.Function, cc *ssa.CallCommon, get func(ssa.Value) origin) origin {
	if b, ok := cc.Value.(*ssa.Builtin); ok {
		if b.Name() == "append" && len(cc.Args) > 0 {
			o := get(cc.Args[0])
			if o == 0 {
				o = oFresh
			}
			return o
		}
		return 0
	}
	callee := cc.StaticCallee()
	if cs, ok := fi.sum[callee]; ok && callee != nil {
		o := cs.ret.fixed()
		for i, a := range cc.Args {
			if cs.ret&paramBit(i) != 0 {
				o |= get(a)
			}
		}
		return o
	}
	if cc.IsInvoke() {
		return 0
	}
	// external: a slice/map result may alias a slice/map argument
	var o origin
	for _, a := range cc.Args {
		if isStorageType(a.Type()) {
			o |= get(a)
		}
	}
	return o
}

func originStr(o origin) string {
	var s []string
	if o&oImm != 0 {
		s = append(s, "immutable-storage")
	}
	if o&oMut != 0 {
		s = append(s, "operand-storage")
	}
	if o&oFresh != 0 {
		s = append(s, "fresh")
	}
	if o.params() != 0 {
		s = append(s, "param")
	}
	if len(s) == 0 {
		return "unknown"
	}
	return strings.Join(s, "|")
}
