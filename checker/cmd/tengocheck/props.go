package main

// props.go: the property -> rules registry.

var (
	rCODEC1 = &Rule{Name: "CODEC.1", Floor: 44, Fn: ruleCODEC1,
		Text: "opcode constants = OpcodeNames keys = OpcodeOperands keys = VM dispatch case labels (dense from 0); default arm is an error arm; loop head is `ip++; switch insts[ip]`"}
	rCODEC2 = &Rule{Name: "CODEC.2", Floor: 100, Fn: ruleCODEC2,
		Text: "every Compiler.emit / MakeInstruction call with a determinable opcode passes exactly len(OpcodeOperands[op]) operands"}
	rCODEC3 = &Rule{Name: "CODEC.3", Floor: 48, Fn: ruleCODEC3,
		Text: "per VM arm (abstract interpretation of ip relative to the opcode byte): every operand byte read belongs to a whole operand and is combined with the shift MakeInstruction wrote it at; every operand is decoded; every fall-through path advances ip by exactly the operand widths; MakeInstruction/ReadOperands are big-endian inverses"}
	rCODEC5 = &Rule{Name: "CODEC.5", Floor: 8, Fn: ruleCODEC5,
		Text: "opcode classes extracted from the VM arms (jump / constant-index / never-fall-through) equal the sets hard-coded in optimizeFunc and updateConstIndexes; jump arms set ip = target-1"}
)

func allProperties() []*Property {
	return []*Property{
		{ID: "C01",
			Decided:    "compiler, generic codec, opcode tables and every VM arm agree byte for byte on the instruction format.",
			NotDecided: "the language semantics themselves (values computed by operators, control flow, scoping, builtins).",
			Rules:      []*Rule{rCODEC1, rCODEC2, rCODEC3}},
		{ID: "C02",
			Decided:    "instruction format agreement; opcode-class agreement.",
			NotDecided: "stack balance and jump well-formedness for all compiled programs.",
			Rules:      []*Rule{rCODEC1, rCODEC2, rCODEC3, rCODEC5}},
	}
}
