package main

// props.go: the property -> rules registry.

var (
	rCODEC1 = &Rule{Name: "CODEC.1", Floor: 44, Fn: ruleCODEC1,
		Text: "opcode constants = OpcodeNames keys = OpcodeOperands keys = VM dispatch case labels (dense from 0); default arm is an error arm; loop head is `ip++; switch insts[ip]`"}
	rCODEC2 = &Rule{Name: "CODEC.2", Floor: 80, Fn: ruleCODEC2,
		Text: "every Compiler.emit / MakeInstruction call with a determinable opcode passes exactly len(OpcodeOperands[op]) operands"}
	rCODEC3 = &Rule{Name: "CODEC.3", Floor: 48, Fn: ruleCODEC3,
		Text: "per VM arm (abstract interpretation of ip relative to the opcode byte): every operand byte read belongs to a whole operand and is combined with the shift MakeInstruction wrote it at; every operand is decoded; every fall-through path advances ip by exactly the operand widths; MakeInstruction/ReadOperands are big-endian inverses"}
	rCODEC4 = &Rule{Name: "CODEC.4", Floor: 60, Fn: ruleCODEC4,
		Text: "every operand narrower than 4 bytes at every emit site is a constant that fits, a flag variable, dominated by a comparison that bounds the same expression, or belongs to a class whose bound is established elsewhere and re-checked (locals <= 256 where NumLocals is fixed, captures <= 255 at the closure site, constants <= 65536 in the file arm, builtin table size, GlobalsSize, StackSize) - MakeInstruction truncates silently"}
	rCODEC5 = &Rule{Name: "CODEC.5", Floor: 8, Fn: ruleCODEC5,
		Text: "opcode classes extracted from the VM arms (jump / constant-index / never-fall-through) equal the sets hard-coded in optimizeFunc and updateConstIndexes; jump arms set ip = target-1"}
	rIMM1 = &Rule{Name: "IMM.1", Floor: 3, Fn: ruleIMM1,
		Text: "immutable container types declare no IndexSet: their method set resolves IndexSet to ObjectImpl's, which returns ErrNotIndexAssignable"}
	rIMM2 = &Rule{Name: "IMM.2", Floor: 40, Fn: ruleIMM2,
		Text: "SSA value-origin over all packages: the storage (Value slice/map) of an existing immutable container never becomes the storage of a mutable container (directly, sliced, or via append arg 0), is never the target of an element write/delete/copy (also through callees and holder fields), and an immutable container's Value field is only assigned on an object allocated in the same function"}
	rIMM3 = &Rule{Name: "IMM.3", Floor: 5, Fn: ruleIMM3,
		Text: "in the function registered as builtin `freeze` and its static callees every immutable container is built on storage made in that function, and no write goes through storage of an existing container"}
	rIMM4 = &Rule{Name: "IMM.4", Floor: 6, Fn: ruleIMM4,
		Text: "producers: OpImmutable only re-wraps its mutable twin; the export arm emits OpImmutable immediately before OpReturn on every path; BuiltinModule.Import returns AsImmutableMap, which copies every attribute into a fresh map"}
	rFRESH = &Rule{Name: "FRESH", Floor: 4, Fn: ruleFRESH,
		Text: "FRESH.1: the result container of a BinaryOp never takes storage that may alias an operand's backing array (append(operand.Value, …)); FRESH.2: BinaryOp of an index-assignable container never returns its receiver"}
	rCOPY1 = &Rule{Name: "COPY.1", Floor: 12, Fn: ruleCOPY1,
		Text: "Copy of every container builds fresh storage, never returns the receiver, and stores only elem.Copy() results"}
	rLOCK = &Rule{Name: "G-LOCK", Floor: 9, Fn: ruleLOCK,
		Text: "every method of *Compiled that touches a protected field starts with lock.Lock()/RLock() followed by the matching deferred unlock (released on every exit incl. panics); methods that assign protected state, hand globals to the VM or call a mutating method hold the exclusive lock; no re-entrant locking"}
	rREC = &Rule{Name: "REC", Floor: 7, Fn: ruleREC,
		Text: "REC.1: VM.Run is called only inside a goroutine whose first statement defers a recover handler that sends on the result channel on every arm and never re-panics; the channel is local. REC.2: every path after the go statement receives the answer before returning; no select default"}
	rABORT = &Rule{Name: "ABORT", Floor: 12, Fn: ruleABORT,
		Text: "ABORT.1 the abort flag is accessed only through sync/atomic; ABORT.2 it is polled in the dispatch loop condition and nothing inside the dispatch function can spin or recurse without returning to it; ABORT.3 on ctx.Done: Abort() then drain, result ctx.Err(); ABORT.4 a fresh VM per run; ABORT.5 the flag is cleared only after the dispatch loop returned"}
	rALLOC1 = &Rule{Name: "ALLOC.1", Floor: 40, Fn: ruleALLOC1,
		Text: "allocation counter typestate: written only by the reset `maxAllocs+1` in Run and by `--` in the dispatch function, read only in `== 0` guards; every `--` is immediately followed by the guard that stores ErrObjectAllocLimit and returns; at most one count per dispatched instruction"}
	rALLOC2 = &Rule{Name: "ALLOC.2", Floor: 20, Fn: ruleALLOC2,
		Text: "every object a VM arm creates (composite literal of an Object type, or result of BinaryOp/Call/Iterate) is followed by a counter decrement on every path that completes the instruction (error returns excepted); ObjectPtr cells and IndexGet/Key/Value are tabled as not counted by design"}
	rLIMIT1 = &Rule{Name: "LIMIT.1", Floor: 18, Fn: ruleLIMIT1,
		Text: "every String/Bytes constructor site in package tengo is either bounded by construction (single existing value: copy, sub-slice, identity; or a tabled source) or dominated by a comparison with MaxStringLen/MaxBytesLen that measures every operand contributing to its length"}
	rLIMIT2 = &Rule{Name: "LIMIT.2", Floor: 6, Fn: ruleLIMIT2,
		Text: "the formatter's output buffer (type fmtbuf) is stored to only after a dominating comparison with MaxStringLen that raises ErrStringLimit"}
	rLIMIT3 = &Rule{Name: "LIMIT.3", Floor: 2, Fn: ruleLIMIT3,
		Text: "string literals and map keys are compared with MaxStringLen before they enter the constant pool"}
	rFRAMES1 = &Rule{Name: "FRAMES.1", Floor: 2, Fn: ruleFRAMES1,
		Text: "every frame push in the dispatch function is dominated by `framesIndex >= MaxFrames` reporting ErrStackOverflow; the frames array has MaxFrames slots"}
	rCMP1 = &Rule{Name: "CMP.1", Floor: 36, Fn: ruleCMP1,
		Text: "every comparison arm of every BinaryOp (<, >, <=, >=) reduces, after normalising mirrored operands / || of relations / inverted branches (no negation for floats), to exactly the relation its token denotes between receiver and right operand, compared in the wider of the two value types; time arms via Before/After/Equal"}
	rCMP2 = &Rule{Name: "CMP.2", Floor: 40, Fn: ruleCMP2,
		Text: "acceptance symmetry: T has an arm (op, U) iff U has (mirror(op), T); the four comparison operators come as a complete set per type pair; T.Equals accepts U iff U.Equals accepts T"}
	rCMP3 = &Rule{Name: "CMP.3", Floor: 2, Fn: ruleCMP3,
		Text: "the VM arms of == and != call (second from top).Equals(top) directly and differ exactly in the singleton pushed per branch"}
	rOPARM = &Rule{Name: "OPARM", Floor: 30, Fn: ruleOPARM,
		Text: "every arithmetic/bitwise/concatenation arm computes receiver <op> right with the Go operator spelled like its token (token.tokens table), operands in order for non-commutative operators, in the documented result type (float if either is float, else char if either is char, else int); identity shortcut only when result == receiver's value; time arms via Add/Add(-)/Sub"}
	rOPDOC = &Rule{Name: "OPDOC", Floor: 60, Fn: ruleOPDOC,
		Text: "the set of (left type, operator, right type) arms implemented by the BinaryOp methods equals the set documented in docs/operators.md (two tabled undocumented arms)"}
	rTWIN1 = &Rule{Name: "TWIN.1", Floor: 20, Fn: ruleTWIN1,
		Text: "sibling agreement (alpha-normalised clone comparison): Array~ImmutableArray and Map~ImmutableMap on String/Equals/IndexGet/Iterate/IsFalsy/CanIterate/Copy; the four iterators' Next (and Key); the four index-clamping arms of OpSliceIndex"}
	rFAM1 = &Rule{Name: "FAM.1", Floor: 8, Fn: ruleFAM1,
		Text: "the three selector-assignment opcodes (global/local/free) gather selectors and value with identical code (alpha-normalised), pass (dst, value, selectors) to indexAssign and propagate its error"}
	rCONV1 = &Rule{Name: "CONV.1", Floor: 14, Fn: ruleCONV1,
		Text: "the case-type sets of ToInt/ToInt64/ToFloat64/ToRune/ToByteSlice/ToTime/ToString/ToBool equal the columns of the conversion table in docs/runtime-types.md; each conversion builtin is identity on its target type, converts args[0] with the matching To* function, builds the object from the converted value, and falls back to args[1] / undefined"}
	rFALSY1 = &Rule{Name: "FALSY.1", Floor: 11, Fn: ruleFALSY1,
		Text: "each IsFalsy is the predicate documented for its type in docs/runtime-types.md (after a small normalisation)"}
	rPANIC1 = &Rule{Name: "PANIC.1", Floor: 12, Fn: rulePANIC1,
		Text: "every explicit panic reachable (VTA call graph) from the scan/parse/compile entry points is classified in a table keyed by function+message as recovered in place, re-raise, guarded (with a statically re-checked premise), unreachable (with reason/premise) or contract; an unclassified reachable panic is a violation"}
	rPANIC2 = &Rule{Name: "PANIC.2", Floor: 3, Fn: rulePANIC2,
		Text: "every switch on a SymbolScope value handles all scopes or ends in a default arm that returns an error (no panic); the capture switch (Local/Free only) is tabled with its premise re-checked"}
	rPANIC3 = &Rule{Name: "PANIC.3", Floor: 2, Fn: rulePANIC3,
		Text: "the globals slice is cut / indexed only behind a comparison of the symbol count with GlobalsSize that returns an error"}
	rSCOPE1 = &Rule{Name: "SCOPE.1", Floor: 7, Fn: ruleSCOPE1,
		Text: "acquire/release pairing on all exits in the compiler: enterScope→leaveScope and enterLoop→leaveLoop on every path including error returns; Fork(true) is undone by the next statement's deferred Parent()"}
	rNEWPARSER = &Rule{Name: "NEWPARSER", Floor: 8, Fn: ruleNEWPARSER,
		Text: "every AddFile call passes base -1 and len(src); every NewParser call passes a file made by AddFile(_, -1, len(src)) for the same src (premise of the scanner's size panic)"}
	rPOSARG = &Rule{Name: "POSARG", Floor: 23, Fn: rulePOSARG,
		Text: "every parser error is reported at p.pos, a saved p.pos or a node's Pos() - never at End() or a computed position (premise of SourceFile.Position's panic and of 'positions lie inside the input')"}
	rJMP1 = &Rule{Name: "JMP.1", Floor: 20, Fn: ruleJMP1,
		Text: "every placeholder jump (emit of a VM jump opcode with operand 0) is patched by changeOperand or recorded in the loop's break/continue list on every non-error path; every changeOperand patches such a position; loop lists are only appended to and ranged over"}
	rJMP2 = &Rule{Name: "JMP.2", Floor: 2, Fn: ruleJMP2,
		Text: "the functions that open/close a compilation scope reset/restore the loop stack, so a break/continue can never bind to a loop of an enclosing function"}
	rRET1 = &Rule{Name: "RET.1", Floor: 7, Fn: ruleRET1,
		Text: "RET.1/FRAME.1: function bodies are compiled, then optimised/terminated, then captured; NumLocals/NumParameters/VarArgs/capture list come from the function's own table and signature before the scope is left; main ends in a never-fall-through opcode; optimizeFunc appends the final return"}
	rOPT = &Rule{Name: "OPT", Floor: 5, Fn: ruleOPT,
		Text: "OPT.1 offsets looked up in the old→new position map are used verbatim (jump operands, source-map keys), a jump to the old end maps to the new end; OPT.2 the map is filled with len(new) right before each instruction is appended; OPT.3 jump destinations end dead regions"}
	rTAIL = &Rule{Name: "TAIL", Floor: 10, Fn: ruleTAIL,
		Text: "TAIL.1 the frame-reuse predicate, evaluated over all opcode pairs, is true only when the call is followed by RET or POP;RET and always when followed by RET, with look-ahead offsets derived from the operand widths; TAIL.2 the reuse path is guarded by callee == running function, writes no frame state, copies arguments directly into the parameter slots, resets sp/ip, and precedes the frame push; TAIL.3 the compiler emits RET 1 right after a returned expression and nothing after the right operand of &&/||"}
	rMOD = &Rule{Name: "MOD", Floor: 18, Fn: ruleMOD,
		Text: "MOD.1 a module is compiled against NewSymbolTable()+builtins forked as a function scope, by a child compiler with nil constants/parent set, constants added at the root; MOD.2 the cyclic-import check is compileModule's first statement and walks the whole parent chain; MOD.3 cache lookup → parse → compile → store, at the root; MOD.4 source imports compile to CONST fn; CALL 0 0; MOD.5 file-system calls only under the allowFileImport flag (who-may-call), flag written only by EnableFileImport/fork, module map consulted first, Script default off"}
	rERR = &Rule{Name: "ERR", Floor: 13, Fn: ruleERR,
		Text: "ERR.1 on the VM→host path every fmt.Errorf that receives an error formats it with %w; ERR.2 the engine's sentinel errors are never compared-and-replaced, and every error-handling block of the VM/indexAssign ends by passing the callee's error on unchanged"}
	rPOS1 = &Rule{Name: "POS.1", Floor: 6, Fn: rulePOS1,
		Text: "emit stores a source-map entry keyed by the offset addInstruction returned and returns that offset; no emit site passes a nil node; OpCall saves the caller's ip before switching frames; Run looks up ip-1 of the failing frame and the saved ip-1 of each caller, innermost first"}
	rADPT1 = &Rule{Name: "ADPT.1", Floor: 44, Fn: ruleADPT1,
		Text: "every FuncA…R… adapter, read from the type of its fn parameter: rejects len(args) != NumParams with ErrWrongNumArguments; converts args[i] with the To* function whose result type is parameter i's type (rejecting failures with ErrInvalidArgumentType); calls fn with the converted values in parameter order; builds the object matching fn's result type; surfaces a Go error as wrapError(err) value"}
	rADPT2 = &Rule{Name: "ADPT.2", Floor: 140, Fn: ruleADPT2,
		Text: "every module-table entry bound to an external Go function or constant has the key that names it (snake_case of the function, lower-camel/lower of the constant, format_<snake> for time layouts, <variant>_<verb> for encodings); UserFunction.Name equals the key"}
	rADPT3 = &Rule{Name: "ADPT.3", Floor: 50, Fn: ruleADPT3,
		Text: "every hand-written wrapper of times/text calls a Go function named like its key (exception table), feeds script arguments to it in positional order (receiver first), and has a decidable argument-count guard"}
	rADPT4 = &Rule{Name: "ADPT.4", Floor: 200, Fn: ruleADPT4,
		Text: "the functions documented in docs/stdlib-{text,math,times,base64,hex}.md equal the function keys of the module tables, and each documented parameter count is accepted by the implementation (finite-domain evaluation of the len(args) guard)"}
	rADPT5 = &Rule{Name: "ADPT.5", Floor: 9, Fn: ruleADPT5,
		Text: "the enum source module embedded in source_modules.go equals srcmod_enum.tengo; BuiltinModules binds each module name to the table of the same stem"}
	rJSON1 = &Rule{Name: "JSON.1", Floor: 25, Fn: ruleJSON1,
		Text: "finite-domain evaluation: every state function of stdlib/json's scanner has the same transition table (return code, next state, stack effect, endTop, error) over 256 bytes × 7 parse-stack summaries as the same-named state function of the building toolchain's encoding/json; the reference's nesting-depth limit is present"}
	rJSON2 = &Rule{Name: "JSON.2", Floor: 12, Fn: ruleJSON2,
		Text: "Decode validates the whole input and returns the error before any decoding step, feeds the decoder the same bytes with a reset scanner; checkValid steps every byte and eof; every explicit panic in the package is a decoder phase panic; decodeState is created only in Decode"}
	rJSON3 = &Rule{Name: "JSON.3", Floor: 2, Fn: ruleJSON3,
		Text: "a number literal is typed float iff scanWhile saw '.', 'e' or 'E' (exactly these three comparisons), else ParseInt(…,10,64); null/true/false/string map to undefined/True/False/String"}
	rJSON4 = &Rule{Name: "JSON.4", Floor: 4, Fn: ruleJSON4,
		Text: "table-vs-table with encoding/json: the decoder's escape table and \\uXXXX reader, the encoder's safeSet; the encoder has the short escapes and the \\u00XX fallback"}
	rJSON5 = &Rule{Name: "JSON.5", Floor: 9, Fn: ruleJSON5,
		Text: "Encode has an arm for every type the property names; undefined → null; bool through IsFalsy with the right polarity"}
	rFMT1 = &Rule{Name: "FMT.1", Floor: 7, Fn: ruleFMT1,
		Text: "every explicit panic in formatter.go reachable from Format carries ErrStringLimit (converted to the returned error by doFormat's deferred recover, which re-raises anything else) or is tabled with a re-checked premise (literal bases for fmtInteger)"}
	rFMT2 = &Rule{Name: "FMT.2", Floor: 8, Fn: ruleFMT2,
		Text: "formatter.wid/prec are assigned only from parsenum/intFromArg (which consult tooLarge), constants, or their own negation: the buffers sized from wid+prec are bounded"}
	rFMT3 = &Rule{Name: "FMT.3", Floor: 4, Fn: ruleFMT3,
		Text: "Format: newPrinter → doFormat → copy buffer → free on the only path; flags cleared at every directive; pooled printers re-initialised and truncated"}
	rFMT4 = &Rule{Name: "FMT.4", Floor: 50, Fn: ruleFMT4,
		Text: "agreement with the building toolchain's fmt: verb dispatch tables of fmtBool/fmtInteger/fmtFloat/fmtString/fmtBytes verb by verb (one tabled skew), the flag characters of the directive parser, and the 21 functions that are verbatim ports (alpha-normalised clone comparison with the reference source)"}
	rPREC1 = &Rule{Name: "PREC.1", Floor: 22, Fn: rulePREC1,
		Text: "the operator-precedence table of docs/tutorial.md equals Token.Precedence() (operators mapped through the token spelling table); parseBinaryExpr climbs precedence with unary operands, stops below prec1 and parses the right operand at prec+1 (left associativity); parseExpr handles the ternary last; unary + - ! ^ bind tightest"}
	rSEM = &Rule{Name: "SEM", Floor: 60, Fn: ruleSEM,
		Text: "SEM.1 every parser Expr/Stmt node type has an arm in Compiler.Compile (tabled: Bad*, EmptyStmt, FuncType, MapElementLit, IdentList); SEM.2 every token with a precedence level is compiled (&&/|| by compileLogical) and emits its own operator; every compound-assignment token the parser accepts emits the matching binary operator; ++/-- are += 1/-= 1; unary ! - ^ + map to their opcodes"}
	rLIT1 = &Rule{Name: "LIT.1", Floor: 4, Fn: ruleLIT1,
		Text: "literals are converted from the token's own text by strconv.ParseInt(lit, 0, 64) / ParseFloat(lit, 64) / Unquote(lit) / UnquoteChar(lit[1:n-1], '\\''), the result becomes the node's Value, and int/float/char conversion errors are reported as parse errors"}
	rPRINT = &Rule{Name: "PRINT", Floor: 30, Fn: rulePRINT,
		Text: "PRINT.1 BinaryExpr/UnaryExpr/CondExpr print as ( … ) with operands in order and operators spelled by Token.String(); PRINT.2 every Expr/Stmt printer mentions each of its child fields"}
	rSEMI1 = &Rule{Name: "SEMI.1", Floor: 4, Fn: ruleSEMI1,
		Text: "the scanner inserts a semicolon at a newline exactly after: identifier, break, continue, return, export, true, false, undefined, number/string/char literals, ) ] }, ++ and -- (Go's rule applied to Tengo's token set)"}
	rDEDUP1 = &Rule{Name: "DEDUP.1", Floor: 12, Fn: ruleDEDUP1,
		Text: "every arm of RemoveDuplicates records an old→new index on every path, takes the new index as len(pool) before appending the constant, and covers every type the compiler adds to the pool; afterwards the pool is replaced and one index map rewrites the main function and every compiled function of the new pool"}
	rGOB = &Rule{Name: "GOB", Floor: 25, Fn: ruleGOB,
		Text: "GOB.1 every type that can occur in encoded bytecode is registered with gob; GOB.2 registered structs have only exported fields (tabled caches) or inverse GobEncode/GobDecode; GOB.3 Encode/Decode stream the same fields in the same order, every decoded constant passes fixDecodedObject, which restores the singletons and recurses into containers"}
	rXCH = &Rule{Name: "XCH", Floor: 35, Fn: ruleXCH,
		Text: "XCH.1 for every Object type ToInterface yields a Go type that FromInterface turns back into the same Object type (immutable→mutable tabled), containers recurse, documented Go input kinds arrive as documented; XCH.2 each typed accessor of Variable returns the first result of the To* function of its return type; XCH.3 Set looks the name up and rejects unknown names before storing, Get/GetAll read nil slots as undefined, host variables are defined before the script is compiled"}
	rCLONE1 = &Rule{Name: "CLONE.1", Floor: 5, Fn: ruleCLONE1,
		Text: "Clone makes a fresh globals slice filled with g.Copy() and marks the clone as sharing bytecode; ReplaceBuiltinModule copies bytecode and indexes (copy-on-write) before writing; Bytecode.Clone copies the constant slice"}
	rFATAL1 = &Rule{Name: "FATAL.1", Floor: 3, Fn: ruleFATAL1,
		Text: "faults recover() cannot catch: no process-terminating call (os.Exit, log.Fatal, runtime.Goexit) is reachable from VM.Run outside the tabled os module; every recursive component of the call graph reachable from VM.Run (value walkers with no depth bound or visited set) is listed as a known finding - a new one is a violation"}
	rPANIC4 = &Rule{Name: "PANIC.4", Floor: 2, Fn: rulePANIC4,
		Text: "every recursive component of the call graph on the scan/parse/compile path (recursion on input nesting depth with no limit: native stack exhaustion is fatal) is listed as a known finding - a new one is a violation"}
	rSHARE = &Rule{Name: "SHARE", Floor: 4, Fn: ruleSHARE,
		Text: "SHARE.1 in functions reachable from VM.Run (VTA call graph) no field of a clone-shared type (everything reachable from Bytecode: constants, compiled functions, file set) is stored to except on an object allocated in the same function; the two lazily filled caches are known findings; SHARE.2 no package-level variable of the core packages is written under Run"}
	rIDX1 = &Rule{Name: "IDX.1", Floor: 4, Fn: ruleIDX1,
		Text: "each indexable sequence type (Array, ImmutableArray, Bytes, String) indexes, bounds-checks and iterates over one and the same storage, so that index, length bound and iteration agree on the unit (elements, bytes, runes)"}
	rFRESHVM = &Rule{Name: "FRESHVM", Floor: 3, Fn: ruleFRESHVM,
		Text: "every Run/Abort in the methods of *Compiled acts on a VM made by NewVM in the same call, and Compiled holds no VM: no VM state (abort flag, stored error, stack, frames) survives from one run into the next"}
	rNILFIELD = &Rule{Name: "NILFIELD", Floor: 4, Fn: ruleNILFIELD,
		Text: "every AST pointer field that the compiler dereferences without a nil guard is definitely assigned (constructed, parsed, or assigned on every path from a nil declaration) at every node construction site in the parser"}
	rFMT5 = &Rule{Name: "FMT.5", Floor: 5, Fn: ruleFMT5,
		Text: "every temporary override of a formatter flag (zero, sharp, …) outside the directive parser is restored from its saved value on every path (save/restore pairing)"}
	rLOCALTS = &Rule{Name: "LOCALTS", Floor: 4, Fn: ruleLOCALTS,
		Text: "typestate of local slots: GETLP and SETL on a local are emitted only behind a test of Symbol.LocalAssigned that defines the slot (DEFL) first when it is not yet assigned; LocalAssigned only ever becomes true"}
	rPORT1 = &Rule{Name: "PORT.1", Floor: 3, Fn: rulePORT1,
		Text: "text.replace's size-limited re-implementation keeps the cursor logic of the reference strings.Replace: replacement count, match location / advance over an empty pattern, and continuation point are alpha-identical to the building toolchain's strings.Replace"}
	rCMP4 = &Rule{Name: "CMP.4", Floor: 30, Fn: ruleCMP4,
		Text: "every arm of a scalar Equals is one comparison of the receiver's and the argument's value (==, bytes.Equal, time.Equal); T.Equals(U) and U.Equals(T) convert the operands identically (a == b iff b == a), and exactly as the ordering arms T < U do (<= is < or ==)"}
	rPOOL1 = &Rule{Name: "POOL.1", Floor: 2, Fn: rulePOOL1,
		Text: "sync.Pool typestate: an object is returned to a pool exactly once, by the function that took it, outside loops, and is not used afterwards (a second Put hands one printer to two concurrent format calls)"}
	rSYM1 = &Rule{Name: "SYM.1", Floor: 5, Fn: ruleSYM1,
		Text: "a scope's symbol store is written only by Define, DefineBuiltin and defineFree; Resolve records a captured variable only at a function boundary for a non-global, non-builtin symbol and never stores a looked-up outer name in the inner scope"}
	rLOOP1 = &Rule{Name: "LOOP.1", Floor: 2, Fn: ruleLOOP1,
		Text: "every for statement in a function reachable from VM.Run other than the dispatch loop is a range, a counted loop, a loop that changes its condition or an open loop with an exit; a counter stepped by a run-time value is guarded against wrapping around (an endless builtin is out of reach of Abort and of the allocation limit)"}
	rCMP5 = &Rule{Name: "CMP.5", Floor: 10, Fn: ruleCMP5,
		Text: "copy yields an equal value: for every value type whose Copy builds a new object, Equals is not pointer identity or constant false (listed findings: error and function values)"}
	rFMT6 = &Rule{Name: "FMT.6", Floor: 11, Fn: ruleFMT6,
		Text: "near-ports: writePadding, fmtInteger, fmtSbx, fmtC, pp.fmtInteger, pp.fmtBytes, pp.badVerb, pp.badArgNum, pp.missingArg and the directive parser pp.doFormat (vs doPrintf) equal the building toolchain's fmt statement by statement (alpha-normalised, longest common subsequence) except for the MaxStringLen guards the port added and one tabled difference each"}
	rFMT7 = &Rule{Name: "FMT.7", Floor: 9, Fn: ruleFMT7,
		Text: "printArg's type dispatch: each object arm is fmt's arm for the Go type of the object's value applied to that value (Bool through !IsFalsy()), the default arm formats String() as a string, %T/%v are served first from TypeName()/String()"}
	rJSON6 = &Rule{Name: "JSON.6", Floor: 11, Fn: ruleJSON6,
		Text: "the decoder's string unquoting (unquote, unquoteBytes, getu4), checkValid, quoteChar and the scanner's reset/eof/push/pop helpers equal the building toolchain's encoding/json statement by statement (alpha-normalised; one tabled difference)"}
	rSEMI2 = &Rule{Name: "SEMI.2", Floor: 6, Fn: ruleSEMI2,
		Text: "semicolon insertion across comments: findLineEnd's look-ahead loop can reach its next iteration (every comment on the line is examined), answers true for a //-comment, a newline or EOF, false for another token, and restores the scanner state by defer"}
	rSCAN1 = &Rule{Name: "SCAN.1", Floor: 8, Fn: ruleSCAN1,
		Text: "the literal scanners scanEscape, scanRune, scanString, scanRawString and skipWhitespace/switch2-4 equal the building toolchain's go/scanner statement by statement (alpha-normalised)"}
	rXCH4 = &Rule{Name: "XCH.4", Floor: 2, Fn: ruleXCH4,
		Text: "Compiled.Set stores the FromInterface conversion of its argument on every path that reports success (no way out between the name lookup and the store except an error return)"}
	rFMT8 = &Rule{Name: "FMT.8", Floor: 2, Fn: ruleFMT8,
		Text: "the script-level entry points (builtin format, fmt.sprintf) hand every format string to Format and never return it verbatim"}
	rSYM2 = &Rule{Name: "SYM.2", Floor: 1, Fn: ruleSYM2,
		Text: "builtin function names do not occupy the scope that holds the program's globals and the host's variables (listed finding: they do, so a global or host variable named like a builtin collides with it)"}
	rCMP6 = &Rule{Name: "CMP.6", Floor: 2, Fn: ruleCMP6,
		Text: "map equality: equal lengths, and every entry of the receiver Equals exactly what the lookup of the same key in the other map yields (a missing key makes the maps unequal; nothing is substituted for it)"}
	rJMP3 = &Rule{Name: "JMP.3", Floor: 6, Fn: ruleJMP3,
		Text: "the unconditional jumps that separate alternatives (over the else branch, loop back edges, break, continue) are emitted whenever their construct is compiled: never under a test of what the compiled body looks like"}
	rSEM3 = &Rule{Name: "SEM.3", Floor: 11, Fn: ruleSEM3,
		Text: "compound assignment: evaluated for every assignment token, compileAssign loads the current value of the left side exactly when it emits the binary operation"}
	rSCAN2 = &Rule{Name: "SCAN.2", Floor: 8, Fn: ruleSCAN2,
		Text: "every loop of the scanner driven by the current character stops at end of input: evaluated for ch = -1 its condition is false, or its body holds an exit whose condition is true there"}
	rREC3 = &Rule{Name: "REC.3", Floor: 2, Fn: ruleREC3,
		Text: "every function that takes a context.Context reaches the VM only through the recovering goroutine of the context-aware run method: none calls VM.Run, Compiled.Run or Script.Run directly"}
	rNIL1 = &Rule{Name: "NIL.1", Floor: 8, Fn: ruleNIL1,
		Text: "no Go nil becomes a script value: every read of a map[string]Object entry is a comma-ok lookup, compared with nil, handed to Equals, or assigned to a variable that is tested against nil before use"}
	rSTK1 = &Rule{Name: "STK.1", Floor: 40, Fn: ruleSTK1,
		Text: "effect typing of the code generator: every arm of Compiler.Compile and every compile helper, interpreted abstractly over the operand-stack height (Compile of an expression +1, of a statement 0; each emit with the stack effect of its opcode; element loops times their length; placeholder jumps carry the height of their landing point), raises the height by exactly 1 for an expression node and by 0 for a statement node on every path"}
	rSTK2 = &Rule{Name: "STK.2", Floor: 40, Fn: ruleSTK2,
		Text: "the stack-effect table STK.1 uses is the effect of the VM's arms: every arm of the dispatch switch, interpreted over the stack-pointer field, moves it on every completing path by exactly the table's effect in terms of the operand it decoded"}
	rRET2 = &Rule{Name: "RET.2", Floor: 3, Fn: ruleRET2,
		Text: "`return` outside a function is rejected: every comparison of SymbolTable.Parent(…) with nil asks with skipBlock = true, and every RET the return arm emits stands behind that test"}
	rOPT5 = &Rule{Name: "OPT.5", Floor: 1, Fn: ruleOPT5,
		Text: "every jump's target is entered into the destination set of the dead-code pass: nothing but the dispatch on the opcode stands above the store (no condition on operand or position)"}
	rSYM3 = &Rule{Name: "SYM.3", Floor: 2, Fn: ruleSYM3,
		Text: "the name defined by := comes into scope after its right-hand side is compiled, except when the right-hand side is a function literal (flag = comma-ok assertion to *parser.FuncLit, defined once; early Define only under it, late Define only under its negation)"}
	rDEDUP4 = &Rule{Name: "DEDUP.4", Floor: 1, Fn: ruleDEDUP4,
		Text: "float constants enter the pool from float literals only (no sign, no NaN), the premise under which keying them by == in RemoveDuplicates merges only indistinguishable constants"}
	rSING1 = &Rule{Name: "SING.1", Floor: 4, Fn: ruleSING1,
		Text: "values recognised by identity are never re-made: no composite literal or new() of a type whose package-level singleton (true, false, undefined) is compared with == anywhere in the module, apart from the singleton's own initialiser and the gob.Register prototype"}
	rPOS2 = &Rule{Name: "POS.2", Floor: 1, Fn: rulePOS2,
		Text: "files of a file set occupy disjoint position ranges: AddFile advances the set's base by the file's size plus at least one (containment includes the end position)"}
	rIDX2 = &Rule{Name: "IDX.2", Floor: 60, Fn: ruleIDX2,
		Text: "implicit panics of the scanner and parser: every index or slice expression of package parser whose bounds check the Go compiler's prove pass cannot eliminate (build with -d=ssa/check_bce; nothing is run) is dominated by a test of that index against len() of that base, or is one of the sites confirmed by reading and tabled with its invariant"}
	rDEDUP5 = &Rule{Name: "DEDUP.5", Floor: 1, Fn: ruleDEDUP5,
		Text: "merging constants creates no sharing the program can see: imports of a builtin module are separate objects before de-duplication and one object after it (re-derived; a listed finding)"}
	rBLT1 = &Rule{Name: "BLT.1", Floor: 60, Fn: ruleBLT1,
		Text: "the builtin table: each name is bound to the function spelled like it; the documented builtins are the table's; each is_<type> predicate answers true for exactly the type its name says and false otherwise"}
	rADPT8 = &Rule{Name: "ADPT.8", Floor: 5, Fn: ruleADPT8,
		Text: "a hand-written wrapper that guards an integer argument before handing it straight to a Go standard-library function rejects only values for which that function panics (panic domain read from the function's own source; guard and domain evaluated over a window of integers)"}
	rALIAS1 = &Rule{Name: "ALIAS.1", Floor: 1, Fn: ruleALIAS1,
		Text: "no tail cut off a buffer (t = x[i:]) is read after the buffer was cut back and appended to: the append overwrites the bytes the tail shares (the formatter's exponent handling copies the tail first, as fmt does)"}
	rCONV2 = &Rule{Name: "CONV.2", Floor: 3, Fn: ruleCONV2,
		Text: "the string arms of ToInt/ToInt64/ToFloat64 convert with strconv.ParseInt(s, 10, 64) / ParseFloat(s, 64): script strings coerce to numbers the decimal way"}
	rSCOPE2 = &Rule{Name: "SCOPE.2", Floor: 2, Fn: ruleSCOPE2,
		Text: "a function body is a block below its parameters: the function-literal arm compiles node.Body through the block-statement arm, which forks a block scope"}
	rMOD6 = &Rule{Name: "MOD.6", Floor: 5, Fn: ruleMOD6,
		Text: "one name per module: compileModule hands one unmodified parameter to the cycle check, the module cache (load and store) and the forked compiler"}
	rJSON8 = &Rule{Name: "JSON.8", Floor: 2, Fn: ruleJSON8,
		Text: "every object key and string value the JSON decoder hands out is unquote's result on every path (escapes resolved, malformed UTF-8 replaced, as in encoding/json)"}
	rJSON7 = &Rule{Name: "JSON.7", Floor: 2, Fn: ruleJSON7,
		Text: "the bytes validated are the bytes given: json.Decode passes its parameter, unmodified, to the validity automaton"}
	rLIT2 = &Rule{Name: "LIT.2", Floor: 2, Fn: ruleLIT2,
		Text: "in every branch the parser takes for a string token, the token's text is used only as the argument of strconv.Unquote, as a node's Literal field or in an error message"}
	rCOPY3 = &Rule{Name: "COPY.3", Floor: 2, Fn: ruleCOPY3,
		Text: "a copied closure keeps its captured variables: CompiledFunction.Copy hands the receiver's variable cells on and makes none of its own (as a copied function that refers to a global keeps referring to it)"}
	rSTATE1 = &Rule{Name: "STATE.1", Floor: 1, Fn: ruleSTATE1,
		Text: "compiling, de-duplicating, encoding and decoding are functions of their inputs: no function reachable from those entry points writes a package-level variable of the module (stores, map updates, sync.Map / atomic mutators)"}
	rOPT6 = &Rule{Name: "OPT.6", Floor: 2, Fn: ruleOPT6,
		Text: "the optimizer removes only dead code: in the copying pass of optimizeFunc every skipped instruction is skipped under the dead-code flag"}
	rSEM4 = &Rule{Name: "SEM.4", Floor: 1, Fn: ruleSEM4,
		Text: "the compiler is syntax-directed: no function of the compiler builds syntax-tree nodes of its own (one tabled desugaring: the literal 1 of ++/--)"}
	rCALL1 = &Rule{Name: "CALL.1", Floor: 1, Fn: ruleCALL1,
		Text: "the array of variadic arguments that OpCall builds stands on storage made in that arm, never on the slice of a spread operand (SSA value-origin analysis)"}
	rADPT6 = &Rule{Name: "ADPT.6", Floor: 2, Fn: ruleADPT6,
		Text: "the size-limited regexp replace substitutes, for every match, regexp's expansion of the template (never the raw template)"}
	rDEDUP3 = &Rule{Name: "DEDUP.3", Floor: 5, Fn: ruleDEDUP3,
		Text: "the Equals of the constant types RemoveDuplicates merges (numbers, strings, chars, builtin module maps) does not depend on object identity"}
	rXCH5 = &Rule{Name: "XCH.5", Floor: 2, Fn: ruleXCH5,
		Text: "the host's value is stored as it is by Add/prepCompile and Set (no Copy on the way in: Copy thaws immutable containers)"}
	rCOPY2 = &Rule{Name: "COPY.2", Floor: 8, Fn: ruleCOPY2,
		Text: "a copy is complete: the composite literal of every Copy method mentions every field of the type (embedded bases and tabled caches aside) - a compiled function's copy keeps its source map"}
	rADPT7 = &Rule{Name: "ADPT.7", Floor: 3, Fn: ruleADPT7,
		Text: "stdlib wrappers test indexes before using them: regexp submatch index pairs against -1 before slicing the subject, a string argument's length before indexing it at a constant position"}
	rSEARCH1 = &Rule{Name: "SEARCH.1", Floor: 2, Fn: ruleSEARCH1,
		Text: "the position→file lookup is `last file with Base <= x`: searchFiles is sort.Search over Base > x minus one (or a clone of its documented sibling searchInts), and both containment tests are Base <= p <= Base+Size"}
)

func allProperties() []*Property {
	return []*Property{
		{ID: "C01",
			Decided:    "compiler, generic codec, opcode tables and every VM arm agree byte for byte on the instruction format.",
			NotDecided: "the language semantics themselves (values computed by operators, control flow, scoping, builtins).",
			Rules:      []*Rule{rCODEC1, rCODEC2, rCODEC3, rCODEC4, rFRESH, rOPARM, rOPDOC, rSEM, rSEM3, rIDX1, rTWIN1, rFAM1, rSYM1, rSYM3, rCALL1, rSTK1, rSTK2, rBLT1, rALIAS1, rSCOPE2, rSEM4, rCONV2}},
		{ID: "C02",
			Decided:    "instruction format agreement; opcode-class agreement.",
			NotDecided: "stack balance and jump well-formedness for all compiled programs.",
			Rules:      []*Rule{rCODEC1, rCODEC2, rCODEC3, rCODEC4, rCODEC5, rJMP1, rJMP2, rJMP3, rSEM3, rSTK1, rSTK2, rRET1, rRET2, rSCOPE1, rSYM1}},
		{ID: "C03",
			Decided:    "the optimizer's notion of jump / terminator is the VM's (opcode classes extracted from the VM arms).",
			NotDecided: "equivalence of optimised and unoptimised code for all programs.",
			Rules:      []*Rule{rCODEC5, rCODEC3, rOPT, rOPT5, rOPT6, rRET1, rJMP3}},
		{ID: "C04",
			Decided:    "every explicit panic reachable from the scan/parse/compile entry points is recovered in place, proven unreachable from re-checked premises, or a listed finding; scope switches are exhaustive; the globals slot count is checked; compiler scope/loop stacks are balanced on error paths; parser error positions are token/node start positions.",
			NotDecided: "termination; implicit run-time panics in general (index, nil, slice bounds); that every reported position lies inside the input.",
			Rules:      []*Rule{rPANIC1, rPANIC2, rPANIC3, rPANIC4, rNILFIELD, rSCOPE1, rJMP2, rNEWPARSER, rPOSARG, rLIT1, rSCAN1, rSCAN2, rIDX2}},
		{ID: "C05",
			Decided:    "the structure that turns any ordinary panic of the VM goroutine into a returned error, waits for that goroutine, and releases the lock by defer on every exit.",
			NotDecided: "which run-time faults a script can provoke; faults recover() cannot catch are only partly covered (thorough).",
			Rules:      []*Rule{rREC, rREC3, rLOCK, rFRESHVM, rFATAL1, rABORT, rLOOP1, rNIL1, rXCH}},
		{ID: "C06",
			Decided:    "count-then-check at every allocation site with a count-down counter read only against zero; every object the VM creates is counted; every String/Bytes producer in package tengo is guarded or bounded by construction; formatter output grows only behind the limit check; frame pushes are guarded.",
			NotDecided: "the numbers as run-time facts (exactly N allocations, results unchanged when N grows); allocation inside Go library calls; stdlib-module producers.",
			Rules:      []*Rule{rALLOC1, rALLOC2, rLIMIT1, rLIMIT2, rLIMIT3, rFRAMES1}},
		{ID: "C07",
			Decided:    "atomic abort flag polled once per instruction, abort-then-drain on cancellation, fresh VM per run, lock released by defer.",
			NotDecided: "the delay bound, goroutine counts and results of later runs as run-time facts.",
			Rules:      []*Rule{rABORT, rREC, rREC3, rLOCK, rLOOP1}},
		{ID: "C08",
			Decided:    "lock discipline of *Compiled; Copy is deep and fresh (what makes per-clone globals independent).",
			NotDecided: "absence of data races over all interleavings; equality with the sequential baseline.",
			Rules:      []*Rule{rLOCK, rCOPY1, rCLONE1, rFRESHVM, rSHARE, rPOOL1, rREC, rABORT, rSEARCH1}},
		{ID: "C09",
			Decided:    "no route from the storage of an immutable array/map to a write or to a mutable owner, in any function of any package (ownership rule on two fields).",
			NotDecided: "immutability broken by embedder code or unsafe/reflect (neither occurs in the tree).",
			Rules:      []*Rule{rIMM1, rIMM2, rIMM3, rIMM4, rCOPY1, rTWIN1, rOPT6}},
		{ID: "C10",
			Decided:    "Copy is deep and fresh for every container.",
			NotDecided: "arithmetic results; NaN/±0 laws as numeric facts.",
			Rules:      []*Rule{rCMP1, rCMP2, rCMP3, rCMP4, rCMP5, rCMP6, rCONV1, rCONV2, rFALSY1, rCOPY1, rCOPY2, rTWIN1, rSING1}},
		{ID: "C15",
			Decided:    "type-level round trip of FromInterface/ToInterface; typed accessors call the documented conversion; Set/Get/GetAll guards; lock discipline; conversion table agreement.",
			NotDecided: "the history clause (a variable reads as the last value set) over all call sequences.",
			Rules:      []*Rule{rXCH, rXCH4, rXCH5, rSYM2, rLOCK, rCONV1, rCONV2, rCLONE1, rSING1}},
		{ID: "C11",
			Decided:    "the three variable families' selector-assignment arms are clones; operand decoding of all Local/Free/Global opcodes agrees with the encoder.",
			NotDecided: "the metamorphic relation itself (needs executing transformed programs).",
			Rules:      []*Rule{rFAM1, rLOCALTS, rCODEC3, rSYM1, rSYM2, rSYM3, rTAIL, rSCOPE2, rCOPY3}},
		{ID: "C13",
			Decided:    "module bodies are compiled against a fresh builtin-only table; the cycle check dominates and walks the import stack; compile-once ordering at the root cache; import = CONST+CALL; exported values pass OpImmutable; file APIs are confined behind the permission flag.",
			NotDecided: "termination and the exact success condition over all import graphs as a run-time fact.",
			Rules:      []*Rule{rMOD, rMOD6, rIMM4, rSTATE1}},
		{ID: "C14",
			Decided:    "sentinel and host errors survive to the caller wrapped with %w; every instruction gets a source position keyed by its own offset, kept consistent through the optimizer; call-site ips are saved before frame switches and looked up innermost first.",
			NotDecided: "that a reported position lies within the failing statement (depends on per-opcode ip bookkeeping and each program's source map).",
			Rules:      []*Rule{rERR, rPOS1, rPOS2, rOPT, rSEARCH1, rDEDUP1, rRET1, rCOPY2}},
		{ID: "C16",
			Decided:    "the VM's tail-call predicate is exactly 'next is RET or POP;RET'; the reuse path grows no frame and overwrites parameter slots directly; the compiler places RET directly after the documented tail positions.",
			NotDecided: "that deep recursion terminates with the right value.",
			Rules:      []*Rule{rTAIL, rCODEC3, rCALL1, rLOCALTS, rCODEC5, rOPT}},
		{ID: "C17",
			Decided:    "all output goes through writers guarded by MaxStringLen; explicit panics are the limit error or proven unreachable; width/precision are bounded; printer pooling hygiene; verb dispatch, flag parsing and the verbatim-ported helpers agree with the building toolchain's fmt.",
			NotDecided: "equality with fmt.Sprintf for all inputs (the non-identical parts of the port: fmtInteger, fmtFloat, fmtC, padding, doFormat's argument handling); implicit index panics inside digit loops.",
			Rules:      []*Rule{rLIMIT2, rFMT1, rFMT2, rFMT3, rFMT4, rFMT5, rFMT6, rFMT7, rFMT8, rPOOL1, rALIAS1}},
		{ID: "C18",
			Decided:    "the validity automaton equals encoding/json's state by state; validate-before-decode; number typing by '.', 'e', 'E'; escape tables equal the reference's; encoder arms for all named types.",
			NotDecided: "round-trip equality of values; number and string values after decoding; float formatting.",
			Rules:      []*Rule{rJSON1, rJSON2, rJSON3, rJSON4, rJSON5, rJSON6, rJSON7, rJSON8}},
		{ID: "C19",
			Decided:    "the wiring of the stdlib modules: adapters do what their function type says; table keys name the Go function/constant they wrap; hand-written wrappers call the function their key names with arguments in order; documentation and tables agree; generated source is in sync.",
			NotDecided: "the Go functions' results (they are the specification); value-level behaviour of hand-written wrappers (size limits, defaults).",
			Rules:      []*Rule{rADPT1, rADPT2, rADPT3, rADPT4, rADPT5, rADPT6, rADPT7, rADPT8, rPORT1}},
		{ID: "C20",
			Decided:    "documented precedence = implemented precedence with left-associative climbing; literal conversion is delegated to strconv on the token text; compound printers are self-delimiting and complete; the semicolon-insertion token set; every operator token the parser can produce is compiled to its own operator.",
			NotDecided: "the re-parse/re-compile equality as a fact about all programs; literal values (delegated to strconv, trusted); comment/whitespace layouts.",
			Rules:      []*Rule{rPREC1, rLIT1, rLIT2, rPRINT, rSEMI1, rSEMI2, rSCAN1, rSEM}},
		{ID: "C12",
			Decided:    "constant re-indexing covers exactly the opcodes through which the VM reads the constant pool, with the operand layout of the tables.",
			NotDecided: "behavioural equality after de-duplication / gob round trip.",
			Rules:      []*Rule{rCODEC5, rDEDUP1, rDEDUP3, rDEDUP4, rDEDUP5, rGOB, rSTATE1}},
	}
}
