// tengocheck: repository-specific static checker for d5/tengo.
//
// Every run loads and type-checks the current working tree under -repo and
// decides the rule instances of one property from the source alone (AST,
// types, per-function CFG, SSA and call graph). Nothing of tengo is executed.
package main

import (
	"flag"
	"fmt"
	"go/ast"
	"os"
	"os/exec"
	"path/filepath"
	"regexp"
	"sort"
	"strconv"
	"strings"
	"time"
)

var trustedBase = []string{
	"Go toolchain parser and go/types type checker (go1.23.5)",
	"golang.org/x/tools v0.29.0: go/packages, go/cfg, go/ssa, callgraph cha+vta",
	"the rule tables and idiom recognisers in /verif/checker (repository specific, confirmed by reading the pinned tree)",
}

func main() {
	prop := flag.String("prop", "", "property id (C01..C20) or 'all'")
	tier := flag.String("tier", "quick", "quick|thorough")
	repo := flag.String("repo", "/repo", "path of the d5/tengo working tree")
	verif := flag.String("verif", "/verif", "path of /verif (evidence, known findings)")
	list := flag.Bool("list", false, "list properties and rules")
	dump := flag.Bool("dump", false, "print every obligation")
	noEvidence := flag.Bool("no-evidence", false, "do not write evidence/report files (selftest)")
	goenv := flag.String("goenv", "", "comma-separated build configuration overrides for the load, e.g. GOARCH=386")
	portdiff := flag.Bool("portdiff", false, "debug: print statement-level differences between formatter.go and the reference fmt")
	inlineInto := flag.String("inline-into", "", "debug: write the helpers-inlined view of -repo into this directory and exit")
	view := flag.Bool("view", false, "internal: this run analyses the helpers-inlined view (no second view, no evidence)")
	flag.Parse()
	if *inlineInto != "" {
		n, err := inlineTree(*repo, *inlineInto)
		fmt.Printf("inlined helpers in %d file(s); error: %v\n", n, err)
		return
	}
	if *portdiff {
		debugPortDiff(*repo)
		return
	}

	props := allProperties()
	if *list {
		for _, p := range props {
			fmt.Printf("%s:\n", p.ID)
			for _, r := range p.Rules {
				t := "q"
				if r.Thorough {
					t = "t"
				}
				fmt.Printf("  %-10s [%s floor=%d] %s\n", r.Name, t, r.Floor, r.Text)
			}
		}
		return
	}
	if env := os.Getenv("VERIF_TIER"); env != "" && !flagSet("tier") {
		*tier = env
	}
	if *tier != "quick" && *tier != "thorough" {
		fmt.Fprintln(os.Stderr, "bad -tier")
		os.Exit(2)
	}
	seed := 0
	if s := os.Getenv("VERIF_SEED"); s != "" {
		if v, err := strconv.Atoi(s); err == nil {
			seed = v
		}
	}

	var todo []*Property
	for _, p := range props {
		if *prop == "all" || p.ID == *prop {
			todo = append(todo, p)
		}
	}
	if len(todo) == 0 {
		fmt.Fprintf(os.Stderr, "unknown property %q\n", *prop)
		os.Exit(2)
	}

	t0 := time.Now()
	var extraEnv []string
	if *goenv != "" {
		extraEnv = strings.Split(*goenv, ",")
	}
	w, err := loadWorld(*repo, extraEnv...)
	if err != nil {
		// A tree that does not load/type-check cannot be decided: fail loudly.
		fmt.Printf("ERROR: cannot analyse %s: %v\n", *repo, err)
		for _, p := range todo {
			rp := filepath.Join(*verif, "reports", p.ID+"."+*tier+".json")
			_ = writeJSON(rp, map[string]interface{}{"property": p.ID, "error": err.Error()})
			fmt.Printf("VIOLATION property=%s replay=%s\n", p.ID, rp)
		}
		os.Exit(1)
	}
	loadS := time.Since(t0).Seconds()

	known, err := loadKnown(filepath.Join(*verif, "known_findings.json"))
	if err != nil {
		fmt.Printf("ERROR: %v\n", err)
		os.Exit(2)
	}

	exit := 0
	for _, p := range todo {
		t1 := time.Now()
		c, sums := runProperty(w, p, *tier)
		// classify against known findings
		var viol, knownHit []Obligation
		for i := range c.obls {
			o := &c.obls[i]
			if o.Verdict == "discharged" {
				continue
			}
			matched := false
			for _, k := range known.Findings {
				if k.Rule == o.Rule && k.Key == o.Key && propListed(k.Property, p.ID) {
					matched = true
					o.Verdict = "known-finding"
					o.Detail = k.What + " | " + o.Detail
					break
				}
			}
			if matched {
				knownHit = append(knownHit, *o)
			} else {
				viol = append(viol, *o)
			}
		}
		// a violation counts only if the same rule also reports on the view
		// of the tree in which small helpers are inlined (inline.go): moving
		// statements into a helper is the commonest behaviour-preserving edit,
		// and a rule that merely lost sight of them must not raise an alarm
		if len(viol) > 0 && !*view {
			rules, why := flaggedInView(p.ID, *repo, *verif, *goenv)
			if rules == nil {
				c.note("helpers-inlined view not used: %s", why)
				fmt.Printf("  note: helpers-inlined view not used: %s\n", why)
			} else {
				var kept []Obligation
				dropped := map[string]int{}
				for _, o := range viol {
					if rules[o.Rule] {
						kept = append(kept, o)
					} else {
						dropped[o.Rule]++
						for i := range c.obls {
							if c.obls[i].Rule == o.Rule && c.obls[i].Key == o.Key && c.obls[i].Verdict != "discharged" {
								c.obls[i].Verdict = "discharged"
								c.obls[i].Detail = "holds once small helpers are inlined (second view) | " + c.obls[i].Detail
							}
						}
					}
				}
				for r, n := range dropped {
					fmt.Printf("  note: %s reports %d construct(s) on the tree as written but nothing on the tree with small helpers inlined: the statements it looks for moved into a helper; not counted\n", r, n)
					c.note("%s: %d report(s) on the tree as written not confirmed on the helpers-inlined view", r, n)
				}
				viol = kept
			}
		}
		discharged := 0
		for _, o := range c.obls {
			if o.Verdict == "discharged" {
				discharged++
			}
		}
		// thorough: the same rules over /repo loaded under other build
		// configurations (one child process each, so nothing is shared)
		var alts []altResult
		if len(w.Ignored) > 0 {
			c.note("files excluded by build constraints in this configuration: %v - the other build configurations are analysed as well", w.Ignored)
		}
		if (*tier == "thorough" || len(w.Ignored) > 0) && *goenv == "" {
			for _, env := range altConfigs {
				a := runAlt(p.ID, *repo, *verif, env, known)
				alts = append(alts, a)
				for _, v := range a.Violations {
					viol = append(viol, Obligation{Rule: v.Rule, Key: v.Key, Site: "[" + env + "] " + v.Site, Verdict: "violated", Detail: v.Detail})
				}
				if a.Files != w.NumFiles {
					c.note("build configuration %s compiles %d Go files, the default configuration %d: build-constrained sources exist", env, a.Files, w.NumFiles)
				}
			}
		}
		if *dump {
			for _, o := range c.obls {
				fmt.Printf("  %-12s %-10s %-60s %s  %s\n", o.Verdict, o.Rule, o.Key, o.Site, o.Detail)
			}
		}
		for _, s := range sums {
			fmt.Printf("%s %-10s instances=%-4d floor=%-4d failed=%d\n", p.ID, s.Rule, s.Instances, s.Floor, s.Failed)
		}
		sort.SliceStable(knownHit, func(i, j int) bool { return knownHit[i].Rule+knownHit[i].Key < knownHit[j].Rule+knownHit[j].Key })
		for _, o := range knownHit {
			fmt.Printf("KNOWN-FINDING: property=%s rule=%s key=%s site=%s %s\n", p.ID, o.Rule, o.Key, o.Site, o.Detail)
		}
		reportPath := filepath.Join(*verif, "reports", p.ID+"."+*tier+".json")
		if len(viol) > 0 {
			exit = 1
			for _, o := range viol {
				fmt.Printf("  violation: rule=%s key=%s site=%s : %s\n", o.Rule, o.Key, o.Site, o.Detail)
			}
			if !*noEvidence {
				_ = writeJSON(reportPath, map[string]interface{}{
					"property": p.ID, "tier": *tier, "violations": viol,
					"how_to_replay": fmt.Sprintf("cd /verif && ./check %s %s   (re-derives each violation from /repo's current source; the listed rule/key/site identify the construct)", p.ID, *tier),
				})
			}
			fmt.Printf("VIOLATION property=%s replay=%s\n", p.ID, reportPath)
		}
		if !*noEvidence {
			var kf []string
			for _, o := range knownHit {
				kf = append(kf, o.Rule+":"+o.Key)
			}
			ev := map[string]interface{}{
				"property_id": p.ID,
				"tier":        *tier,
				"seed":        seed,
				"level":       "other",
				"coverage": map[string]interface{}{
					"explanation": "Static analysis of /repo's current source (no tengo code is executed). DECIDED: " + p.Decided +
						" NOT DECIDED (outside what a sound static argument reaches here): " + p.NotDecided,
					"obligations":                len(c.obls),
					"discharged":                 discharged,
					"distinct_constructs":        distinctKeys(c.obls),
					"rules":                      sums,
					"samples":                    sampleObls(c.obls, 6),
					"packages":                   len(w.All),
					"functions_in_scope":         w.NumFuncs,
					"known_findings_rederived":   kf,
					"notes":                      c.notes,
					"other_build_configurations": alts,
					"checker_cmd":                strings.Join(os.Args, " "),
					"trusted_base":               trustedBase,
					"exhaustive":                 false,
				},
				"assumptions": []string{
					"go/types, go/cfg and x/tools SSA/call graph are sound for this code (no unsafe, no cgo; reflection only in trace/format helpers)",
					"embedder-supplied Objects and Importables follow the documented contracts",
					"the claim is the structural necessary condition stated under DECIDED, not the behavioural property as a whole",
				},
				"wall_s":     time.Since(t1).Seconds() + loadS,
				"violations": len(viol),
			}
			if err := writeJSON(filepath.Join(*verif, "evidence", p.ID+".json"), ev); err != nil {
				fmt.Printf("ERROR: writing evidence: %v\n", err)
				exit = 2
			}
		}
		for _, a := range alts {
			fmt.Printf("%s build-config [%s]: files=%d obligations=%d discharged=%d known=%d violations=%d\n", p.ID, a.Env, a.Files, a.Obligations, a.Discharged, a.Known, len(a.Violations))
		}
		fmt.Printf("%s %s: files=%d obligations=%d discharged=%d known=%d violations=%d (%.1fs)\n",
			p.ID, *tier, w.NumFiles, len(c.obls), discharged, len(knownHit), len(viol), time.Since(t1).Seconds()+loadS)
	}
	cleanupView()
	os.Exit(exit)
}

var (
	viewDir   string
	viewBuilt bool
	viewWhy   string
)

func cleanupView() {
	if viewDir != "" {
		_ = os.RemoveAll(viewDir)
	}
}

// flaggedInView builds (once) the helpers-inlined view of repo and runs this
// binary on it for one property; returns the rules that report there, or nil
// and the reason when the view cannot be used (nothing to inline, the view
// does not build, the child run is unreadable): the violations then stand.
func flaggedInView(prop, repo, verif, goenv string) (map[string]bool, string) {
	if !viewBuilt {
		viewBuilt = true
		dir, err := os.MkdirTemp("", "tengo-view-")
		if err != nil {
			viewWhy = err.Error()
		} else {
			viewDir = dir
			n, err := inlineTree(repo, dir)
			switch {
			case err != nil:
				viewWhy = "inlining failed: " + err.Error()
			case n == 0:
				viewWhy = "no helper to inline: the view is the tree as written"
			}
		}
	}
	if viewWhy != "" {
		return nil, viewWhy
	}
	args := []string{"-prop", prop, "-tier", "quick", "-repo", viewDir, "-verif", verif, "-no-evidence", "-view"}
	if goenv != "" {
		args = append(args, "-goenv", goenv)
	}
	out, _ := exec.Command(os.Args[0], args...).Output()
	rules := map[string]bool{}
	seen := false
	for _, ln := range strings.Split(string(out), "\n") {
		if reAltSum.MatchString(ln) {
			seen = true
		}
		if m := reAltViol.FindStringSubmatch(ln); m != nil {
			rules[m[1]] = true
		}
		if strings.HasPrefix(ln, "ERROR:") {
			return nil, "the view cannot be analysed: " + ln
		}
	}
	if !seen {
		return nil, "the run on the view produced no summary"
	}
	return rules, ""
}

// altConfigs are the additional build configurations of the thorough tier.
var altConfigs = []string{"GOARCH=386", "GOOS=windows"}

type altViolation struct{ Rule, Key, Site, Detail string }

type altResult struct {
	Env         string         `json:"env"`
	Files       int            `json:"go_files"`
	Obligations int            `json:"obligations"`
	Discharged  int            `json:"discharged"`
	Known       int            `json:"known_findings"`
	Violations  []altViolation `json:"violations"`
	Error       string         `json:"error,omitempty"`
}

var (
	reAltSum  = regexp.MustCompile(`^(C\d+) quick: files=(\d+) obligations=(\d+) discharged=(\d+) known=(\d+) violations=(\d+)`)
	reAltViol = regexp.MustCompile(`^  violation: rule=(\S+) key=(.*?) site=(\S+) : (.*)$`)
)

// runAlt re-runs this binary on the same tree under another build
// configuration and parses its report. Anything but a clean parse is a
// violation (a configuration that cannot be analysed is not silently skipped).
func runAlt(prop, repo, verif, env string, known *KnownFile) altResult {
	a := altResult{Env: env}
	cmd := exec.Command(os.Args[0], "-prop", prop, "-tier", "quick", "-repo", repo, "-verif", verif, "-no-evidence", "-goenv", env)
	out, err := cmd.Output()
	seen := false
	for _, ln := range strings.Split(string(out), "\n") {
		if m := reAltSum.FindStringSubmatch(ln); m != nil {
			seen = true
			a.Files, _ = strconv.Atoi(m[2])
			a.Obligations, _ = strconv.Atoi(m[3])
			a.Discharged, _ = strconv.Atoi(m[4])
			a.Known, _ = strconv.Atoi(m[5])
		}
		if m := reAltViol.FindStringSubmatch(ln); m != nil {
			a.Violations = append(a.Violations, altViolation{m[1], m[2], m[3], m[4]})
		}
		if strings.HasPrefix(ln, "ERROR:") {
			a.Error = ln
		}
	}
	if !seen || a.Error != "" || (err != nil && len(a.Violations) == 0) {
		if a.Error == "" {
			a.Error = fmt.Sprintf("child run failed: %v", err)
		}
		a.Violations = append(a.Violations, altViolation{"LOAD", "build-configuration/" + env, "-", "the tree cannot be analysed under " + env + ": " + a.Error})
	}
	return a
}

func propListed(list, id string) bool {
	for _, s := range strings.Split(list, ",") {
		if strings.TrimSpace(s) == id {
			return true
		}
	}
	return false
}

func flagSet(name string) bool {
	set := false
	flag.Visit(func(f *flag.Flag) {
		if f.Name == name {
			set = true
		}
	})
	return set
}

func debugPortDiff(repo string) {
	w, err := loadWorld(repo)
	if err != nil {
		fmt.Println(err)
		return
	}
	if sref, err := w.loadRef("go/scanner"); err == nil {
		w.AllFuncDecls(w.Parser, func(fd *ast.FuncDecl) {
			name := funcName(fd)
			if !strings.HasPrefix(name, "Scanner.") && recvTypeName(fd) != "" {
				return
			}
			rf := w.FuncDecl(sref, name)
			if rf == nil {
				return
			}
			a, b := flattenBody(w.Parser, fd, nil), flattenBody(sref, rf, nil)
			oa, ob := lcsDiff(a, b)
			fmt.Printf("== scanner %s: %d/%d statements, only-tengo %d, only-ref %d\n", name, len(a), len(b), len(oa), len(ob))
			for _, s := range oa {
				fmt.Printf("   T %.150s   [%s]\n", w.Src(s.Node), w.SitePos(s.Node.Pos()))
			}
			for _, s := range ob {
				fmt.Printf("   R %.160s\n", s.Text)
			}
		})
	}
	if jref, err := w.loadRef("encoding/json"); err == nil {
		w.AllFuncDecls(w.JSON, func(fd *ast.FuncDecl) {
			name := funcName(fd)
			rf := w.FuncDecl(jref, name)
			if rf == nil {
				fmt.Printf("== json %s: no reference function\n", name)
				return
			}
			a, b := flattenBody(w.JSON, fd, nil), flattenBody(jref, rf, nil)
			oa, ob := lcsDiff(a, b)
			fmt.Printf("== json %s: %d/%d statements, only-tengo %d, only-ref %d\n", name, len(a), len(b), len(oa), len(ob))
			for _, s := range oa {
				fmt.Printf("   T %.150s   [%s]\n", w.Src(s.Node), w.SitePos(s.Node.Pos()))
			}
			for _, s := range ob {
				fmt.Printf("   R %.160s\n", s.Text)
			}
		})
	}
	ref, err := w.loadRef("fmt")
	if err != nil {
		fmt.Println(err)
		return
	}
	sub := fmtSubst
	w.AllFuncDecls(w.Root, func(fd *ast.FuncDecl) {
		if filepath.Base(w.Fset.Position(fd.Pos()).Filename) != "formatter.go" {
			return
		}
		name := funcName(fd)
		rn := strings.Replace(strings.Replace(name, "formatter.", "fmt.", 1), "fmtbuf.", "buffer.", 1)
		if rn == "pp.doFormat" {
			rn = "pp.doPrintf"
		}
		rf := w.FuncDecl(ref, rn)
		if rf == nil {
			fmt.Printf("== %s: no reference function %s\n", name, rn)
			return
		}
		a, b := flattenBody(w.Root, fd, sub, fmtHelpers(w, w.Root, ref)), flattenBody(ref, rf, sub)
		oa, ob := lcsDiff(a, b)
		fmt.Printf("== %s: %d/%d statements, only-tengo %d, only-ref %d\n", name, len(a), len(b), len(oa), len(ob))
		for _, s := range oa {
			fmt.Printf("   T %s   [%s]\n      = %s\n", w.Src(s.Node), w.SitePos(s.Node.Pos()), s.Text)
		}
		for _, s := range ob {
			fmt.Printf("   R %.160s\n", s.Text)
		}
	})
}
