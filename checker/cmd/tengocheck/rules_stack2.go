package main

// rules_stack2.go: STK.2 - the stack-effect table STK.1 types the code
// generator with is the effect the VM's arms have. Each arm of the dispatch
// switch is interpreted abstractly over the stack-pointer field: `sp++`,
// `sp--`, `sp -= e`, `sp = e` along every path; a path that ends in `return`
// did not complete the instruction (error exit) and carries no obligation;
// nested loops must leave sp alone. Every completing path must change sp by
// exactly the table's effect, expressed over the operand the arm decoded
// (CODEC.3's decode groups say which local holds which operand). The two
// short-circuit jumps keep the value on the path that assigns ip and pop it
// on the other. OpCall and OpReturn move sp through the frame (base pointer,
// NumLocals): their effect "once the callee has returned" is a property of the
// pair, decided here in the form: the non-compiled callee path is -numArgs
// like any arm; the compiled path sets sp = sp - numArgs + NumLocals with
// basePointer = sp - numArgs, and OpReturn sets sp = basePointer and stores
// the result at sp-1 (the callee's slot) - a net -numArgs.

import (
	"fmt"
	"go/ast"
	"go/token"
	"go/types"
	"sort"
	"strings"
)

type sp2Store struct {
	idx, sp lin
	src     lin          // index of the stack slot the value is read from, when it is one
	loop    *ast.ForStmt // innermost counted loop the store stands in
}

type sp2State struct {
	stores []sp2Store // stores into the stack array: index and stack pointer at that moment
	d      lin
	vars   map[types.Object]lin // integer locals (and the new frame's base) with a known value
	ipSet  bool
	tags   map[string]bool
}

func (s *sp2State) clone() *sp2State {
	n := &sp2State{d: s.d.clone(), vars: map[types.Object]lin{}, ipSet: s.ipSet, tags: map[string]bool{}, stores: append([]sp2Store{}, s.stores...)}
	for k, v := range s.vars {
		n.vars[k] = v
	}
	for k := range s.tags {
		n.tags[k] = true
	}
	return n
}

type sp2Interp struct {
	w       *World
	p       pkgT
	vi      *VMInfo
	sp      *types.Var
	opVar   map[types.Object]int // local holding operand k
	bp      *types.Var           // the frame field OpReturn takes the stack pointer from
	curLoop *ast.ForStmt         // the loop whose body is being read for its stores
	unknown []string
	// exits
	done []*sp2State // completed the instruction (fell out of the arm, break, continue of the dispatch loop)
}

const spTerm = "\x00sp"

func (it *sp2Interp) isSP(e ast.Expr) bool {
	f, x := FieldSel(it.p, e)
	if f == nil || f != it.sp {
		return false
	}
	id, ok := ast.Unparen(x).(*ast.Ident)
	return ok && it.p.TypesInfo.ObjectOf(id) == it.vi.Recv
}

func (it *sp2Interp) isIP(e ast.Expr) bool {
	f, x := FieldSel(it.p, e)
	if f == nil || f != it.vi.IP {
		return false
	}
	id, ok := ast.Unparen(x).(*ast.Ident)
	return ok && it.p.TypesInfo.ObjectOf(id) == it.vi.Recv
}

func (it *sp2Interp) linOf(s *sp2State, e ast.Expr) lin {
	e = ast.Unparen(e)
	if k, ok := ConstInt(it.p, e); ok {
		return konst(int(k))
	}
	if it.isSP(e) {
		if s.tags["absolute"] {
			return s.d.clone()
		}
		return lin{spTerm: 1}.add(s.d, 1)
	}
	switch x := e.(type) {
	case *ast.Ident:
		o := it.p.TypesInfo.ObjectOf(x)
		if k, ok := it.opVar[o]; ok {
			if v, ok := s.vars[o]; ok {
				return v
			}
			return lin{fmt.Sprintf("operand%d", k): 1}
		}
		if v, ok := s.vars[o]; ok {
			return v
		}
		if o != nil {
			return lin{fmt.Sprintf("%s@%d", o.Name(), o.Pos()): 1}
		}
	case *ast.CallExpr:
		if tv, ok := it.p.TypesInfo.Types[x.Fun]; ok && tv.IsType() && len(x.Args) == 1 {
			return it.linOf(s, x.Args[0])
		}
		if IsBuiltinCall(it.p, x, "len") && len(x.Args) == 1 {
			return lin{"len(" + it.w.Src(x.Args[0]) + ")": 1}
		}
	case *ast.BinaryExpr:
		switch x.Op {
		case token.ADD:
			return it.linOf(s, x.X).add(it.linOf(s, x.Y), 1)
		case token.SUB:
			return it.linOf(s, x.X).add(it.linOf(s, x.Y), -1)
		case token.MUL:
			if k, ok := ConstInt(it.p, x.Y); ok {
				return lin{}.add(it.linOf(s, x.X), int(k))
			}
			if k, ok := ConstInt(it.p, x.X); ok {
				return lin{}.add(it.linOf(s, x.Y), int(k))
			}
		}
	}
	if f, _ := FieldSel(it.p, e); f != nil {
		return lin{"field:" + it.w.SrcRecv(it.vi.Fn, e): 1}
	}
	return lin{"?" + it.w.Src(e): 1}
}

// writesSP: does the node contain a write to the stack pointer (outside function literals)?
func (it *sp2Interp) writesSP(n ast.Node) bool {
	found := false
	ast.Inspect(n, func(nd ast.Node) bool {
		switch x := nd.(type) {
		case *ast.FuncLit:
			return false
		case *ast.IncDecStmt:
			if it.isSP(x.X) {
				found = true
			}
		case *ast.AssignStmt:
			for _, l := range x.Lhs {
				if it.isSP(l) {
					found = true
				}
			}
		case *ast.UnaryExpr:
			if x.Op == token.AND && it.isSP(x.X) {
				found = true
			}
		}
		return !found
	})
	return found
}

type sp2Flow struct {
	fall []*sp2State // reach the statement after
	brk  []*sp2State // break out of the innermost breakable
	cont []*sp2State // continue the innermost loop
}

func (it *sp2Interp) block(list []ast.Stmt, in []*sp2State) sp2Flow {
	var out sp2Flow
	cur := in
	for _, s := range list {
		if len(cur) == 0 {
			break
		}
		f := it.stmt(s, cur)
		out.brk = append(out.brk, f.brk...)
		out.cont = append(out.cont, f.cont...)
		cur = f.fall
	}
	out.fall = cur
	return out
}

func cloneAll(in []*sp2State) []*sp2State {
	out := make([]*sp2State, len(in))
	for i, s := range in {
		out[i] = s.clone()
	}
	return out
}

func (it *sp2Interp) assign(s *sp2State, x *ast.AssignStmt) {
	if len(x.Lhs) != len(x.Rhs) {
		for _, l := range x.Lhs {
			if it.isSP(l) {
				it.unknown = append(it.unknown, it.w.Site(x)+": stack pointer assigned from a multi-value expression")
			}
			if id, ok := l.(*ast.Ident); ok {
				delete(s.vars, it.p.TypesInfo.ObjectOf(id))
			}
		}
		return
	}
	for i, l := range x.Lhs {
		r := x.Rhs[i]
		switch {
		case it.isSP(l):
			var nv lin
			switch x.Tok {
			case token.ASSIGN:
				nv = it.linOf(s, r)
			case token.ADD_ASSIGN:
				nv = lin{spTerm: 1}.add(s.d, 1).add(it.linOf(s, r), 1)
			case token.SUB_ASSIGN:
				nv = lin{spTerm: 1}.add(s.d, 1).add(it.linOf(s, r), -1)
			default:
				it.unknown = append(it.unknown, it.w.Site(x)+": stack pointer changed by "+x.Tok.String())
				continue
			}
			if nv[spTerm] != 1 {
				// an absolute position (a frame's base pointer): the arm moves between frames
				s.tags["absolute"] = true
				s.d = nv
				continue
			}
			s.d = nv.add(lin{spTerm: 1}, -1)
		case it.isIP(l):
			// a jump: ip set to a position that is not relative to ip itself
			if x.Tok == token.ASSIGN && !containsNode(r, func(nd ast.Node) bool { e, ok := nd.(ast.Expr); return ok && it.isIP(e) }) {
				s.ipSet = true
			}
		default:
			if ix, ok := ast.Unparen(l).(*ast.IndexExpr); ok && x.Tok == token.ASSIGN {
				if arr, _ := FieldSel(it.p, ix.X); arr != nil {
					if _, isArr := arr.Type().Underlying().(*types.Array); isArr {
						cur := s.d
						if !s.tags["absolute"] {
							cur = lin{spTerm: 1}.add(s.d, 1)
						}
						st := sp2Store{idx: it.linOf(s, ix.Index), sp: cur, loop: it.curLoop}
						if len(x.Rhs) == len(x.Lhs) {
							if rx, ok := ast.Unparen(x.Rhs[i]).(*ast.IndexExpr); ok {
								if ra, _ := FieldSel(it.p, rx.X); ra == arr {
									st.src = it.linOf(s, rx.Index)
								}
							}
						}
						s.stores = append(s.stores, st)
					}
				}
				continue
			}
			if f, _ := FieldSel(it.p, l); f != nil && f == it.bp && x.Tok == token.ASSIGN {
				s.vars[f] = it.linOf(s, r)
				continue
			}
			id, ok := l.(*ast.Ident)
			if !ok {
				continue
			}
			o := it.p.TypesInfo.ObjectOf(id)
			if o == nil {
				continue
			}
			if b, ok := o.Type().Underlying().(*types.Basic); !ok || b.Info()&types.IsInteger == 0 {
				continue
			}
			switch x.Tok {
			case token.DEFINE, token.ASSIGN:
				if _, isOp := it.opVar[o]; isOp && x.Tok == token.DEFINE {
					continue // the decode itself
				}
				s.vars[o] = it.linOf(s, r)
			case token.ADD_ASSIGN:
				s.vars[o] = it.linOf(s, l).add(it.linOf(s, r), 1)
			case token.SUB_ASSIGN:
				s.vars[o] = it.linOf(s, l).add(it.linOf(s, r), -1)
			default:
				s.vars[o] = lin{"?" + it.w.Src(x): 1}
			}
		}
	}
}

func (it *sp2Interp) stmt(st ast.Stmt, in []*sp2State) sp2Flow {
	switch x := st.(type) {
	case *ast.IncDecStmt:
		if it.isSP(x.X) {
			k := 1
			if x.Tok == token.DEC {
				k = -1
			}
			for _, s := range in {
				s.d = s.d.add(konst(k), 1)
			}
		} else if id, ok := x.X.(*ast.Ident); ok {
			o := it.p.TypesInfo.ObjectOf(id)
			k := 1
			if x.Tok == token.DEC {
				k = -1
			}
			for _, s := range in {
				s.vars[o] = it.linOf(s, id).add(konst(k), 1)
			}
		}
		return sp2Flow{fall: in}
	case *ast.AssignStmt:
		for _, s := range in {
			it.assign(s, x)
		}
		return sp2Flow{fall: in}
	case *ast.BlockStmt:
		return it.block(x.List, in)
	case *ast.LabeledStmt:
		return it.stmt(x.Stmt, in)
	case *ast.ReturnStmt:
		return sp2Flow{}
	case *ast.BranchStmt:
		switch x.Tok {
		case token.BREAK:
			if x.Label != nil {
				it.unknown = append(it.unknown, it.w.Site(x)+": labelled break")
				return sp2Flow{}
			}
			return sp2Flow{brk: in}
		case token.CONTINUE:
			if x.Label != nil {
				it.unknown = append(it.unknown, it.w.Site(x)+": labelled continue")
				return sp2Flow{}
			}
			return sp2Flow{cont: in}
		default:
			it.unknown = append(it.unknown, it.w.Site(x)+": "+x.Tok.String())
			return sp2Flow{}
		}
	case *ast.IfStmt:
		if x.Init != nil {
			in = it.stmt(x.Init, in).fall
		}
		a := it.block(x.Body.List, cloneAll(in))
		var b sp2Flow
		if x.Else != nil {
			b = it.stmt(x.Else, in)
		} else {
			b = sp2Flow{fall: in}
		}
		return sp2Flow{fall: append(a.fall, b.fall...), brk: append(a.brk, b.brk...), cont: append(a.cont, b.cont...)}
	case *ast.SwitchStmt, *ast.TypeSwitchStmt:
		var body *ast.BlockStmt
		if sw, ok := x.(*ast.SwitchStmt); ok {
			if sw.Init != nil {
				in = it.stmt(sw.Init, in).fall
			}
			body = sw.Body
		} else {
			ts := x.(*ast.TypeSwitchStmt)
			if ts.Init != nil {
				in = it.stmt(ts.Init, in).fall
			}
			body = ts.Body
		}
		var out sp2Flow
		hasDefault := false
		for _, c := range body.List {
			cc := c.(*ast.CaseClause)
			if cc.List == nil {
				hasDefault = true
			}
			if n := len(cc.Body); n > 0 {
				if b, ok := cc.Body[n-1].(*ast.BranchStmt); ok && b.Tok == token.FALLTHROUGH {
					it.unknown = append(it.unknown, it.w.Site(b)+": fallthrough")
				}
			}
			f := it.block(cc.Body, cloneAll(in))
			out.fall = append(out.fall, f.fall...)
			out.fall = append(out.fall, f.brk...) // break leaves this switch
			out.cont = append(out.cont, f.cont...)
		}
		if !hasDefault {
			out.fall = append(out.fall, in...)
		}
		return out
	case *ast.ForStmt, *ast.RangeStmt:
		var body *ast.BlockStmt
		var pre []ast.Stmt
		if f, ok := x.(*ast.ForStmt); ok {
			body = f.Body
			if f.Init != nil {
				in = it.stmt(f.Init, in).fall
			}
			if f.Post != nil {
				pre = append(pre, f.Post)
			}
		} else {
			body = x.(*ast.RangeStmt).Body
		}
		if !it.writesSP(body) {
			// integer locals changed in the loop are no longer known
			ast.Inspect(body, func(nd ast.Node) bool {
				var ids []ast.Expr
				switch y := nd.(type) {
				case *ast.AssignStmt:
					ids = y.Lhs
				case *ast.IncDecStmt:
					ids = []ast.Expr{y.X}
				}
				for _, e := range ids {
					if id, ok := e.(*ast.Ident); ok {
						o := it.p.TypesInfo.ObjectOf(id)
						for _, s := range in {
							if _, known := s.vars[o]; known {
								s.vars[o] = lin{fmt.Sprintf("?%s-after-loop@%d", id.Name, body.Pos()): 1}
							}
						}
					}
				}
				return true
			})
			// read the body once for the stores it makes (the loop counter stays symbolic)
			if fs, ok := st.(*ast.ForStmt); ok {
				saved := it.curLoop
				it.curLoop = fs
				for _, s := range in {
					probe := s.clone()
					if as, ok := fs.Init.(*ast.AssignStmt); ok {
						for _, l := range as.Lhs {
							if id, ok := l.(*ast.Ident); ok {
								delete(probe.vars, it.p.TypesInfo.ObjectOf(id))
							}
						}
					}
					f := it.block(body.List, []*sp2State{probe})
					for _, e := range append(append(f.fall, f.cont...), f.brk...) {
						if len(e.stores) > len(s.stores) {
							s.stores = append(s.stores, e.stores[len(s.stores):]...)
						}
					}
				}
				it.curLoop = saved
			}
			// a return inside ends the path; the rest falls through unchanged
			return sp2Flow{fall: in}
		}
		// the body moves sp: it must come back to where it started on every
		// path round the loop
		var out []*sp2State
		for _, s := range in {
			probe := s.clone()
			f := it.block(body.List, []*sp2State{probe})
			ends := append(append([]*sp2State{}, f.fall...), f.cont...)
			ends = append(ends, f.brk...)
			same := true
			for _, e := range ends {
				if !e.d.eq(s.d) {
					same = false
				}
			}
			if rs, isRange := st.(*ast.RangeStmt); !same && isRange && len(ends) > 0 {
				// one push (or pop) per element: the same constant step on
				// every path round the loop, times the length of the operand
				step := ends[0].d.add(s.d, -1)
				uniform := len(step) == 0 || (len(step) == 1 && step[""] != 0)
				for _, e := range ends {
					if !e.d.add(s.d, -1).eq(step) {
						uniform = false
					}
				}
				if t := it.p.TypesInfo.Types[rs.X].Type; uniform && len(f.brk) == 0 && t != nil {
					switch t.Underlying().(type) {
					case *types.Slice, *types.Array:
						s.d = s.d.add(lin{"len(" + it.w.Src(rs.X) + ")": 1}, step[""])
						same = true
					}
				}
			}
			if !same {
				it.unknown = append(it.unknown, it.w.Site(st)+": a loop inside the arm moves the stack pointer by an amount that depends on the number of iterations")
				s.tags["loop-moves-sp"] = true
			}
			out = append(out, s)
		}
		return sp2Flow{fall: out}
	default:
		if it.writesSP(st) {
			it.unknown = append(it.unknown, it.w.Site(st)+": stack pointer written in a statement the interpreter does not model")
		}
		return sp2Flow{fall: in}
	}
}

// spField: the integer field of the VM with which the dispatch function indexes its array of Objects when it stores.
func (w *World) spField(vi *VMInfo) *types.Var {
	p := w.Root
	cnt := map[*types.Var]int{}
	ast.Inspect(vi.Fn.Body, func(nd ast.Node) bool {
		as, ok := nd.(*ast.AssignStmt)
		if !ok {
			return true
		}
		for _, l := range as.Lhs {
			ix, ok := ast.Unparen(l).(*ast.IndexExpr)
			if !ok {
				continue
			}
			arr, _ := FieldSel(p, ix.X)
			if arr == nil {
				continue
			}
			if _, isArr := arr.Type().Underlying().(*types.Array); !isArr {
				continue
			}
			if f, _ := FieldSel(p, ix.Index); f != nil {
				cnt[f]++
			}
		}
		return true
	})
	var best *types.Var
	for f, n := range cnt {
		if best == nil || n > cnt[best] || n == cnt[best] && f.Name() < best.Name() {
			best = f
		}
	}
	return best
}

func ruleSTK2(c *Ctx) {
	w := c.W
	vi := w.vm()
	if vi.err != "" {
		c.anchor(vi.err)
		return
	}
	oi := w.opcodes()
	sp := w.spField(vi)
	if sp == nil {
		c.anchor("the VM's stack-pointer field")
		return
	}
	// the frame field from which the return arm takes the stack pointer
	var bp *types.Var
	if rc := vi.Arms["OpReturn"]; rc != nil {
		probe := &sp2Interp{w: w, p: w.Root, vi: vi, sp: sp}
		for _, st := range rc.Body {
			ast.Inspect(st, func(nd ast.Node) bool {
				as, ok := nd.(*ast.AssignStmt)
				if ok && len(as.Lhs) == 1 && len(as.Rhs) == 1 && probe.isSP(as.Lhs[0]) {
					rhs := as.Rhs[0]
					for k := 0; k < 3; k++ {
						if d := singleDef(w.Root, vi.Fn, rhs); d != nil {
							rhs = d
						}
					}
					if f, _ := FieldSel(w.Root, rhs); f != nil {
						bp = f
					}
				}
				return true
			})
		}
	}
	var names []string
	for op := range vi.Arms {
		names = append(names, op)
	}
	sort.Strings(names)
	n := 0
	for _, op := range names {
		cc := vi.Arms[op]
		eff, ok := stackEffect[op]
		if !ok {
			continue // STK.1 reports the missing row
		}
		key := "vm-effect/" + op
		a := w.analyseArm(op)
		_, _, groupOperand, _ := checkGroups(a, oi.Widths[op])
		opVar := map[types.Object]int{}
		for g, o := range a.GroupVar {
			if k, ok := groupOperand[g]; ok && o != nil {
				opVar[o] = k
			}
		}
		it := &sp2Interp{w: w, p: w.Root, vi: vi, sp: sp, opVar: opVar, bp: bp}
		start := &sp2State{d: lin{}, vars: map[types.Object]lin{}, tags: map[string]bool{}}
		f := it.block(cc.Body, []*sp2State{start})
		done := append(append(append([]*sp2State{}, f.fall...), f.brk...), f.cont...)
		ops := make([]lin, len(oi.Widths[op]))
		for k := range ops {
			ops[k] = lin{fmt.Sprintf("operand%d", k): 1}
		}
		want := eff(ops)
		n++
		var probs []string
		switch op {
		case "OpAndJump", "OpOrJump":
			// keeps the value where it jumps, pops it where it goes on
			for _, s := range done {
				w2 := konst(-1)
				what := "goes on to the right operand"
				if s.ipSet {
					w2, what = konst(0), "jumps over the right operand"
				}
				if !s.d.eq(w2) {
					probs = append(probs, fmt.Sprintf("the path that %s moves the stack pointer by %s, expected %s", what, s.d, w2))
				}
			}
		case "OpCall":
			// a callee that is not compiled code returns inside the arm: -numArgs.
			// compiled code: sp = sp - numArgs + NumLocals (locals above the
			// arguments); OpReturn undoes it. The tail call leaves in the middle.
			probs = append(probs, it.callArm(done, want)...)
		case "OpReturn":
			if bp == nil {
				probs = append(probs, "the return arm does not take the stack pointer from a field of the frame it returns to")
			}
			for _, s := range done {
				if !s.tags["absolute"] {
					probs = append(probs, "a path of the return arm does not reset the stack pointer to the frame's base")
				}
			}
			// the result goes to the slot below the base: where the callee stood
			stored := len(done) > 0
			for _, s := range done {
				okS := false
				for _, st := range s.stores {
					if st.idx.eq(s.d.add(konst(-1), 1)) {
						okS = true
					}
				}
				if !okS {
					stored = false
				}
			}
			if !stored {
				probs = append(probs, "the return arm does not store the result in the slot below the frame's base (the callee's slot)")
			}
		default:
			for _, s := range done {
				if !s.d.eq(want) {
					probs = append(probs, fmt.Sprintf("a completing path moves the stack pointer by %s, the effect table of STK.1 says %s", s.d, want))
				}
			}
			if len(done) == 0 && op != "OpSuspend" {
				it.unknown = append(it.unknown, "no path completes the instruction")
			}
		}
		probs = dedupStrings(probs)
		switch {
		case len(probs) > 0:
			c.fail(key, cc, strings.Join(probs, "; "))
		case len(it.unknown) > 0:
			c.undecided(key, cc, strings.Join(dedupStrings(it.unknown), "; "))
		default:
			what := want.String()
			switch op {
			case "OpAndJump", "OpOrJump":
				what = "0 where it jumps, -1 where it goes on"
			case "OpCall":
				what += " (a new frame reserves NumLocals above the arguments; the tail call drops the callee as well)"
			case "OpReturn":
				what = "to the frame's base: " + what + " together with OpCall"
			}
			c.ok(key, cc, fmt.Sprintf("%d completing path(s) move the stack pointer by %s", len(done), what))
		}
	}
	if n < 40 {
		c.fail("vm-effect/count", vi.Switch, fmt.Sprintf("only %d arms examined", n))
	}
}

// callArm: the completing paths of OpCall. Each is either -numArgs (callee ran
// inside the arm and its result replaced it), or "frame": + NumLocals - numArgs
// (locals reserved above the arguments, undone by OpReturn), or a tail call
// (-numArgs-1: arguments copied down, callee and arguments dropped, ip reset).
func (it *sp2Interp) callArm(done []*sp2State, want lin) []string {
	var probs []string
	for _, s := range done {
		d := s.d.clone()
		frame := false
		for t := range d {
			if strings.Contains(t, "NumLocals") {
				delete(d, t)
				frame = true
			}
		}
		switch {
		case frame && d.eq(want):
			// the new frame's base is where the first argument stands, so
			// that the return arm's store at base-1 replaces the callee
			b, ok := s.vars[it.bp]
			if it.bp != nil && (!ok || !b.eq(lin{spTerm: 1}.add(want, 1))) {
				probs = append(probs, fmt.Sprintf("the path that enters a new frame sets its base to %s, expected the slot of the first argument (%s)", strings.ReplaceAll(b.String(), spTerm, "sp"), strings.ReplaceAll(lin{spTerm: 1}.add(want, 1).String(), spTerm, "sp")))
			}
		case !frame && d.eq(want):
		case s.ipSet && d.eq(want.add(konst(-1), 1)):
			// tail call
		default:
			probs = append(probs, fmt.Sprintf("a completing path of the call arm moves the stack pointer by %s (expected %s; with a new frame plus NumLocals; %s for the tail call)", s.d, want, want.add(konst(-1), 1)))
		}
	}
	return probs
}

// tailReuse interprets the frame-reusing branch of the call arm: on every path
// that completes it the stack pointer drops by N+1 (the arguments and the
// callee), and a counted loop from 0 below N copies stack[sp-N+k] to
// stack[<current frame>.base+k], slot by slot. Returns the problems found.
func (w *World) tailReuse(vi *VMInfo, body *ast.BlockStmt) []string {
	sp := w.spField(vi)
	if sp == nil {
		return []string{"the stack-pointer field was not found"}
	}
	it := &sp2Interp{w: w, p: w.Root, vi: vi, sp: sp, opVar: map[types.Object]int{}}
	start := &sp2State{d: lin{}, vars: map[types.Object]lin{}, tags: map[string]bool{}}
	f := it.block(body.List, []*sp2State{start})
	done := append(append(append([]*sp2State{}, f.fall...), f.brk...), f.cont...)
	if len(done) == 0 {
		return []string{"no path through the frame-reusing branch completes"}
	}
	var probs []string
	for _, s := range done {
		okCopy := false
		for _, st := range s.stores {
			if st.loop == nil || st.src == nil {
				continue
			}
			// the loop: k := 0; k < N; k++
			fs := st.loop
			as, ok := fs.Init.(*ast.AssignStmt)
			if !ok || len(as.Lhs) != 1 || len(as.Rhs) != 1 {
				continue
			}
			if k0, ok := ConstInt(w.Root, as.Rhs[0]); !ok || k0 != 0 {
				continue
			}
			kid, ok := as.Lhs[0].(*ast.Ident)
			if !ok || fs.Cond == nil {
				continue
			}
			cb, ok := ast.Unparen(fs.Cond).(*ast.BinaryExpr)
			if !ok {
				continue
			}
			cop, cx, cy := lessForm(cb)
			if cop != token.LSS || w.Src(cx) != kid.Name {
				continue
			}
			kobj := w.Root.TypesInfo.ObjectOf(kid)
			kterm := fmt.Sprintf("%s@%d", kobj.Name(), kobj.Pos())
			n := it.linOf(s, cy)
			// destination: <frame base field> + k
			dst := st.idx.add(lin{kterm: 1}, -1)
			isBase := len(dst) == 1
			for t, v := range dst {
				if !(v == 1 && strings.HasPrefix(t, "field:") && strings.Contains(t, "curFrame")) {
					isBase = false
				}
			}
			// source: sp - N + k at that moment
			src := st.src.add(st.sp, -1).add(n, 1).add(lin{kterm: 1}, -1)
			if isBase && len(src) == 0 {
				// and the whole branch pops N+1
				if s.d.add(n, 1).eq(konst(-1)) {
					okCopy = true
				} else {
					probs = append(probs, fmt.Sprintf("the branch moves the stack pointer by %s, expected -(%s)-1: the arguments and the callee are dropped", s.d, n))
				}
			}
		}
		if !okCopy && len(probs) == 0 {
			probs = append(probs, "arguments are not copied slot by slot from sp-N+k to the current frame's base+k for k = 0..N-1 (directly into the stack slots, so cells captured by earlier closures keep their values)")
		}
	}
	return dedupStrings(probs)
}
