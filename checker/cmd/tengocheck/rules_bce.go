package main

// rules_bce.go: IDX.2 (C04) - implicit panics of the scanner and parser.
//
// PANIC.1 classifies the explicit panics; the other way the input-facing code
// can panic is an index or slice expression out of range. The Go compiler's
// own prove pass is a sound static analysis of exactly that: built with
// -d=ssa/check_bce it lists every index/slice expression whose bounds check it
// could NOT eliminate (everything it does not list is proven in range). The
// rule takes that list for package parser (a build of /repo's current tree:
// nothing is run) and requires each listed expression to be
//   (G) dominated by a test of the same index against len() of the same base
//       (enclosing if, preceding guard that returns, left conjunct, loop
//       condition), or
//   (T) one of the sites confirmed by reading, tabled below with the invariant
//       that keeps it in range, keyed by function and by the shape of the
//       expression (locals rendered as their types, so renaming is harmless).
// A new unproven, unguarded index expression in the scanner or parser is a
// violation: on some input it can take the parser down with a run-time error
// that parseFile's recover re-raises.

import (
	"fmt"
	"go/ast"
	"go/token"
	"go/types"
	"os"
	"os/exec"
	"path/filepath"
	"regexp"
	"sort"
	"strconv"
	"strings"
)

type bceSite struct {
	File string
	Line int
	Col  int
	Kind string
}

func (w *World) unprovenBounds(pkgPath, rel string) ([]bceSite, error) {
	env := []string{}
	for _, e := range os.Environ() {
		if strings.HasPrefix(e, "GOWORK=") || strings.HasPrefix(e, "GOFLAGS=") {
			continue
		}
		env = append(env, e)
	}
	env = append(env, "GOFLAGS=-mod=mod", "GOWORK=off", "GOPROXY=off", "GOSUMDB=off", "GOTOOLCHAIN=local")
	env = append(env, w.ExtraEnv...)
	cmd := exec.Command("go", "build", "-gcflags="+pkgPath+"=-d=ssa/check_bce/debug=1", "./"+rel)
	cmd.Dir = w.RepoDir
	cmd.Env = env
	out, err := cmd.CombinedOutput()
	if err != nil {
		return nil, fmt.Errorf("go build %s: %v: %s", rel, err, strings.TrimSpace(string(out)))
	}
	re := regexp.MustCompile(`^(.+\.go):(\d+):(\d+): Found (IsInBounds|IsSliceInBounds)`)
	seen := map[string]bool{}
	var sites []bceSite
	for _, l := range strings.Split(string(out), "\n") {
		m := re.FindStringSubmatch(strings.TrimSpace(l))
		if m == nil {
			continue
		}
		k := m[1] + ":" + m[2] + ":" + m[3]
		if seen[k] {
			continue
		}
		seen[k] = true
		ln, _ := strconv.Atoi(m[2])
		col, _ := strconv.Atoi(m[3])
		sites = append(sites, bceSite{File: filepath.Clean(m[1]), Line: ln, Col: col, Kind: m[4]})
	}
	return sites, nil
}

// shapeOf renders an expression with locals as their types and the receiver as recv.
// idx2Bound lists other spellings of tabled sites: accepted in the named
// function only, and never handed to code that moved.
var idx2Bound = map[string]string{
	"MakeInstruction/<[]byte>[<int>:]": "offset runs over the operand widths whose sum sized the instruction, so it is at most the length (the tail handed to an encoding/binary writer; CODEC.3 checks the writer against the width)",
}

func (w *World) shapeOf(p pkgT, fd *ast.FuncDecl, e ast.Expr) string {
	var recv types.Object
	if fd != nil && fd.Recv != nil && len(fd.Recv.List) == 1 && len(fd.Recv.List[0].Names) == 1 {
		recv = p.TypesInfo.Defs[fd.Recv.List[0].Names[0]]
	}
	var r func(e ast.Expr) string
	r = func(e ast.Expr) string {
		switch x := e.(type) {
		case *ast.ParenExpr:
			return r(x.X)
		case *ast.Ident:
			o := p.TypesInfo.ObjectOf(x)
			if o != nil && o == recv {
				return "recv"
			}
			if v, ok := o.(*types.Var); ok && !v.IsField() && v.Parent() != p.Types.Scope() {
				return "<" + types.TypeString(v.Type(), func(pk *types.Package) string { return "" }) + ">"
			}
			if k, ok := o.(*types.Const); ok && k.Parent() != types.Universe {
				return "<const " + types.TypeString(k.Type(), func(pk *types.Package) string { return "" }) + ">"
			}
			return x.Name
		case *ast.SelectorExpr:
			return r(x.X) + "." + x.Sel.Name
		case *ast.IndexExpr:
			return r(x.X) + "[" + r(x.Index) + "]"
		case *ast.SliceExpr:
			s := r(x.X) + "["
			if x.Low != nil {
				if k, ok := ConstInt(p, x.Low); !ok || k != 0 {
					s += r(x.Low)
				}
			}
			s += ":"
			if x.High != nil {
				s += r(x.High)
			}
			return s + "]"
		case *ast.BinaryExpr:
			return r(x.X) + x.Op.String() + r(x.Y)
		case *ast.UnaryExpr:
			return x.Op.String() + r(x.X)
		case *ast.CallExpr:
			var as []string
			for _, a := range x.Args {
				as = append(as, r(a))
			}
			return r(x.Fun) + "(" + strings.Join(as, ",") + ")"
		case *ast.BasicLit:
			return x.Value
		case *ast.StarExpr:
			return "*" + r(x.X)
		}
		return w.Src(e)
	}
	return r(e)
}

// idx2Table: unproven index expressions of package parser confirmed by reading.
// Key: function/shape (a shape that names receiver fields is matched in any
// function: the invariant belongs to the fields). Value: why it is in range.
var idx2Table = map[string]string{
	// not input-facing
	"ReadOperands/<[]byte>[<int>]":                     "decodes the operands of compiled instructions, not source text: the stream is the compiler's own output, whose operand bytes CODEC.1-3 account for",
	"ReadOperands/<[]byte>[<int>+1]":                   "as above",
	"ReadOperands/<[]byte>[<int>+2]":                   "as above",
	"ReadOperands/<[]byte>[<int>+3]":                   "as above",
	"ErrorList.Swap/recv[<int>]":                       "sort.Interface: package sort calls it with 0 <= i, j < Len()",
	"ErrorList.Less/recv[<int>]":                       "sort.Interface: package sort calls it with 0 <= i, j < Len()",
	"Parser.printTrace/<const untyped string>[:<int>]": "trace output only; the loop before it leaves 0 <= i <= len(dots) (indent is never negative: every tracep is paired with untracep)",
	// the scanner's window into the source
	"*/recv.src[<int>:recv.offset]":   "the low bound was taken from recv.offset (or offset-1 after one consumed character) before further next() calls; offset only grows and next() sets it from readOffset <= len(src)",
	"Scanner.scanComment/<[]byte>[1]": "the comment text spans the initial '/' and at least the second character of the opener, which next() has consumed: len >= 2",
	"StripCR/<[]byte>[<int>-1]":       "right of `i > len(\"/*\")`, and i counts the bytes kept so far: 2 <= i-1 < i <= j < len(b) = len(c)",
	"StripCR/<[]byte>[<int>]":         "i counts the bytes kept so far: i <= j < len(b) = len(c)",
	"StripCR/<[]byte>[:<int>]":        "i counts the bytes kept: i <= len(b) = len(c)",
	// positions
	"*/recv.Files[<int>]":                "the index is the result of the upper-bound search minus one, tested >= 0; the search returns at most len (SEARCH.1)",
	"searchFiles/<[]*SourceFile>[<int>]": "callback of sort.Search, called with 0 <= i < n",
	"*/recv.Lines[<int>]":                "the index is the result of searchInts, tested >= 0; searchInts returns at most len-1",
	"searchInts/<[]int>[<int>]":          "binary search invariant i <= h < j <= len(a)",
	// ---- the compile path (package tengo: compiler.go, symbol_table.go, instructions.go, modules.go)
	"*/recv.scopes[recv.scopeIndex]":                                                   "scopeIndex is len(scopes)-1: NewCompiler starts with one scope at index 0, enterScope appends and increments, leaveScope cuts and decrements (pairing on all exits: SCOPE.1)",
	"*/recv.scopes[:len(recv.scopes)-1]":                                               "leaveScope follows an enterScope (SCOPE.1), so there are at least two scopes",
	"*/recv.scopes[recv.scopeIndex].Instructions[<int>:]":                              "the position was returned by addInstruction for this scope: at most the length of its stream",
	"*/recv.loops[recv.loopIndex]":                                                     "read only behind `loopIndex == -1 → nil` (currentLoop); loopIndex is len(loops)-1 by enterLoop/leaveLoop (SCOPE.1, JMP.2)",
	"*/recv.loops[:len(recv.loops)-1]":                                                 "leaveLoop follows an enterLoop (SCOPE.1)",
	"*/recv.currentInstructions()[<int>]":                                              "the operand position handed to changeOperand is one emit returned (JMP.1)",
	"*/recv.currentInstructions()[<int>:]":                                             "the position handed to replaceInstruction comes from changeOperand (JMP.1)",
	"*/FormatInstructions(recv.scopes[recv.scopeIndex].Instructions[<int>:],<int>)[0]": "trace output only: the slice starts at an instruction just written, so there is at least one line",
	"Compiler.compileAssign/<[]Expr>[0]":                                               "called with the sides of an AssignStmt (non-empty, premise below) or with one-element literals from the IncDecStmt arm",
	"Compiler.optimizeFunc/<[]int>[0]":                                                 "inside the case for the jump opcodes, which have one operand each (CODEC.1/5)",
	"Compiler.optimizeFunc/<[]byte>[<int>:]":                                           "copy into the new stream at a position taken from the position map, which holds lengths of that same stream when the instruction was appended (OPT.2)",
	"Compiler.printTrace/<const untyped string>[:<int>]":                               "trace output only; the loop before it leaves 0 <= i <= len(dots)",
	"MakeInstruction/parser.OpcodeOperands[<Opcode>]":                                  "opcodes are the dense constants 0..N-1 that index this table (CODEC.1)",
	"MakeInstruction/<[]byte>[0]":                                                      "the instruction is made with length 1 + the operand widths",
	"MakeInstruction/<[]byte>[<int>]":                                                  "offset runs over the operand widths whose sum sized the instruction; CODEC.2 checks that every call passes exactly as many operands as the opcode has",
	"MakeInstruction/<[]byte>[<int>+1]":                                                "as above (width 2 or 4)",
	"MakeInstruction/<[]byte>[<int>+2]":                                                "as above (width 4)",
	"MakeInstruction/<[]byte>[<int>+3]":                                                "as above (width 4)",
	"MakeInstruction/<[]int>[<int>]":                                                   "one width per operand passed (CODEC.2)",
	"FormatInstructions/parser.OpcodeNames[<[]byte>[<int>]]":                           "disassembly of a stream the compiler wrote: every opcode byte is one of the dense opcode constants (CODEC.1)",
	"FormatInstructions/parser.OpcodeOperands[<[]byte>[<int>]]":                        "as above",
	"FormatInstructions/<[]int>[0]":                                                    "inside the case for that number of operands",
	"FormatInstructions/<[]int>[1]":                                                    "inside the case for two operands",
	"iterateInstructions/parser.OpcodeOperands[<[]byte>[<int>]]":                       "walks a stream the compiler wrote, instruction by instruction (widths: CODEC.1-3)",
	"Script.Compile/<[]Object>[:<int>]":                                                "behind the test that the symbol count does not exceed GlobalsSize, the length the slice was made with (PANIC.3)",
	"Script.prepCompile/<[]Object>[<*Symbol>.Index]":                                   "the names were counted against GlobalsSize before the slice of that length was made (PANIC.3)",
	"updateConstIndexes/parser.OpcodeOperands[<byte>]":                                 "walks a stream the compiler wrote: every opcode byte is one of the dense opcode constants (CODEC.1)",
	"updateConstIndexes/<[]byte>[<int>+1]":                                             "operand bytes of OpConstant / OpClosure, whose widths the walk itself steps over (CODEC.5 dedup/decode)",
	"updateConstIndexes/<[]byte>[<int>+2]":                                             "as above",
	"updateConstIndexes/<[]byte>[<int>+3]":                                             "as above (the third operand byte of OpClosure)",
	// node shapes guaranteed by the parser (premises re-checked below)
	"Parser.parseSimpleStmt/<[]Expr>[0]": "parseExprList returns at least one expression",
	"*/recv.LHS[0]":                      "every AssignStmt the parser builds has one left-hand side",
	"*/recv.RHS[len(recv.RHS)-1]":        "every AssignStmt the parser builds has one right-hand side",
}

// idx2Premises re-checks the parser facts some table entries rest on.
func idx2Premises(c *Ctx) {
	w := c.W
	p := w.Parser
	// parseExprList appends to its result before any loop or condition
	el := w.FuncDecl(p, "Parser.parseExprList")
	okEL := false
	if el != nil {
		for _, st := range el.Body.List {
			if is, ok := st.(*ast.IfStmt); ok && !containsNode(is, func(n ast.Node) bool { _, r := n.(*ast.ReturnStmt); return r }) {
				continue // the trace prologue
			}
			as, ok := st.(*ast.AssignStmt)
			if ok && len(as.Rhs) == 1 {
				if call, ok := as.Rhs[0].(*ast.CallExpr); ok && IsBuiltinCall(p, call, "append") && len(call.Args) >= 2 {
					okEL = true
				}
			}
			break
		}
	}
	c.check(okEL, "premise/parseExprList-non-empty", el, "the first statement appends an expression unconditionally", "parseExprList no longer appends a first expression unconditionally: parseSimpleStmt indexes its result at 0")
	// every AssignStmt literal has non-empty LHS and RHS lists
	n, good := 0, 0
	for _, f := range p.Syntax {
		ast.Inspect(f, func(nd ast.Node) bool {
			cl, ok := nd.(*ast.CompositeLit)
			if !ok || !namedIs(p.TypesInfo.TypeOf(cl), p.Types, "AssignStmt") {
				return true
			}
			n++
			have := 0
			for _, e := range cl.Elts {
				kv, ok := e.(*ast.KeyValueExpr)
				if !ok {
					continue
				}
				if k := w.Src(kv.Key); k == "LHS" || k == "RHS" {
					if l, ok := kv.Value.(*ast.CompositeLit); ok && len(l.Elts) > 0 {
						have++
					} else if id, ok := kv.Value.(*ast.Ident); ok {
						// a variable holding the result of parseExprList (non-empty, premise above)
						obj := p.TypesInfo.ObjectOf(id)
						defs, fromList := 0, 0
						ast.Inspect(f, func(m ast.Node) bool {
							as, ok := m.(*ast.AssignStmt)
							if !ok {
								return true
							}
							for i, l := range as.Lhs {
								if lid, ok := l.(*ast.Ident); ok && p.TypesInfo.ObjectOf(lid) == obj {
									defs++
									if len(as.Rhs) == len(as.Lhs) {
										if call, ok := ast.Unparen(as.Rhs[i]).(*ast.CallExpr); ok && isMethodOf(Callee(p, call), p.Types, "Parser", "parseExprList") {
											fromList++
										}
									}
								}
							}
							return true
						})
						if defs > 0 && defs == fromList {
							have++
						}
					}
				}
			}
			if have == 2 {
				good++
			}
			return true
		})
	}
	c.check(n > 0 && n == good, "premise/assign-stmt-sides-non-empty", nil, fmt.Sprintf("%d AssignStmt literal(s), each with non-empty LHS and RHS", n), fmt.Sprintf("%d of %d AssignStmt literals have a non-empty LHS and RHS list: AssignStmt.Pos/End index them", good, n))
}

func ruleIDX2(c *Ctx) {
	w := c.W
	// scope: the functions of packages parser and tengo that the scan / parse /
	// compile entry points of C04 reach (the call graph PANIC.1 uses); where a
	// function lives is not part of the rule
	entries := w.c04Entries()
	for i, e := range entries {
		if e == nil {
			c.anchor(fmt.Sprintf("compile-path entry point #%d", i))
			return
		}
	}
	inPath := map[token.Pos]bool{}
	for fn := range w.reachable(entries) {
		if w.inModule(fn) && fn.Pos().IsValid() {
			root := fn
			for root.Parent() != nil {
				root = root.Parent()
			}
			inPath[root.Pos()] = true
		}
	}
	reached := func(fd *ast.FuncDecl) bool { return inPath[fd.Name.Pos()] }
	n := idx2Package(c, w.Parser, func(fd *ast.FuncDecl) bool { return true })
	n += idx2Package(c, w.Root, reached)
	idx2Premises(c)
	if n < 10 {
		c.fail("unproven-bounds/matched", nil, fmt.Sprintf("only %d of the reported sites were matched to expressions", n))
	}
}

func idx2Package(c *Ctx, p pkgT, inScope func(fd *ast.FuncDecl) bool) int {
	w := c.W
	rel, err := filepath.Rel(w.RepoDir, filepath.Dir(w.Fset.Position(p.Syntax[0].Pos()).Filename))
	if err != nil {
		c.anchor("directory of package " + p.Name)
		return 0
	}
	if rel == "" {
		rel = "."
	}
	sites, err := w.unprovenBounds(p.PkgPath, rel)
	if err != nil {
		c.undecided("unproven-bounds/build/"+p.Name, nil, err.Error())
		return 0
	}
	if len(sites) < 10 {
		c.fail("unproven-bounds/count/"+p.Name, nil, fmt.Sprintf("the compiler listed only %d unproven bounds checks in package %s: the listing is incomplete", len(sites), p.Name))
		return 0
	}
	// index the package's index/slice/call expressions by the position the compiler reports (the bracket / parenthesis)
	type exprAt struct {
		e  ast.Expr
		fd *ast.FuncDecl
		st []ast.Node
	}
	at := map[string]exprAt{}
	for _, f := range p.Syntax {
		for _, d := range f.Decls {
			fd, ok := d.(*ast.FuncDecl)
			if !ok || fd.Body == nil {
				continue
			}
			inspectWithStack(fd, func(nd ast.Node, stack []ast.Node) bool {
				var pos token.Pos
				switch x := nd.(type) {
				case *ast.IndexExpr:
					pos = x.Lbrack
				case *ast.SliceExpr:
					pos = x.Lbrack
				case *ast.CallExpr:
					pos = x.Lparen
				default:
					return true
				}
				pp := w.Fset.Position(pos)
				r, _ := filepath.Rel(w.RepoDir, pp.Filename)
				at[fmt.Sprintf("%s:%d:%d", filepath.Clean(r), pp.Line, pp.Column)] = exprAt{nd.(ast.Expr), fd, append([]ast.Node{}, stack...)}
				return true
			})
		}
	}
	fileHasScope := map[string]bool{}
	for _, ea := range at {
		if inScope(ea.fd) {
			pp := w.Fset.Position(ea.fd.Pos())
			r, _ := filepath.Rel(w.RepoDir, pp.Filename)
			fileHasScope[filepath.Clean(r)] = true
		}
	}
	seq := seqKeys{}
	n := 0
	type pend struct {
		key, shape string
		e          ast.Expr
	}
	var pending []pend
	present := map[string]bool{}
	sort.Slice(sites, func(i, j int) bool {
		if sites[i].File != sites[j].File {
			return sites[i].File < sites[j].File
		}
		if sites[i].Line != sites[j].Line {
			return sites[i].Line < sites[j].Line
		}
		return sites[i].Col < sites[j].Col
	})
	for _, s := range sites {
		if !strings.HasSuffix(s.File, ".go") || strings.HasPrefix(s.File, "<") {
			continue
		}
		ea, ok := at[fmt.Sprintf("%s:%d:%d", s.File, s.Line, s.Col)]
		if ok && !inScope(ea.fd) {
			continue
		}
		if !ok {
			if !fileHasScope[s.File] {
				continue
			}
			c.undecided(seq.next("unproven-bounds/"+s.File), nil, fmt.Sprintf("%s:%d:%d: the compiler reports an unproven bounds check that matches no index, slice or call expression", s.File, s.Line, s.Col))
			continue
		}
		if call, isCall := ea.e.(*ast.CallExpr); isCall {
			// the body of an inlined function of this package: its own site is listed where it is declared
			if fn := Callee(p, call); fn != nil && fn.Pkg() != nil {
				if w.inModulePkg(fn.Pkg()) {
					continue // listed where it is declared (its package is checked or tabled there)
				}
				if !strings.Contains(strings.SplitN(fn.Pkg().Path(), "/", 2)[0], ".") {
					continue // inlined standard-library code (the module has no other dependencies): in range by its own contract
				}
			}
			if IsBuiltinCall(p, call, "copy") || IsBuiltinCall(p, call, "append") {
				continue
			}
			c.undecided(seq.next("unproven-bounds/"+funcKey(ea.fd)), call, "an unproven bounds check is reported inside the call "+w.Src(call))
			continue
		}
		n++
		shape := w.shapeOf(p, ea.fd, ea.e)
		key := "index/" + funcKey(ea.fd) + "/" + shape
		if why := w.idxGuarded(p, ea.e, ea.st); why != "" {
			c.ok(seq.next(key), ea.e, "guarded: "+why)
			continue
		}
		if why, ok := idx2Table[funcKey(ea.fd)+"/"+shape]; ok {
			c.ok(seq.next(key), ea.e, "in range by invariant: "+why)
			present[funcKey(ea.fd)+"/"+shape] = true
			continue
		}
		if why, ok := idx2Bound[funcKey(ea.fd)+"/"+shape]; ok {
			c.ok(seq.next(key), ea.e, "in range by invariant: "+why)
			continue
		}
		if strings.HasPrefix(shape, "parser.OpcodeOperands[") || strings.HasPrefix(shape, "parser.OpcodeNames[") || strings.HasPrefix(shape, "OpcodeOperands[") || strings.HasPrefix(shape, "OpcodeNames[") {
			// the opcode tables, indexed by an opcode byte of a stream the compiler wrote
			if b, ok := p.TypesInfo.TypeOf(ea.e.(*ast.IndexExpr).Index).Underlying().(*types.Basic); ok && b.Kind() == types.Uint8 {
				c.ok(seq.next(key), ea.e, "in range by invariant: every opcode byte of a stream the compiler wrote is one of the dense opcode constants that index this table (CODEC.1)")
				continue
			}
		}
		if strings.Contains(shape, "recv.") {
			if why, ok := idx2Table["*/"+shape]; ok {
				c.ok(seq.next(key), ea.e, "in range by invariant: "+why)
				continue
			}
		}
		pending = append(pending, pend{key, shape, ea.e})
	}
	// code that moved: a site of a tabled shape in another function takes the
	// entry of a function in which that shape no longer occurs (the statement
	// was extracted into a helper, or its function renamed). A new site next
	// to a tabled one that is still in place finds no free entry.
	free := map[string][]string{}
	for k := range idx2Table {
		i := strings.Index(k, "/")
		if k[:i] == "*" || present[k] {
			continue
		}
		// only entries of this package's functions
		if w.FuncDecl(p, k[:i]) != nil && !strings.HasPrefix(k, "*/") {
			// the function exists but holds no such site any more
			free[k[i+1:]] = append(free[k[i+1:]], k)
		} else if !funcExistsAnywhere(w, k[:i]) {
			free[k[i+1:]] = append(free[k[i+1:]], k)
		}
	}
	for _, pd := range pending {
		if ks := free[pd.shape]; len(ks) > 0 {
			sort.Strings(ks)
			free[pd.shape] = ks[1:]
			c.ok(seq.next(pd.key), pd.e, "in range by invariant (moved from "+ks[0][:strings.Index(ks[0], "/")]+"): "+idx2Table[ks[0]])
			continue
		}
		c.fail(seq.next(pd.key), pd.e, "the compiler cannot prove "+w.Src(pd.e)+" in range, no test of the index against the length dominates it, and it is not one of the sites confirmed by reading: on some input the scanner/parser/compiler can stop with a run-time error instead of reporting an error")
	}
	return n
}

// idxGuarded: the index expression b[i] stands under a condition that bounds i by len(b).
func (w *World) idxGuarded(p pkgT, e ast.Expr, stack []ast.Node) string {
	if se, ok := e.(*ast.SliceExpr); ok {
		return w.sliceGuarded(p, se, stack)
	}
	ix, ok := e.(*ast.IndexExpr)
	if !ok {
		return ""
	}
	base, idx := w.Src(ix.X), w.Src(ix.Index)
	// the predicate of sort.Search(len(b), func(i int) bool { … b[i] … }) is called with 0 <= i < len(b)
	if id, ok := ast.Unparen(ix.Index).(*ast.Ident); ok {
		obj := p.TypesInfo.ObjectOf(id)
		for i, nd := range stack {
			fl, ok := nd.(*ast.FuncLit)
			if !ok || i == 0 {
				continue
			}
			call, ok := stack[i-1].(*ast.CallExpr)
			if !ok || FuncFullName(Callee(p, call)) != "sort.Search" || len(call.Args) != 2 || call.Args[1] != ast.Expr(fl) {
				continue
			}
			if len(fl.Type.Params.List) == 1 && len(fl.Type.Params.List[0].Names) == 1 && p.TypesInfo.Defs[fl.Type.Params.List[0].Names[0]] == obj && w.Src(call.Args[0]) == "len("+base+")" {
				return "predicate of sort.Search(len(" + base + "), …): called with 0 <= " + idx + " < len"
			}
		}
	}
	// the fact needed, in the two spellings gtExpr leaves: len(b) > i
	holds := func(cond ast.Expr, positive bool) bool {
		for {
			u, ok := ast.Unparen(cond).(*ast.UnaryExpr)
			if !ok || u.Op != token.NOT {
				break
			}
			cond, positive = u.X, !positive
		}
		var atoms []ast.Expr
		if positive {
			atoms = splitAnd(cond)
		} else {
			atoms = splitOr(cond)
		}
		for _, a := range atoms {
			b, ok := gtExpr(a)
			if !ok {
				continue
			}
			if positive && b.Op == token.GTR && w.Src(b.X) == "len("+base+")" && w.Src(b.Y) == idx {
				return true
			}
			// negated: !(i >= len(b))
			if !positive && b.Op == token.GEQ && w.Src(b.X) == idx && w.Src(b.Y) == "len("+base+")" {
				return true
			}
		}
		return false
	}
	// a descending loop over the whole slice: for i := len(b)-1 (or n-1 with n := len(b)); i >= 0; i--
	if id, ok := ast.Unparen(ix.Index).(*ast.Ident); ok {
		obj := p.TypesInfo.ObjectOf(id)
		for i, nd := range stack {
			fs, ok := nd.(*ast.ForStmt)
			if !ok || i+1 >= len(stack) || stack[i+1] != ast.Node(fs.Body) || fs.Init == nil || fs.Cond == nil || fs.Post == nil {
				continue
			}
			as, ok := fs.Init.(*ast.AssignStmt)
			if !ok || len(as.Lhs) != 1 || len(as.Rhs) != 1 {
				continue
			}
			if lid, ok := as.Lhs[0].(*ast.Ident); !ok || p.TypesInfo.ObjectOf(lid) != obj {
				continue
			}
			b, ok := ast.Unparen(as.Rhs[0]).(*ast.BinaryExpr)
			if !ok || b.Op != token.SUB {
				continue
			}
			if k, ok := ConstInt(p, b.Y); !ok || k < 1 {
				continue
			}
			isLen := w.Src(b.X) == "len("+base+")"
			if nid, ok := ast.Unparen(b.X).(*ast.Ident); ok && !isLen {
				// n defined once as len(base)
				nobj := p.TypesInfo.ObjectOf(nid)
				defs, lens := 0, 0
				for _, root := range stack[:1] {
					ast.Inspect(root, func(m ast.Node) bool {
						a2, ok := m.(*ast.AssignStmt)
						if !ok || len(a2.Lhs) != len(a2.Rhs) {
							if ok {
								for _, l := range a2.Lhs {
									if li, ok := l.(*ast.Ident); ok && p.TypesInfo.ObjectOf(li) == nobj {
										defs++
									}
								}
							}
							return true
						}
						for j, l := range a2.Lhs {
							if li, ok := l.(*ast.Ident); ok && p.TypesInfo.ObjectOf(li) == nobj {
								defs++
								if w.Src(a2.Rhs[j]) == "len("+base+")" {
									lens++
								}
							}
						}
						return true
					})
				}
				isLen = defs > 0 && defs == lens
			}
			cb, okc := gtExpr(fs.Cond)
			inc, okp := fs.Post.(*ast.IncDecStmt)
			if !isLen || !okc || cb.Op != token.GEQ || w.Src(cb.X) != idx || !okp || inc.Tok != token.DEC || w.Src(inc.X) != idx {
				continue
			}
			if k, ok := ConstInt(p, cb.Y); !ok || k < 0 {
				continue
			}
			// the index is not written in the body
			written := containsNode(fs.Body, func(m ast.Node) bool {
				switch y := m.(type) {
				case *ast.AssignStmt:
					for _, l := range y.Lhs {
						if li, ok := l.(*ast.Ident); ok && p.TypesInfo.ObjectOf(li) == obj {
							return true
						}
					}
				case *ast.IncDecStmt:
					if li, ok := y.X.(*ast.Ident); ok && p.TypesInfo.ObjectOf(li) == obj {
						return true
					}
				}
				return false
			})
			if !written {
				return "descending loop from len(" + base + ")-1 to 0"
			}
		}
	}
	for i, nd := range stack {
		switch x := nd.(type) {
		case *ast.IfStmt:
			if i+1 < len(stack) && stack[i+1] == ast.Node(x.Body) && holds(x.Cond, true) {
				return "inside `if " + w.Src(x.Cond) + "`"
			}
			if i+1 < len(stack) && x.Else != nil && stack[i+1] == ast.Node(x.Else) && holds(x.Cond, false) {
				return "in the else branch of `if " + w.Src(x.Cond) + "`"
			}
		case *ast.ForStmt:
			if x.Cond != nil && i+1 < len(stack) && stack[i+1] == ast.Node(x.Body) && holds(x.Cond, true) {
				return "inside `for " + w.Src(x.Cond) + "`"
			}
		case *ast.BinaryExpr:
			// right operand of && whose left operand holds the fact
			if x.Op == token.LAND && i+1 < len(stack) && stack[i+1] == ast.Node(x.Y) && holds(x.X, true) {
				return "right of `" + w.Src(x.X) + " &&`"
			}
			if x.Op == token.LOR && i+1 < len(stack) && stack[i+1] == ast.Node(x.Y) && holds(x.X, false) {
				return "right of `" + w.Src(x.X) + " ||`"
			}
		}
	}
	for _, g := range precedingGuards(stack) {
		if holds(g.Cond, false) {
			return "after `if " + w.Src(g.Cond) + " { return … }`"
		}
	}
	return ""
}

// sliceGuarded: b[:i] / b[i:] / b[i:j] where every variable bound was compared
// with len(b) on the way: in an enclosing condition, a preceding guard, or the
// condition of a loop earlier in the same block that advances it (`for i <
// len(b) && … { i++ }` leaves i <= len(b)). Constant bounds need len(b)
// compared with something at least as large.
func (w *World) sliceGuarded(p pkgT, se *ast.SliceExpr, stack []ast.Node) string {
	base := w.Src(se.X)
	var bounds []ast.Expr
	for _, b := range []ast.Expr{se.Low, se.High} {
		if b == nil {
			continue
		}
		if _, isConst := ConstInt(p, b); isConst {
			continue
		}
		bounds = append(bounds, b)
	}
	if len(bounds) == 0 {
		return ""
	}
	mentions := func(cond ast.Expr, idx string) bool {
		found := false
		ast.Inspect(cond, func(n ast.Node) bool {
			b, ok := n.(*ast.BinaryExpr)
			if !ok {
				return true
			}
			switch b.Op {
			case token.LSS, token.LEQ, token.GTR, token.GEQ:
				x, y := w.Src(b.X), w.Src(b.Y)
				if (x == idx && y == "len("+base+")") || (y == idx && x == "len("+base+")") {
					found = true
				}
			}
			return !found
		})
		return found
	}
	var why []string
	for _, b := range bounds {
		idx := w.Src(b)
		ok := false
		for i, nd := range stack {
			switch x := nd.(type) {
			case *ast.IfStmt:
				if mentions(x.Cond, idx) {
					ok = true
				}
			case *ast.ForStmt:
				if x.Cond != nil && mentions(x.Cond, idx) {
					ok = true
				}
			case *ast.BlockStmt:
				// an earlier loop or guard of the same block
				for _, st := range x.List {
					if i+1 < len(stack) && st == stack[i+1] {
						break
					}
					switch y := st.(type) {
					case *ast.ForStmt:
						if y.Cond != nil && mentions(y.Cond, idx) {
							ok = true
						}
					case *ast.IfStmt:
						if mentions(y.Cond, idx) && terminates(y.Body) {
							ok = true
						}
					}
				}
			}
		}
		if !ok {
			return ""
		}
		why = append(why, idx+" is compared with len("+base+") on the way")
	}
	return strings.Join(why, "; ")
}

func funcExistsAnywhere(w *World, name string) bool {
	for _, pk := range w.All {
		if w.inModulePkg(pk.Types) && w.FuncDecl(pk, name) != nil {
			return true
		}
	}
	return false
}
