package main

// rules_panic.go: C04 — PANIC.1-4, SCOPE.1, POSARG, NEWPARSER.

import (
	"fmt"
	"go/ast"
	"go/token"
	"go/types"
	"sort"
	"strings"

	"golang.org/x/tools/go/callgraph"
	"golang.org/x/tools/go/callgraph/cha"
	"golang.org/x/tools/go/callgraph/vta"
	"golang.org/x/tools/go/ssa"
	"golang.org/x/tools/go/ssa/ssautil"
)

type CGInfo struct {
	Graph *callgraph.Graph
	Prog  *ssa.Program
	Nodes int
}

var cgCache *CGInfo

func (w *World) callGraph() *CGInfo {
	if cgCache != nil {
		return cgCache
	}
	fi := w.flow()
	prog := fi.Prog
	all := ssautil.AllFunctions(prog)
	g := vta.CallGraph(all, cha.CallGraph(prog))
	g.DeleteSyntheticNodes()
	cgCache = &CGInfo{Graph: g, Prog: prog, Nodes: len(g.Nodes)}
	return cgCache
}

func (w *World) inModule(fn *ssa.Function) bool {
	var pk *types.Package
	if fn.Pkg != nil {
		pk = fn.Pkg.Pkg
	} else if fn.Parent() != nil && fn.Parent().Pkg != nil {
		pk = fn.Parent().Pkg.Pkg
	} else if fn.Origin() != nil && fn.Origin().Pkg != nil {
		pk = fn.Origin().Pkg.Pkg
	}
	return pk != nil && (pk.Path() == w.ModPath || strings.HasPrefix(pk.Path(), w.ModPath+"/"))
}

// ssaFuncName: "pkg.Func", "pkg.(Recv).Method", with "$n" for literals.
func (w *World) ssaFuncName(fn *ssa.Function) string {
	s := fn.String()
	s = strings.ReplaceAll(s, w.ModPath+"/", "")
	s = strings.ReplaceAll(s, w.ModPath+".", "tengo.")
	s = strings.ReplaceAll(s, "(*", "(")
	return s
}

// reachable returns the module functions reachable from the entry functions.
func (w *World) reachable(entries []*ssa.Function) map[*ssa.Function]bool {
	cg := w.callGraph()
	seen := map[*ssa.Function]bool{}
	var stack []*ssa.Function
	for _, e := range entries {
		if e != nil && !seen[e] {
			seen[e] = true
			stack = append(stack, e)
		}
	}
	for len(stack) > 0 {
		fn := stack[len(stack)-1]
		stack = stack[:len(stack)-1]
		n := cg.Graph.Nodes[fn]
		if n == nil {
			continue
		}
		for _, e := range n.Out {
			c := e.Callee.Func
			if c == nil || seen[c] {
				continue
			}
			seen[c] = true
			if w.inModule(c) {
				stack = append(stack, c)
			}
		}
		for _, a := range fn.AnonFuncs {
			if !seen[a] {
				seen[a] = true
				stack = append(stack, a)
			}
		}
	}
	return seen
}

func (w *World) ssaFunc(pkgSub, recv, name string) *ssa.Function {
	fi := w.flow()
	pp := w.ModPath
	if pkgSub != "" {
		pp += "/" + pkgSub
	}
	for _, fn := range fi.Funcs {
		if fn.Pkg == nil || fn.Pkg.Pkg.Path() != pp || fn.Name() != name || fn.Parent() != nil {
			continue
		}
		r := ""
		if fn.Signature.Recv() != nil {
			r, _ = namedName(fn.Signature.Recv().Type())
		}
		if r == recv {
			return fn
		}
	}
	return nil
}

type panicSite struct {
	Fn   *ssa.Function
	Pos  token.Pos
	Key  string
	Call *ast.CallExpr
}

// panicSites lists explicit panic(...) calls in the given functions.
func (w *World) panicSites(fns map[*ssa.Function]bool) []panicSite {
	var out []panicSite
	for fn := range fns {
		if !w.inModule(fn) || fn.Blocks == nil {
			continue
		}
		for _, b := range fn.Blocks {
			for _, ins := range b.Instrs {
				pn, ok := ins.(*ssa.Panic)
				if !ok || !pn.Pos().IsValid() {
					continue
				}
				ps := panicSite{Fn: fn, Pos: pn.Pos()}
				path, pk := w.pathAt(pn.Pos())
				arg := "?"
				for _, n := range path {
					if call, ok := n.(*ast.CallExpr); ok && pk != nil && IsBuiltinCall(pk, call, "panic") {
						ps.Call = call
						arg = panicArgKey(w, call.Args[0])
						break
					}
				}
				ps.Key = fnNameOfCtx(w.ctxKey(pn.Pos())) + "/" + arg
				out = append(out, ps)
			}
		}
	}
	sort.Slice(out, func(i, j int) bool { return out[i].Pos < out[j].Pos })
	return out
}

// panicArgKey: a short stable description of the panic argument.
func panicArgKey(w *World, e ast.Expr) string {
	var lit string
	ast.Inspect(e, func(n ast.Node) bool {
		if b, ok := n.(*ast.BasicLit); ok && b.Kind == token.STRING && lit == "" {
			lit = strings.Trim(b.Value, "\"`")
		}
		return true
	})
	if lit != "" {
		f := strings.Fields(lit)
		if len(f) > 4 {
			f = f[:4]
		}
		return strings.Join(f, "_")
	}
	// a local variable: name it by where its value comes from, not by what it
	// is called (`if r := recover(); r != nil { … panic(r) }`)
	if id, ok := ast.Unparen(e).(*ast.Ident); ok {
		if _, pk := w.pathAt(id.Pos()); pk != nil {
			if v, ok := pk.TypesInfo.Uses[id].(*types.Var); ok && !v.IsField() && v.Parent() != pk.Types.Scope() {
				fromRecover := false
				for _, f := range pk.Syntax {
					if f.Pos() <= v.Pos() && v.Pos() <= f.End() {
						ast.Inspect(f, func(n ast.Node) bool {
							as, ok := n.(*ast.AssignStmt)
							if !ok || len(as.Lhs) != 1 || len(as.Rhs) != 1 {
								return true
							}
							if lid, ok := as.Lhs[0].(*ast.Ident); ok && pk.TypesInfo.Defs[lid] == v {
								if call, ok := as.Rhs[0].(*ast.CallExpr); ok && IsBuiltinCall(pk, call, "recover") {
									fromRecover = true
								}
							}
							return true
						})
					}
				}
				if fromRecover {
					return "recovered-value"
				}
				return "local:" + types.TypeString(v.Type(), func(*types.Package) string { return "" })
			}
		}
	}
	return strings.ReplaceAll(w.Src(e), " ", "")
}

type panicClass struct {
	Class   string // recovered | reraise | guarded | unreachable | contract
	Reason  string
	Premise func(c *Ctx, ps panicSite) (bool, string) // statically checked premise
}

func ruleNamePremise(rule string) func(c *Ctx, ps panicSite) (bool, string) {
	return func(c *Ctx, ps panicSite) (bool, string) { return true, "premise checked by rule " + rule }
}

func (w *World) c04Entries() []*ssa.Function {
	var e []*ssa.Function
	for _, s := range [][3]string{
		{"parser", "Parser", "ParseFile"}, {"parser", "", "NewParser"},
		{"", "Compiler", "Compile"}, {"", "Compiler", "Bytecode"}, {"", "", "NewCompiler"},
		{"", "Script", "Compile"}, {"", "Script", "Add"}, {"", "Script", "Remove"},
		{"", "Bytecode", "RemoveDuplicates"},
	} {
		e = append(e, w.ssaFunc(s[0], s[1], s[2]))
	}
	return e
}

func rulePANIC1(c *Ctx) {
	w := c.W
	entries := w.c04Entries()
	for i, e := range entries {
		if e == nil {
			c.anchor(fmt.Sprintf("compile-path entry point #%d", i))
			return
		}
	}
	reach := w.reachable(entries)
	nMod := 0
	for fn := range reach {
		if w.inModule(fn) {
			nMod++
		}
	}
	c.note("PANIC.1: %d module functions reachable from the %d compile-path entry points (VTA call graph, %d nodes)", nMod, len(entries), w.callGraph().Nodes)
	table := map[string]panicClass{
		"Parser.error/bailout{}": {"recovered", "recovered by the deferred function of ParseFile", func(c *Ctx, ps panicSite) (bool, string) {
			return premiseBailout(c)
		}},
		"Parser.ParseFile/recovered-value":            {"reraise", "re-raises a panic that is not a bailout (nothing is swallowed)", nil},
		"NewScanner/file_size_(%d)_does":              {"guarded", "every NewParser call passes a SourceFile made by AddFile(_, -1, len(src)) for the same src", ruleNamePremise("NEWPARSER")},
		"SourceFileSet.AddFile/illegal_base_or_size":  {"guarded", "every AddFile call passes base -1 and a len(...) size", ruleNamePremise("NEWPARSER")},
		"SourceFileSet.AddFile/offset_overflow_(>_2G": {"unreachable", "needs more than 2^63 bytes of source in one file set on the supported 64-bit targets", nil},
		"SourceFile.FileSetPos/illegal_file_offset": {"guarded", "called only by the scanner with offsets <= len(src) == file.Size (NewScanner checks the sizes agree)", func(c *Ctx, ps panicSite) (bool, string) {
			return premiseCallersIn(c, "SourceFile", "FileSetPos", []string{"Scanner.Scan", "Scanner.error"})
		}},
		"SourceFile.Offset/illegal_SourcePos_value": {"guarded", "called only by the scanner with a position it obtained from FileSetPos of the same file", func(c *Ctx, ps panicSite) (bool, string) {
			return premiseCallersIn(c, "SourceFile", "Offset", []string{"Scanner.Scan"})
		}},
		"SourceFile.Position/illegal_SourcePos_value": {"guarded", "called with positions produced by the scanner for this file (POSARG: parser errors pass p.pos or a node's Pos())", ruleNamePremise("POSARG")},
		"Compiler.Compile/invalid_branch_statement:_%s": {"unreachable", "BranchStmt values are built only by parseBranchStmt, called only under `case token.Break, token.Continue` with p.token", func(c *Ctx, ps panicSite) (bool, string) {
			return premiseBranchStmt(c)
		}},
		"Compiler.Compile/invalid_import_value_type:":     {"contract", "custom Importable must return Object or []byte (documented on the interface); both module kinds in the tree do", nil},
		"Compiler.optimizeFunc/invalid_jump_position:_%d": {"unreachable", "every jump operand is an instruction boundary of the same function or its end: placeholders are patched in their own scope (JMP.1/JMP.2)", ruleNamePremise("JMP.2")},
		"updateConstIndexes/constant_index_not_found:":    {"unreachable", "every CONST/CLOSURE operand was returned by addConstant and RemoveDuplicates maps every pool index (DEDUP.1); instruction streams are not corrupted (JMP.2)", ruleNamePremise("JMP.2")},
		"Script.prepCompile/wrong_symbol_index:_%d":       {"unreachable", "a fresh symbol table hands out consecutive indexes to consecutive Define calls", nil},
	}
	seen := map[string]bool{}
	for _, ps := range w.panicSites(reach) {
		key := ps.Key
		if seen[key] {
			key = key + "#" + w.SitePos(ps.Pos)
		}
		seen[ps.Key] = true
		cl, ok := table[ps.Key]
		if !ok {
			c.fail("panic/"+key, &posNode{ps.Pos}, "explicit panic reachable from the scan/parse/compile entry points is not classified (recovered in place, proven unreachable, or a listed finding): a panic here escapes to the embedding program")
			continue
		}
		detail := cl.Class + ": " + cl.Reason
		if cl.Premise != nil {
			good, why := cl.Premise(c, ps)
			if !good {
				c.fail("panic/"+key, &posNode{ps.Pos}, "classified as "+cl.Class+" but its premise no longer holds: "+why)
				continue
			}
			detail += " [" + why + "]"
		}
		c.ok("panic/"+key, &posNode{ps.Pos}, detail)
	}
}

// premiseBailout: ParseFile's first statement defers a function that recovers,
// lets bailout through and re-panics anything else; and ParseFile is the only
// exported function from which Parser.error is reachable.
func premiseBailout(c *Ctx) (bool, string) {
	w := c.W
	p := w.Parser
	fd := w.FuncDecl(p, "Parser.ParseFile")
	if fd == nil || len(fd.Body.List) == 0 {
		return false, "Parser.ParseFile not found"
	}
	ds, ok := fd.Body.List[0].(*ast.DeferStmt)
	if !ok {
		return false, "ParseFile's first statement is not a defer"
	}
	lit, ok := ds.Call.Fun.(*ast.FuncLit)
	if !ok {
		return false, "deferred call is not a function literal"
	}
	hasRecover := containsNode(lit, func(n ast.Node) bool {
		call, ok := n.(*ast.CallExpr)
		return ok && IsBuiltinCall(p, call, "recover")
	})
	assertsBailout := containsNode(lit, func(n ast.Node) bool {
		ta, ok := n.(*ast.TypeAssertExpr)
		if !ok || ta.Type == nil {
			return false
		}
		tn, _ := namedName(p.TypesInfo.Types[ta.Type].Type)
		return tn == "bailout"
	})
	if !hasRecover || !assertsBailout {
		return false, "ParseFile's deferred function does not recover and test for bailout"
	}
	// only ParseFile (among exported functions) reaches Parser.error
	cg := w.callGraph()
	errFn := w.ssaFunc("parser", "Parser", "error")
	if errFn == nil {
		return false, "Parser.error not found"
	}
	back := map[*ssa.Function]bool{errFn: true}
	stack := []*ssa.Function{errFn}
	for len(stack) > 0 {
		fn := stack[len(stack)-1]
		stack = stack[:len(stack)-1]
		n := cg.Graph.Nodes[fn]
		if n == nil {
			continue
		}
		for _, e := range n.In {
			cl := e.Caller.Func
			if cl != nil && !back[cl] && w.inModule(cl) {
				back[cl] = true
				stack = append(stack, cl)
			}
		}
	}
	var bad []string
	for fn := range back {
		if fn.Pkg == nil || fn.Pkg.Pkg != p.Types || fn.Parent() != nil {
			continue
		}
		if ast.IsExported(fn.Name()) && fn.Name() != "ParseFile" {
			// exported methods of unexported receivers do not count
			if fn.Signature.Recv() != nil {
				if rn, _ := namedName(fn.Signature.Recv().Type()); !ast.IsExported(rn) {
					continue
				}
			}
			bad = append(bad, fn.Name())
		}
	}
	sort.Strings(bad)
	if len(bad) > 0 {
		return false, "bailout can be raised from exported parser functions that do not recover it: " + strings.Join(bad, ",")
	}
	return true, fmt.Sprintf("ParseFile defers recover+bailout test; it is the only exported parser function among the %d that reach Parser.error", len(back))
}

func premiseCallersIn(c *Ctx, recv, name string, allowed []string) (bool, string) {
	w := c.W
	var bad []string
	n := 0
	for _, pk := range w.All {
		w.AllFuncDecls(pk, func(fd *ast.FuncDecl) {
			ast.Inspect(fd.Body, func(nd ast.Node) bool {
				call, ok := nd.(*ast.CallExpr)
				if !ok {
					return true
				}
				if fn := Callee(pk, call); isMethodOf(fn, w.Parser.Types, recv, name) {
					n++
					okc := false
					for _, a := range allowed {
						if funcName(fd) == a && pk == w.Parser {
							okc = true
						}
					}
					if !okc {
						bad = append(bad, pk.Name+"."+funcName(fd))
					}
				}
				return true
			})
		})
	}
	if len(bad) > 0 {
		return false, recv + "." + name + " is also called from " + strings.Join(dedupStrings(bad), ",")
	}
	return true, fmt.Sprintf("%d call site(s), all in %v", n, allowed)
}

func premiseBranchStmt(c *Ctx) (bool, string) {
	w := c.W
	p := w.Parser
	// every &BranchStmt{} literal lives in parseBranchStmt and takes Token from its parameter
	var bad []string
	n := 0
	w.AllFuncDecls(p, func(fd *ast.FuncDecl) {
		ast.Inspect(fd.Body, func(nd ast.Node) bool {
			cl, ok := nd.(*ast.CompositeLit)
			if !ok {
				return true
			}
			if tn, _ := namedName(p.TypesInfo.Types[cl].Type); tn != "BranchStmt" {
				return true
			}
			n++
			if fd.Name.Name != "parseBranchStmt" {
				bad = append(bad, "BranchStmt built in "+funcName(fd))
			}
			return true
		})
	})
	// every call of parseBranchStmt passes p.token inside a case listing only Break/Continue
	calls := 0
	w.AllFuncDecls(p, func(fd *ast.FuncDecl) {
		inspectWithStack(fd.Body, func(nd ast.Node, stack []ast.Node) bool {
			call, ok := nd.(*ast.CallExpr)
			if !ok {
				return true
			}
			if fn := Callee(p, call); !isMethodOf(fn, p.Types, "Parser", "parseBranchStmt") {
				return true
			}
			calls++
			good := false
			for i := len(stack) - 1; i >= 0; i-- {
				if cc, ok := stack[i].(*ast.CaseClause); ok && len(cc.List) > 0 {
					all := true
					for _, e := range cc.List {
						co := ConstObj(p, e)
						if co == nil || (co.Name() != "Break" && co.Name() != "Continue") {
							all = false
						}
					}
					good = all
					break
				}
			}
			if f, _ := FieldSel(p, call.Args[0]); f == nil || f.Name() != "token" {
				good = false
			}
			if !good {
				bad = append(bad, "parseBranchStmt called outside `case token.Break, token.Continue` or not with p.token at "+w.Site(call))
			}
			return true
		})
	})
	if n == 0 || calls == 0 {
		return false, "BranchStmt construction not found"
	}
	if len(bad) > 0 {
		return false, strings.Join(bad, "; ")
	}
	return true, fmt.Sprintf("%d literal(s) in parseBranchStmt, %d guarded call(s)", n, calls)
}

// ---------------------------------------------------------------- NEWPARSER / POSARG

func ruleNEWPARSER(c *Ctx) {
	w := c.W
	n := 0
	for _, pk := range w.All {
		w.AllFuncDecls(pk, func(fd *ast.FuncDecl) {
			ast.Inspect(fd.Body, func(nd ast.Node) bool {
				call, ok := nd.(*ast.CallExpr)
				if !ok {
					return true
				}
				fn := Callee(pk, call)
				if fn == nil || fn.Pkg() != w.Parser.Types {
					return true
				}
				switch {
				case isMethodOf(fn, w.Parser.Types, "SourceFileSet", "AddFile") && len(call.Args) == 3:
					n++
					k, okc := ConstInt(pk, call.Args[1])
					sz, okl := ast.Unparen(call.Args[2]).(*ast.CallExpr)
					good := okc && k == -1 && okl && IsBuiltinCall(pk, sz, "len")
					c.check(good, fmt.Sprintf("AddFile/%s.%s#%d", pk.Name, funcName(fd), n), call, "AddFile(name, -1, len(src))", "AddFile is not called with base -1 and a len(...) size: "+w.Src(call))
				case fn.Name() == "NewParser" && len(call.Args) == 3:
					n++
					// file argument defined by AddFile(_, _, len(SRC)) with SRC == src argument
					good := false
					why := "file argument is not a variable defined from AddFile"
					if id, ok := ast.Unparen(call.Args[0]).(*ast.Ident); ok {
						obj := pk.TypesInfo.Uses[id]
						ast.Inspect(fd.Body, func(m ast.Node) bool {
							as, ok := m.(*ast.AssignStmt)
							if !ok || len(as.Lhs) != 1 || len(as.Rhs) != 1 {
								return true
							}
							lid, ok := as.Lhs[0].(*ast.Ident)
							if !ok || pk.TypesInfo.Defs[lid] != obj {
								return true
							}
							ac, ok := as.Rhs[0].(*ast.CallExpr)
							if !ok || len(ac.Args) != 3 {
								return true
							}
							if af := Callee(pk, ac); !isMethodOf(af, w.Parser.Types, "SourceFileSet", "AddFile") {
								return true
							}
							if lc, ok := ast.Unparen(ac.Args[2]).(*ast.CallExpr); ok && IsBuiltinCall(pk, lc, "len") {
								a := w.Src(stripConv(pk, lc.Args[0]))
								b := w.Src(stripConv(pk, call.Args[1]))
								if a == b {
									good = true
								} else {
									why = fmt.Sprintf("file sized by len(%s) but the parser is given %s", a, b)
								}
							}
							return true
						})
					}
					c.check(good, fmt.Sprintf("NewParser/%s.%s#%d", pk.Name, funcName(fd), n), call, "SourceFile size and source bytes come from the same value", "NewParser: "+why+" (NewScanner panics when the sizes differ)")
				}
				return true
			})
		})
	}
}

func rulePOSARG(c *Ctx) {
	w := c.W
	p := w.Parser
	n := 0
	w.AllFuncDecls(p, func(fd *ast.FuncDecl) {
		ast.Inspect(fd.Body, func(nd ast.Node) bool {
			call, ok := nd.(*ast.CallExpr)
			if !ok || len(call.Args) == 0 {
				return true
			}
			fn := Callee(p, call)
			if !isMethodOf(fn, p.Types, "Parser", "error") && !isMethodOf(fn, p.Types, "Parser", "errorExpected") {
				return true
			}
			if funcName(fd) == "Parser.errorExpected" {
				return true // forwards its own parameter
			}
			n++
			arg := ast.Unparen(call.Args[0])
			good := false
			switch x := arg.(type) {
			case *ast.SelectorExpr:
				if f, _ := FieldSel(p, x); f != nil && f.Name() == "pos" {
					good = true // p.pos
				}
			case *ast.CallExpr:
				if se, ok := x.Fun.(*ast.SelectorExpr); ok && se.Sel.Name == "Pos" && len(x.Args) == 0 {
					good = true // node.Pos()
				}
			case *ast.Ident:
				// local defined from p.pos or a parameter of type Pos forwarded by a caller
				obj := p.TypesInfo.Uses[x]
				ast.Inspect(fd, func(m ast.Node) bool {
					switch d := m.(type) {
					case *ast.AssignStmt:
						for i, l := range d.Lhs {
							if lid, ok := l.(*ast.Ident); ok && p.TypesInfo.Defs[lid] == obj {
								var rhs ast.Expr
								if len(d.Rhs) == len(d.Lhs) {
									rhs = d.Rhs[i]
								} else if len(d.Rhs) == 1 {
									rhs = d.Rhs[0]
								}
								if rhs != nil {
									if f, _ := FieldSel(p, rhs); f != nil && f.Name() == "pos" {
										good = true
									}
								}
							}
						}
					case *ast.Field:
						for _, nm := range d.Names {
							if p.TypesInfo.Defs[nm] == obj {
								good = true // parameter: checked at the callers
							}
						}
					}
					return true
				})
			}
			c.check(good, fmt.Sprintf("errpos/%s#%d", funcName(fd), n), call, "error position is the current token position or a node's start", "parser reports an error at "+w.Src(arg)+", which is not p.pos / a saved p.pos / node.Pos(): an End() or computed position can lie outside the file (SourceFile.Position panics) or outside the offending input")
			return true
		})
	})
}

// ---------------------------------------------------------------- PANIC.2 / PANIC.3 / SCOPE.1

func rulePANIC2(c *Ctx) {
	w := c.W
	p := w.Root
	scopeT := p.Types.Scope().Lookup("SymbolScope")
	if scopeT == nil {
		c.anchor("type SymbolScope")
		return
	}
	var all []string
	for _, n := range p.Types.Scope().Names() {
		if co, ok := p.Types.Scope().Lookup(n).(*types.Const); ok && types.Identical(co.Type(), scopeT.Type()) {
			all = append(all, n)
		}
	}
	seq := seqKeys{}
	w.AllFuncDecls(p, func(fd *ast.FuncDecl) {
		ast.Inspect(fd.Body, func(nd ast.Node) bool {
			sw, ok := nd.(*ast.SwitchStmt)
			if !ok || sw.Tag == nil {
				return true
			}
			if tv, ok := p.TypesInfo.Types[sw.Tag]; !ok || !types.Identical(tv.Type, scopeT.Type()) {
				return true
			}
			have := map[string]bool{}
			var def *ast.CaseClause
			for _, s := range sw.Body.List {
				cc := s.(*ast.CaseClause)
				if cc.List == nil {
					def = cc
				}
				for _, e := range cc.List {
					if co := ConstObj(p, e); co != nil {
						have[co.Name()] = true
					}
				}
			}
			key := seq.next(w.ctxKey(sw.Pos()) + "/switch-scope")
			var missing []string
			for _, a := range all {
				if !have[a] {
					missing = append(missing, a)
				}
			}
			if len(missing) == 0 {
				c.ok(key, sw, "all symbol scopes handled")
				return true
			}
			if def != nil {
				panics := containsNode(def, func(n ast.Node) bool {
					call, ok := n.(*ast.CallExpr)
					return ok && IsBuiltinCall(p, call, "panic")
				})
				returns := containsNode(def, func(n ast.Node) bool { _, ok := n.(*ast.ReturnStmt); return ok })
				c.check(!panics && returns, key, sw, "remaining scopes "+fmt.Sprint(missing)+" handled by a default arm that returns an error", fmt.Sprintf("scopes %v fall into a default arm that panics instead of returning a compile error", missing))
				return true
			}
			// tabled exception: the free-symbol capture switch needs Local and Free only
			if have["ScopeLocal"] && have["ScopeFree"] && len(have) == 2 {
				good, why := premiseDefineFree(w)
				c.check(good, key, sw, "capture list holds only local/free symbols: "+why, "switch over captured symbols handles Local/Free only, but "+why)
				return true
			}
			c.fail(key, sw, fmt.Sprintf("switch on symbol scope silently ignores %v (no default arm)", missing))
			return true
		})
	})
}

// premiseDefineFree: defineFree is called only where Scope is neither global nor builtin.
func premiseDefineFree(w *World) (bool, string) {
	p := w.Root
	n, good := 0, 0
	w.AllFuncDecls(p, func(fd *ast.FuncDecl) {
		inspectWithStack(fd.Body, func(nd ast.Node, stack []ast.Node) bool {
			call, ok := nd.(*ast.CallExpr)
			if !ok {
				return true
			}
			if fn := Callee(p, call); !isMethodOf(fn, p.Types, "SymbolTable", "defineFree") {
				return true
			}
			n++
			for i := len(stack) - 1; i >= 0; i-- {
				if is, ok := stack[i].(*ast.IfStmt); ok {
					s := w.Src(is.Cond)
					if strings.Contains(s, "!= ScopeGlobal") && strings.Contains(s, "!= ScopeBuiltin") && !strings.Contains(s, "||") {
						good++
					}
					break
				}
			}
			return true
		})
	})
	if n == 0 {
		return false, "defineFree call not found"
	}
	if good != n {
		return false, "defineFree is called outside a `Scope != ScopeGlobal && Scope != ScopeBuiltin` guard"
	}
	return true, fmt.Sprintf("%d defineFree call(s), each under the not-global-not-builtin guard", n)
}

func rulePANIC3(c *Ctx) {
	w := c.W
	p := w.Root
	fd := w.FuncDecl(p, "Script.Compile")
	if fd == nil {
		c.anchor("Script.Compile")
		return
	}
	// every slice expression of the globals slice bounded by a symbol count is
	// dominated by a comparison with GlobalsSize that returns an error
	n := 0
	inspectWithStack(fd.Body, func(nd ast.Node, stack []ast.Node) bool {
		se, ok := nd.(*ast.SliceExpr)
		if !ok || se.High == nil {
			return true
		}
		if sl, ok := p.TypesInfo.Types[se.X].Type.Underlying().(*types.Slice); !ok || !types.IsInterface(sl.Elem()) {
			return true
		}
		n++
		good := false
		hi := w.Src(se.High)
		for _, g := range precedingGuards(stack) {
			b, ok := gtExpr(g.Cond)
			if !ok || (b.Op != token.GTR && b.Op != token.GEQ) {
				continue
			}
			lim := ObjOf(p, b.Y)
			if lim == nil || lim.Name() != "GlobalsSize" {
				continue
			}
			lhs := w.Src(b.X)
			// `hi > GlobalsSize`  or  `<count> >= GlobalsSize` with hi == count+1
			if (b.Op == token.GTR && lhs == hi) || (b.Op == token.GEQ && (hi == lhs+"+1" || hi == lhs+" + 1" || lhs == hi)) {
				good = true
			}
		}
		c.check(good, fmt.Sprintf("globals-slice#%d", n), se, "globals[:n] dominated by `n > GlobalsSize` returning an error", "the globals slice is cut to a symbol count that is not checked against GlobalsSize: 1024 or more top-level symbols make Script.Compile panic with a bounds error")
		return true
	})
	if n == 0 {
		c.fail("globals-slice/none", fd, "Script.Compile no longer cuts the globals slice; rule needs review")
	}
	// prepCompile: index into globals guarded by the variable count
	pc := w.FuncDecl(p, "Script.prepCompile")
	if pc == nil {
		c.anchor("Script.prepCompile")
		return
	}
	guard := containsNode(pc.Body, func(nd ast.Node) bool {
		is, ok := nd.(*ast.IfStmt)
		if !ok {
			return false
		}
		b, ok := gtExpr(is.Cond)
		if !ok || (b.Op != token.GEQ && b.Op != token.GTR) {
			return false
		}
		lim := ObjOf(p, b.Y)
		return lim != nil && lim.Name() == "GlobalsSize" && strings.HasPrefix(w.Src(b.X), "len(") && terminates(is.Body)
	})
	c.check(guard, "prepCompile/variable-count", pc, "number of host variables checked against GlobalsSize", "prepCompile stores host variables into the fixed-size globals slice without checking their number")
}

// SCOPE.1: acquire/release pairing on all exits in the compiler.
func ruleSCOPE1(c *Ctx) {
	w := c.W
	p := w.Root
	isCallOf := func(s ast.Stmt, name string) bool {
		return containsNode(s, func(n ast.Node) bool {
			call, ok := n.(*ast.CallExpr)
			if !ok {
				return false
			}
			if _, isLit := n.(*ast.FuncLit); isLit {
				return false
			}
			return isMethodOf(Callee(p, call), p.Types, "Compiler", name)
		})
	}
	pairs := []struct{ acq, rel string }{{"enterScope", "leaveScope"}, {"enterLoop", "leaveLoop"}}
	n := 0
	w.AllFuncDecls(p, func(fd *ast.FuncDecl) {
		for _, pr := range pairs {
			if fd.Name.Name == pr.acq || fd.Name.Name == pr.rel {
				continue
			}
			var visit func(list []ast.Stmt)
			visit = func(list []ast.Stmt) {
				for i, s := range list {
					direct := false
					switch x := s.(type) {
					case *ast.ExprStmt:
						if call, ok := x.X.(*ast.CallExpr); ok && isMethodOf(Callee(p, call), p.Types, "Compiler", pr.acq) {
							direct = true
						}
					case *ast.AssignStmt:
						if len(x.Rhs) == 1 {
							if call, ok := x.Rhs[0].(*ast.CallExpr); ok && isMethodOf(Callee(p, call), p.Types, "Compiler", pr.acq) {
								direct = true
							}
						}
					}
					if direct {
						n++
						rest := list[i+1:]
						r := pathSeq(rest, func(st ast.Stmt) bool {
							switch st.(type) {
							case *ast.ExprStmt, *ast.AssignStmt:
								return isCallOf(st, pr.rel)
							}
							return false
						})
						c.check(r == pHit, fmt.Sprintf("%s/%s→%s", w.ctxKey(s.Pos()), pr.acq, pr.rel), s, "released on every path, including error returns", fmt.Sprintf("after %s some path returns without %s: the compiler's scope/loop stack stays unbalanced and a later %s can panic", pr.acq, pr.rel, pr.rel))
					}
					// recurse into nested statement lists
					ast.Inspect(s, func(m ast.Node) bool {
						switch y := m.(type) {
						case *ast.BlockStmt:
							if m != ast.Node(s) {
								visit(y.List)
								return false
							}
						case *ast.CaseClause:
							visit(y.Body)
							return false
						case *ast.FuncLit:
							return false
						}
						return true
					})
				}
			}
			visit(fd.Body.List)
		}
	})
	// symbol-table forks are undone by a deferred Parent() in the same function
	w.AllFuncDecls(p, func(fd *ast.FuncDecl) {
		var visit func(list []ast.Stmt)
		visit = func(list []ast.Stmt) {
			for i, s := range list {
				as, ok := s.(*ast.AssignStmt)
				if ok && len(as.Rhs) == 1 {
					if call, ok := as.Rhs[0].(*ast.CallExpr); ok && isMethodOf(Callee(p, call), p.Types, "SymbolTable", "Fork") {
						if f, _ := FieldSel(p, as.Lhs[0]); f != nil && f.Name() == "symbolTable" && len(call.Args) == 1 {
							if k, ok := p.TypesInfo.Types[call.Args[0]]; ok && k.Value != nil && k.Value.String() == "true" {
								n++
								good := false
								if i+1 < len(list) {
									if ds, ok := list[i+1].(*ast.DeferStmt); ok {
										good = containsNode(ds, func(m ast.Node) bool {
											c2, ok := m.(*ast.CallExpr)
											return ok && isMethodOf(Callee(p, c2), p.Types, "SymbolTable", "Parent")
										})
									}
								}
								c.check(good, fmt.Sprintf("%s/Fork→Parent", w.ctxKey(s.Pos())), s, "block scope closed by the next statement's defer", "a block symbol table is opened without a deferred return to the parent table: an error return leaves later code compiling in the wrong scope")
							}
						}
					}
				}
				ast.Inspect(s, func(m ast.Node) bool {
					switch y := m.(type) {
					case *ast.BlockStmt:
						if m != ast.Node(s) {
							visit(y.List)
							return false
						}
					case *ast.CaseClause:
						visit(y.Body)
						return false
					case *ast.FuncLit:
						return false
					}
					return true
				})
			}
		}
		visit(fd.Body.List)
	})
	if n < 6 {
		c.fail("pairing/count", nil, fmt.Sprintf("expected >= 6 acquire sites (scope, loops, block tables), found %d", n))
	}
}

// NILFIELD: AST fields that the compiler dereferences unconditionally are
// definitely assigned (non-nil) at every node construction site in the parser.
func ruleNILFIELD(c *Ctx) {
	w := c.W
	p := w.Root
	pp := w.Parser
	// (T, F) pairs dereferenced without a nil guard in package tengo
	type tf struct{ T, F string }
	required := map[tf]ast.Node{}
	w.AllFuncDecls(p, func(fd *ast.FuncDecl) {
		inspectWithStack(fd.Body, func(n ast.Node, stack []ast.Node) bool {
			outer, ok := n.(*ast.SelectorExpr)
			if !ok {
				return true
			}
			inner, ok := ast.Unparen(outer.X).(*ast.SelectorExpr)
			if !ok {
				return true
			}
			f, base := FieldSel(p, inner)
			if f == nil {
				return true
			}
			if _, isPtr := f.Type().Underlying().(*types.Pointer); !isPtr {
				return true
			}
			tn, pk := namedName(p.TypesInfo.Types[base].Type)
			if pk != pp.Types {
				return true
			}
			// guarded by `… .F != nil` in an enclosing if or a preceding guard?
			guarded := false
			for i := len(stack) - 1; i >= 0; i-- {
				if is, ok := stack[i].(*ast.IfStmt); ok {
					if strings.Contains(w.Src(is.Cond), "."+f.Name()+" != nil") || strings.Contains(w.Src(is.Cond), "."+f.Name()+" == nil") {
						guarded = true
					}
				}
			}
			if !guarded {
				required[tf{tn, f.Name()}] = outer
			}
			return true
		})
	})
	if len(required) < 3 {
		c.fail("nilfield/required", nil, fmt.Sprintf("expected the compiler to dereference several AST pointer fields unconditionally; found %d", len(required)))
		return
	}
	n := 0
	w.AllFuncDecls(pp, func(fd *ast.FuncDecl) {
		inspectWithStack(fd.Body, func(nd ast.Node, stack []ast.Node) bool {
			cl, ok := nd.(*ast.CompositeLit)
			if !ok {
				return true
			}
			tn, pk := namedName(pp.TypesInfo.Types[cl].Type)
			if pk != pp.Types {
				return true
			}
			for _, e := range cl.Elts {
				kv, ok := e.(*ast.KeyValueExpr)
				if !ok {
					continue
				}
				fname := w.Src(kv.Key)
				use, need := required[tf{tn, fname}]
				if !need {
					continue
				}
				n++
				key := fmt.Sprintf("nilfield/%s/%s.%s#%d", funcName(fd), tn, fname, n)
				id, isId := ast.Unparen(kv.Value).(*ast.Ident)
				if !isId {
					if isNilIdent(kv.Value) {
						c.fail(key, kv, tn+"."+fname+" is set to nil but the compiler dereferences it unconditionally at "+w.Site(use))
					} else {
						c.ok(key, kv, "set from an expression that constructs or parses a node")
					}
					continue
				}
				obj := pp.TypesInfo.Uses[id]
				// find the declaration statement of obj; if it is `var x *T` (nil), every
				// path from there to this literal must assign it
				var declStmt ast.Stmt
				var declList []ast.Stmt
				ast.Inspect(fd.Body, func(m ast.Node) bool {
					var list []ast.Stmt
					switch x := m.(type) {
					case *ast.BlockStmt:
						list = x.List
					case *ast.CaseClause:
						list = x.Body
					}
					for _, s := range list {
						if ds, ok := s.(*ast.DeclStmt); ok {
							if gd, ok := ds.Decl.(*ast.GenDecl); ok {
								for _, sp := range gd.Specs {
									if vs, ok := sp.(*ast.ValueSpec); ok && len(vs.Values) == 0 {
										for _, nm := range vs.Names {
											if pp.TypesInfo.Defs[nm] == obj {
												declStmt, declList = s, list
											}
										}
									}
								}
							}
						}
					}
					return true
				})
				if declStmt == nil {
					c.ok(key, kv, "variable initialised at its declaration")
					continue
				}
				// statements of declList after the declaration up to the one containing the literal
				var between []ast.Stmt
				started, reached := false, false
				for _, s := range declList {
					if s == declStmt {
						started = true
						continue
					}
					if !started {
						continue
					}
					if containsNode(s, func(m ast.Node) bool { return m == ast.Node(cl) }) {
						reached = true
						break
					}
					between = append(between, s)
				}
				if !reached {
					c.undecided(key, kv, "node is built outside the statement list that declares "+id.Name)
					continue
				}
				assigns := func(s ast.Stmt) bool {
					as, ok := s.(*ast.AssignStmt)
					if !ok {
						return false
					}
					for _, l := range as.Lhs {
						if lid, ok := l.(*ast.Ident); ok && pp.TypesInfo.Uses[lid] == obj {
							return true
						}
					}
					return false
				}
				r := pathSeq(between, assigns)
				c.check(r == pHit, key, kv, id.Name+" is assigned on every path before the node is built", fmt.Sprintf("%s.%s is built from variable %s, which is declared nil and not assigned on every path to this literal; the compiler dereferences %s.%s unconditionally (%s): some input makes the compiler crash with a nil pointer", tn, fname, id.Name, tn, fname, w.Site(use)))
			}
			return true
		})
	})
	if n < 3 {
		c.fail("nilfield/count", nil, fmt.Sprintf("expected >= 3 construction sites of dereferenced fields, found %d", n))
	}
}

func (w *World) inModulePkg(pk *types.Package) bool {
	return pk != nil && (pk.Path() == w.ModPath || strings.HasPrefix(pk.Path(), w.ModPath+"/"))
}
