package main

// rules_cg.go: whole-program (call graph) rules — SHARE.1-2 (C08), FATAL.1 (C05), PANIC.4 (C04).

import (
	"fmt"
	"go/ast"
	"go/token"
	"go/types"
	"sort"
	"strings"

	"golang.org/x/tools/go/ssa"
)

// sccs computes the strongly connected components (size > 1 or self-loop) of
// the call graph restricted to the given functions.
func (w *World) sccs(fns map[*ssa.Function]bool) [][]*ssa.Function {
	cg := w.callGraph()
	index := map[*ssa.Function]int{}
	low := map[*ssa.Function]int{}
	on := map[*ssa.Function]bool{}
	var stack []*ssa.Function
	var out [][]*ssa.Function
	idx := 0
	succ := func(f *ssa.Function) []*ssa.Function {
		var s []*ssa.Function
		if n := cg.Graph.Nodes[f]; n != nil {
			for _, e := range n.Out {
				if c := e.Callee.Func; c != nil && fns[c] && w.inModule(c) {
					s = append(s, c)
				}
			}
		}
		return s
	}
	// iterative Tarjan
	type frame struct {
		f    *ssa.Function
		next int
		ss   []*ssa.Function
	}
	var order []*ssa.Function
	for f := range fns {
		if w.inModule(f) {
			order = append(order, f)
		}
	}
	sort.Slice(order, func(i, j int) bool { return order[i].String() < order[j].String() })
	for _, root := range order {
		if _, seen := index[root]; seen {
			continue
		}
		var fs []*frame
		push := func(f *ssa.Function) {
			index[f], low[f] = idx, idx
			idx++
			stack = append(stack, f)
			on[f] = true
			fs = append(fs, &frame{f: f, ss: succ(f)})
		}
		push(root)
		for len(fs) > 0 {
			fr := fs[len(fs)-1]
			if fr.next < len(fr.ss) {
				c := fr.ss[fr.next]
				fr.next++
				if _, seen := index[c]; !seen {
					push(c)
				} else if on[c] && index[c] < low[fr.f] {
					low[fr.f] = index[c]
				}
				continue
			}
			fs = fs[:len(fs)-1]
			if len(fs) > 0 {
				par := fs[len(fs)-1]
				if low[fr.f] < low[par.f] {
					low[par.f] = low[fr.f]
				}
			}
			if low[fr.f] == index[fr.f] {
				var comp []*ssa.Function
				for {
					x := stack[len(stack)-1]
					stack = stack[:len(stack)-1]
					on[x] = false
					comp = append(comp, x)
					if x == fr.f {
						break
					}
				}
				self := false
				if len(comp) == 1 {
					for _, s := range succ(comp[0]) {
						if s == comp[0] {
							self = true
						}
					}
				}
				if len(comp) > 1 || self {
					out = append(out, comp)
				}
			}
		}
	}
	return out
}

// sccKey: the sorted set of function base names in the component (the two
// recursive-descent components get a role name, so that adding a parse or
// compile helper does not create a "new" component).
func sccKey(comp []*ssa.Function) string {
	for _, f := range comp {
		if f.Pkg != nil && f.Pkg.Pkg.Name() == "parser" && strings.HasPrefix(f.Name(), "parse") {
			return "recursive-descent-parser"
		}
	}
	for _, f := range comp {
		if f.Pkg != nil && f.Pkg.Pkg.Name() == "tengo" && f.Name() == "Compile" && f.Signature.Recv() != nil {
			return "recursive-descent-compiler"
		}
	}
	// A component is named after its exported functions/methods (the API the
	// recursion is entered through: Equals, String, Copy, Encode); unexported
	// helpers and closures that merely take part in the cycle do not change
	// its identity, so extracting a helper from Equals leaves the key alone.
	set, exported := map[string]bool{}, map[string]bool{}
	for _, f := range comp {
		n := f.Name()
		if f.Parent() != nil {
			n = f.Parent().Name() + "$lit"
		} else if ast.IsExported(n) {
			exported[n] = true
		}
		set[n] = true
	}
	if len(exported) > 0 {
		return strings.Join(sortedKeys(exported), "+")
	}
	return strings.Join(sortedKeys(set), "+")
}

func sccPkgs(comp []*ssa.Function) string {
	set := map[string]bool{}
	for _, f := range comp {
		if f.Pkg != nil {
			set[f.Pkg.Pkg.Name()] = true
		} else if f.Parent() != nil && f.Parent().Pkg != nil {
			set[f.Parent().Pkg.Pkg.Name()] = true
		}
	}
	return strings.Join(sortedKeys(set), ",")
}

func (w *World) runEntries() []*ssa.Function {
	return []*ssa.Function{w.ssaFunc("", "VM", "Run")}
}

// boundedRecursion: components whose recursion is bounded by construction.
var boundedRecursion = map[string]string{
	"run": "",
}

func ruleFATAL1(c *Ctx) {
	w := c.W
	entries := w.runEntries()
	if entries[0] == nil {
		c.anchor("VM.Run")
		return
	}
	reach := w.reachable(entries)
	// (a) no process-terminating call inside package tengo on the run path
	fatalFns := map[string]bool{"os.Exit": true, "log.Fatal": true, "log.Fatalf": true, "log.Fatalln": true, "runtime.Goexit": true, "syscall.Exit": true}
	tabled := map[string]string{"stdlib.osExit": "", "stdlib": "the os module exposes exit() deliberately; embedders choose whether to import it"}
	cg := w.callGraph()
	nExit := 0
	for fn := range reach {
		if !w.inModule(fn) {
			continue
		}
		n := cg.Graph.Nodes[fn]
		if n == nil {
			continue
		}
		for _, e := range n.Out {
			cf := e.Callee.Func
			if cf == nil || cf.Pkg == nil {
				continue
			}
			name := cf.Pkg.Pkg.Path() + "." + cf.Name()
			if !fatalFns[name] {
				continue
			}
			nExit++
			pk := ""
			if fn.Pkg != nil {
				pk = fn.Pkg.Pkg.Name()
			} else if fn.Parent() != nil && fn.Parent().Pkg != nil {
				pk = fn.Parent().Pkg.Pkg.Name()
			}
			key := "terminates/" + w.ssaFuncName(fn) + "→" + name
			if why, ok := tabled[pk]; ok {
				c.ok(key, &posNode{e.Pos()}, "tabled: "+why)
			} else {
				c.fail(key, &posNode{e.Pos()}, "a function reachable from VM.Run calls "+name+": a script can terminate the host process, which no recover can turn into an error")
			}
		}
	}
	c.check(true, "terminates/scan", nil, fmt.Sprintf("%d reachable module functions scanned for process-terminating calls (%d found, all tabled)", len(reach), nExit), "")
	// (b) unbounded native recursion over script-built values
	bounded := map[string]func() (bool, string){
		"recursion/tengo/badVerb+fmtBool+fmtBytes+fmtFloat+fmtInteger+fmtString+printArg": func() (bool, string) {
			// badVerb re-enters printArg with verb 'v' only, and every typed
			// formatter has an arm for 'v' that does not report a bad verb
			bv := w.FuncDecl(w.Root, "pp.badVerb")
			if bv == nil {
				return false, "pp.badVerb not found"
			}
			onlyV := true
			ast.Inspect(bv.Body, func(n ast.Node) bool {
				call, isC := n.(*ast.CallExpr)
				if isC && isMethodOf(Callee(w.Root, call), w.Root.Types, "pp", "printArg") {
					if k, isK := ConstInt(w.Root, call.Args[1]); !isK || k != 'v' {
						onlyV = false
					}
				}
				return true
			})
			if !onlyV {
				return false, "badVerb re-enters printArg with a verb other than 'v'"
			}
			for _, fn := range []string{"pp.fmtBool", "pp.fmtInteger", "pp.fmtFloat", "pp.fmtString", "pp.fmtBytes"} {
				fd := w.FuncDecl(w.Root, fn)
				if fd == nil {
					return false, fn + " not found"
				}
				handled := false
				ast.Inspect(fd.Body, func(n ast.Node) bool {
					cc, isCC := n.(*ast.CaseClause)
					if !isCC {
						return true
					}
					for _, e := range cc.List {
						if k, isK := ConstInt(w.Root, e); isK && k == 'v' {
							bad := containsNode(cc, func(m ast.Node) bool {
								call, ok := m.(*ast.CallExpr)
								return ok && isMethodOf(Callee(w.Root, call), w.Root.Types, "pp", "badVerb")
							})
							if !bad {
								handled = true
							}
						}
					}
					return true
				})
				if !handled {
					return false, fn + " has no arm for verb 'v' that formats without reporting a bad verb"
				}
			}
			return true, "badVerb re-enters printArg only with verb 'v', which every typed formatter handles without reporting a bad verb (depth 2)"
		},
		"recursion/json/array+object+value": func() (bool, string) {
			fd := w.FuncDecl(w.JSON, "scanner.pushParseState")
			if fd == nil {
				return false, "pushParseState not found"
			}
			lim := containsNode(fd.Body, func(n ast.Node) bool {
				b, isB := n.(*ast.BinaryExpr)
				return isB && strings.Contains(w.Src(b), "len(") && strings.Contains(w.Src(b), "maxNestingDepth")
			})
			return lim, "the decoder only runs on input validated by the scanner, which limits nesting to maxNestingDepth (JSON.1/JSON.2)"
		},
	}
	for _, comp := range w.sccs(reach) {
		key := "recursion/" + sccPkgs(comp) + "/" + sccKey(comp)
		// a tabled component keeps its identity when a refactoring adds a
		// helper to the cycle: match on "contains all the tabled functions"
		if _, exact := bounded[key]; !exact {
			have := map[string]bool{}
			for _, f := range comp {
				have[f.Name()] = true
			}
			prefix := "recursion/" + sccPkgs(comp) + "/"
			for bk := range bounded {
				if !strings.HasPrefix(bk, prefix) {
					continue
				}
				all := true
				for _, nm := range strings.Split(strings.TrimPrefix(bk, prefix), "+") {
					if !have[nm] {
						all = false
					}
				}
				if all {
					key = bk
				}
			}
		}
		if prem, isB := bounded[key]; isB {
			good, why := prem()
			c.check(good, key, &posNode{comp[0].Pos()}, "recursion bounded: "+why, "recursion was tabled as bounded but its premise no longer holds: "+why)
			continue
		}
		var names []string
		for _, f := range comp {
			names = append(names, w.ssaFuncName(f))
		}
		sort.Strings(names)
		if len(names) > 6 {
			names = append(names[:6], fmt.Sprintf("…(%d functions)", len(comp)))
		}
		c.fail(key, &posNode{comp[0].Pos()}, "native recursion reachable from VM.Run with no depth bound or visited set ("+strings.Join(names, ", ")+"): a script-built cyclic or very deep value makes the Go stack overflow, which is fatal (not a recoverable panic) even through RunContext")
	}
}

func rulePANIC4(c *Ctx) {
	w := c.W
	entries := w.c04Entries()
	for _, e := range entries {
		if e == nil {
			c.anchor("compile-path entry points")
			return
		}
	}
	reach := w.reachable(entries)
	n := 0
	secondary := map[string]string{
		"tengo/Resolve": "walks the chain of enclosing scopes", "tengo/Parent": "walks the chain of enclosing scopes", "tengo/nextIndex": "walks the chain of enclosing block scopes",
		"tengo/updateMaxDefs": "walks the chain of enclosing block scopes", "tengo/BuiltinSymbols": "walks the chain of enclosing scopes", "tengo/DefineBuiltin": "walks the chain of enclosing scopes",
		"parser/Pos": "walks the left spine of an expression tree", "parser/End": "walks the right spine of an expression tree", "parser/String": "prints the tree (trace mode only)",
		"tengo/resolveAssignLHS": "walks the selector chain of an assignment target",
		"tengo/addConstant":      "walks the chain of importing compilers", "tengo/checkCyclicImports": "walks the chain of importing compilers",
		"tengo/loadCompiledModule": "walks the chain of importing compilers", "tengo/storeCompiledModule": "walks the chain of importing compilers",
		"tengo/Copy": "host-supplied module objects (AsImmutableMap copies attributes)", "tengo/CountObjects": "walks constants built by the compiler", "tengo/FromInterface": "walks a host-supplied Go value",
	}
	for _, comp := range w.sccs(reach) {
		// value-walking components reachable from the run path too are C05's
		pk := sccPkgs(comp)
		key := "recursion/" + pk + "/" + sccKey(comp)
		n++
		if why, isSec := secondary[pk+"/"+sccKey(comp)]; isSec {
			c.ok(key+"#"+w.SitePos(comp[0].Pos()), &posNode{comp[0].Pos()}, "secondary recursion: "+why+"; its depth is bounded by the nesting of the parsed program / import chain / host value, which the primary findings (parser, compiler) already exceed first")
			continue
		}
		var names []string
		for _, f := range comp {
			names = append(names, w.ssaFuncName(f))
		}
		sort.Strings(names)
		if len(names) > 6 {
			names = append(names[:6], fmt.Sprintf("…(%d functions)", len(comp)))
		}
		c.fail(key, &posNode{comp[0].Pos()}, "native recursion on the scan/parse/compile path with no nesting limit ("+strings.Join(names, ", ")+"): sufficiently deep input exhausts the Go stack, which is fatal rather than an error value")
	}
	if n == 0 {
		c.fail("recursion/none", nil, "no recursive component found on the compile path (the recursive-descent parser must show up): call graph incomplete")
	}
}

// ---------------------------------------------------------------- SHARE

func ruleSHARE(c *Ctx) {
	w := c.W
	p := w.Root
	entries := w.runEntries()
	if entries[0] == nil {
		c.anchor("VM.Run")
		return
	}
	reach := w.reachable(entries)
	// types whose instances are shared by all clones: everything reachable from Bytecode
	shared := map[string]bool{}
	var visit func(t types.Type, depth int)
	visit = func(t types.Type, depth int) {
		if depth > 6 {
			return
		}
		switch u := t.(type) {
		case *types.Pointer:
			visit(u.Elem(), depth)
			return
		case *types.Slice:
			visit(u.Elem(), depth+1)
			return
		case *types.Map:
			visit(u.Elem(), depth+1)
			return
		case *types.Named:
			if u.Obj().Pkg() == nil || !(u.Obj().Pkg() == p.Types || u.Obj().Pkg() == w.Parser.Types) {
				return
			}
			name := u.Obj().Pkg().Name() + "." + u.Obj().Name()
			if shared[name] {
				return
			}
			if st, ok := u.Underlying().(*types.Struct); ok {
				shared[name] = true
				for i := 0; i < st.NumFields(); i++ {
					visit(st.Field(i).Type(), depth+1)
				}
			}
		}
	}
	bt := p.Types.Scope().Lookup("Bytecode")
	if bt == nil {
		c.anchor("Bytecode")
		return
	}
	visit(bt.Type(), 0)
	// constants are Objects: the value types that can sit in the constant pool
	for _, t := range append(w.addConstantTypes(), "ImmutableMap", "ImmutableArray", "UserFunction", "Bool", "Undefined", "Bytes", "Time", "Error") {
		if o := p.Types.Scope().Lookup(t); o != nil {
			visit(o.Type(), 0)
		}
	}
	delete(shared, "tengo.ObjectPtr") // per-run closure cells (CompiledFunction.Free of run-time closures)
	c.note("SHARE.1 clone-shared types: %v", sortedKeys(shared))
	seq := seqKeys{}
	sharedSites := map[string][]token.Pos{}
	nStores := 0
	for fn := range reach {
		if !w.inModule(fn) || fn.Blocks == nil {
			continue
		}
		for _, b := range fn.Blocks {
			for _, ins := range b.Instrs {
				// element writes through a container held in a field of a shared object
				sharedHolder := func(v ssa.Value) (string, string, bool) {
					if sl, ok := v.(*ssa.Slice); ok {
						v = sl.X
					}
					u, ok := v.(*ssa.UnOp)
					if !ok || u.Op != token.MUL {
						return "", "", false
					}
					fa, ok := u.X.(*ssa.FieldAddr)
					if !ok {
						return "", "", false
					}
					stt, ok := derefStruct(fa.X.Type())
					if !ok {
						return "", "", false
					}
					tn, pk := namedName(fa.X.Type())
					if pk == nil || !shared[pk.Name()+"."+tn] || isLocalAlloc(fa.X) {
						return "", "", false
					}
					return tn, stt.Field(fa.Field).Name(), true
				}
				// writes that land in a package-level variable of the module
				// (directly, in one of its fields or elements, or through the
				// map / slice / pointer it holds): process-wide state that
				// every VM of every clone shares
				var rootGlobal func(v ssa.Value, depth int) *ssa.Global
				rootGlobal = func(v ssa.Value, depth int) *ssa.Global {
					if depth > 6 {
						return nil
					}
					switch x := v.(type) {
					case *ssa.Global:
						if x.Pkg != nil && w.inModulePkg(x.Pkg.Pkg) {
							return x
						}
					case *ssa.FieldAddr:
						return rootGlobal(x.X, depth+1)
					case *ssa.IndexAddr:
						return rootGlobal(x.X, depth+1)
					case *ssa.UnOp:
						if x.Op == token.MUL {
							return rootGlobal(x.X, depth+1)
						}
					case *ssa.Slice:
						return rootGlobal(x.X, depth+1)
					}
					return nil
				}
				if mu, ok := ins.(*ssa.MapUpdate); ok {
					if g := rootGlobal(mu.Map, 0); g != nil {
						nStores++
						c.fail("global-write/"+g.Pkg.Pkg.Name()+"."+g.Name(), &posNode{mu.Pos()}, "the package-level map "+g.Name()+" (or a map held in it) is written in "+w.ctxKey(mu.Pos())+", a function reachable from VM.Run: all VMs in the process - every clone - share it without synchronisation")
						continue
					}
				}
				if st, ok := ins.(*ssa.Store); ok {
					if _, direct := st.Addr.(*ssa.Global); !direct {
						if g := rootGlobal(st.Addr, 0); g != nil {
							nStores++
							c.fail("global-write/"+g.Pkg.Pkg.Name()+"."+g.Name(), &posNode{st.Pos()}, "the package-level variable "+g.Name()+" (a field or element of it, or the storage it points to) is written in "+w.ctxKey(st.Pos())+", a function reachable from VM.Run: all VMs in the process - every clone - share it without synchronisation")
							continue
						}
					}
				}
				if mu, ok := ins.(*ssa.MapUpdate); ok {
					if tn, fn2, ok := sharedHolder(mu.Map); ok {
						nStores++
						c.fail(seq.next("shared-write/"+w.ctxKey(mu.Pos())+"/"+tn+"."+fn2+"[]"), &posNode{mu.Pos()}, fmt.Sprintf("an element of the map %s.%s is written in a function reachable from VM.Run on an object that may be a constant shared by all clones of a compiled script: concurrent clones race on it (concurrent map write is fatal)", tn, fn2))
					}
					continue
				}
				st, ok := ins.(*ssa.Store)
				if !ok {
					continue
				}
				if ia, ok := st.Addr.(*ssa.IndexAddr); ok {
					if tn, fn2, ok := sharedHolder(ia.X); ok {
						nStores++
						c.fail(seq.next("shared-write/"+w.ctxKey(st.Pos())+"/"+tn+"."+fn2+"[]"), &posNode{st.Pos()}, fmt.Sprintf("an element of %s.%s is written in a function reachable from VM.Run on an object that may be a constant shared by all clones of a compiled script: concurrent clones race on it", tn, fn2))
					}
					continue
				}
				switch a := st.Addr.(type) {
				case *ssa.FieldAddr:
					stt, ok := derefStruct(a.X.Type())
					if !ok {
						continue
					}
					tn, pk := namedName(a.X.Type())
					if pk == nil || !shared[pk.Name()+"."+tn] {
						continue
					}
					nStores++
					f := stt.Field(a.Field)
					ctx := w.ctxKey(st.Pos())
					if isLocalAlloc(a.X) {
						c.ok(seq.next("shared-write/"+ctx+"/"+tn+"."+f.Name()), &posNode{st.Pos()}, "object allocated in the same function (not yet shared)")
						continue
					}
					// a finding is the field, not the function that happens to
					// hold the store: moving the lazy initialisation into a
					// helper is the same (recorded) race
					key := "shared-write/" + tn + "." + f.Name()
					sharedSites[key] = append(sharedSites[key], st.Pos())
				case *ssa.Global:
					if a.Pkg != nil && w.inModulePkg(a.Pkg.Pkg) {
						nStores++
						c.fail("global-write/"+a.Pkg.Pkg.Name()+"."+a.Name(), &posNode{st.Pos()}, "package-level variable "+a.Name()+" is written in "+w.ctxKey(st.Pos())+", a function reachable from VM.Run: all VMs in the process race on it")
					}
				}
			}
		}
	}
	// mutating methods of sync.Map / sync/atomic types on package-level variables
	seenG := map[string]bool{}
	for _, gw := range w.globalWrites(reach) {
		if gw.How == "assigned" || gw.How == "map entry written" {
			continue // reported above
		}
		key := "global-write/" + gw.G.Pkg.Pkg.Name() + "." + gw.G.Name()
		if seenG[key] {
			continue
		}
		seenG[key] = true
		nStores++
		c.fail(key, &posNode{gw.Pos}, "the package-level variable "+gw.G.Name()+" is changed ("+gw.How+") in "+w.ctxKey(gw.Pos)+", a function reachable from VM.Run: all VMs in the process - every clone - share it")
	}
	for _, key := range sortedKeys(sharedSites) {
		ps := sharedSites[key]
		sort.Slice(ps, func(i, j int) bool { return ps[i] < ps[j] })
		var sites []string
		for _, q := range ps {
			sites = append(sites, w.ctxKey(q)+" ("+w.SitePos(q)+")")
		}
		fld := strings.TrimPrefix(key, "shared-write/")
		c.fail(key, &posNode{ps[0]}, fmt.Sprintf("field %s is written in a function reachable from VM.Run on an object that may be a constant shared by all clones of a compiled script: concurrent clones race on it; stores: %s", fld, strings.Join(sites, ", ")))
	}
	c.check(nStores > 0, "shared-write/scan", nil, fmt.Sprintf("%d stores to fields of clone-shared types examined in %d reachable functions", nStores, len(reach)), "no store to a shared type found at all (closure construction in the VM must show up): analysis incomplete")
}

// ---------------------------------------------------------------- STATE.1

type globalWrite struct {
	Pos  token.Pos
	G    *ssa.Global
	How  string
	Func *ssa.Function
}

// globalWrites: writes to package-level variables of the module in the given
// functions - stores whose address chain is rooted in such a variable, map
// updates on maps held in one, and calls of the mutating methods of sync.Map /
// sync/atomic types on one (sync.Pool is POOL.1's, locks are not state).
func (w *World) globalWrites(reach map[*ssa.Function]bool) []globalWrite {
	var out []globalWrite
	var rootGlobal func(v ssa.Value, depth int) *ssa.Global
	rootGlobal = func(v ssa.Value, depth int) *ssa.Global {
		if depth > 6 {
			return nil
		}
		switch x := v.(type) {
		case *ssa.Global:
			if x.Pkg != nil && w.inModulePkg(x.Pkg.Pkg) {
				return x
			}
		case *ssa.FieldAddr:
			return rootGlobal(x.X, depth+1)
		case *ssa.IndexAddr:
			return rootGlobal(x.X, depth+1)
		case *ssa.UnOp:
			if x.Op == token.MUL {
				return rootGlobal(x.X, depth+1)
			}
		case *ssa.Slice:
			return rootGlobal(x.X, depth+1)
		}
		return nil
	}
	mutating := func(name string) bool {
		for _, pre := range []string{"Store", "LoadOrStore", "LoadAndDelete", "Delete", "Swap", "CompareAnd", "Add", "Or", "And", "Clear"} {
			if strings.HasPrefix(name, pre) {
				return true
			}
		}
		return false
	}
	for fn := range reach {
		if !w.inModule(fn) || fn.Blocks == nil || fn.Name() == "init" || strings.HasPrefix(fn.Name(), "init#") {
			continue
		}
		for _, b := range fn.Blocks {
			for _, ins := range b.Instrs {
				switch x := ins.(type) {
				case *ssa.Store:
					if g := rootGlobal(x.Addr, 0); g != nil {
						out = append(out, globalWrite{x.Pos(), g, "assigned", fn})
					}
				case *ssa.MapUpdate:
					if g := rootGlobal(x.Map, 0); g != nil {
						out = append(out, globalWrite{x.Pos(), g, "map entry written", fn})
					}
				case ssa.CallInstruction:
					cc := x.Common()
					callee := cc.StaticCallee()
					if callee == nil || callee.Pkg == nil || len(cc.Args) == 0 {
						continue
					}
					pp := callee.Pkg.Pkg.Path()
					if pp != "sync" && pp != "sync/atomic" {
						continue
					}
					if callee.Signature.Recv() != nil {
						if tn, _ := namedName(callee.Signature.Recv().Type()); tn == "Pool" || tn == "Mutex" || tn == "RWMutex" || tn == "Once" || tn == "WaitGroup" {
							continue
						}
					}
					if !mutating(callee.Name()) {
						continue
					}
					if g := rootGlobal(cc.Args[0], 0); g != nil {
						out = append(out, globalWrite{x.Pos(), g, callee.Name(), fn})
					}
				}
			}
		}
	}
	sort.Slice(out, func(i, j int) bool { return out[i].Pos < out[j].Pos })
	return out
}

// STATE.1 (C12): compiling, de-duplicating, encoding and decoding are
// functions of their inputs. No function reachable from Bytecode.Decode,
// Encode, RemoveDuplicates or the compile entry points writes a package-level
// variable: a cache keyed by module name, say, would make the result of one
// Decode depend on the module map an earlier Decode in the process was given.
func ruleSTATE1(c *Ctx) {
	w := c.W
	entries := append([]*ssa.Function{}, w.c04Entries()...)
	for _, m := range []string{"Decode", "Encode", "RemoveDuplicates", "Clone", "ReplaceBuiltinModule"} {
		entries = append(entries, w.ssaFunc("", "Bytecode", m))
	}
	for i, e := range entries {
		if e == nil {
			c.anchor(fmt.Sprintf("entry point #%d of the compile / encode / decode paths", i))
			return
		}
	}
	reach := w.reachable(entries)
	n := 0
	for fn := range reach {
		if w.inModule(fn) {
			n++
		}
	}
	seen := map[string]bool{}
	for _, gw := range w.globalWrites(reach) {
		key := "package-state/" + gw.G.Pkg.Pkg.Name() + "." + gw.G.Name()
		if seen[key] {
			continue
		}
		seen[key] = true
		c.fail(key, &posNode{gw.Pos}, "the package-level variable "+gw.G.Name()+" is written ("+gw.How+") in "+w.ssaFuncName(gw.Func)+", which the compile / encode / decode paths reach: what one call returns then depends on the calls made before it in the process (and concurrent calls share it)")
	}
	c.check(n > 50, "package-state/scan", nil, fmt.Sprintf("%d module functions reachable from the compile, de-duplication, encode and decode entry points write no package-level variable", n), "too few functions reached: call graph incomplete")
}
