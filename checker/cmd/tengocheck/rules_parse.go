package main

// rules_parse.go: C20 — PREC.1, LIT.1, PRINT.1-2, SEMI.1; C01 — SEM.1-2.

import (
	"fmt"
	"go/ast"
	"go/token"
	"go/types"
	"regexp"
	"sort"
	"strings"
)

// tokenPrecedences: token name -> precedence, from Token.Precedence()'s switch.
func (w *World) tokenPrecedences() map[string]int {
	p := w.Token
	out := map[string]int{}
	fd := w.FuncDecl(p, "Token.Precedence")
	if fd == nil {
		return out
	}
	ast.Inspect(fd.Body, func(n ast.Node) bool {
		cc, ok := n.(*ast.CaseClause)
		if !ok || cc.List == nil || len(cc.Body) != 1 {
			return true
		}
		r, ok := cc.Body[0].(*ast.ReturnStmt)
		if !ok || len(r.Results) != 1 {
			return true
		}
		k, ok := ConstInt(p, r.Results[0])
		if !ok {
			return true
		}
		for _, e := range cc.List {
			if co := ConstObj(p, e); co != nil {
				out[co.Name()] = int(k)
			}
		}
		return true
	})
	return out
}

var precRowRe = regexp.MustCompile("^\\|\\s*([0-9]+)\\s*\\|(.*)\\|\\s*$")
var backtickRe = regexp.MustCompile("`([^`]+)`")

func rulePREC1(c *Ctx) {
	w := c.W
	p := w.Parser
	prec := w.tokenPrecedences()
	spell := w.tokenSpelling()
	if len(prec) < 15 || len(spell) < 40 {
		c.anchor("Token.Precedence / token spellings")
		return
	}
	doc, err := readRepoFile(w, "docs/tutorial.md")
	if err != nil {
		c.anchor("docs/tutorial.md")
		return
	}
	i := strings.Index(doc, "### Operator Precedences")
	if i < 0 {
		c.anchor("Operator Precedences section of docs/tutorial.md")
		return
	}
	documented := map[string]int{}
	for _, line := range strings.Split(doc[i:], "\n")[1:] {
		if strings.HasPrefix(line, "### ") {
			break
		}
		m := precRowRe.FindStringSubmatch(strings.TrimSpace(line))
		if m == nil {
			continue
		}
		var lvl int
		fmt.Sscanf(m[1], "%d", &lvl)
		for _, bt := range backtickRe.FindAllStringSubmatch(m[2], -1) {
			op := strings.ReplaceAll(bt[1], "\\|", "|")
			documented[strings.TrimSpace(op)] = lvl
		}
	}
	implemented := map[string]int{}
	for tok, lv := range prec {
		implemented[spell[tok]] = lv
	}
	ops := map[string]bool{}
	for k := range documented {
		ops[k] = true
	}
	for k := range implemented {
		ops[k] = true
	}
	for _, op := range sortedKeys(ops) {
		d, okd := documented[op]
		im, oki := implemented[op]
		c.check(okd && oki && d == im, "prec/"+op, w.FuncDecl(w.Token, "Token.Precedence"), fmt.Sprintf("documented and implemented precedence %d", d), fmt.Sprintf("operator %s: documented precedence %d (present %v), Token.Precedence() gives %d (present %v)", op, d, okd, im, oki))
	}
	// parseBinaryExpr: precedence climbing, left associative
	pb := w.FuncDecl(p, "Parser.parseBinaryExpr")
	if pb == nil {
		c.anchor("parseBinaryExpr")
		return
	}
	var probs []string
	// x := p.parseUnaryExpr()
	if !containsNode(pb.Body, func(n ast.Node) bool {
		call, ok := n.(*ast.CallExpr)
		return ok && isMethodOf(Callee(p, call), p.Types, "Parser", "parseUnaryExpr")
	}) {
		probs = append(probs, "operands are not parsed by parseUnaryExpr (unary must bind tighter than every binary level)")
	}
	// if prec < prec1 { return x }
	stop := containsNode(pb.Body, func(n ast.Node) bool {
		is, ok := n.(*ast.IfStmt)
		if !ok {
			return false
		}
		b, ok := ast.Unparen(is.Cond).(*ast.BinaryExpr)
		if !ok {
			return false
		}
		op, bx, by := lessForm(b)
		if op != token.LSS {
			return false
		}
		_, lok := ast.Unparen(bx).(*ast.Ident)
		rid, rok := ast.Unparen(by).(*ast.Ident)
		if !lok || !rok {
			return false
		}
		// right side is the function's parameter
		isParam := false
		for _, f := range pb.Type.Params.List {
			for _, nm := range f.Names {
				if p.TypesInfo.Defs[nm] == p.TypesInfo.Uses[rid] {
					isParam = true
				}
			}
		}
		return isParam && terminates(is.Body)
	})
	if !stop {
		probs = append(probs, "loop does not stop with `if prec < prec1 { return x }`")
	}
	// y := p.parseBinaryExpr(prec + 1)
	rec := containsNode(pb.Body, func(n ast.Node) bool {
		call, ok := n.(*ast.CallExpr)
		if !ok || !isMethodOf(Callee(p, call), p.Types, "Parser", "parseBinaryExpr") || len(call.Args) != 1 {
			return false
		}
		b, ok := ast.Unparen(call.Args[0]).(*ast.BinaryExpr)
		if !ok || b.Op != token.ADD {
			return false
		}
		k, okc := ConstInt(p, b.Y)
		return okc && k == 1
	})
	if !rec {
		probs = append(probs, "right operand is not parsed with parseBinaryExpr(prec + 1) (left associativity)")
	}
	// prec comes from p.token.Precedence()
	fromTok := containsNode(pb.Body, func(n ast.Node) bool {
		call, ok := n.(*ast.CallExpr)
		return ok && Callee(p, call) != nil && Callee(p, call).Name() == "Precedence"
	})
	if !fromTok {
		probs = append(probs, "precedence is not taken from Token.Precedence()")
	}
	// node built with LHS: x, RHS: y
	built := containsNode(pb.Body, func(n ast.Node) bool {
		cl, ok := n.(*ast.CompositeLit)
		if !ok {
			return false
		}
		tn, _ := namedName(p.TypesInfo.Types[cl].Type)
		if tn != "BinaryExpr" {
			return false
		}
		f := map[string]ast.Expr{}
		for _, e := range cl.Elts {
			if kv, ok := e.(*ast.KeyValueExpr); ok {
				f[w.Src(kv.Key)] = kv.Value
			}
		}
		// LHS: the variable that holds the operand parsed by parseUnaryExpr (the
		// accumulated left side); RHS: the variable holding the recursive result
		definedBy := func(callee string) types.Object {
			var o types.Object
			ast.Inspect(pb.Body, func(m ast.Node) bool {
				as, ok := m.(*ast.AssignStmt)
				if !ok || len(as.Lhs) != 1 || len(as.Rhs) != 1 || as.Tok != token.DEFINE {
					return true
				}
				if call, ok := as.Rhs[0].(*ast.CallExpr); ok && isMethodOf(Callee(p, call), p.Types, "Parser", callee) {
					if id, ok := as.Lhs[0].(*ast.Ident); ok {
						o = p.TypesInfo.Defs[id]
					}
				}
				return true
			})
			return o
		}
		return f["LHS"] != nil && f["RHS"] != nil && f["Token"] != nil && isObj(p, f["LHS"], definedBy("parseUnaryExpr")) && isObj(p, f["RHS"], definedBy("parseBinaryExpr"))
	})
	if !built {
		probs = append(probs, "BinaryExpr is not built as {LHS: accumulated left, RHS: new right operand}")
	}
	c.check(len(probs) == 0, "climb/parseBinaryExpr", pb, "precedence climbing: unary operands, stop below prec1, right operand at prec+1", strings.Join(probs, "; "))
	pe := w.FuncDecl(p, "Parser.parseExpr")
	if pe != nil {
		good := containsNode(pe.Body, func(n ast.Node) bool {
			call, ok := n.(*ast.CallExpr)
			if !ok || !isMethodOf(Callee(p, call), p.Types, "Parser", "parseBinaryExpr") || len(call.Args) != 1 {
				return false
			}
			return strings.Contains(w.Src(call.Args[0]), "LowestPrec + 1") || strings.Contains(w.Src(call.Args[0]), "LowestPrec+1")
		}) && containsNode(pe.Body, func(n ast.Node) bool {
			is, ok := n.(*ast.IfStmt)
			return ok && strings.Contains(w.Src(is.Cond), "token.Question") && containsNode(is.Body, func(m ast.Node) bool {
				call, ok := m.(*ast.CallExpr)
				return ok && isMethodOf(Callee(p, call), p.Types, "Parser", "parseCondExpr")
			})
		})
		c.check(good, "climb/parseExpr", pe, "all binary levels first, the ternary last", "parseExpr does not parse the binary levels from LowestPrec+1 and then the ternary")
	}
	pu := w.FuncDecl(p, "Parser.parseUnaryExpr")
	if pu != nil {
		toks := map[string]bool{}
		ast.Inspect(pu.Body, func(n ast.Node) bool {
			if cc, ok := n.(*ast.CaseClause); ok {
				for _, e := range cc.List {
					if co := ConstObj(p, e); co != nil {
						toks[co.Name()] = true
					}
				}
			}
			return true
		})
		rec := containsNode(pu.Body, func(n ast.Node) bool {
			call, ok := n.(*ast.CallExpr)
			return ok && isMethodOf(Callee(p, call), p.Types, "Parser", "parseUnaryExpr")
		})
		prim := containsNode(pu.Body, func(n ast.Node) bool {
			call, ok := n.(*ast.CallExpr)
			return ok && isMethodOf(Callee(p, call), p.Types, "Parser", "parsePrimaryExpr")
		})
		want := map[string]bool{"Add": true, "Sub": true, "Not": true, "Xor": true}
		c.check(sameSet(toks, want) && rec && prim, "climb/parseUnaryExpr", pu, "unary + - ! ^ nest and end in a primary expression", fmt.Sprintf("parseUnaryExpr handles %s (expected + - ! ^), recursive=%v primary=%v", setStr(toks), rec, prim))
	}
}

// ---------------------------------------------------------------- SEM.1 / SEM.2

func ruleSEM(c *Ctx) {
	w := c.W
	p := w.Root
	comp := w.FuncDecl(p, "Compiler.Compile")
	if comp == nil {
		c.anchor("Compiler.Compile")
		return
	}
	// SEM.1: node exhaustiveness
	arms := map[string]bool{}
	var ts *ast.TypeSwitchStmt
	ast.Inspect(comp.Body, func(n ast.Node) bool {
		if t, ok := n.(*ast.TypeSwitchStmt); ok && ts == nil {
			ts = t
		}
		return true
	})
	if ts == nil {
		c.anchor("type switch of Compile")
		return
	}
	for _, cs := range ts.Body.List {
		for _, e := range cs.(*ast.CaseClause).List {
			if tv, ok := p.TypesInfo.Types[e]; ok && tv.IsType() {
				tn, _ := namedName(tv.Type)
				arms[tn] = true
			}
		}
	}
	exempt := map[string]string{
		"BadExpr": "never survives ParseFile (a parse error is reported)", "BadStmt": "never survives ParseFile",
		"EmptyStmt": "compiles to nothing", "FuncType": "compiled inside FuncLit", "MapElementLit": "compiled inside MapLit",
		"IdentList": "compiled inside FuncType",
	}
	sc := w.Parser.Types.Scope()
	var exprI, stmtI, nodeI *types.Interface
	if o := sc.Lookup("Expr"); o != nil {
		exprI, _ = o.Type().Underlying().(*types.Interface)
	}
	if o := sc.Lookup("Stmt"); o != nil {
		stmtI, _ = o.Type().Underlying().(*types.Interface)
	}
	if o := sc.Lookup("Node"); o != nil {
		nodeI, _ = o.Type().Underlying().(*types.Interface)
	}
	if exprI == nil || stmtI == nil {
		c.anchor("parser.Expr / parser.Stmt")
		return
	}
	_ = nodeI
	for _, n := range sc.Names() {
		tn, ok := sc.Lookup(n).(*types.TypeName)
		if !ok {
			continue
		}
		if _, isStruct := tn.Type().Underlying().(*types.Struct); !isStruct {
			continue
		}
		pt := types.NewPointer(tn.Type())
		if !types.Implements(pt, exprI) && !types.Implements(pt, stmtI) {
			continue
		}
		if why, ok := exempt[n]; ok {
			c.ok("SEM.1/node/"+n, nil, "tabled: "+why)
			continue
		}
		c.check(arms[n], "SEM.1/node/"+n, ts, "has an arm in Compile", "AST node type "+n+" has no arm in Compiler.Compile: it would compile to nothing without an error")
	}
	c.check(arms["File"], "SEM.1/node/File", ts, "has an arm in Compile", "parser.File has no arm in Compile")
	// Compile must not have a default arm that silently succeeds… it ends with return nil; covered by exhaustiveness

	// SEM.2: binary operators
	prec := w.tokenPrecedences()
	binArm := w.compileArm("BinaryExpr")
	if binArm == nil {
		c.anchor("BinaryExpr arm")
		return
	}
	handled := map[string]string{}
	ast.Inspect(binArm, func(n ast.Node) bool {
		cc, ok := n.(*ast.CaseClause)
		if !ok || cc == binArm || cc.List == nil {
			return true
		}
		for _, e := range cc.List {
			co := ConstObj(p, e)
			if co == nil || co.Pkg() != w.Token.Types {
				continue
			}
			// what does the arm emit?
			em := ""
			ast.Inspect(cc, func(m ast.Node) bool {
				call, ok := m.(*ast.CallExpr)
				if ok && isMethodOf(Callee(p, call), p.Types, "Compiler", "emit") && len(call.Args) >= 2 {
					parts := []string{}
					for _, a := range call.Args[1:] {
						parts = append(parts, w.Src(a))
					}
					em = strings.Join(parts, ",")
				}
				return true
			})
			// `case token.Add, token.Sub, …: emit(OpBinaryOp, int(node.Token))`:
			// inside the clause the switch tag *is* the listed token
			ast.Inspect(binArm, func(m ast.Node) bool {
				sw, ok := m.(*ast.SwitchStmt)
				if !ok || sw.Tag == nil {
					return true
				}
				for _, cl := range sw.Body.List {
					if cl == ast.Stmt(cc) {
						em = strings.ReplaceAll(em, w.Src(sw.Tag), "token."+co.Name())
					}
				}
				return true
			})
			handled[co.Name()] = em
		}
		return true
	})
	// logical operators are dispatched before the switch
	logical := map[string]bool{}
	ast.Inspect(binArm, func(n ast.Node) bool {
		is, ok := n.(*ast.IfStmt)
		if !ok || !containsNode(is.Body, func(m ast.Node) bool {
			call, ok := m.(*ast.CallExpr)
			return ok && isMethodOf(Callee(p, call), p.Types, "Compiler", "compileLogical")
		}) {
			return true
		}
		ast.Inspect(is.Cond, func(m ast.Node) bool {
			if co := ConstObj(p, exprOf(m)); co != nil && co.Pkg() == w.Token.Types {
				logical[co.Name()] = true
			}
			return true
		})
		return true
	})
	for _, tok := range sortedKeys(prec) {
		key := "SEM.2/binary/" + tok
		if logical[tok] {
			c.ok(key, binArm, "compiled by compileLogical")
			continue
		}
		em, ok := handled[tok]
		if !ok {
			c.fail(key, binArm, "binary operator token "+tok+" (precedence "+fmt.Sprint(prec[tok])+") has no arm in the compiler's BinaryExpr switch")
			continue
		}
		want := "parser.OpBinaryOp,int(token." + tok + ")"
		switch tok {
		case "Equal":
			want = "parser.OpEqual"
		case "NotEqual":
			want = "parser.OpNotEqual"
		}
		c.check(em == want, key, binArm, "emits "+want, fmt.Sprintf("the arm for %s emits %s (expected %s): the operator would compute something else", tok, em, want))
	}
	for _, tok := range sortedKeys(handled) {
		if _, ok := prec[tok]; !ok {
			c.fail("SEM.2/binary-extra/"+tok, binArm, "compiler handles "+tok+" as a binary operator but Token.Precedence() gives it no level (the parser can never produce it)")
		}
	}
	// compound assignment: XAssign emits X
	ca := w.FuncDecl(p, "Compiler.compileAssign")
	if ca == nil {
		c.anchor("compileAssign")
		return
	}
	assignArms := map[string]string{}
	ast.Inspect(ca.Body, func(n ast.Node) bool {
		cc, ok := n.(*ast.CaseClause)
		if !ok || cc.List == nil {
			return true
		}
		for _, e := range cc.List {
			co := ConstObj(p, e)
			if co == nil || co.Pkg() != w.Token.Types || !strings.HasSuffix(co.Name(), "Assign") || co.Name() == "Assign" {
				continue
			}
			ast.Inspect(cc, func(m ast.Node) bool {
				call, ok := m.(*ast.CallExpr)
				if ok && isMethodOf(Callee(p, call), p.Types, "Compiler", "emit") && len(call.Args) == 3 {
					assignArms[co.Name()] = w.Src(call.Args[1]) + "," + w.Src(call.Args[2])
				}
				return true
			})
		}
		return true
	})
	// tokens the parser accepts as compound assignment
	accepted := map[string]bool{}
	ps := w.FuncDecl(w.Parser, "Parser.parseSimpleStmt")
	if ps != nil {
		ast.Inspect(ps.Body, func(n ast.Node) bool {
			cc, ok := n.(*ast.CaseClause)
			if !ok {
				return true
			}
			for _, e := range cc.List {
				if co := ConstObj(w.Parser, e); co != nil && strings.HasSuffix(co.Name(), "Assign") && co.Name() != "Assign" {
					accepted[co.Name()] = true
				}
			}
			return true
		})
	}
	for _, tok := range sortedKeys(accepted) {
		base := strings.TrimSuffix(tok, "Assign")
		want := "parser.OpBinaryOp,int(token." + base + ")"
		got, ok := assignArms[tok]
		c.check(ok && got == want, "SEM.2/assign/"+tok, ca, "emits the binary operator "+base, fmt.Sprintf("compound assignment %s emits %q (expected %s)", tok, got, want))
	}
	for _, tok := range sortedKeys(assignArms) {
		if !accepted[tok] {
			c.fail("SEM.2/assign-extra/"+tok, ca, "compileAssign handles "+tok+" which the parser never produces")
		}
	}
	// ++ / -- map to += 1 / -= 1
	inc := w.compileArm("IncDecStmt")
	if inc != nil {
		has := func(name string) bool {
			return containsNode(inc, func(n ast.Node) bool {
				co := ConstObj(p, exprOf(n))
				return co != nil && co.Name() == name && co.Pkg() == w.Token.Types
			})
		}
		one := containsNode(inc, func(n ast.Node) bool {
			cl, ok := n.(*ast.CompositeLit)
			if !ok {
				return false
			}
			tn, _ := namedName(p.TypesInfo.Types[cl].Type)
			if tn != "IntLit" {
				return false
			}
			for _, e := range cl.Elts {
				if kv, ok := e.(*ast.KeyValueExpr); ok && w.Src(kv.Key) == "Value" {
					k, ok := ConstInt(p, kv.Value)
					return ok && k == 1
				}
			}
			return false
		})
		// op starts as AddAssign and becomes SubAssign exactly when the token is Dec
		shape := containsNode(inc, func(n ast.Node) bool {
			is, ok := n.(*ast.IfStmt)
			if !ok {
				return false
			}
			b, ok := ast.Unparen(is.Cond).(*ast.BinaryExpr)
			if !ok || b.Op != token.EQL {
				return false
			}
			co := ConstObj(p, b.Y)
			return co != nil && co.Name() == "Dec" && containsNode(is.Body, func(m ast.Node) bool {
				c2 := ConstObj(p, exprOf(m))
				return c2 != nil && c2.Name() == "SubAssign"
			})
		})
		good := has("AddAssign") && has("SubAssign") && has("Dec") && one && shape
		c.check(good, "SEM.2/incdec", inc, "++/-- compile as += 1 / -= 1", "IncDecStmt is not compiled as `+= 1` (and `-= 1` for --)")
	}
	// unary operators
	un := w.compileArm("UnaryExpr")
	if un != nil {
		// what the arm emits for each unary token, whatever the dispatch on
		// node.Token is written as (switch or if-chain); a token for which it
		// returns an error is not a unary operator
		um := map[string]string{}
		isTok := func(e ast.Expr) bool {
			f, _ := FieldSel(p, e)
			return f != nil && f.Name() == "Token" && namedIs(p.TypesInfo.TypeOf(ast.Unparen(e).(*ast.SelectorExpr).X), w.Parser.Types, "UnaryExpr")
		}
		tk := w.Token.Types.Scope()
		for _, tname := range tk.Names() {
			co, ok := tk.Lookup(tname).(*types.Const)
			if !ok || !strings.HasSuffix(co.Type().String(), "token.Token") {
				continue
			}
			run := execFor(p, un.Body, isTok, co)
			em, rejected := "", false
			for _, st := range run {
				ast.Inspect(st, func(m ast.Node) bool {
					switch y := m.(type) {
					case *ast.CallExpr:
						if isMethodOf(Callee(p, y), p.Types, "Compiler", "emit") && len(y.Args) == 2 {
							em = w.Src(y.Args[1])
						}
						if isMethodOf(Callee(p, y), p.Types, "Compiler", "errorf") {
							rejected = true
						}
					}
					return true
				})
			}
			if !rejected {
				um[co.Name()] = em
			}
		}
		want := map[string]string{"Not": "parser.OpLNot", "Sub": "parser.OpMinus", "Xor": "parser.OpBComplement", "Add": ""}
		good := len(um) == len(want)
		for k, v := range want {
			if um[k] != v {
				good = false
			}
		}
		c.check(good, "SEM.2/unary", un, "! - ^ + map to LNOT / MINUS / BCOMPLEMENT / nothing", fmt.Sprintf("unary operator arms are %v", um))
	}
}

func exprOf(n ast.Node) ast.Expr {
	e, _ := n.(ast.Expr)
	if e == nil {
		return &ast.BadExpr{}
	}
	return e
}

// ---------------------------------------------------------------- LIT.1

func ruleLIT1(c *Ctx) {
	w := c.W
	p := w.Parser
	po := w.FuncDecl(p, "Parser.parseOperand")
	if po == nil {
		c.anchor("parseOperand")
		return
	}
	arm := func(tok string) *ast.CaseClause {
		var res *ast.CaseClause
		ast.Inspect(po.Body, func(n ast.Node) bool {
			cc, ok := n.(*ast.CaseClause)
			if !ok {
				return true
			}
			for _, e := range cc.List {
				if co := ConstObj(p, e); co != nil && co.Name() == tok && co.Pkg() == w.Token.Types {
					res = cc
				}
			}
			return true
		})
		// an arm that just returns a private method's result is that method's body
		if res != nil && len(res.Body) == 1 {
			if r, ok := res.Body[0].(*ast.ReturnStmt); ok && len(r.Results) == 1 {
				if call, ok := ast.Unparen(r.Results[0]).(*ast.CallExpr); ok {
					if hd := gHelpers[call]; hd != nil && hd.Body != nil {
						return &ast.CaseClause{Case: hd.Body.Pos(), Colon: hd.Body.Pos(), List: res.List, Body: hd.Body.List}
					}
				}
			}
		}
		return res
	}
	checkConv := func(tok, fn string, args []string, needErr bool) {
		cc := arm(tok)
		key := "literal/" + tok
		if cc == nil {
			c.fail(key, po, "no arm for "+tok+" literals")
			return
		}
		var call *ast.CallExpr
		ast.Inspect(cc, func(n ast.Node) bool {
			if x, ok := n.(*ast.CallExpr); ok && FuncFullName(Callee(p, x)) == fn {
				call = x
			}
			return true
		})
		if call == nil {
			c.fail(key, cc, tok+" literals are not converted by "+fn)
			return
		}
		var probs []string
		src := call.Args[0]
		// (the text may have been read into a local first: `lit := p.tokenLit`)
		if d := singleDef(p, funcDeclAt(p, call.Pos()), src); d != nil {
			src = d
		}
		if f, _ := FieldSel(p, src); f == nil || f.Name() != "tokenLit" {
			probs = append(probs, "converts "+w.Src(call.Args[0])+" instead of the token's literal text")
		}
		for i, a := range args {
			if i+1 >= len(call.Args) || w.Src(call.Args[i+1]) != a {
				probs = append(probs, fmt.Sprintf("argument %d is not %s", i+2, a))
			}
		}
		if needErr {
			rep := containsNode(cc, func(n ast.Node) bool {
				is, ok := n.(*ast.IfStmt)
				if !ok {
					return false
				}
				// the final else-if / if `err != nil` reports an error
				found := false
				var walk func(s ast.Stmt)
				walk = func(s ast.Stmt) {
					if x, ok := s.(*ast.IfStmt); ok {
						isErrNotNil := containsNode(x.Cond, func(m ast.Node) bool {
							b, ok := m.(*ast.BinaryExpr)
							if !ok || b.Op != token.NEQ || !isNilIdent(b.Y) {
								return false
							}
							t := p.TypesInfo.Types[b.X].Type
							return t != nil && types.TypeString(t, nil) == "error"
						})
						if isErrNotNil && containsNode(x.Body, func(m ast.Node) bool {
							cl, ok := m.(*ast.CallExpr)
							return ok && isMethodOf(Callee(p, cl), p.Types, "Parser", "error")
						}) {
							found = true
						}
						if x.Else != nil {
							walk(x.Else)
						}
					}
				}
				walk(is)
				return found
			})
			if !rep {
				probs = append(probs, "a conversion error is not reported as a parse error")
			}
		}
		// the converted value is the node's Value
		valOK := containsNode(cc, func(n ast.Node) bool {
			cl, ok := n.(*ast.CompositeLit)
			if !ok {
				return false
			}
			for _, e := range cl.Elts {
				if kv, ok := e.(*ast.KeyValueExpr); ok && w.Src(kv.Key) == "Value" {
					if id, ok := kv.Value.(*ast.Ident); ok {
						// defined by the conversion call
						obj := p.TypesInfo.Uses[id]
						def := false
						ast.Inspect(cc, func(m ast.Node) bool {
							as, ok := m.(*ast.AssignStmt)
							if ok && len(as.Rhs) == 1 && as.Rhs[0] == ast.Expr(call) {
								if lid, ok := as.Lhs[0].(*ast.Ident); ok && p.TypesInfo.Defs[lid] == obj {
									def = true
								}
							}
							return true
						})
						return def
					}
				}
			}
			return false
		})
		if !valOK {
			probs = append(probs, "the literal node's Value is not the conversion's first result")
		}
		// the conversion's verdict stands: its results are not written again
		// (a second attempt with another conversion after a failure, a value
		// patched up on the error path)
		resObjs := map[types.Object]bool{}
		ast.Inspect(cc, func(n ast.Node) bool {
			if as, ok := n.(*ast.AssignStmt); ok && len(as.Rhs) == 1 && as.Rhs[0] == ast.Expr(call) {
				for _, l := range as.Lhs {
					if id, ok := l.(*ast.Ident); ok && id.Name != "_" {
						resObjs[p.TypesInfo.ObjectOf(id)] = true
					}
				}
			}
			return true
		})
		ast.Inspect(cc, func(n ast.Node) bool {
			as, ok := n.(*ast.AssignStmt)
			if !ok || (len(as.Rhs) == 1 && as.Rhs[0] == ast.Expr(call)) {
				return true
			}
			for _, l := range as.Lhs {
				if id, ok := l.(*ast.Ident); ok && resObjs[p.TypesInfo.ObjectOf(id)] {
					probs = append(probs, "the result "+id.Name+" of "+fn+" is overwritten ("+w.Src(as)+"): the literal no longer denotes what "+fn+" says it denotes (or its error is dropped)")
				}
			}
			return true
		})
		c.check(len(probs) == 0, key, cc, fn+"(tokenLit, "+strings.Join(args, ", ")+")", strings.Join(probs, "; "))
	}
	checkConv("Int", "strconv.ParseInt", []string{"0", "64"}, true)
	checkConv("Float", "strconv.ParseFloat", []string{"64"}, true)
	checkConv("String", "strconv.Unquote", nil, false)
	// char: UnquoteChar(tokenLit[1:n-1], '\'')
	pc := w.FuncDecl(p, "Parser.parseCharLit")
	if pc == nil {
		c.anchor("parseCharLit")
		return
	}
	good := containsNode(pc.Body, func(n ast.Node) bool {
		call, ok := n.(*ast.CallExpr)
		if !ok || FuncFullName(Callee(p, call)) != "strconv.UnquoteChar" || len(call.Args) != 2 {
			return false
		}
		q, okq := ConstInt(p, call.Args[1])
		se, oks := ast.Unparen(call.Args[0]).(*ast.SliceExpr)
		if !oks || se.Low == nil {
			return false
		}
		f, _ := FieldSel(p, se.X)
		lo, okl := ConstInt(p, se.Low)
		return f != nil && f.Name() == "tokenLit" && okl && lo == 1 && okq && q == 39
	}) && containsNode(pc.Body, func(n ast.Node) bool {
		call, ok := n.(*ast.CallExpr)
		return ok && isMethodOf(Callee(p, call), p.Types, "Parser", "error")
	})
	c.check(good, "literal/Char", pc, "strconv.UnquoteChar(tokenLit[1:n-1], '\\''), errors reported", "char literals are not converted by strconv.UnquoteChar on the text between the quotes with the single-quote rule (or errors are not reported)")
}

// ---------------------------------------------------------------- PRINT.1-2

func rulePRINT(c *Ctx) {
	w := c.W
	p := w.Parser
	// PRINT.1: compound printers parenthesise and spell operators through Token.String()
	for _, tn := range []string{"BinaryExpr", "UnaryExpr", "CondExpr"} {
		fd := w.FuncDecl(p, tn+".String")
		key := "PRINT.1/" + tn
		if fd == nil || len(fd.Body.List) != 1 {
			c.fail(key, fd, tn+".String is not a single return of a concatenation")
			continue
		}
		r, ok := fd.Body.List[0].(*ast.ReturnStmt)
		if !ok || len(r.Results) != 1 {
			c.fail(key, fd, tn+".String is not a single return")
			continue
		}
		var parts []ast.Expr
		var flat func(e ast.Expr)
		flat = func(e ast.Expr) {
			if b, ok := ast.Unparen(e).(*ast.BinaryExpr); ok && b.Op == token.ADD {
				flat(b.X)
				flat(b.Y)
				return
			}
			parts = append(parts, e)
		}
		flat(r.Results[0])
		lit := func(e ast.Expr) string {
			if tv, ok := p.TypesInfo.Types[e]; ok && tv.Value != nil {
				return strings.Trim(tv.Value.ExactString(), "\"")
			}
			return "\x00"
		}
		var probs []string
		if len(parts) < 3 || !strings.HasPrefix(lit(parts[0]), "(") || !strings.HasSuffix(lit(parts[len(parts)-1]), ")") {
			probs = append(probs, "printed form does not begin with \"(\" and end with \")\"")
		}
		if tn != "CondExpr" {
			tokS := false
			for _, e := range parts {
				if strings.HasSuffix(w.Src(e), ".Token.String()") {
					tokS = true
				}
			}
			if !tokS {
				probs = append(probs, "operator is not spelled through Token.String()")
			}
		} else {
			s := w.Src(r.Results[0])
			if !strings.Contains(s, "\" ? \"") || !strings.Contains(s, "\" : \"") {
				probs = append(probs, "ternary is not printed with ? and :")
			}
		}
		// operand order
		order := []string{}
		for _, e := range parts {
			s := w.Src(e)
			if strings.HasSuffix(s, ".String()") && !strings.HasSuffix(s, ".Token.String()") {
				order = append(order, strings.TrimSuffix(strings.TrimPrefix(s, recvName(fd)+"."), ".String()"))
			}
		}
		wantOrder := map[string]string{"BinaryExpr": "LHS,RHS", "UnaryExpr": "Expr", "CondExpr": "Cond,True,False"}[tn]
		if strings.Join(order, ",") != wantOrder {
			probs = append(probs, "operands printed in order "+strings.Join(order, ",")+" (expected "+wantOrder+")")
		}
		c.check(len(probs) == 0, key, fd, "self-delimiting: (…) around "+wantOrder, strings.Join(probs, "; "))
	}
	// PRINT.2: every Expr/Stmt printer mentions each child field
	sc := p.Types.Scope()
	exprT, stmtT := sc.Lookup("Expr"), sc.Lookup("Stmt")
	if exprT == nil || stmtT == nil {
		c.anchor("parser.Expr / Stmt")
		return
	}
	exprI, _ := exprT.Type().Underlying().(*types.Interface)
	stmtI, _ := stmtT.Type().Underlying().(*types.Interface)
	isChild := func(t types.Type) bool {
		switch u := t.(type) {
		case *types.Slice:
			t = u.Elem()
		}
		if types.IsInterface(t) {
			return types.Identical(t, exprT.Type()) || types.Identical(t, stmtT.Type())
		}
		if pt, ok := t.(*types.Pointer); ok {
			return types.Implements(pt, exprI) || types.Implements(pt, stmtI) || func() bool {
				n, _ := namedName(pt)
				return n == "FuncType" || n == "IdentList" || n == "BlockStmt" || n == "MapElementLit"
			}()
		}
		return false
	}
	skipField := map[string]string{
		"ForInStmt.Key": "", // printed (checked below like the others)
	}
	_ = skipField
	names := sc.Names()
	sort.Strings(names)
	for _, n := range names {
		tn, ok := sc.Lookup(n).(*types.TypeName)
		if !ok {
			continue
		}
		st, ok := tn.Type().Underlying().(*types.Struct)
		if !ok {
			continue
		}
		pt := types.NewPointer(tn.Type())
		if !types.Implements(pt, exprI) && !types.Implements(pt, stmtI) {
			continue
		}
		fd := w.FuncDecl(p, n+".String")
		if fd == nil {
			c.fail("PRINT.2/"+n, nil, "node type "+n+" has no String method")
			continue
		}
		src := w.Src2(fd.Body)
		var missing []string
		for i := 0; i < st.NumFields(); i++ {
			f := st.Field(i)
			if !isChild(f.Type()) {
				continue
			}
			if !strings.Contains(src, "."+f.Name()) {
				missing = append(missing, f.Name())
			}
		}
		if n == "BadExpr" || n == "BadStmt" {
			continue
		}
		c.check(len(missing) == 0, "PRINT.2/"+n, fd, "printed form mentions every child", fmt.Sprintf("%s.String() omits child field(s) %v: they cannot survive print-and-reparse", n, missing))
	}
}

// Src2 prints a node without truncation.
func (w *World) Src2(n ast.Node) string {
	s := w.Src(&ast.BadExpr{})
	_ = s
	var b strings.Builder
	ast.Inspect(n, func(m ast.Node) bool {
		if se, ok := m.(*ast.SelectorExpr); ok {
			b.WriteString("." + se.Sel.Name + " ")
		}
		return true
	})
	return b.String()
}

// ---------------------------------------------------------------- SEMI.1

func ruleSEMI1(c *Ctx) {
	w := c.W
	p := w.Parser
	sc := w.FuncDecl(p, "Scanner.Scan")
	if sc == nil {
		c.anchor("Scanner.Scan")
		return
	}
	// (a) identifier/keyword arm
	// the per-token flag: the local variable that Scan stores into the field
	// insertSemi (whatever it is called)
	var flagObj types.Object
	ast.Inspect(sc.Body, func(n ast.Node) bool {
		as, ok := n.(*ast.AssignStmt)
		if !ok || len(as.Lhs) != 1 || len(as.Rhs) != 1 {
			return true
		}
		if f, _ := FieldSel(p, as.Lhs[0]); f != nil && f.Name() == "insertSemi" {
			if id, ok := ast.Unparen(as.Rhs[0]).(*ast.Ident); ok {
				if v, ok := p.TypesInfo.Uses[id].(*types.Var); ok && !v.IsField() {
					flagObj = v
				}
			}
		}
		return true
	})
	isFlag := func(e ast.Expr) bool { return isObj(p, e, flagObj) }
	// a condition like `tok == token.Inc`, described without the variable's name
	condStr := func(e ast.Expr) string {
		if b, ok := ast.Unparen(e).(*ast.BinaryExpr); ok {
			if _, isId := ast.Unparen(b.X).(*ast.Ident); isId {
				return "tok " + b.Op.String() + " " + w.Src(b.Y)
			}
		}
		return w.Src(e)
	}
	isDigitTest := func(e ast.Expr) bool {
		lo, hi := false, false
		ast.Inspect(e, func(m ast.Node) bool {
			if k, ok := m.(ast.Expr); ok {
				if v, ok := ConstInt(p, k); ok {
					lo = lo || v == '0'
					hi = hi || v == '9'
				}
			}
			return true
		})
		return lo && hi
	}
	kw := map[string]bool{}
	chars := map[string]string{}
	numbers := false
	setsTrue := func(n ast.Node) bool {
		return containsNode(n, func(m ast.Node) bool {
			as, ok := m.(*ast.AssignStmt)
			return ok && len(as.Lhs) == 1 && isFlag(as.Lhs[0]) && w.Src(as.Rhs[0]) == "true"
		})
	}
	ast.Inspect(sc.Body, func(n ast.Node) bool {
		cc, ok := n.(*ast.CaseClause)
		if !ok || cc.List == nil {
			return true
		}
		for _, e := range cc.List {
			if co := ConstObj(p, e); co != nil && co.Pkg() == w.Token.Types {
				// direct assignment in this clause's own statements
				for _, s := range cc.Body {
					if as, ok := s.(*ast.AssignStmt); ok && isFlag(as.Lhs[0]) && w.Src(as.Rhs[0]) == "true" {
						kw[co.Name()] = true
					}
				}
				continue
			}
			if tv, ok := p.TypesInfo.Types[e]; ok && tv.Value != nil && tv.Value.Kind().String() == "Int" {
				var r int
				fmt.Sscanf(tv.Value.ExactString(), "%d", &r)
				if r <= 0 || r > 126 {
					continue
				}
				for _, s := range cc.Body {
					switch x := s.(type) {
					case *ast.AssignStmt:
						if isFlag(x.Lhs[0]) && w.Src(x.Rhs[0]) == "true" {
							chars[string(rune(r))] = "always"
						}
					case *ast.IfStmt:
						if setsTrue(x.Body) {
							chars[string(rune(r))] = condStr(x.Cond)
						}
					}
				}
				continue
			}
			// the number arm: a condition on ch being a digit
			if isDigitTest(e) {
				for _, s := range cc.Body {
					if as, ok := s.(*ast.AssignStmt); ok && isFlag(as.Lhs[0]) && w.Src(as.Rhs[0]) == "true" {
						numbers = true
					}
				}
			}
		}
		return true
	})
	wantKw := map[string]bool{"Ident": true, "Break": true, "Continue": true, "Return": true, "Export": true, "True": true, "False": true, "Undefined": true}
	c.check(sameSet(kw, wantKw), "semi/words", sc, "a newline after an identifier, break, continue, return, export, true, false, undefined ends the statement", fmt.Sprintf("semicolon insertion after words %s (Go's rule plus the keywords that are identifiers/values: %s)", setStr(kw), setStr(wantKw)))
	c.check(numbers, "semi/numbers", sc, "a newline after a number literal ends the statement", "number literals no longer set insertSemi")
	wantCh := map[string]string{"\"": "always", "'": "always", "`": "always", ")": "always", "]": "always", "}": "always", "+": "tok == token.Inc", "-": "tok == token.Dec"}
	good := len(chars) == len(wantCh)
	for k, v := range wantCh {
		if chars[k] != v {
			good = false
		}
	}
	c.check(good, "semi/punctuation", sc, "a newline after a string/char literal, ) ] }, ++ or -- ends the statement", fmt.Sprintf("semicolon insertion after punctuation %v (expected %v)", chars, wantCh))
	// the flag is stored unless DontInsertSemis
	stored := containsNode(sc.Body, func(n ast.Node) bool {
		as, ok := n.(*ast.AssignStmt)
		return ok && len(as.Lhs) == 1 && strings.HasSuffix(w.Src(as.Lhs[0]), ".insertSemi") && isFlag(as.Rhs[0])
	})
	c.check(stored, "semi/stored", sc, "the per-token decision becomes the scanner state", "Scan no longer stores the per-token insertSemi decision")
}
