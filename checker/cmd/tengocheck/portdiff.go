package main

// portdiff.go: statement-level comparison of a ported function with the
// reference function it was ported from (FMT.6, PORT rules).

import (
	"go/ast"
	"go/token"
	"go/types"
	"regexp"
	"strings"

	"golang.org/x/tools/go/packages"
)

// flatStmts flattens a function body into a sequence of canonical statement
// strings: simple statements whole, compound statements as a header
// ("if <cond>", "for <init;cond;post>", "switch <tag>", "case <list>",
// "else") followed by their bodies, closed by "end".
type flatStmt struct {
	Text string
	Node ast.Node
}

// inlineHelper, when set, returns the declaration of a small helper that
// exists only on this side of the comparison (extracted by a refactoring);
// a statement that just calls it is replaced by the helper's statements with
// the receiver and parameters bound to the call's operands.
type helperLookup func(call *ast.CallExpr) *ast.FuncDecl

func flattenBody(p *packages.Package, fd *ast.FuncDecl, subst map[string]string, helpers ...helperLookup) []flatStmt {
	c := newCanon(p, fd, subst)
	render := func(e ast.Expr) string {
		save := c.b.String()
		c.b.Reset()
		c.node(e)
		r := c.b.String()
		c.b.Reset()
		c.b.WriteString(save)
		return r
	}
	depth := 0
	// number the receiver and parameters first so naming is stable
	if fd.Recv != nil {
		c.node(fd.Recv)
	}
	c.node(fd.Type.Params)
	c.b.Reset()
	var out []flatStmt
	emit := func(n ast.Node, prefix string, parts ...ast.Node) {
		c.b.Reset()
		for _, q := range parts {
			if q == nil || isNilNode(q) {
				c.b.WriteString("_ ")
				continue
			}
			c.node(q)
			c.b.WriteString("| ")
		}
		out = append(out, flatStmt{normWrite(prefix + " " + strings.Join(strings.Fields(c.b.String()), " ")), n})
	}
	var walk func(list []ast.Stmt)
	walkStmt := func(s ast.Stmt) {}
	walkStmt = func(s ast.Stmt) {
		switch x := s.(type) {
		case *ast.BlockStmt:
			walk(x.List)
		case *ast.IfStmt:
			if m := mergeNestedIf(x); m != nil {
				walkStmt(m)
				return
			}
			// `if !c { A } else { B }` is flattened as `if c { B } else { A }`
			bare, neg := stripNot(x.Cond)
			if neg && x.Else != nil {
				if eb, ok := x.Else.(*ast.BlockStmt); ok {
					emit(x, "if", x.Init, bare)
					walk(eb.List)
					out = append(out, flatStmt{"else", x.Body})
					walk(x.Body.List)
					out = append(out, flatStmt{"end-if", x})
					return
				}
			}
			if !neg {
				emit(x, "if", x.Init, bare)
			} else {
				emit(x, "if", x.Init, x.Cond)
			}
			walk(x.Body.List)
			if x.Else != nil {
				out = append(out, flatStmt{"else", x.Else})
				walkStmt(x.Else)
			}
			out = append(out, flatStmt{"end-if", x})
		case *ast.ForStmt:
			emit(x, "for", x.Init, x.Cond, x.Post)
			walk(x.Body.List)
			out = append(out, flatStmt{"end-for", x})
		case *ast.RangeStmt:
			// `for i := range s` over a slice the body does not reassign is `for i := 0; i < len(s); i++`
			if x.Value == nil && x.Key != nil && x.Tok == token.DEFINE {
				if key, ok := x.Key.(*ast.Ident); ok && key.Name != "_" {
					if t := p.TypesInfo.TypeOf(x.X); t != nil {
						if _, isSlice := t.Underlying().(*types.Slice); isSlice && !assignsTo(x.Body, x.X) {
							walkStmt(&ast.ForStmt{
								Init: &ast.AssignStmt{Lhs: []ast.Expr{key}, Tok: token.DEFINE, Rhs: []ast.Expr{&ast.BasicLit{Kind: token.INT, Value: "0"}}},
								Cond: &ast.BinaryExpr{X: key, Op: token.LSS, Y: &ast.CallExpr{Fun: &ast.Ident{Name: "len"}, Args: []ast.Expr{x.X}}},
								Post: &ast.IncDecStmt{X: key, Tok: token.INC},
								Body: x.Body,
							})
							return
						}
					}
				}
			}
			emit(x, "range"+x.Tok.String(), x.Key, x.Value, x.X)
			walk(x.Body.List)
			out = append(out, flatStmt{"end-for", x})
		case *ast.SwitchStmt:
			if chain := switchAsIfChain(x); chain != nil {
				walkStmt(chain)
				return
			}
			emit(x, "switch", x.Init, x.Tag)
			clauses := x.Body.List
			if oc := orderedClauses(p, x.Body, x.Tag != nil); oc != nil {
				clauses = oc
			}
			for _, cc := range clauses {
				cl := cc.(*ast.CaseClause)
				var es []ast.Node
				for _, e := range cl.List {
					es = append(es, e)
				}
				emit(cl, "case", es...)
				walk(cl.Body)
			}
			out = append(out, flatStmt{"end-switch", x})
		case *ast.TypeSwitchStmt:
			emit(x, "typeswitch", x.Init, x.Assign)
			tclauses := x.Body.List
			if oc := orderedClauses(p, x.Body, true); oc != nil {
				tclauses = oc
			}
			for _, cc := range tclauses {
				cl := cc.(*ast.CaseClause)
				var es []ast.Node
				for _, e := range cl.List {
					es = append(es, e)
				}
				emit(cl, "case", es...)
				walk(cl.Body)
			}
			out = append(out, flatStmt{"end-switch", x})
		case *ast.LabeledStmt:
			out = append(out, flatStmt{"label", x})
			walkStmt(x.Stmt)
		case *ast.DeferStmt:
			// the port's recover wrapper (and any deferred clean-up) is compared
			// by other rules; skipping it keeps the numbering of the locals aligned
			out = append(out, flatStmt{"defer", x})
		case *ast.ExprStmt:
			if call, ok := x.X.(*ast.CallExpr); ok && len(helpers) > 0 && depth < 2 {
				if hd := helpers[0](call); hd != nil && hd != fd && hd.Body != nil && len(hd.Body.List) <= 12 && !call.Ellipsis.IsValid() {
					// bind receiver and parameters
					bound := true
					if hd.Recv != nil && len(hd.Recv.List) == 1 && len(hd.Recv.List[0].Names) == 1 {
						if se, ok := call.Fun.(*ast.SelectorExpr); ok {
							c.names[p.TypesInfo.Defs[hd.Recv.List[0].Names[0]]] = "\x00" + render(se.X)
						} else {
							bound = false
						}
					}
					i := 0
					for _, f := range hd.Type.Params.List {
						for _, nm := range f.Names {
							if i < len(call.Args) {
								c.names[p.TypesInfo.Defs[nm]] = "\x00" + render(call.Args[i])
							} else {
								bound = false
							}
							i++
						}
					}
					if bound && i == len(call.Args) {
						depth++
						walk(hd.Body.List)
						depth--
						return
					}
				}
			}
			emit(s, "stmt", s)
		default:
			emit(s, "stmt", s)
		}
	}
	walk = func(list []ast.Stmt) {
		list = sinkUpdateIntoReturn(p, list)
		for i := 0; i < len(list); i++ {
			// `var x T; if c { x = B } else { x = A }` is `x := A; if c { x = B }`
			if ds, ok := list[i].(*ast.DeclStmt); ok && i+1 < len(list) {
				if gd, ok := ds.Decl.(*ast.GenDecl); ok && gd.Tok == token.VAR && len(gd.Specs) == 1 {
					if vs, ok := gd.Specs[0].(*ast.ValueSpec); ok && len(vs.Names) == 1 && len(vs.Values) == 0 {
						if is, ok := list[i+1].(*ast.IfStmt); ok && is.Init == nil {
							if eb, ok := is.Else.(*ast.BlockStmt); ok && len(is.Body.List) == 1 && len(eb.List) == 1 {
								a1, ok1 := is.Body.List[0].(*ast.AssignStmt)
								a2, ok2 := eb.List[0].(*ast.AssignStmt)
								o := p.TypesInfo.Defs[vs.Names[0]]
								single := func(a *ast.AssignStmt) bool {
									if a == nil || a.Tok != token.ASSIGN || len(a.Lhs) != 1 || len(a.Rhs) != 1 {
										return false
									}
									id, ok := a.Lhs[0].(*ast.Ident)
									return ok && p.TypesInfo.Uses[id] == o
								}
								if ok1 && ok2 && single(a1) && single(a2) {
									walkStmt(&ast.AssignStmt{Lhs: []ast.Expr{vs.Names[0]}, Tok: token.DEFINE, Rhs: a2.Rhs})
									walkStmt(&ast.IfStmt{If: is.If, Cond: is.Cond, Body: is.Body})
									i++
									continue
								}
							}
						}
					}
				}
			}
			walkStmt(list[i])
		}
	}
	walk(fd.Body.List)
	return out
}

// normWrite maps the port's `_, _ = p.WriteString(x)` (pp's io.Writer-style
// methods, which forward to the buffer) onto the reference's `p.buf.writeString(x)`.
var reWrite = regexp.MustCompile(`assign= \(_ \(\) _ \(\) call \(SelectorExpr \((\$\d+) \(\) (write\w*) \(\) \)`)

func normWrite(s string) string {
	return reWrite.ReplaceAllString(s, "ExprStmt (call (SelectorExpr (SelectorExpr ($1 () buf () ) $2 () )")
}

func isNilNode(n ast.Node) bool {
	switch x := n.(type) {
	case ast.Stmt:
		return x == nil
	case ast.Expr:
		return x == nil
	}
	return false
}

// lcsDiff returns the statements of a not matched in b and of b not matched in a.
func lcsDiff(a, b []flatStmt) (onlyA, onlyB []flatStmt) {
	n, m := len(a), len(b)
	t := make([][]int, n+1)
	for i := range t {
		t[i] = make([]int, m+1)
	}
	for i := n - 1; i >= 0; i-- {
		for j := m - 1; j >= 0; j-- {
			if a[i].Text == b[j].Text {
				t[i][j] = t[i+1][j+1] + 1
			} else if t[i+1][j] >= t[i][j+1] {
				t[i][j] = t[i+1][j]
			} else {
				t[i][j] = t[i][j+1]
			}
		}
	}
	i, j := 0, 0
	for i < n && j < m {
		switch {
		case a[i].Text == b[j].Text:
			i++
			j++
		case t[i+1][j] >= t[i][j+1]:
			onlyA = append(onlyA, a[i])
			i++
		default:
			onlyB = append(onlyB, b[j])
			j++
		}
	}
	onlyA = append(onlyA, a[i:]...)
	onlyB = append(onlyB, b[j:]...)
	return
}

// sinkUpdateIntoReturn: a list ending in `if c { v = X }; return E(v)` reads
// the same as `if !c { return E(v) }; return E(X)`; both spellings are
// brought to the second form (the expression trees are shared, not copied,
// so every identifier keeps its type information).
func sinkUpdateIntoReturn(p *packages.Package, list []ast.Stmt) []ast.Stmt {
	n := len(list)
	if n < 2 {
		return list
	}
	ret, ok := list[n-1].(*ast.ReturnStmt)
	is, ok2 := list[n-2].(*ast.IfStmt)
	if !ok || !ok2 || is.Else != nil || is.Init != nil || len(is.Body.List) != 1 || len(ret.Results) == 0 {
		return list
	}
	as, ok := is.Body.List[0].(*ast.AssignStmt)
	if !ok || as.Tok != token.ASSIGN || len(as.Lhs) != 1 || len(as.Rhs) != 1 {
		return list
	}
	vid, ok := as.Lhs[0].(*ast.Ident)
	if !ok {
		return list
	}
	v := p.TypesInfo.ObjectOf(vid)
	if v == nil {
		return list
	}
	var subst func(e ast.Expr) (ast.Expr, bool)
	subst = func(e ast.Expr) (ast.Expr, bool) {
		switch x := e.(type) {
		case *ast.Ident:
			if p.TypesInfo.ObjectOf(x) == v {
				return as.Rhs[0], true
			}
		case *ast.ParenExpr:
			if r, ch := subst(x.X); ch {
				return &ast.ParenExpr{X: r}, true
			}
		case *ast.CallExpr:
			changed := false
			args := make([]ast.Expr, len(x.Args))
			for i, a := range x.Args {
				r, ch := subst(a)
				args[i] = r
				changed = changed || ch
			}
			if changed {
				return &ast.CallExpr{Fun: x.Fun, Lparen: x.Lparen, Args: args, Ellipsis: x.Ellipsis, Rparen: x.Rparen}, true
			}
		case *ast.BinaryExpr:
			l, c1 := subst(x.X)
			r, c2 := subst(x.Y)
			if c1 || c2 {
				return &ast.BinaryExpr{X: l, Op: x.Op, OpPos: x.OpPos, Y: r}, true
			}
		case *ast.UnaryExpr:
			if r, ch := subst(x.X); ch {
				return &ast.UnaryExpr{Op: x.Op, OpPos: x.OpPos, X: r}, true
			}
		}
		return e, false
	}
	any := false
	res := make([]ast.Expr, len(ret.Results))
	for i, e := range ret.Results {
		r, ch := subst(e)
		res[i] = r
		any = any || ch
	}
	if !any {
		return list
	}
	out := append([]ast.Stmt{}, list[:n-2]...)
	out = append(out, &ast.IfStmt{If: is.If, Cond: &ast.UnaryExpr{Op: token.NOT, X: is.Cond}, Body: &ast.BlockStmt{List: []ast.Stmt{&ast.ReturnStmt{Return: ret.Return, Results: ret.Results}}}})
	out = append(out, &ast.ReturnStmt{Return: ret.Return, Results: res})
	return out
}
