package main

// portdiff.go: statement-level comparison of a ported function with the
// reference function it was ported from (FMT.6, PORT rules).

import (
	"go/ast"
	"strings"

	"golang.org/x/tools/go/packages"
)

// flatStmts flattens a function body into a sequence of canonical statement
// strings: simple statements whole, compound statements as a header
// ("if <cond>", "for <init;cond;post>", "switch <tag>", "case <list>",
// "else") followed by their bodies, closed by "end".
type flatStmt struct {
	Text string
	Node ast.Node
}

func flattenBody(p *packages.Package, fd *ast.FuncDecl, subst map[string]string) []flatStmt {
	c := newCanon(p, fd, subst)
	// number the receiver and parameters first so naming is stable
	if fd.Recv != nil {
		c.node(fd.Recv)
	}
	c.node(fd.Type.Params)
	c.b.Reset()
	var out []flatStmt
	emit := func(n ast.Node, prefix string, parts ...ast.Node) {
		c.b.Reset()
		for _, q := range parts {
			if q == nil || isNilNode(q) {
				c.b.WriteString("_ ")
				continue
			}
			c.node(q)
			c.b.WriteString("| ")
		}
		out = append(out, flatStmt{prefix + " " + strings.Join(strings.Fields(c.b.String()), " "), n})
	}
	var walk func(list []ast.Stmt)
	walkStmt := func(s ast.Stmt) {}
	walkStmt = func(s ast.Stmt) {
		switch x := s.(type) {
		case *ast.BlockStmt:
			walk(x.List)
		case *ast.IfStmt:
			emit(x, "if", x.Init, x.Cond)
			walk(x.Body.List)
			if x.Else != nil {
				out = append(out, flatStmt{"else", x.Else})
				walkStmt(x.Else)
			}
			out = append(out, flatStmt{"end-if", x})
		case *ast.ForStmt:
			emit(x, "for", x.Init, x.Cond, x.Post)
			walk(x.Body.List)
			out = append(out, flatStmt{"end-for", x})
		case *ast.RangeStmt:
			emit(x, "range"+x.Tok.String(), x.Key, x.Value, x.X)
			walk(x.Body.List)
			out = append(out, flatStmt{"end-for", x})
		case *ast.SwitchStmt:
			emit(x, "switch", x.Init, x.Tag)
			for _, cc := range x.Body.List {
				cl := cc.(*ast.CaseClause)
				var es []ast.Node
				for _, e := range cl.List {
					es = append(es, e)
				}
				emit(cl, "case", es...)
				walk(cl.Body)
			}
			out = append(out, flatStmt{"end-switch", x})
		case *ast.TypeSwitchStmt:
			emit(x, "typeswitch", x.Init, x.Assign)
			for _, cc := range x.Body.List {
				cl := cc.(*ast.CaseClause)
				var es []ast.Node
				for _, e := range cl.List {
					es = append(es, e)
				}
				emit(cl, "case", es...)
				walk(cl.Body)
			}
			out = append(out, flatStmt{"end-switch", x})
		case *ast.LabeledStmt:
			out = append(out, flatStmt{"label", x})
			walkStmt(x.Stmt)
		default:
			emit(s, "stmt", s)
		}
	}
	walk = func(list []ast.Stmt) {
		for _, s := range list {
			walkStmt(s)
		}
	}
	walk(fd.Body.List)
	return out
}

func isNilNode(n ast.Node) bool {
	switch x := n.(type) {
	case ast.Stmt:
		return x == nil
	case ast.Expr:
		return x == nil
	}
	return false
}

// lcsDiff returns the statements of a not matched in b and of b not matched in a.
func lcsDiff(a, b []flatStmt) (onlyA, onlyB []flatStmt) {
	n, m := len(a), len(b)
	t := make([][]int, n+1)
	for i := range t {
		t[i] = make([]int, m+1)
	}
	for i := n - 1; i >= 0; i-- {
		for j := m - 1; j >= 0; j-- {
			if a[i].Text == b[j].Text {
				t[i][j] = t[i+1][j+1] + 1
			} else if t[i+1][j] >= t[i][j+1] {
				t[i][j] = t[i+1][j]
			} else {
				t[i][j] = t[i][j+1]
			}
		}
	}
	i, j := 0, 0
	for i < n && j < m {
		switch {
		case a[i].Text == b[j].Text:
			i++
			j++
		case t[i+1][j] >= t[i][j+1]:
			onlyA = append(onlyA, a[i])
			i++
		default:
			onlyB = append(onlyB, b[j])
			j++
		}
	}
	onlyA = append(onlyA, a[i:]...)
	onlyB = append(onlyB, b[j:]...)
	return
}
