package main

// clone.go: alpha-normalised comparison of sibling code (TWIN.1, FAM.1).

import (
	"fmt"
	"go/ast"
	"go/constant"
	"go/token"
	"go/types"
	"sort"
	"strconv"
	"strings"

	"golang.org/x/tools/go/packages"
)

// canon renders nodes as a token string in which (a) identifiers that denote
// objects declared inside scope (locals, params, receiver) are replaced by
// $1, $2… in order of first occurrence, (b) identifiers listed in subst are
// replaced by their substitute, (c) comments and positions vanish.
type canonizer struct {
	p     *packages.Package
	scope ast.Node // declarations inside this node are local
	subst map[string]string
	names map[types.Object]string
	next  int // last number handed out (seeded entries of names do not count)
	b     strings.Builder
}

func newCanon(p *packages.Package, scope ast.Node, subst map[string]string) *canonizer {
	return &canonizer{p: p, scope: scope, subst: subst, names: map[types.Object]string{}}
}

func (c *canonizer) local(o types.Object) bool {
	return o != nil && o.Pos() >= c.scope.Pos() && o.Pos() <= c.scope.End()
}

func (c *canonizer) ident(id *ast.Ident) string {
	o := c.p.TypesInfo.Uses[id]
	if o == nil {
		o = c.p.TypesInfo.Defs[id]
	}
	if o == nil {
		// implicit objects (type switch) and blank
		if s, ok := c.subst[id.Name]; ok {
			return s
		}
		return id.Name
	}
	// a string constant of the package itself (or a local one) is what it
	// stands for: extracting a repeated literal into a constant changes nothing
	if k, ok := o.(*types.Const); ok && k.Pkg() == c.p.Types && k.Val().Kind() == constant.String {
		return strconv.Quote(constant.StringVal(k.Val()))
	}
	if _, isField := o.(*types.Var); isField && o.(*types.Var).IsField() {
		if s, ok := c.subst["."+id.Name]; ok {
			return s
		}
		return id.Name
	}
	if n, ok := c.names[o]; ok && strings.HasPrefix(n, "\x00") {
		return n
	}
	if c.local(o) {
		if n, ok := c.names[o]; ok {
			return n
		}
		c.next++
		n := fmt.Sprintf("$%d", c.next)
		c.names[o] = n
		return n
	}
	if s, ok := c.subst[id.Name]; ok {
		return s
	}
	return id.Name
}

func (c *canonizer) node(n ast.Node) {
	ast.Inspect(n, func(m ast.Node) bool {
		switch x := m.(type) {
		case nil:
			c.b.WriteString(") ")
			return true
		case *ast.SelectorExpr:
			// package-qualified name: the qualifier is dropped, so strings.Index in
			// one package compares equal to Index inside package strings
			if id, ok := x.X.(*ast.Ident); ok {
				if _, isPkg := c.p.TypesInfo.Uses[id].(*types.PkgName); isPkg {
					c.b.WriteString(x.Sel.Name + " () ")
					return false
				}
			}
			c.b.WriteString("SelectorExpr (")
			return true
		case *ast.Ident:
			if r := c.ident(x); strings.HasPrefix(r, "\x00") {
				// an inlined helper's parameter: the caller's argument, verbatim
				c.b.WriteString(r[1:])
				return false
			}
			c.b.WriteString(c.ident(x) + " ")
			// no children; but Inspect will call with nil afterwards
			c.b.WriteString("(")
			return true
		case *ast.BasicLit:
			c.b.WriteString(x.Value + " (")
			return true
		case *ast.BinaryExpr:
			// `a > b` is rendered as `b < a`: a mirrored comparison is the same test
			if x.Op == token.GTR || x.Op == token.GEQ {
				op := "<"
				if x.Op == token.GEQ {
					op = "<="
				}
				c.b.WriteString("bin" + op + " (")
				c.node(x.Y)
				c.node(x.X)
				c.b.WriteString(") ")
				return false
			}
			c.b.WriteString("bin" + x.Op.String() + " (")
			return true
		case *ast.SwitchStmt:
			// a tagless switch is an if / else-if chain
			if chain := switchAsIfChain(x); chain != nil {
				c.node(chain)
				return false
			}
			// clauses over distinct constants (no fallthrough) in a canonical order
			if cl := orderedClauses(c.p, x.Body, x.Tag != nil); cl != nil {
				c.b.WriteString("SwitchStmt (")
				if x.Init != nil {
					c.node(x.Init)
				}
				c.node(x.Tag)
				c.b.WriteString("BlockStmt (")
				for _, s := range cl {
					c.node(s)
				}
				c.b.WriteString(") ) ")
				return false
			}
			c.b.WriteString("SwitchStmt (")
			return true
		case *ast.RangeStmt:
			// `for i := range s` with s := make([]T, n) is `for i := 0; i < n; i++`
			if x.Value == nil && x.Key != nil && x.Tok == token.DEFINE {
				if n := c.madeLen(x.X); n != nil {
					if key, ok := x.Key.(*ast.Ident); ok {
						c.node(&ast.ForStmt{
							Init: &ast.AssignStmt{Lhs: []ast.Expr{key}, Tok: token.DEFINE, Rhs: []ast.Expr{&ast.BasicLit{Kind: token.INT, Value: "0"}}},
							Cond: &ast.BinaryExpr{X: key, Op: token.LSS, Y: n},
							Post: &ast.IncDecStmt{X: key, Tok: token.INC},
							Body: x.Body,
						})
						return false
					}
				}
			}
			// `for i := range s` over a slice the body does not reassign is
			// `for i := 0; i < len(s); i++`
			if x.Value == nil && x.Key != nil && x.Tok == token.DEFINE {
				if key, ok := x.Key.(*ast.Ident); ok && key.Name != "_" {
					if t := c.p.TypesInfo.TypeOf(x.X); t != nil {
						if _, isSlice := t.Underlying().(*types.Slice); isSlice && !assignsTo(x.Body, x.X) {
							c.node(&ast.ForStmt{
								Init: &ast.AssignStmt{Lhs: []ast.Expr{key}, Tok: token.DEFINE, Rhs: []ast.Expr{&ast.BasicLit{Kind: token.INT, Value: "0"}}},
								Cond: &ast.BinaryExpr{X: key, Op: token.LSS, Y: &ast.CallExpr{Fun: &ast.Ident{Name: "len"}, Args: []ast.Expr{x.X}}},
								Post: &ast.IncDecStmt{X: key, Tok: token.INC},
								Body: x.Body,
							})
							return false
						}
					}
				}
			}
			c.b.WriteString("RangeStmt (")
			return true
		case *ast.ParenExpr:
			// parentheses carry no meaning of their own
			c.node(x.X)
			return false
		case *ast.IfStmt:
			// `if a { if b { X } }` is `if a && b { X }`
			if m := mergeNestedIf(x); m != nil {
				c.node(m)
				return false
			}
			// `if !c { A } else { B }` is rendered as `if c { B } else { A }`
			if cond, neg := stripNot(x.Cond); neg && x.Else != nil {
				if eb, ok := x.Else.(*ast.BlockStmt); ok {
					c.b.WriteString("IfStmt (")
					if x.Init != nil {
						c.node(x.Init)
					}
					c.node(cond)
					c.node(eb)
					c.node(x.Body)
					c.b.WriteString(") ")
					return false
				}
			} else if cond != ast.Unparen(x.Cond) {
				// an even number of negations: render the bare condition
				c.b.WriteString("IfStmt (")
				if x.Init != nil {
					c.node(x.Init)
				}
				c.node(cond)
				c.node(x.Body)
				if x.Else != nil {
					c.node(x.Else)
				}
				c.b.WriteString(") ")
				return false
			}
			c.b.WriteString("IfStmt (")
			return true
		case *ast.UnaryExpr:
			c.b.WriteString("un" + x.Op.String() + " (")
			return true
		case *ast.AssignStmt:
			c.b.WriteString("assign" + x.Tok.String() + " (")
			return true
		case *ast.IncDecStmt:
			c.b.WriteString("incdec" + x.Tok.String() + " (")
			return true
		case *ast.BranchStmt:
			c.b.WriteString("branch" + x.Tok.String() + " (")
			return true
		case *ast.CommentGroup, *ast.Comment:
			return false
		case *ast.TypeSwitchStmt:
			// implicit per-clause objects: name them through the assign ident
			if cl := orderedClauses(c.p, x.Body, true); cl != nil {
				c.b.WriteString("typeswitch (")
				if x.Init != nil {
					c.node(x.Init)
				}
				c.node(x.Assign)
				c.b.WriteString("BlockStmt (")
				for _, s := range cl {
					c.node(s)
				}
				c.b.WriteString(") ) ")
				return false
			}
			c.b.WriteString("typeswitch (")
			return true
		case *ast.CallExpr:
			if x.Ellipsis != token.NoPos {
				c.b.WriteString("call... (")
			} else {
				c.b.WriteString("call (")
			}
			return true
		default:
			c.b.WriteString(fmt.Sprintf("%T (", m)[5:])
			return true
		}
	})
}

func canonStmts(p *packages.Package, scope ast.Node, list []ast.Stmt, subst map[string]string) string {
	c := newCanon(p, scope, subst)
	for _, s := range list {
		c.node(s)
		c.b.WriteString("; ")
	}
	return c.b.String()
}

func canonFuncBody(p *packages.Package, fd *ast.FuncDecl, subst map[string]string) string {
	c := newCanon(p, fd, subst)
	// receiver and params first so numbering is stable
	if fd.Recv != nil {
		c.node(fd.Recv)
	}
	c.node(fd.Type)
	c.node(fd.Body)
	return c.b.String()
}

// firstDiff returns a short description of where two canonical strings diverge.
func firstDiff(a, b string) string {
	n := len(a)
	if len(b) < n {
		n = len(b)
	}
	i := 0
	for i < n && a[i] == b[i] {
		i++
	}
	lo := i - 60
	if lo < 0 {
		lo = 0
	}
	ha, hb := i+60, i+60
	if ha > len(a) {
		ha = len(a)
	}
	if hb > len(b) {
		hb = len(b)
	}
	clean := func(s string) string {
		s = strings.ReplaceAll(s, "(", "")
		s = strings.ReplaceAll(s, ")", "")
		return strings.Join(strings.Fields(s), " ")
	}
	return fmt.Sprintf("…%s ≠ …%s", clean(a[lo:ha]), clean(b[lo:hb]))
}

// stripNot removes leading negations (and parentheses) from a condition and
// reports whether an odd number was removed.
func stripNot(e ast.Expr) (ast.Expr, bool) {
	neg := false
	for {
		e = ast.Unparen(e)
		// `x == false`, `x != true` are negations; `x == true`, `x != false` are x
		if b, ok := e.(*ast.BinaryExpr); ok && (b.Op == token.EQL || b.Op == token.NEQ) {
			lit, other := "", ast.Expr(nil)
			if id, ok := ast.Unparen(b.Y).(*ast.Ident); ok && (id.Name == "true" || id.Name == "false") && id.Obj == nil {
				lit, other = id.Name, b.X
			} else if id, ok := ast.Unparen(b.X).(*ast.Ident); ok && (id.Name == "true" || id.Name == "false") && id.Obj == nil {
				lit, other = id.Name, b.Y
			}
			if lit != "" {
				if (lit == "false") == (b.Op == token.EQL) {
					neg = !neg
				}
				e = other
				continue
			}
		}
		u, ok := e.(*ast.UnaryExpr)
		if !ok || u.Op != token.NOT {
			return e, neg
		}
		neg = !neg
		e = u.X
	}
}

// orderedClauses returns the clauses of a switch in an order that does not
// depend on how the source lists them - sorted by their case constants / case
// types, default last - when reordering cannot change the meaning: every case
// is a constant (no fallthrough anywhere) or a concrete (non-interface) type.
// Otherwise nil: the source order is part of the meaning.
func orderedClauses(p *packages.Package, body *ast.BlockStmt, tagged bool) []ast.Stmt {
	if !tagged || body == nil || len(body.List) < 2 {
		return nil
	}
	type kc struct {
		key string
		s   ast.Stmt
	}
	var out []kc
	for _, cl := range body.List {
		cc, ok := cl.(*ast.CaseClause)
		if !ok {
			return nil
		}
		// fallthrough can only be the last statement of a clause
		if n := len(cc.Body); n > 0 {
			if b, ok := cc.Body[n-1].(*ast.BranchStmt); ok && b.Tok == token.FALLTHROUGH {
				return nil
			}
		}
		var keys []string
		for _, e := range cc.List {
			tv, ok := p.TypesInfo.Types[e]
			switch {
			case ok && tv.Value != nil:
				keys = append(keys, "k:"+tv.Value.ExactString())
			case ok && tv.IsType() && !types.IsInterface(tv.Type):
				keys = append(keys, "t:"+types.TypeString(tv.Type, func(*types.Package) string { return "" }))
			default:
				return nil
			}
		}
		sort.Strings(keys)
		k := strings.Join(keys, ",")
		if cc.List == nil {
			k = "~default"
		}
		out = append(out, kc{k, cl})
	}
	sort.SliceStable(out, func(i, j int) bool { return out[i].key < out[j].key })
	res := make([]ast.Stmt, len(out))
	for i, o := range out {
		res[i] = o.s
	}
	return res
}

// madeLen: e is a local slice variable defined by make([]T, n) in the scope
// under comparison; returns n.
func (c *canonizer) madeLen(e ast.Expr) ast.Expr {
	id, ok := ast.Unparen(e).(*ast.Ident)
	if !ok {
		return nil
	}
	o := c.p.TypesInfo.Uses[id]
	if o == nil || !c.local(o) {
		return nil
	}
	var n ast.Expr
	defs := 0
	ast.Inspect(c.scope, func(m ast.Node) bool {
		as, ok := m.(*ast.AssignStmt)
		if !ok {
			return true
		}
		for i, l := range as.Lhs {
			if lid, ok := l.(*ast.Ident); ok && c.p.TypesInfo.ObjectOf(lid) == o && i < len(as.Rhs) {
				defs++
				if call, ok := ast.Unparen(as.Rhs[i]).(*ast.CallExpr); ok && len(call.Args) == 2 {
					if fid, ok := call.Fun.(*ast.Ident); ok && fid.Name == "make" {
						n = call.Args[1]
					}
				}
			}
		}
		return true
	})
	if defs != 1 {
		return nil
	}
	return n
}

// switchAsIfChain: a tagless switch without fallthrough, without an init
// statement and without a break that leaves it, as the if / else-if chain it
// is (default last). nil when it cannot be read that way.
func switchAsIfChain(x *ast.SwitchStmt) *ast.IfStmt {
	if x.Tag != nil || x.Init != nil || len(x.Body.List) == 0 {
		return nil
	}
	var def *ast.CaseClause
	var cases []*ast.CaseClause
	for _, s := range x.Body.List {
		cc := s.(*ast.CaseClause)
		if cc.List == nil {
			def = cc
		} else {
			cases = append(cases, cc)
		}
		// fallthrough, or a break that would leave the switch
		bad := false
		var walk func(n ast.Node, inner bool)
		walk = func(n ast.Node, inner bool) {
			ast.Inspect(n, func(m ast.Node) bool {
				switch y := m.(type) {
				case *ast.BranchStmt:
					if y.Tok == token.FALLTHROUGH || (y.Tok == token.BREAK && y.Label == nil && !inner) {
						bad = true
					}
				case *ast.ForStmt, *ast.RangeStmt, *ast.SwitchStmt, *ast.TypeSwitchStmt, *ast.SelectStmt:
					if m != n {
						walk(m, true)
						return false
					}
				case *ast.FuncLit:
					return false
				}
				return !bad
			})
		}
		for _, b := range cc.Body {
			walk(b, false)
		}
		if bad {
			return nil
		}
	}
	if len(cases) == 0 {
		return nil
	}
	var root, cur *ast.IfStmt
	for _, cc := range cases {
		cond := cc.List[0]
		for _, e := range cc.List[1:] {
			cond = &ast.BinaryExpr{X: cond, Op: token.LOR, Y: e}
		}
		is := &ast.IfStmt{Cond: cond, Body: &ast.BlockStmt{List: cc.Body}}
		if root == nil {
			root = is
		} else {
			cur.Else = is
		}
		cur = is
	}
	if def != nil && len(def.Body) > 0 {
		cur.Else = &ast.BlockStmt{List: def.Body}
	}
	return root
}

// assignsTo: the node assigns to the expression (by its source form) or takes its address.
func assignsTo(n ast.Node, e ast.Expr) bool {
	target := types.ExprString(e)
	found := false
	ast.Inspect(n, func(m ast.Node) bool {
		switch y := m.(type) {
		case *ast.AssignStmt:
			for _, l := range y.Lhs {
				if types.ExprString(l) == target {
					found = true
				}
			}
		case *ast.UnaryExpr:
			if y.Op == token.AND && types.ExprString(y.X) == target {
				found = true
			}
		}
		return !found
	})
	return found
}

// mergeNestedIf: `if a { if b { X } }` (no else, no init on either) as `if a && b { X }`.
func mergeNestedIf(x *ast.IfStmt) *ast.IfStmt {
	if x.Else != nil || x.Init != nil || len(x.Body.List) != 1 {
		return nil
	}
	in, ok := x.Body.List[0].(*ast.IfStmt)
	if !ok || in.Else != nil || in.Init != nil {
		return nil
	}
	return &ast.IfStmt{If: x.If, Cond: &ast.BinaryExpr{X: x.Cond, Op: token.LAND, Y: in.Cond}, Body: in.Body}
}
