package main

// paths.go: small structural path analyses over statement lists.

import (
	"go/ast"
	"go/token"
)

type pathRes int

const (
	pFall pathRes = iota // some path falls through without a hit; no path exits without one
	pHit                 // every path hits before leaving
	pBad                 // some path exits (return / branch out) without a hit
)

// pathSeq evaluates a statement list: does every path hit a statement
// satisfying hit before it leaves the list by return?
func pathSeq(list []ast.Stmt, hit func(ast.Stmt) bool) pathRes {
	for _, s := range list {
		switch pathStmt(s, hit) {
		case pHit:
			return pHit
		case pBad:
			return pBad
		}
	}
	return pFall
}

func combine(rs []pathRes) pathRes {
	all := true
	for _, r := range rs {
		if r == pBad {
			return pBad
		}
		if r != pHit {
			all = false
		}
	}
	if all && len(rs) > 0 {
		return pHit
	}
	return pFall
}

func pathStmt(s ast.Stmt, hit func(ast.Stmt) bool) pathRes {
	if hit(s) {
		return pHit
	}
	switch x := s.(type) {
	case *ast.ReturnStmt:
		return pBad
	case *ast.BranchStmt:
		if x.Tok == token.GOTO {
			return pBad
		}
		// break/continue leave the enclosing construct without a hit; treated
		// conservatively as leaving
		return pBad
	case *ast.BlockStmt:
		return pathSeq(x.List, hit)
	case *ast.LabeledStmt:
		return pathStmt(x.Stmt, hit)
	case *ast.IfStmt:
		if x.Init != nil && hit(x.Init) {
			return pHit
		}
		a := pathSeq(x.Body.List, hit)
		b := pFall
		if x.Else != nil {
			b = pathStmt(x.Else, hit)
		}
		return combine([]pathRes{a, b})
	case *ast.SwitchStmt:
		return pathClauses(x.Body, hit, true)
	case *ast.TypeSwitchStmt:
		return pathClauses(x.Body, hit, true)
	case *ast.SelectStmt:
		return pathClauses(x.Body, hit, false)
	case *ast.ForStmt:
		if r := pathSeq(x.Body.List, hit); r == pBad {
			return pBad
		}
		return pFall
	case *ast.RangeStmt:
		if r := pathSeq(x.Body.List, hit); r == pBad {
			return pBad
		}
		return pFall
	}
	return pFall
}

func pathClauses(body *ast.BlockStmt, hit func(ast.Stmt) bool, implicitFall bool) pathRes {
	var rs []pathRes
	hasDefault := false
	for _, c := range body.List {
		switch cc := c.(type) {
		case *ast.CaseClause:
			if cc.List == nil {
				hasDefault = true
			}
			rs = append(rs, pathSeq(stripTrailingBreak(cc.Body), hit))
		case *ast.CommClause:
			if cc.Comm == nil {
				hasDefault = true
			}
			if cc.Comm != nil && hit(cc.Comm) {
				rs = append(rs, pHit)
			} else {
				rs = append(rs, pathSeq(stripTrailingBreak(cc.Body), hit))
			}
		}
	}
	if implicitFall && !hasDefault {
		rs = append(rs, pFall)
	}
	return combine(rs)
}

func stripTrailingBreak(l []ast.Stmt) []ast.Stmt {
	if n := len(l); n > 0 {
		if b, ok := l[n-1].(*ast.BranchStmt); ok && b.Tok == token.BREAK && b.Label == nil {
			return l[:n-1]
		}
	}
	return l
}

// containsNode reports whether root contains a node for which f is true.
func containsNode(root ast.Node, f func(ast.Node) bool) bool {
	found := false
	ast.Inspect(root, func(n ast.Node) bool {
		if n == nil || found {
			return false
		}
		if f(n) {
			found = true
			return false
		}
		return true
	})
	return found
}
