package main

// paths.go: small structural path analyses over statement lists.

import (
	"fmt"
	"go/ast"
	"go/token"
	"go/types"
	"sort"
	"strings"
)

type pathRes int

const (
	pFall pathRes = iota // some path falls through without a hit; no path exits without one
	pHit                 // every path hits before leaving
	pBad                 // some path exits (return / branch out) without a hit
)

// pathSeq evaluates a statement list: does every path hit a statement
// satisfying hit before it leaves the list by return?
func pathSeq(list []ast.Stmt, hit func(ast.Stmt) bool) pathRes {
	for _, s := range list {
		switch pathStmt(s, hit) {
		case pHit:
			return pHit
		case pBad:
			return pBad
		}
	}
	return pFall
}

func combine(rs []pathRes) pathRes {
	all := true
	for _, r := range rs {
		if r == pBad {
			return pBad
		}
		if r != pHit {
			all = false
		}
	}
	if all && len(rs) > 0 {
		return pHit
	}
	return pFall
}

func pathStmt(s ast.Stmt, hit func(ast.Stmt) bool) pathRes {
	if hit(s) {
		return pHit
	}
	switch x := s.(type) {
	case *ast.ReturnStmt:
		return pBad
	case *ast.BranchStmt:
		if x.Tok == token.GOTO {
			return pBad
		}
		// break/continue leave the enclosing construct without a hit; treated
		// conservatively as leaving
		return pBad
	case *ast.BlockStmt:
		return pathSeq(x.List, hit)
	case *ast.LabeledStmt:
		return pathStmt(x.Stmt, hit)
	case *ast.IfStmt:
		if x.Init != nil && hit(x.Init) {
			return pHit
		}
		a := pathSeq(x.Body.List, hit)
		b := pFall
		if x.Else != nil {
			b = pathStmt(x.Else, hit)
		}
		return combine([]pathRes{a, b})
	case *ast.SwitchStmt:
		return pathClauses(x.Body, hit, true)
	case *ast.TypeSwitchStmt:
		return pathClauses(x.Body, hit, true)
	case *ast.SelectStmt:
		return pathClauses(x.Body, hit, false)
	case *ast.ForStmt:
		if r := pathSeq(x.Body.List, hit); r == pBad {
			return pBad
		}
		return pFall
	case *ast.RangeStmt:
		if r := pathSeq(x.Body.List, hit); r == pBad {
			return pBad
		}
		return pFall
	}
	return pFall
}

func pathClauses(body *ast.BlockStmt, hit func(ast.Stmt) bool, implicitFall bool) pathRes {
	var rs []pathRes
	hasDefault := false
	for _, c := range body.List {
		switch cc := c.(type) {
		case *ast.CaseClause:
			if cc.List == nil {
				hasDefault = true
			}
			rs = append(rs, pathSeq(stripTrailingBreak(cc.Body), hit))
		case *ast.CommClause:
			if cc.Comm == nil {
				hasDefault = true
			}
			if cc.Comm != nil && hit(cc.Comm) {
				rs = append(rs, pHit)
			} else {
				rs = append(rs, pathSeq(stripTrailingBreak(cc.Body), hit))
			}
		}
	}
	if implicitFall && !hasDefault {
		rs = append(rs, pFall)
	}
	return combine(rs)
}

func stripTrailingBreak(l []ast.Stmt) []ast.Stmt {
	if n := len(l); n > 0 {
		if b, ok := l[n-1].(*ast.BranchStmt); ok && b.Tok == token.BREAK && b.Label == nil {
			return l[:n-1]
		}
	}
	return l
}

// gHelpers maps every call of an unexported function or method declared in
// the module to its declaration (filled by loadWorld). Pattern searches follow
// such calls, so that a construct moved into a small helper by a refactoring
// is still found where it used to be written inline.
var gHelpers = map[*ast.CallExpr]*ast.FuncDecl{}

// containsDeep reports whether root - or, up to two levels deep, the body of
// an unexported helper called inside root - contains a node for which f is true.
func containsDeep(root ast.Node, f func(ast.Node) bool) bool {
	return containsNodeDepth(root, f, 0, map[*ast.FuncDecl]bool{})
}

// containsNode is the purely syntactic variant (no helper following); rules
// about a function's own control flow (returns, branches) must use this one.
func containsNode(root ast.Node, f func(ast.Node) bool) bool {
	return containsNodeDepth(root, f, 99, nil)
}

func containsNodeDepth(root ast.Node, f func(ast.Node) bool, depth int, seen map[*ast.FuncDecl]bool) bool {
	found := false
	ast.Inspect(root, func(n ast.Node) bool {
		if n == nil || found {
			return false
		}
		if f(n) {
			found = true
			return false
		}
		if call, ok := n.(*ast.CallExpr); ok && depth < 2 {
			if hd := gHelpers[call]; hd != nil && hd.Body != nil && !seen[hd] && hd.Body.Pos() > 0 && !(root.Pos() >= hd.Pos() && root.End() <= hd.End()) {
				seen[hd] = true
				if containsNodeDepth(hd.Body, f, depth+1, seen) {
					found = true
					return false
				}
			}
		}
		return true
	})
	return found
}

// ---------------------------------------------------------------- slice tables

// sliceTable describes how a function computes a set of variables, in a form
// that does not depend on how its conditionals are nested, inverted or chained:
// every assignment to a variable of the backward slice of the seed variables,
// and every return under conditions over slice variables only, is listed as
// "guards ⊢ effect", where guards are the conditions of the enclosing if
// statements (negated for else branches, mirrored comparisons and != / == and
// ! normalised, conjunctions split) and the loop headers. Variables are named
// by parameter position or by declaration order inside the slice, so renaming
// them changes nothing. The result is a sorted list of lines.
func sliceTable(p pkgT, fd *ast.FuncDecl, seeds []string, seedObjs ...types.Object) []string {
	type effect struct {
		stmt   ast.Stmt
		lhs    []types.Object
		rhs    []types.Object
		guards []guardAtom
		isRet  bool
	}
	var effects []effect
	objsOf := func(n ast.Node) []types.Object {
		var out []types.Object
		if n == nil {
			return out
		}
		ast.Inspect(n, func(m ast.Node) bool {
			if _, ok := m.(*ast.FuncLit); ok {
				return false
			}
			if id, ok := m.(*ast.Ident); ok {
				if v, ok := p.TypesInfo.ObjectOf(id).(*types.Var); ok && !v.IsField() && v.Pkg() == p.Types && v.Parent() != p.Types.Scope() {
					out = append(out, v)
				}
			}
			return true
		})
		return out
	}
	var walk func(list []ast.Stmt, g []guardAtom)
	var walkStmt func(s ast.Stmt, g []guardAtom)
	walkStmt = func(s ast.Stmt, g []guardAtom) {
		switch x := s.(type) {
		case nil:
		case *ast.BlockStmt:
			walk(x.List, g)
		case *ast.AssignStmt:
			var l, r []types.Object
			for _, e := range x.Lhs {
				l = append(l, objsOf(e)...)
			}
			for _, e := range x.Rhs {
				r = append(r, objsOf(e)...)
			}
			if x.Tok != token.ASSIGN && x.Tok != token.DEFINE {
				r = append(r, l...)
			}
			effects = append(effects, effect{stmt: x, lhs: l, rhs: r, guards: g})
		case *ast.IncDecStmt:
			l := objsOf(x.X)
			effects = append(effects, effect{stmt: x, lhs: l, rhs: l, guards: g})
		case *ast.ReturnStmt:
			effects = append(effects, effect{stmt: x, guards: g, isRet: true})
		case *ast.IfStmt:
			if x.Init != nil {
				walkStmt(x.Init, g)
			}
			pos, neg := splitCond(x.Cond)
			walk(x.Body.List, append(append([]guardAtom{}, g...), pos...))
			if x.Else != nil {
				walkStmt(x.Else, append(append([]guardAtom{}, g...), neg...))
			}
		case *ast.ForStmt:
			if x.Init != nil {
				walkStmt(x.Init, g)
			}
			g2 := append([]guardAtom{}, g...)
			if x.Cond != nil {
				pos, _ := splitCond(x.Cond)
				for _, a := range pos {
					a.loop = true
					g2 = append(g2, a)
				}
			}
			if x.Post != nil {
				walkStmt(x.Post, g2)
			}
			walk(x.Body.List, g2)
		case *ast.LabeledStmt:
			walkStmt(x.Stmt, g)
		}
	}
	walk = func(list []ast.Stmt, g []guardAtom) {
		for _, s := range list {
			walkStmt(s, g)
			// what follows an if statement runs under the negation of every
			// branch that ends in return / break / continue
			if is, ok := s.(*ast.IfStmt); ok {
				if extra := afterIf(is); len(extra) > 0 {
					g = append(append([]guardAtom{}, g...), extra...)
				}
			}
		}
	}
	walk(fd.Body.List, nil)
	// backward slice
	tracked := map[types.Object]bool{}
	byName := map[string]types.Object{}
	for _, o := range objsOf(fd) {
		if _, ok := byName[o.Name()]; !ok {
			byName[o.Name()] = o
		}
	}
	for _, s := range seeds {
		if o := byName[s]; o != nil {
			tracked[o] = true
		}
	}
	for _, o := range seedObjs {
		if o != nil {
			tracked[o] = true
		}
	}
	guardVars := func(g []guardAtom) []types.Object {
		var out []types.Object
		for _, a := range g {
			if a.fallthru {
				continue // not part of the slice: a guard added by the port would drag its variables in
			}
			out = append(out, objsOf(a.e)...)
		}
		return out
	}
	for changed := true; changed; {
		changed = false
		for _, e := range effects {
			hit := false
			for _, o := range e.lhs {
				if tracked[o] {
					hit = true
				}
			}
			if !hit {
				continue
			}
			for _, o := range append(append([]types.Object{}, e.rhs...), guardVars(e.guards)...) {
				if !tracked[o] {
					tracked[o] = true
					changed = true
				}
			}
		}
	}
	// names: parameters by position, other slice variables by declaration order
	cz := newCanon(p, fd, nil)
	i := 0
	for _, f := range fd.Type.Params.List {
		for _, nm := range f.Names {
			cz.names[p.TypesInfo.Defs[nm]] = fmt.Sprintf("$p%d", i)
			i++
		}
	}
	var locals []types.Object
	for o := range tracked {
		if _, isParam := cz.names[o]; !isParam {
			locals = append(locals, o)
		}
	}
	sort.Slice(locals, func(a, b int) bool { return locals[a].Pos() < locals[b].Pos() })
	for k, o := range locals {
		cz.names[o] = fmt.Sprintf("$v%d", k)
	}
	render := func(n ast.Node) string {
		cz.b.Reset()
		cz.node(n)
		return strings.Join(strings.Fields(cz.b.String()), " ")
	}
	allTracked := func(os []types.Object) bool {
		for _, o := range os {
			if !tracked[o] {
				return false
			}
		}
		return true
	}
	var lines []string
	for _, e := range effects {
		keep := false
		if e.isRet {
			// only returns under a condition written around them (the
			// function's last, unconditional return is not part of the slice)
			structural := 0
			for _, a := range e.guards {
				if !a.fallthru {
					structural++
				}
			}
			keep = structural > 0 && allTracked(guardVars(e.guards))
		} else {
			for _, o := range e.lhs {
				if tracked[o] {
					keep = true
				}
			}
		}
		if !keep {
			continue
		}
		var gs []string
		for _, a := range e.guards {
			if !allTracked(objsOf(a.e)) {
				continue
			}
			s := render(a.e)
			if a.neg {
				s = "not " + s
			}
			if a.loop {
				s = "while " + s
			}
			gs = append(gs, s)
		}
		sort.Strings(gs)
		eff := "return"
		if !e.isRet {
			eff = render(e.stmt)
		} else if r := e.stmt.(*ast.ReturnStmt); len(r.Results) > 0 {
			eff = "return " + render(r.Results[0])
		}
		lines = append(lines, strings.Join(gs, " & ")+" |- "+eff)
	}
	sort.Strings(lines)
	return lines
}

func blockTerminates(list []ast.Stmt) bool {
	if len(list) == 0 {
		return false
	}
	switch list[len(list)-1].(type) {
	case *ast.ReturnStmt, *ast.BranchStmt:
		return true
	}
	return false
}

// afterIf: atoms that hold for the statements following an if statement.
func afterIf(is *ast.IfStmt) []guardAtom {
	var out []guardAtom
	mark := func(as []guardAtom) []guardAtom {
		for i := range as {
			as[i].fallthru = true
		}
		return as
	}
	pos, neg := splitCond(is.Cond)
	if blockTerminates(is.Body.List) {
		out = append(out, mark(neg)...)
		if e, ok := is.Else.(*ast.IfStmt); ok {
			out = append(out, afterIf(e)...)
		}
	}
	if eb, ok := is.Else.(*ast.BlockStmt); ok && blockTerminates(eb.List) {
		out = append(out, mark(pos)...)
	}
	return out
}

type guardAtom struct {
	e        ast.Expr
	neg      bool
	loop     bool
	fallthru bool // holds because an earlier `if … { return }` was not taken
}

// splitCond normalises a condition into atoms: the atoms that hold when it is
// true and the atoms that hold when it is false. `a && b` true gives both,
// `a || b` false gives both negated; `!x` flips; `a != b` is not(a == b);
// `a >= b` is not(a < b) and `a <= b` is not(b < a) (`>` is mirrored by the
// canonizer). A disjunction that is true, or a conjunction that is false,
// stays one composite atom.
func splitCond(e ast.Expr) (whenTrue, whenFalse []guardAtom) {
	e = ast.Unparen(e)
	switch x := e.(type) {
	case *ast.UnaryExpr:
		if x.Op == token.NOT {
			t, f := splitCond(x.X)
			return f, t
		}
	case *ast.BinaryExpr:
		switch x.Op {
		case token.LAND:
			t1, _ := splitCond(x.X)
			t2, _ := splitCond(x.Y)
			return append(t1, t2...), []guardAtom{{e: e, neg: true}}
		case token.LOR:
			_, f1 := splitCond(x.X)
			_, f2 := splitCond(x.Y)
			return []guardAtom{{e: e}}, append(f1, f2...)
		case token.NEQ:
			eq := &ast.BinaryExpr{X: x.X, Op: token.EQL, Y: x.Y, OpPos: x.OpPos}
			return []guardAtom{{e: eq, neg: true}}, []guardAtom{{e: eq}}
		case token.GEQ:
			lt := &ast.BinaryExpr{X: x.X, Op: token.LSS, Y: x.Y, OpPos: x.OpPos}
			return []guardAtom{{e: lt, neg: true}}, []guardAtom{{e: lt}}
		case token.LEQ:
			lt := &ast.BinaryExpr{X: x.Y, Op: token.LSS, Y: x.X, OpPos: x.OpPos}
			return []guardAtom{{e: lt, neg: true}}, []guardAtom{{e: lt}}
		case token.GTR:
			lt := &ast.BinaryExpr{X: x.Y, Op: token.LSS, Y: x.X, OpPos: x.OpPos}
			return []guardAtom{{e: lt}}, []guardAtom{{e: lt, neg: true}}
		}
	}
	return []guardAtom{{e: e}}, []guardAtom{{e: e, neg: true}}
}
