package main

// rules_jmp.go: C02/C03 — JMP.1-2, RET.1, FRAME.1, OPT.1-2.

import (
	"fmt"
	"go/ast"
	"go/token"
	"go/types"
	"strings"
)

// contStmts: the statements that follow `node` in every enclosing statement
// list, innermost first, up to (and excluding) the function boundary. The bool
// reports whether a loop encloses the node inside the function.
func contStmts(stack []ast.Node) ([]ast.Stmt, bool) {
	var cont []ast.Stmt
	inLoop := false
	for i := len(stack) - 1; i > 0; i-- {
		child := stack[i]
		var list []ast.Stmt
		switch par := stack[i-1].(type) {
		case *ast.BlockStmt:
			list = par.List
		case *ast.CaseClause:
			list = par.Body
		case *ast.CommClause:
			list = par.Body
		case *ast.ForStmt, *ast.RangeStmt:
			inLoop = true
		case *ast.FuncDecl, *ast.FuncLit:
			return cont, inLoop
		}
		for j, s := range list {
			if ast.Node(s) == child {
				cont = append(cont, list[j+1:]...)
			}
		}
	}
	return cont, inLoop
}

func isNilIdent(e ast.Expr) bool {
	id, ok := ast.Unparen(e).(*ast.Ident)
	return ok && id.Name == "nil"
}

func ruleJMP1(c *Ctx) {
	w := c.W
	p := w.Root
	jump, _, _ := w.vmClasses()
	if len(jump) == 0 {
		c.anchor("VM jump opcode class")
		return
	}
	loopT := p.Types.Scope().Lookup("loop")
	isLoopList := func(e ast.Expr) bool {
		f, _ := FieldSel(p, e)
		if f == nil || loopT == nil {
			return false
		}
		st, _ := loopT.Type().Underlying().(*types.Struct)
		for i := 0; st != nil && i < st.NumFields(); i++ {
			if st.Field(i) == f {
				return true
			}
		}
		return false
	}
	isChangeOperandOf := func(n ast.Node, obj types.Object) bool {
		call, ok := n.(*ast.CallExpr)
		if !ok || !isMethodOf(Callee(p, call), p.Types, "Compiler", "changeOperand") || len(call.Args) < 2 {
			return false
		}
		id, ok := ast.Unparen(call.Args[0]).(*ast.Ident)
		return ok && p.TypesInfo.Uses[id] == obj
	}
	placeholders := map[types.Object]bool{}
	nPlace := 0
	for _, es := range w.emitSites() {
		if es.Kind != "emit" || len(es.Ops) == 0 || len(es.Args) != 1 {
			continue
		}
		allJump := true
		for _, o := range es.Ops {
			if !jump[o] {
				allJump = false
			}
		}
		if !allJump {
			continue
		}
		if k, ok := ConstInt(p, es.Args[0]); !ok || k != 0 {
			continue // a known target (backward jump), not a placeholder
		}
		nPlace++
		// the statement holding the call and its stack
		var stmtStack []ast.Node
		inspectWithStack(es.Fn, func(n ast.Node, stack []ast.Node) bool {
			if n == ast.Node(es.Call) {
				stmtStack = append([]ast.Node{}, stack...)
			}
			return true
		})
		// climb to the enclosing statement
		si := len(stmtStack) - 1
		for si >= 0 {
			if _, ok := stmtStack[si].(ast.Stmt); ok {
				break
			}
			si--
		}
		key := fmt.Sprintf("placeholder/%s/%s#%d", w.ctxKey(es.Call.Pos()), es.Ops[0], nPlace)
		as, ok := stmtStack[si].(*ast.AssignStmt)
		if !ok || len(as.Lhs) != 1 {
			c.fail(key, es.Call, "the position of a placeholder jump is discarded: it can never be patched")
			continue
		}
		lid, _ := as.Lhs[0].(*ast.Ident)
		var obj types.Object
		if lid != nil {
			if obj = p.TypesInfo.Defs[lid]; obj == nil {
				obj = p.TypesInfo.Uses[lid]
			}
		}
		if obj == nil {
			c.undecided(key, es.Call, "placeholder position not stored in a plain variable")
			continue
		}
		placeholders[obj] = true
		cont, _ := contStmts(stmtStack[:si+1])
		hit := func(s ast.Stmt) bool {
			// error exits abort compilation: acceptable
			if r, ok := s.(*ast.ReturnStmt); ok {
				return len(r.Results) > 0 && !isNilIdent(r.Results[len(r.Results)-1])
			}
			// `if pos >= 0 { patch }`: emit never returns a negative position, so
			// the guard holds whenever the placeholder was emitted
			if is, ok := s.(*ast.IfStmt); ok && is.Else == nil && is.Init == nil {
				if b, ok := gtExpr(is.Cond); ok && b.Op == token.GEQ {
					if id, ok := ast.Unparen(b.X).(*ast.Ident); ok && p.TypesInfo.Uses[id] == obj {
						if k, ok := ConstInt(p, b.Y); ok && k == 0 {
							return containsNode(is.Body, func(n ast.Node) bool { return isChangeOperandOf(n, obj) })
						}
					}
				}
			}
			switch s.(type) {
			case *ast.ExprStmt, *ast.AssignStmt:
			default:
				return false
			}
			return containsNode(s, func(n ast.Node) bool {
				if isChangeOperandOf(n, obj) {
					return true
				}
				// recorded in the loop's break/continue list
				if call, ok := n.(*ast.CallExpr); ok && IsBuiltinCall(p, call, "append") && len(call.Args) == 2 && isLoopList(call.Args[0]) {
					if id, ok := ast.Unparen(call.Args[1]).(*ast.Ident); ok && p.TypesInfo.Uses[id] == obj {
						return true
					}
				}
				return false
			})
		}
		r := pathSeq(cont, hit)
		c.check(r == pHit, key, es.Call, "patched (changeOperand) or recorded in the loop's list on every non-error path", "a placeholder jump can reach the end of its construct without being patched or recorded: it would jump to offset 0")
	}
	// converse: every changeOperand position is a placeholder or comes from a loop list
	n := 0
	w.AllFuncDecls(p, func(fd *ast.FuncDecl) {
		inspectWithStack(fd.Body, func(nd ast.Node, stack []ast.Node) bool {
			call, ok := nd.(*ast.CallExpr)
			if !ok || !isMethodOf(Callee(p, call), p.Types, "Compiler", "changeOperand") || len(call.Args) < 2 {
				return true
			}
			n++
			good := false
			if id, ok := ast.Unparen(call.Args[0]).(*ast.Ident); ok {
				obj := p.TypesInfo.Uses[id]
				if placeholders[obj] {
					good = true
				}
				// range variable over a loop list
				for i := len(stack) - 1; i >= 0; i-- {
					if rs, ok := stack[i].(*ast.RangeStmt); ok {
						if vid, ok := rs.Value.(*ast.Ident); ok && p.TypesInfo.Defs[vid] == obj && isLoopList(rs.X) {
							good = true
						}
					}
				}
			}
			// exactly one operand (jumps take one)
			c.check(good && len(call.Args) == 2, fmt.Sprintf("patch/%s#%d", w.ctxKey(call.Pos()), n), call, "patches a recorded placeholder with one target", "changeOperand is applied to a position that is not a recorded jump placeholder: "+w.Src(call))
			return true
		})
	})
	// loop lists: written only by append in Compiler.Compile's branch arm, read only by range loops
	w.AllFuncDecls(p, func(fd *ast.FuncDecl) {
		inspectWithStack(fd.Body, func(nd ast.Node, stack []ast.Node) bool {
			se, ok := nd.(*ast.SelectorExpr)
			if !ok || !isLoopList(se) {
				return true
			}
			par := stack[len(stack)-2]
			good := false
			switch x := par.(type) {
			case *ast.RangeStmt:
				good = x.X == ast.Expr(se)
			case *ast.CallExpr:
				good = IsBuiltinCall(p, x, "append") && x.Args[0] == ast.Expr(se)
			case *ast.AssignStmt:
				// curLoop.Breaks = append(curLoop.Breaks, pos)
				if len(x.Lhs) == 1 && x.Lhs[0] == ast.Expr(se) {
					if call, ok := x.Rhs[0].(*ast.CallExpr); ok && IsBuiltinCall(p, call, "append") {
						good = w.Src(call.Args[0]) == w.Src(se)
					}
				}
			}
			n++
			c.check(good, fmt.Sprintf("looplist/%s#%d", w.ctxKey(se.Pos()), n), se, "loop list only appended to and ranged over", "unexpected use of a loop's break/continue list: "+w.Src(par))
			return true
		})
	})
}

func ruleJMP2(c *Ctx) {
	w := c.W
	p := w.Root
	compT := p.Types.Scope().Lookup("Compiler")
	if compT == nil {
		c.anchor("Compiler")
		return
	}
	scopeIdx := structField(p.Types, "Compiler", "scopeIndex")
	loopsF := structField(p.Types, "Compiler", "loops")
	loopIdx := structField(p.Types, "Compiler", "loopIndex")
	if scopeIdx == nil || loopsF == nil || loopIdx == nil {
		c.anchor("Compiler.scopeIndex / loops / loopIndex")
		return
	}
	n := 0
	w.AllFuncDecls(p, func(fd *ast.FuncDecl) {
		var inc, dec bool
		ast.Inspect(fd.Body, func(nd ast.Node) bool {
			if x, ok := nd.(*ast.IncDecStmt); ok {
				if f, _ := FieldSel(p, x.X); f == scopeIdx {
					if x.Tok == token.INC {
						inc = true
					} else {
						dec = true
					}
				}
			}
			return true
		})
		if !inc && !dec {
			return
		}
		n++
		assigned := func(f *types.Var) (bool, ast.Expr) {
			var rhs ast.Expr
			found := false
			ast.Inspect(fd.Body, func(nd ast.Node) bool {
				as, ok := nd.(*ast.AssignStmt)
				if !ok || len(as.Lhs) != len(as.Rhs) {
					return true
				}
				for i, l := range as.Lhs {
					if g, _ := FieldSel(p, l); g == f {
						found, rhs = true, as.Rhs[i]
					}
				}
				return true
			})
			return found, rhs
		}
		okLoops, rl := assigned(loopsF)
		okIdx, ri := assigned(loopIdx)
		key := "loop-context/" + funcName(fd)
		if inc {
			good := okLoops && okIdx
			if good {
				k, okc := ConstInt(p, ri)
				good = okc && k == -1 && (isNilIdent(rl) || strings.HasPrefix(w.Src(rl), "[]"))
			}
			c.check(good, key, fd, "entering a function scope resets the loop stack (loops=nil, loopIndex=-1)", "a new compilation scope is opened without resetting the loop stack: `break`/`continue` inside a function literal would bind to a loop of the enclosing function and patch its instruction stream")
		}
		if dec {
			c.check(okLoops && okIdx, key+"/restore", fd, "leaving a function scope restores the saved loop stack", "a compilation scope is closed without restoring the enclosing function's loop stack")
		}
	})
	if n < 2 {
		c.fail("loop-context/count", nil, "expected the scope-enter and scope-leave functions")
	}
}

func ruleRET1(c *Ctx) {
	w := c.W
	p := w.Root
	_, _, noFall := w.vmClasses()
	comp := w.FuncDecl(p, "Compiler.Compile")
	if comp == nil {
		c.anchor("Compiler.Compile")
		return
	}
	// FuncLit arm: optimizeFunc before leaveScope, both at statement level of the arm
	var arm *ast.CaseClause
	ast.Inspect(comp.Body, func(nd ast.Node) bool {
		if cc, ok := nd.(*ast.CaseClause); ok && len(cc.List) == 1 {
			if tv, ok := p.TypesInfo.Types[cc.List[0]]; ok && tv.IsType() {
				if n, _ := namedName(tv.Type); n == "FuncLit" {
					arm = cc
				}
			}
		}
		return true
	})
	if arm == nil {
		c.anchor("FuncLit arm")
		return
	}
	idxOf := func(list []ast.Stmt, name string) int {
		for i, s := range list {
			switch s.(type) {
			case *ast.ExprStmt, *ast.AssignStmt:
				if containsNode(s, func(n ast.Node) bool {
					call, ok := n.(*ast.CallExpr)
					return ok && Callee(p, call) != nil && Callee(p, call).Name() == name
				}) {
					return i
				}
			}
		}
		return -1
	}
	io, il, ic := idxOf(arm.Body, "optimizeFunc"), idxOf(arm.Body, "leaveScope"), -1
	for i, s := range arm.Body {
		if is, ok := s.(*ast.IfStmt); ok {
			if containsNode(is, func(n ast.Node) bool {
				call, ok := n.(*ast.CallExpr)
				return ok && isMethodOf(Callee(p, call), p.Types, "Compiler", "Compile")
			}) {
				ic = i
			}
		}
	}
	c.check(ic >= 0 && io > ic && il > io, "funclit/optimize-before-capture", arm, "body compiled, then optimizeFunc (terminates the body), then leaveScope captures the instructions", "in the function-literal arm optimizeFunc must run after the body is compiled and before leaveScope captures the instruction stream (it appends the final return)")
	// FRAME.1 in the same arm
	im, ifs := idxOf(arm.Body, "MaxSymbols"), idxOf(arm.Body, "FreeSymbols")
	c.check(im >= 0 && im < il && ifs >= 0 && ifs < il, "funclit/frame-read-before-leave", arm, "NumLocals and the capture list are read from the function's own table before the scope is left", "MaxSymbols()/FreeSymbols() must be read before leaveScope switches back to the enclosing symbol table")
	var lit *ast.CompositeLit
	ast.Inspect(arm, func(nd ast.Node) bool {
		if cl, ok := nd.(*ast.CompositeLit); ok {
			if n, _ := namedName(p.TypesInfo.Types[cl].Type); n == "CompiledFunction" {
				lit = cl
			}
		}
		return true
	})
	if lit == nil {
		c.anchor("CompiledFunction literal in the FuncLit arm")
	} else {
		fields := map[string]string{}
		for _, e := range lit.Elts {
			if kv, ok := e.(*ast.KeyValueExpr); ok {
				fields[w.Src(kv.Key)] = w.Src(kv.Value)
			}
		}
		// NumLocals: the variable assigned from MaxSymbols()
		nl := ""
		if im >= 0 {
			if as, ok := arm.Body[im].(*ast.AssignStmt); ok && len(as.Lhs) == 1 {
				nl = w.Src(as.Lhs[0])
			}
		}
		good := fields["NumLocals"] == nl && nl != "" &&
			strings.HasPrefix(fields["NumParameters"], "len(") && strings.HasSuffix(fields["NumParameters"], ".Params.List)") &&
			strings.HasSuffix(fields["VarArgs"], ".Params.VarArgs") &&
			fields["Instructions"] != "" && fields["SourceMap"] != ""
		c.check(good, "funclit/frame-layout", lit, "NumLocals=MaxSymbols(), NumParameters=len(params), VarArgs from the signature", fmt.Sprintf("CompiledFunction is built with %v", fields))
	}
	// compileModule: optimizeFunc before Bytecode(); NumLocals from the module table
	cm := w.FuncDecl(p, "Compiler.compileModule")
	if cm == nil {
		c.anchor("compileModule")
	} else {
		io, ib := idxOf(cm.Body.List, "optimizeFunc"), idxOf(cm.Body.List, "Bytecode")
		c.check(io >= 0 && ib > io, "module/optimize-before-capture", cm, "module body optimised/terminated before it is captured", "compileModule must call optimizeFunc before taking Bytecode().MainFunction")
		nlSet := containsNode(cm.Body, func(nd ast.Node) bool {
			as, ok := nd.(*ast.AssignStmt)
			if !ok || len(as.Lhs) != 1 {
				return false
			}
			f, _ := FieldSel(p, as.Lhs[0])
			return f != nil && f.Name() == "NumLocals" && strings.Contains(w.Src(as.Rhs[0]), "MaxSymbols()")
		})
		c.check(nlSet, "module/numlocals", cm, "module function's NumLocals = MaxSymbols() of the module table", "compileModule does not set NumLocals from the module's symbol table")
	}
	// Bytecode(): appends a never-fall-through opcode to the main function
	bc := w.FuncDecl(p, "Compiler.Bytecode")
	if bc == nil {
		c.anchor("Compiler.Bytecode")
	} else {
		good := false
		ast.Inspect(bc.Body, func(nd ast.Node) bool {
			call, ok := nd.(*ast.CallExpr)
			if ok && IsBuiltinCall(p, call, "append") && len(call.Args) == 2 {
				if co := ConstObj(p, call.Args[1]); co != nil && noFall[co.Name()] {
					good = true
				}
			}
			return true
		})
		c.check(good, "main/terminated", bc, "main function ends with an opcode the VM never falls through", "Bytecode() does not terminate the main function with a never-fall-through opcode (the VM would run off the end of the stream)")
	}
	// optimizeFunc: last statement appends OpReturn when needed
	opt := w.FuncDecl(p, "Compiler.optimizeFunc")
	if opt == nil {
		c.anchor("optimizeFunc")
		return
	}
	last, _ := opt.Body.List[len(opt.Body.List)-1].(*ast.IfStmt)
	good := false
	if last != nil && last.Else == nil {
		good = containsNode(last.Body, func(nd ast.Node) bool {
			call, ok := nd.(*ast.CallExpr)
			if !ok || !isMethodOf(Callee(p, call), p.Types, "Compiler", "emit") || len(call.Args) < 2 {
				return false
			}
			co := ConstObj(p, call.Args[1])
			return co != nil && co.Name() == "OpReturn"
		})
	}
	c.check(good, "optimize/append-return", opt, "optimizeFunc ends by appending OpReturn when the body does not end in one", "optimizeFunc no longer ends with the conditional `emit(OpReturn)`")
}

func ruleOPT(c *Ctx) {
	w := c.W
	p := w.Root
	opt := w.FuncDecl(p, "Compiler.optimizeFunc")
	if opt == nil {
		c.anchor("optimizeFunc")
		return
	}
	// the position map: a map[int]int local
	var posMap types.Object
	ast.Inspect(opt.Body, func(nd ast.Node) bool {
		as, ok := nd.(*ast.AssignStmt)
		if !ok || as.Tok != token.DEFINE || len(as.Lhs) != 1 {
			return true
		}
		id, _ := as.Lhs[0].(*ast.Ident)
		if id == nil {
			return true
		}
		o := p.TypesInfo.Defs[id]
		if m, ok := o.Type().Underlying().(*types.Map); ok {
			if k, ok := m.Key().Underlying().(*types.Basic); ok && k.Kind() == types.Int {
				if types.Identical(m.Elem(), types.Typ[types.Int]) && posMap == nil {
					posMap = o
				}
			}
		}
		return true
	})
	if posMap == nil {
		c.anchor("old→new position map in optimizeFunc")
		return
	}
	isPosMap := func(e ast.Expr) bool {
		id, ok := ast.Unparen(e).(*ast.Ident)
		return ok && p.TypesInfo.Uses[id] == posMap
	}
	// OPT.2: posMap[pos] = len(X) immediately followed by X = append(X, …)
	n2 := 0
	ast.Inspect(opt.Body, func(nd ast.Node) bool {
		bs, ok := nd.(*ast.BlockStmt)
		if !ok {
			return true
		}
		for i, s := range bs.List {
			as, ok := s.(*ast.AssignStmt)
			if !ok || len(as.Lhs) != 1 {
				continue
			}
			ix, ok := as.Lhs[0].(*ast.IndexExpr)
			if !ok || !isPosMap(ix.X) {
				continue
			}
			n2++
			good := false
			if lc, ok := ast.Unparen(as.Rhs[0]).(*ast.CallExpr); ok && IsBuiltinCall(p, lc, "len") && i+1 < len(bs.List) {
				tgt := w.Src(lc.Args[0])
				if nx, ok := bs.List[i+1].(*ast.AssignStmt); ok && len(nx.Lhs) == 1 && w.Src(nx.Lhs[0]) == tgt {
					if ac, ok := nx.Rhs[0].(*ast.CallExpr); ok && IsBuiltinCall(p, ac, "append") && w.Src(ac.Args[0]) == tgt {
						good = true
					}
				}
			}
			// key must be the callback's position parameter
			if _, isId := ast.Unparen(ix.Index).(*ast.Ident); !isId {
				good = false
			}
			c.check(good, fmt.Sprintf("OPT.2/posmap-store#%d", n2), as, "old position mapped to the length of the new stream right before the instruction is appended", "the old→new position map is not filled as `posMap[pos] = len(new)` immediately before the instruction is appended to `new`: "+w.Src(as))
		}
		return true
	})
	if n2 == 0 {
		c.fail("OPT.2/posmap-store/none", opt, "no store into the position map")
	}
	// OPT.1: values looked up in posMap are used verbatim
	n1 := 0
	inspectWithStack(opt.Body, func(nd ast.Node, stack []ast.Node) bool {
		as, ok := nd.(*ast.AssignStmt)
		if !ok || len(as.Rhs) != 1 || len(as.Lhs) != 2 {
			return true
		}
		ix, ok := as.Rhs[0].(*ast.IndexExpr)
		if !ok || !isPosMap(ix.X) {
			return true
		}
		lid, _ := as.Lhs[0].(*ast.Ident)
		if lid == nil {
			return true
		}
		obj := p.TypesInfo.Defs[lid]
		n1++
		// every use of obj in this function: as a whole call argument or a whole map key
		bad := ""
		uses := 0
		inspectWithStack(opt.Body, func(m ast.Node, st2 []ast.Node) bool {
			id, ok := m.(*ast.Ident)
			if !ok || p.TypesInfo.Uses[id] != obj {
				return true
			}
			uses++
			switch par := st2[len(st2)-2].(type) {
			case *ast.CallExpr:
				// MakeInstruction(op, newDst) / fmt.Errorf(..., newDst)
				_ = par
			case *ast.IndexExpr:
				if par.Index != ast.Expr(id) {
					bad = "used as " + w.Src(par)
				}
			default:
				bad = "used in " + w.Src(st2[len(st2)-2])
			}
			return true
		})
		c.check(bad == "" && uses > 0, fmt.Sprintf("OPT.1/lookup-verbatim#%d", n1), as, "remapped offset used verbatim (no arithmetic)", "a remapped position is not used verbatim: "+bad)
		return true
	})
	if n1 < 2 {
		c.fail("OPT.1/lookups", opt, fmt.Sprintf("expected the jump-retargeting lookup and the source-map lookup in the position map; found %d", n1))
	}
	// a jump to the old end maps to the new end
	endOK := false
	var visitIf func(nd ast.Node) bool
	visitIf = func(nd ast.Node) bool {
		is, ok := nd.(*ast.IfStmt)
		if !ok {
			return true
		}
		// the branch taken when the two sides are equal, however the test is
		// spelled (`a == b`, `!(a != b)`, `a != b … else`)
		bare, neg := stripNot(is.Cond)
		b, ok := bare.(*ast.BinaryExpr)
		if !ok || (b.Op != token.EQL && b.Op != token.NEQ) {
			return true
		}
		if b.Op == token.NEQ {
			neg = !neg
		}
		var eqBranch ast.Node = is.Body
		if neg {
			if is.Else == nil {
				return true
			}
			eqBranch = is.Else
		}
		// one side: variable defined as len(<old instructions>); body passes a variable defined as len(<new>)
		isLenVar := func(e ast.Expr) string {
			id, ok := ast.Unparen(e).(*ast.Ident)
			if !ok {
				return ""
			}
			obj := p.TypesInfo.Uses[id]
			res := ""
			ast.Inspect(opt.Body, func(m ast.Node) bool {
				as, ok := m.(*ast.AssignStmt)
				if !ok || len(as.Lhs) != 1 || len(as.Rhs) != 1 {
					return true
				}
				if lid, ok := as.Lhs[0].(*ast.Ident); ok && p.TypesInfo.Defs[lid] == obj {
					if lc, ok := as.Rhs[0].(*ast.CallExpr); ok && IsBuiltinCall(p, lc, "len") {
						res = w.Src(lc.Args[0])
					}
				}
				return true
			})
			return res
		}
		old := isLenVar(b.X)
		if old == "" {
			old = isLenVar(b.Y)
		}
		if old == "" || !strings.Contains(old, "Instructions") {
			return true
		}
		ast.Inspect(eqBranch, func(m ast.Node) bool {
			call, ok := m.(*ast.CallExpr)
			if ok && Callee(p, call) != nil && Callee(p, call).Name() == "MakeInstruction" && len(call.Args) == 2 {
				if nw := isLenVar(call.Args[1]); nw != "" && !strings.Contains(nw, "Instructions") {
					endOK = true
				}
			}
			return true
		})
		return true
	}
	ast.Inspect(opt.Body, visitIf)
	ast.Inspect(opt.Body, func(nd ast.Node) bool {
		// a tagless switch is read as the if / else-if chain it is
		if sw, ok := nd.(*ast.SwitchStmt); ok {
			if chain := switchAsIfChain(sw); chain != nil {
				for cur := chain; cur != nil; {
					visitIf(cur)
					next, _ := cur.Else.(*ast.IfStmt)
					cur = next
				}
			}
		}
		return true
	})
	c.check(endOK, "OPT.1/end-maps-to-end", opt, "a jump to the end of the old stream is retargeted to the end of the new stream", "the branch that retargets jumps to the function end does not map len(old instructions) to len(new instructions)")
	// OPT.4: the source map is rebuilt into a fresh map that replaces the old one
	freshMap := false
	ast.Inspect(opt.Body, func(nd ast.Node) bool {
		as, ok := nd.(*ast.AssignStmt)
		if !ok || len(as.Lhs) != 1 || len(as.Rhs) != 1 || !strings.HasSuffix(w.Src(as.Lhs[0]), ".SourceMap") {
			return true
		}
		id, ok := ast.Unparen(as.Rhs[0]).(*ast.Ident)
		if !ok {
			return true
		}
		obj := p.TypesInfo.Uses[id]
		ast.Inspect(opt.Body, func(m ast.Node) bool {
			d, ok := m.(*ast.AssignStmt)
			if !ok || len(d.Lhs) != 1 || len(d.Rhs) != 1 {
				return true
			}
			if lid, ok := d.Lhs[0].(*ast.Ident); ok && p.TypesInfo.Defs[lid] == obj {
				if call, ok := d.Rhs[0].(*ast.CallExpr); ok && IsBuiltinCall(p, call, "make") {
					freshMap = true
				}
			}
			return true
		})
		return true
	})
	c.check(freshMap, "OPT.4/source-map-rebuilt", opt, "the function's source map is replaced by a map built in this pass (entries of removed instructions disappear)", "optimizeFunc does not replace the source map with a freshly built one: entries of removed instructions survive and error positions of moved instructions can resolve to dead code")
	// a jump destination revives code: `case dsts[pos]: … deadCode = false`
	revive := containsNode(opt.Body, func(nd ast.Node) bool {
		cc, ok := nd.(*ast.CaseClause)
		if !ok || len(cc.List) != 1 {
			return false
		}
		if _, isIdx := ast.Unparen(cc.List[0]).(*ast.IndexExpr); !isIdx {
			return false
		}
		return containsNode(cc, func(m ast.Node) bool {
			as, ok := m.(*ast.AssignStmt)
			return ok && len(as.Rhs) == 1 && w.Src(as.Rhs[0]) == "false"
		})
	})
	c.check(revive, "OPT.3/destination-revives", opt, "an instruction that is a jump destination ends a dead region (checked first)", "the dead-code pass no longer clears the dead flag at jump destinations: reachable code after a return would be removed")
}

// LOCALTS: typestate of local slots. A local slot may only be pointed at
// (GETLP) or stored through (SETL) once it has been defined (DEFL is the one
// opcode that overwrites a slot without looking through a captured-variable
// cell left there by an earlier scope). The compiler tracks this with
// Symbol.LocalAssigned; both sites must consult it and define first.
func ruleLOCALTS(c *Ctx) {
	w := c.W
	p := w.Root
	n := 0
	for _, es := range w.emitSites() {
		if es.Kind != "emit" || len(es.Ops) != 1 || len(es.Args) < 1 {
			continue
		}
		op := es.Ops[0]
		if op != "OpGetLocalPtr" && op != "OpSetLocal" {
			continue
		}
		f, symExpr := FieldSel(p, es.Args[0])
		if f == nil || f.Name() != "Index" {
			continue
		}
		sym := w.Src(symExpr)
		n++
		var stack []ast.Node
		inspectWithStack(es.Fn, func(nd ast.Node, st []ast.Node) bool {
			if nd == ast.Node(es.Call) {
				stack = append([]ast.Node{}, st...)
			}
			return true
		})
		key := fmt.Sprintf("local-typestate/%s/%s#%d", w.ctxKey(es.Call.Pos()), op, n)
		definesIn := func(b ast.Node) bool {
			return containsNode(b, func(m ast.Node) bool {
				call, ok := m.(*ast.CallExpr)
				if !ok || !isMethodOf(Callee(p, call), p.Types, "Compiler", "emit") || len(call.Args) < 3 {
					return false
				}
				co := ConstObj(p, call.Args[1])
				return co != nil && co.Name() == "OpDefineLocal" && w.Src(call.Args[2]) == sym+".Index"
			})
		}
		good := false
		switch op {
		case "OpGetLocalPtr":
			// preceded (same list) by `if !sym.LocalAssigned { …emit(DEFL, sym.Index)…; sym.LocalAssigned = true }`
			for i := len(stack) - 1; i > 0 && !good; i-- {
				var list []ast.Stmt
				switch par := stack[i-1].(type) {
				case *ast.BlockStmt:
					list = par.List
				case *ast.CaseClause:
					list = par.Body
				}
				for j, s := range list {
					if ast.Node(s) != stack[i] || j == 0 {
						continue
					}
					if is, ok := list[j-1].(*ast.IfStmt); ok && strings.ReplaceAll(w.Src(is.Cond), " ", "") == "!"+sym+".LocalAssigned" {
						marks := containsNode(is.Body, func(m ast.Node) bool {
							as, ok := m.(*ast.AssignStmt)
							return ok && len(as.Lhs) == 1 && w.Src(as.Lhs[0]) == sym+".LocalAssigned" && w.Src(as.Rhs[0]) == "true"
						})
						good = definesIn(is.Body) && marks
					}
				}
			}
		case "OpSetLocal":
			// the else-branch of `if … !sym.LocalAssigned { emit(DEFL) } else { emit(SETL) }`
			// (or a later arm of a tagless switch one of whose earlier arms is
			// that test: the same alternatives written as a switch)
			notAssigned := func(cond ast.Expr) bool {
				return cond != nil && strings.Contains(strings.ReplaceAll(w.Src(cond), " ", ""), "!"+sym+".LocalAssigned")
			}
			for i := len(stack) - 1; i > 0 && !good; i-- {
				if is, ok := stack[i-1].(*ast.IfStmt); ok && is.Else != nil {
					// SETL in the branch taken when the condition "… && !LocalAssigned"
					// is false, DEFL in the other one - whichever is written first
					bare, neg := stripNot(is.Cond)
					thenB, elseB := ast.Node(is.Body), ast.Node(is.Else)
					if neg {
						thenB, elseB = elseB, thenB
					}
					if stack[i] == elseB && notAssigned(bare) && definesIn(thenB) {
						good = true
					}
				}
				if cc, ok := stack[i-1].(*ast.CaseClause); ok && i >= 3 {
					if sw, ok := stack[i-3].(*ast.SwitchStmt); ok && sw.Tag == nil {
						for _, cl := range sw.Body.List {
							prev := cl.(*ast.CaseClause)
							if prev == cc {
								break
							}
							for _, e := range prev.List {
								if notAssigned(e) && definesIn(&ast.BlockStmt{List: prev.Body}) {
									good = true
								}
							}
						}
					}
				}
			}
		}
		c.check(good, key, es.Call, "the slot is defined first whenever the symbol is not yet assigned", fmt.Sprintf("%s is emitted for %s without first defining the slot when %s.LocalAssigned is false: the slot may still hold the captured-variable cell of an earlier block, so a closure created earlier would see (or be overwritten by) the new variable", op, sym, sym))
	}
	if n < 2 {
		c.fail("local-typestate/count", nil, fmt.Sprintf("expected the capture site (GETLP) and the assignment site (SETL); found %d", n))
	}
	// who may set LocalAssigned = true: only next to a definition, a parameter, or a for-in variable
	w.AllFuncDecls(p, func(fd *ast.FuncDecl) {
		ast.Inspect(fd.Body, func(nd ast.Node) bool {
			as, ok := nd.(*ast.AssignStmt)
			if !ok || len(as.Lhs) != 1 {
				return true
			}
			f, _ := FieldSel(p, as.Lhs[0])
			if f == nil || f.Name() != "LocalAssigned" {
				return true
			}
			c.check(w.Src(as.Rhs[0]) == "true", fmt.Sprintf("local-typestate/set/%s", w.ctxKey(as.Pos())), as, "LocalAssigned only ever becomes true", "LocalAssigned is reset: "+w.Src(as))
			return true
		})
	})
}
