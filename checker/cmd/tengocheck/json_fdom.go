package main

// json_fdom.go: finite-domain evaluation of the JSON scanner state functions
// (JSON.1). Each `state*` function touches its byte argument only through
// comparisons with constants and the parse stack only through len()==0, its
// top element, push, pop and replace-top; so its behaviour is exactly a table
// over (byte 0..255) × (stack summary). The tables of stdlib/json are compared
// with those of the encoding/json of the toolchain that builds /repo.

import (
	"fmt"
	"go/ast"
	"go/constant"
	"go/token"
	"go/types"
	"os"
	"sort"
	"strings"

	"golang.org/x/tools/go/packages"
)

type jStack struct {
	elems []int // known top elements, top last
	more  bool  // at least one more (unknown) element below
}

func (s jStack) String() string {
	p := ""
	if s.more {
		p = "…,"
	}
	return fmt.Sprintf("[%s%s]", p, strings.Trim(fmt.Sprint(s.elems), "[]"))
}

type jScanner struct {
	step   string
	stack  jStack
	endTop bool
	err    bool
}

type jVal struct {
	kind string // int | bool | func | len | scanner | stack | other | nil
	i    int64
	b    bool
	s    string
	k    int64 // for len: len(stack)+k
}

type jInterp struct {
	w       *World
	p       *packages.Package
	funcs   map[string]*ast.FuncDecl
	sc      *jScanner
	assumed map[string]bool
	fail    string
	depth   int
}

type jFrame struct {
	vars map[types.Object]jVal
	ret  *jVal
}

func (in *jInterp) bad(format string, a ...interface{}) {
	if in.fail == "" {
		in.fail = fmt.Sprintf(format, a...)
	}
}

func (in *jInterp) constOf(e ast.Expr) (jVal, bool) {
	tv, ok := in.p.TypesInfo.Types[e]
	if !ok || tv.Value == nil {
		return jVal{}, false
	}
	switch tv.Value.Kind() {
	case constant.Int:
		v, _ := constant.Int64Val(tv.Value)
		return jVal{kind: "int", i: v}, true
	case constant.Bool:
		return jVal{kind: "bool", b: constant.BoolVal(tv.Value)}, true
	case constant.String:
		return jVal{kind: "other", s: constant.StringVal(tv.Value)}, true
	}
	return jVal{}, false
}

func (in *jInterp) isScannerField(e ast.Expr, name string) bool {
	se, ok := ast.Unparen(e).(*ast.SelectorExpr)
	if !ok || se.Sel.Name != name {
		return false
	}
	f, _ := FieldSel(in.p, se)
	return f != nil
}

func (in *jInterp) eval(e ast.Expr, fr *jFrame) jVal {
	if in.fail != "" {
		return jVal{}
	}
	if v, ok := in.constOf(e); ok {
		return v
	}
	switch x := ast.Unparen(e).(type) {
	case *ast.Ident:
		if x.Name == "nil" {
			return jVal{kind: "nil"}
		}
		o := in.p.TypesInfo.Uses[x]
		if v, ok := fr.vars[o]; ok {
			return v
		}
		if fn, ok := o.(*types.Func); ok {
			return jVal{kind: "func", s: fn.Name()}
		}
		in.bad("unknown identifier %s", x.Name)
	case *ast.SelectorExpr:
		switch {
		case in.isScannerField(x, "parseState"):
			return jVal{kind: "stack"}
		case in.isScannerField(x, "step"):
			return jVal{kind: "func", s: in.sc.step}
		case in.isScannerField(x, "endTop"):
			return jVal{kind: "bool", b: in.sc.endTop}
		case in.isScannerField(x, "err"):
			if in.sc.err {
				return jVal{kind: "other", s: "err"}
			}
			return jVal{kind: "nil"}
		case in.isScannerField(x, "bytes"):
			return jVal{kind: "int", i: 0}
		}
		in.bad("unsupported selector %s", in.w.Src(x))
	case *ast.CallExpr:
		return in.call(x, fr)
	case *ast.BinaryExpr:
		if x.Op == token.LAND || x.Op == token.LOR {
			a := in.eval(x.X, fr)
			if a.kind != "bool" {
				in.bad("non-boolean operand in %s", in.w.Src(x))
				return jVal{}
			}
			if x.Op == token.LAND && !a.b {
				return a
			}
			if x.Op == token.LOR && a.b {
				return a
			}
			return in.eval(x.Y, fr)
		}
		a, b := in.eval(x.X, fr), in.eval(x.Y, fr)
		if in.fail != "" {
			return jVal{}
		}
		// symbolic length
		if a.kind == "len" || b.kind == "len" {
			return in.lenOp(x, a, b)
		}
		if a.kind == "int" && b.kind == "int" {
			switch x.Op {
			case token.EQL:
				return jVal{kind: "bool", b: a.i == b.i}
			case token.NEQ:
				return jVal{kind: "bool", b: a.i != b.i}
			case token.LSS:
				return jVal{kind: "bool", b: a.i < b.i}
			case token.LEQ:
				return jVal{kind: "bool", b: a.i <= b.i}
			case token.GTR:
				return jVal{kind: "bool", b: a.i > b.i}
			case token.GEQ:
				return jVal{kind: "bool", b: a.i >= b.i}
			case token.ADD:
				return jVal{kind: "int", i: a.i + b.i}
			case token.SUB:
				return jVal{kind: "int", i: a.i - b.i}
			}
		}
		if (a.kind == "nil" || a.kind == "other") && (b.kind == "nil" || b.kind == "other") {
			eq := a.kind == b.kind
			if x.Op == token.EQL {
				return jVal{kind: "bool", b: eq}
			}
			if x.Op == token.NEQ {
				return jVal{kind: "bool", b: !eq}
			}
		}
		if a.kind == "other" || b.kind == "other" {
			return jVal{kind: "other"} // string concatenation in messages
		}
		in.bad("unsupported binary expression %s", in.w.Src(x))
	case *ast.UnaryExpr:
		if x.Op == token.NOT {
			a := in.eval(x.X, fr)
			return jVal{kind: "bool", b: !a.b}
		}
		if x.Op == token.AND {
			return jVal{kind: "other", s: "addr"}
		}
	case *ast.CompositeLit:
		return jVal{kind: "other", s: "lit"}
	case *ast.IndexExpr:
		// s.parseState[n-1]
		if in.isScannerField(x.X, "parseState") {
			idx := in.eval(x.Index, fr)
			if idx.kind == "len" && idx.k == -1 && len(in.sc.stack.elems) > 0 {
				return jVal{kind: "int", i: int64(in.sc.stack.elems[len(in.sc.stack.elems)-1])}
			}
			in.bad("parse stack read that is not the top element: %s", in.w.Src(x))
			return jVal{}
		}
	case *ast.SliceExpr:
		// s.parseState[0:n] / [:n] with n = len-1 ; [0:0]
		if in.isScannerField(x.X, "parseState") && x.High != nil {
			hi := in.eval(x.High, fr)
			if hi.kind == "len" && hi.k == -1 {
				return jVal{kind: "stack", s: "pop"}
			}
			if hi.kind == "int" && hi.i == 0 {
				return jVal{kind: "stack", s: "clear"}
			}
		}
		in.bad("unsupported slice expression %s", in.w.Src(x))
	}
	if in.fail == "" {
		in.bad("unsupported expression %s", in.w.Src(e))
	}
	return jVal{}
}

func (in *jInterp) stackLenMin() (int, bool) {
	n := len(in.sc.stack.elems)
	if in.sc.stack.more {
		return n + 1, false // at least n+1
	}
	return n, true
}

func (in *jInterp) lenOp(x *ast.BinaryExpr, a, b jVal) jVal {
	// normalise to (len+k) op c
	flip := false
	if b.kind == "len" && a.kind == "int" {
		a, b = b, a
		flip = true
	}
	if a.kind != "len" || b.kind != "int" {
		in.bad("unsupported length expression %s", in.w.Src(x))
		return jVal{}
	}
	switch x.Op {
	case token.ADD:
		return jVal{kind: "len", k: a.k + b.i}
	case token.SUB:
		if flip {
			in.bad("unsupported length expression %s", in.w.Src(x))
			return jVal{}
		}
		return jVal{kind: "len", k: a.k - b.i}
	}
	min, exact := in.stackLenMin()
	lv := int64(min) + a.k
	op := x.Op
	if flip {
		switch op {
		case token.LSS:
			op = token.GTR
		case token.LEQ:
			op = token.GEQ
		case token.GTR:
			op = token.LSS
		case token.GEQ:
			op = token.LEQ
		}
	}
	if exact {
		switch op {
		case token.EQL:
			return jVal{kind: "bool", b: lv == b.i}
		case token.NEQ:
			return jVal{kind: "bool", b: lv != b.i}
		case token.LSS:
			return jVal{kind: "bool", b: lv < b.i}
		case token.LEQ:
			return jVal{kind: "bool", b: lv <= b.i}
		case token.GTR:
			return jVal{kind: "bool", b: lv > b.i}
		case token.GEQ:
			return jVal{kind: "bool", b: lv >= b.i}
		}
	}
	// length is only known to be >= lv
	switch op {
	case token.EQL:
		if b.i < lv {
			return jVal{kind: "bool", b: false}
		}
	case token.NEQ:
		if b.i < lv {
			return jVal{kind: "bool", b: true}
		}
	case token.GTR:
		if lv > b.i {
			return jVal{kind: "bool", b: true}
		}
	case token.GEQ:
		if lv >= b.i {
			return jVal{kind: "bool", b: true}
		}
	case token.LEQ, token.LSS:
		if b.i >= 1000 {
			in.assumed["nesting depth stays below the limit constant "+fmt.Sprint(b.i)] = true
			return jVal{kind: "bool", b: true}
		}
	}
	in.bad("comparison of an unknown stack depth: %s", in.w.Src(x))
	return jVal{}
}

func (in *jInterp) call(x *ast.CallExpr, fr *jFrame) jVal {
	p := in.p
	if IsBuiltinCall(p, x, "len") {
		if in.isScannerField(x.Args[0], "parseState") {
			return jVal{kind: "len"}
		}
		in.bad("len of %s", in.w.Src(x.Args[0]))
		return jVal{}
	}
	if IsBuiltinCall(p, x, "append") {
		if in.isScannerField(x.Args[0], "parseState") && len(x.Args) == 2 {
			v := in.eval(x.Args[1], fr)
			return jVal{kind: "stack", s: "push", i: v.i}
		}
		in.bad("append to %s", in.w.Src(x.Args[0]))
		return jVal{}
	}
	// conversions
	if tv, ok := p.TypesInfo.Types[x.Fun]; ok && tv.IsType() && len(x.Args) == 1 {
		return in.eval(x.Args[0], fr)
	}
	// s.step(s, c)
	if se, ok := x.Fun.(*ast.SelectorExpr); ok && in.isScannerField(se, "step") {
		return in.invoke(in.sc.step, x.Args, fr)
	}
	fn := Callee(p, x)
	if fn == nil {
		in.bad("unresolved call %s", in.w.Src(x))
		return jVal{}
	}
	if fn.Pkg() != p.Types {
		// strconv.Quote etc. in error messages
		return jVal{kind: "other"}
	}
	name := fn.Name()
	if sig, ok := fn.Type().(*types.Signature); ok && sig.Recv() != nil {
		rn, _ := namedName(sig.Recv().Type())
		name = rn + "." + name
	}
	return in.invoke(name, x.Args, fr)
}

func (in *jInterp) invoke(name string, args []ast.Expr, fr *jFrame) jVal {
	fd := in.funcs[name]
	if fd == nil {
		in.bad("function %s not found", name)
		return jVal{}
	}
	in.depth++
	defer func() { in.depth-- }()
	if in.depth > 12 {
		in.bad("call depth exceeded at %s", name)
		return jVal{}
	}
	nf := &jFrame{vars: map[types.Object]jVal{}}
	// bind params positionally; the receiver (scanner) is implicit
	var params []*ast.Ident
	if fd.Recv != nil {
		for _, f := range fd.Recv.List {
			params = append(params, f.Names...)
		}
	}
	var argVals []jVal
	for _, a := range args {
		if t := in.p.TypesInfo.Types[a].Type; t != nil {
			if tn, _ := namedName(t); tn == "scanner" {
				argVals = append(argVals, jVal{kind: "scanner"})
				continue
			}
		}
		argVals = append(argVals, in.eval(a, fr))
	}
	var plist []*ast.Ident
	for _, f := range fd.Type.Params.List {
		plist = append(plist, f.Names...)
	}
	for _, r := range params {
		nf.vars[in.p.TypesInfo.Defs[r]] = jVal{kind: "scanner"}
	}
	for i, pn := range plist {
		if i < len(argVals) && pn.Name != "_" {
			nf.vars[in.p.TypesInfo.Defs[pn]] = argVals[i]
		}
	}
	in.block(fd.Body.List, nf)
	if nf.ret != nil {
		return *nf.ret
	}
	return jVal{kind: "nil"}
}

func (in *jInterp) block(list []ast.Stmt, fr *jFrame) {
	for _, s := range list {
		if in.fail != "" || fr.ret != nil {
			return
		}
		in.stmt(s, fr)
	}
}

func (in *jInterp) assign(l ast.Expr, v jVal, fr *jFrame) {
	switch x := ast.Unparen(l).(type) {
	case *ast.Ident:
		if x.Name == "_" {
			return
		}
		o := in.p.TypesInfo.Defs[x]
		if o == nil {
			o = in.p.TypesInfo.Uses[x]
		}
		fr.vars[o] = v
	case *ast.SelectorExpr:
		switch {
		case in.isScannerField(x, "step"):
			if v.kind != "func" {
				in.bad("step assigned a non-function")
				return
			}
			in.sc.step = v.s
		case in.isScannerField(x, "endTop"):
			in.sc.endTop = v.b
		case in.isScannerField(x, "err"):
			in.sc.err = v.kind != "nil"
		case in.isScannerField(x, "parseState"):
			st := &in.sc.stack
			switch v.s {
			case "push":
				st.elems = append(append([]int{}, st.elems...), int(v.i))
			case "pop":
				if len(st.elems) > 0 {
					st.elems = st.elems[:len(st.elems)-1]
				} else if st.more {
					// popping an unknown element: still "more" unknown below or not
					in.bad("pop below the known part of the stack")
				} else {
					in.bad("pop of an empty stack")
				}
			case "clear":
				st.elems, st.more = nil, false
			default:
				in.bad("unsupported parse stack assignment")
			}
		case in.isScannerField(x, "bytes"):
		default:
			in.bad("assignment to %s", in.w.Src(x))
		}
	case *ast.IndexExpr:
		if in.isScannerField(x.X, "parseState") {
			idx := in.eval(x.Index, fr)
			if idx.kind == "len" && idx.k == -1 && len(in.sc.stack.elems) > 0 {
				in.sc.stack.elems = append(append([]int{}, in.sc.stack.elems[:len(in.sc.stack.elems)-1]...), int(v.i))
				return
			}
		}
		in.bad("assignment to %s", in.w.Src(x))
	default:
		in.bad("assignment to %s", in.w.Src(l))
	}
}

func (in *jInterp) stmt(s ast.Stmt, fr *jFrame) {
	switch x := s.(type) {
	case *ast.ReturnStmt:
		v := jVal{kind: "nil"}
		if len(x.Results) == 1 {
			v = in.eval(x.Results[0], fr)
		}
		fr.ret = &v
	case *ast.ExprStmt:
		in.eval(x.X, fr)
	case *ast.AssignStmt:
		if len(x.Lhs) != len(x.Rhs) {
			in.bad("tuple assignment %s", in.w.Src(x))
			return
		}
		for i := range x.Lhs {
			in.assign(x.Lhs[i], in.eval(x.Rhs[i], fr), fr)
		}
	case *ast.IncDecStmt:
		// counters (bytes) are irrelevant to the automaton
	case *ast.BlockStmt:
		in.block(x.List, fr)
	case *ast.IfStmt:
		if x.Init != nil {
			in.stmt(x.Init, fr)
		}
		c := in.eval(x.Cond, fr)
		if in.fail != "" {
			return
		}
		if c.kind != "bool" {
			in.bad("non-boolean condition %s", in.w.Src(x.Cond))
			return
		}
		if c.b {
			in.block(x.Body.List, fr)
		} else if x.Else != nil {
			in.stmt(x.Else, fr)
		}
	case *ast.SwitchStmt:
		if x.Init != nil {
			in.stmt(x.Init, fr)
		}
		var tag *jVal
		if x.Tag != nil {
			t := in.eval(x.Tag, fr)
			tag = &t
		}
		var def *ast.CaseClause
		for _, cs := range x.Body.List {
			cc := cs.(*ast.CaseClause)
			if cc.List == nil {
				def = cc
				continue
			}
			for _, e := range cc.List {
				v := in.eval(e, fr)
				if in.fail != "" {
					return
				}
				match := false
				if tag != nil {
					match = v.kind == tag.kind && v.i == tag.i
				} else {
					match = v.kind == "bool" && v.b
				}
				if match {
					in.block(cc.Body, fr)
					return
				}
			}
		}
		if def != nil {
			in.block(def.Body, fr)
		}
	case *ast.DeclStmt, *ast.EmptyStmt:
	default:
		in.bad("unsupported statement %T", s)
	}
}

// jsonTables computes, for every state function of package p, its table.
type jRow struct {
	Ret   int64
	Step  string
	Stack string
	EndT  bool
	Err   bool
}

func (w *World) jsonTables(p *packages.Package) (map[string]map[string]jRow, map[string]bool, string) {
	funcs := map[string]*ast.FuncDecl{}
	w.AllFuncDecls(p, func(fd *ast.FuncDecl) {
		funcs[funcName(fd)] = fd
	})
	// state functions: func(*scanner, byte) int named state*
	var states []string
	for n, fd := range funcs {
		if strings.HasPrefix(n, "state") && fd.Recv == nil && fd.Type.Params.NumFields() == 2 {
			states = append(states, n)
		}
	}
	sort.Strings(states)
	summaries := []jStack{{}}
	for k := 0; k < 3; k++ {
		summaries = append(summaries, jStack{elems: []int{k}}, jStack{elems: []int{k}, more: true})
	}
	out := map[string]map[string]jRow{}
	assumed := map[string]bool{}
	for _, st := range states {
		tab := map[string]jRow{}
		for _, sum := range summaries {
			for c := 0; c < 256; c++ {
				sc := &jScanner{step: st, stack: jStack{elems: append([]int{}, sum.elems...), more: sum.more}}
				in := &jInterp{w: w, p: p, funcs: funcs, sc: sc, assumed: assumed}
				fd := funcs[st]
				fr := &jFrame{vars: map[types.Object]jVal{}}
				var plist []*ast.Ident
				for _, f := range fd.Type.Params.List {
					plist = append(plist, f.Names...)
				}
				if len(plist) == 2 {
					if plist[0].Name != "_" {
						fr.vars[p.TypesInfo.Defs[plist[0]]] = jVal{kind: "scanner"}
					}
					if plist[1].Name != "_" {
						fr.vars[p.TypesInfo.Defs[plist[1]]] = jVal{kind: "int", i: int64(c)}
					}
				}
				in.block(fd.Body.List, fr)
				key := fmt.Sprintf("%s|%d", sum.String(), c)
				if in.fail != "" {
					// configurations that cannot occur (e.g. reading the top of an empty
					// stack) fail identically in both implementations; record as such
					tab[key] = jRow{Ret: -1, Step: "!" + in.fail}
					continue
				}
				r := jRow{Step: sc.step, Stack: sc.stack.String(), EndT: sc.endTop, Err: sc.err}
				if fr.ret != nil {
					r.Ret = fr.ret.i
				}
				tab[key] = r
			}
		}
		out[st] = tab
	}
	return out, assumed, ""
}

var refCache = map[string]*packages.Package{}

// loadRefJSON loads encoding/json of the toolchain that builds /repo (syntax + types).
func (w *World) loadRefJSON(goroot string) (*packages.Package, error) {
	return w.loadRef("encoding/json")
}

// loadRef loads a standard-library package of the toolchain that builds /repo.
func (w *World) loadRef(path string) (*packages.Package, error) {
	if p, ok := refCache[path]; ok {
		return p, nil
	}
	env := []string{}
	for _, e := range os.Environ() {
		if strings.HasPrefix(e, "GOWORK=") || strings.HasPrefix(e, "GOFLAGS=") {
			continue
		}
		env = append(env, e)
	}
	env = append(env, "GOFLAGS=-mod=mod", "GOWORK=off", "GOPROXY=off", "GOSUMDB=off", "GOTOOLCHAIN=local")
	env = append(env, w.ExtraEnv...)
	cfg := &packages.Config{
		Mode: packages.NeedName | packages.NeedFiles | packages.NeedCompiledGoFiles | packages.NeedImports | packages.NeedDeps |
			packages.NeedTypes | packages.NeedSyntax | packages.NeedTypesInfo | packages.NeedTypesSizes,
		Dir:  w.RepoDir,
		Env:  env,
		Fset: w.Fset,
	}
	pkgs, err := packages.Load(cfg, path)
	if err != nil {
		return nil, err
	}
	if len(pkgs) != 1 || len(pkgs[0].Errors) > 0 || pkgs[0].TypesInfo == nil {
		return nil, fmt.Errorf("cannot load %s: %v", path, pkgs)
	}
	refCache[path] = pkgs[0]
	return pkgs[0], nil
}
