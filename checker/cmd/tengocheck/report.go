package main

// report.go: obligations, rule registry, known findings, evidence output.

import (
	"time"
	"encoding/json"
	"fmt"
	"go/ast"
	"os"
	"path/filepath"
	"sort"
	"strings"
)

// Obligation is one rule instance at one construct. Key never contains a
// line number; Site does (informational).
type Obligation struct {
	Rule    string `json:"rule"`
	Key     string `json:"key"`
	Site    string `json:"site"`
	Verdict string `json:"verdict"` // discharged | violation | undecided | known-finding
	Detail  string `json:"detail,omitempty"`
}

type Rule struct {
	Name     string
	Text     string // the rule as applied, in words
	Floor    int    // minimum number of instances confirmed by hand on the pinned tree
	Thorough bool   // only run in the thorough tier
	Fn       func(c *Ctx)
}

type Property struct {
	ID         string
	Decided    string
	NotDecided string
	Rules      []*Rule
}

type Ctx struct {
	W    *World
	Tier string
	rule *Rule
	obls []Obligation
	// per-rule counters
	count map[string]int
	notes []string
}

func (c *Ctx) add(verdict, key string, n ast.Node, detail string) {
	site := "?"
	if n != nil {
		site = c.W.Site(n)
	}
	c.obls = append(c.obls, Obligation{Rule: c.rule.Name, Key: key, Site: site, Verdict: verdict, Detail: detail})
	c.count[c.rule.Name]++
}

func (c *Ctx) ok(key string, n ast.Node, detail string)   { c.add("discharged", key, n, detail) }
func (c *Ctx) fail(key string, n ast.Node, detail string) { c.add("violation", key, n, detail) }
func (c *Ctx) undecided(key string, n ast.Node, detail string) {
	c.add("undecided", key, n, detail)
}
func (c *Ctx) check(cond bool, key string, n ast.Node, okDetail, failDetail string) bool {
	if cond {
		c.ok(key, n, okDetail)
	} else {
		c.fail(key, n, failDetail)
	}
	return cond
}
func (c *Ctx) note(format string, a ...interface{}) {
	c.notes = append(c.notes, fmt.Sprintf(format, a...))
}

// anchor reports an unresolved anchor (a role the rule needs could not be
// found in the tree); this always fails the check.
func (c *Ctx) anchor(what string) {
	c.add("undecided", "anchor:"+what, nil, "anchor unresolved: "+what)
}

type KnownFinding struct {
	Property string `json:"property"`
	Rule     string `json:"rule"`
	Key      string `json:"key"`
	What     string `json:"what"`
}

type KnownFile struct {
	Findings []KnownFinding `json:"findings"`
	Fixed    []string       `json:"fixed"`
}

func loadKnown(path string) (*KnownFile, error) {
	b, err := os.ReadFile(path)
	if err != nil {
		if os.IsNotExist(err) {
			return &KnownFile{}, nil
		}
		return nil, err
	}
	var k KnownFile
	if err := json.Unmarshal(b, &k); err != nil {
		return nil, fmt.Errorf("%s: %w", path, err)
	}
	return &k, nil
}

type ruleSummary struct {
	Rule      string `json:"rule"`
	Text      string `json:"text"`
	Instances int    `json:"instances"`
	Floor     int    `json:"floor"`
	Failed    int    `json:"failed"`
}

func runProperty(w *World, p *Property, tier string) (*Ctx, []ruleSummary) {
	c := &Ctx{W: w, Tier: tier, count: map[string]int{}}
	var sums []ruleSummary
	for _, r := range p.Rules {
		if r.Thorough && tier != "thorough" {
			continue
		}
		c.rule = r
		before := len(c.obls)
		func() {
			defer func() {
				if rec := recover(); rec != nil {
					c.add("undecided", "checker-panic", nil, fmt.Sprintf("checker panicked inside rule (shape not understood): %v", rec))
				}
			}()
			t0 := time.Now()
			r.Fn(c)
			if os.Getenv("RULE_TIMING") != "" {
				fmt.Fprintf(os.Stderr, "RULE %s %v\n", r.Name, time.Since(t0))
			}
		}()
		n := len(c.obls) - before
		if n < r.Floor {
			c.add("undecided", "floor", nil, fmt.Sprintf("rule matched %d instances, fewer than the %d confirmed by hand on the pinned tree (a rule that matches nothing passes vacuously)", n, r.Floor))
		}
		failed := 0
		for _, o := range c.obls[before:] {
			if o.Verdict != "discharged" {
				failed++
			}
		}
		sums = append(sums, ruleSummary{Rule: r.Name, Text: r.Text, Instances: n, Floor: r.Floor, Failed: failed})
	}
	return c, sums
}

func writeJSON(path string, v interface{}) error {
	if err := os.MkdirAll(filepath.Dir(path), 0o755); err != nil {
		return err
	}
	b, err := json.MarshalIndent(v, "", " ")
	if err != nil {
		return err
	}
	return os.WriteFile(path, append(b, '\n'), 0o644)
}

// sampleObls picks up to perRule obligations per rule, spread over the list.
func sampleObls(obls []Obligation, perRule int) []Obligation {
	by := map[string][]Obligation{}
	var order []string
	for _, o := range obls {
		if _, ok := by[o.Rule]; !ok {
			order = append(order, o.Rule)
		}
		by[o.Rule] = append(by[o.Rule], o)
	}
	var out []Obligation
	for _, r := range order {
		l := by[r]
		// always include non-discharged ones
		var bad, good []Obligation
		for _, o := range l {
			if o.Verdict != "discharged" {
				bad = append(bad, o)
			} else {
				good = append(good, o)
			}
		}
		out = append(out, bad...)
		if len(good) <= perRule {
			out = append(out, good...)
			continue
		}
		step := float64(len(good)) / float64(perRule)
		for i := 0; i < perRule; i++ {
			out = append(out, good[int(float64(i)*step)])
		}
	}
	return out
}

func distinctKeys(obls []Obligation) int {
	s := map[string]bool{}
	for _, o := range obls {
		s[o.Rule+"|"+o.Key] = true
	}
	return len(s)
}

func sortedRuleNames(p *Property) string {
	var n []string
	for _, r := range p.Rules {
		n = append(n, r.Name)
	}
	sort.Strings(n)
	return strings.Join(n, ",")
}
