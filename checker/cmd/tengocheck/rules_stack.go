package main

// rules_stack.go: STK.1 - effect typing of the code generator (C02, C01).
//
// Every arm of Compiler.Compile and every compile helper is interpreted
// abstractly over the operand-stack height: a call of Compile on an
// expression counts +1, on a statement 0; every emit counts the stack effect
// of its opcode (table below, in terms of its operands); loops that compile
// each element of a slice count len(slice) times their body. Placeholder
// jumps remember the height at their target; when they are patched
// (changeOperand) the height of the code that falls into the landing point
// must agree with it, and after an unconditional jump the height is taken
// from the jump that lands there. At the end of the arm the height must have
// grown by exactly 1 for an expression node and by 0 for a statement node, on
// every path of the arm (paths that return an error are not code).
//
// What this decides: the *compiler's* part of "the operand-stack height at
// each instruction is the same along all paths and never negative" - by
// induction over the syntax tree, every compiled expression pushes one value
// and every compiled statement leaves the height unchanged, provided each
// opcode has the effect the table says. The table itself is compared with the
// VM arms only for the straight-line arms (STK.2).

import (
	"fmt"
	"os"
	"time"
	"go/ast"
	"go/token"
	"go/types"
	"sort"
	"strings"
)

// lin is a linear expression over symbolic terms; the constant sits under "".
type lin map[string]int

func (a lin) clone() lin {
	b := lin{}
	for k, v := range a {
		b[k] = v
	}
	return b
}
func (a lin) add(b lin, k int) lin {
	r := a.clone()
	for t, v := range b {
		r[t] += v * k
		if r[t] == 0 {
			delete(r, t)
		}
	}
	return r
}
func konst(k int) lin {
	if k == 0 {
		return lin{}
	}
	return lin{"": k}
}
func (a lin) String() string {
	var ks []string
	for k := range a {
		ks = append(ks, k)
	}
	sort.Strings(ks)
	var parts []string
	for _, k := range ks {
		if k == "" {
			parts = append(parts, fmt.Sprint(a[k]))
		} else {
			parts = append(parts, fmt.Sprintf("%d*%s", a[k], k))
		}
	}
	if len(parts) == 0 {
		return "0"
	}
	return strings.Join(parts, " + ")
}
func (a lin) eq(b lin) bool { return len(a.add(b, -1)) == 0 }

// stackEffect: pushes minus pops of an opcode once it has completed (for
// OpCall: once the callee has returned), as a function of its operands
// (o0, o1 = linear forms of the operand expressions).
var stackEffect = map[string]func(o []lin) lin{
	"OpConstant": func([]lin) lin { return konst(1) }, "OpNull": func([]lin) lin { return konst(1) },
	"OpTrue": func([]lin) lin { return konst(1) }, "OpFalse": func([]lin) lin { return konst(1) },
	"OpGetGlobal": func([]lin) lin { return konst(1) }, "OpGetLocal": func([]lin) lin { return konst(1) },
	"OpGetFree": func([]lin) lin { return konst(1) }, "OpGetFreePtr": func([]lin) lin { return konst(1) },
	"OpGetLocalPtr": func([]lin) lin { return konst(1) }, "OpGetBuiltin": func([]lin) lin { return konst(1) },
	"OpPop": func([]lin) lin { return konst(-1) }, "OpSetGlobal": func([]lin) lin { return konst(-1) },
	"OpSetLocal": func([]lin) lin { return konst(-1) }, "OpDefineLocal": func([]lin) lin { return konst(-1) },
	"OpSetFree": func([]lin) lin { return konst(-1) },
	"OpBinaryOp": func([]lin) lin { return konst(-1) }, "OpEqual": func([]lin) lin { return konst(-1) },
	"OpNotEqual": func([]lin) lin { return konst(-1) }, "OpIndex": func([]lin) lin { return konst(-1) },
	"OpSliceIndex": func([]lin) lin { return konst(-2) },
	"OpMinus":      func([]lin) lin { return konst(0) }, "OpLNot": func([]lin) lin { return konst(0) },
	"OpBComplement": func([]lin) lin { return konst(0) }, "OpError": func([]lin) lin { return konst(0) },
	"OpImmutable": func([]lin) lin { return konst(0) }, "OpSuspend": func([]lin) lin { return konst(0) },
	"OpIteratorInit": func([]lin) lin { return konst(0) }, "OpIteratorNext": func([]lin) lin { return konst(0) },
	"OpIteratorKey": func([]lin) lin { return konst(0) }, "OpIteratorValue": func([]lin) lin { return konst(0) },
	"OpArray":        func(o []lin) lin { return konst(1).add(o[0], -1) },
	"OpMap":          func(o []lin) lin { return konst(1).add(o[0], -1) },
	"OpCall":         func(o []lin) lin { return lin{}.add(o[0], -1) }, // callee + args → result
	"OpClosure":      func(o []lin) lin { return konst(1).add(o[1], -1) },
	"OpSetSelGlobal": func(o []lin) lin { return konst(-1).add(o[1], -1) },
	"OpSetSelLocal":  func(o []lin) lin { return konst(-1).add(o[1], -1) },
	"OpSetSelFree":   func(o []lin) lin { return konst(-1).add(o[1], -1) },
	"OpReturn":       func(o []lin) lin { return lin{}.add(o[0], -1) }, // pops the result if there is one
	// jumps: handled specially
	"OpJump": func([]lin) lin { return konst(0) }, "OpJumpFalsy": func([]lin) lin { return konst(-1) },
	"OpAndJump": func([]lin) lin { return konst(-1) }, "OpOrJump": func([]lin) lin { return konst(-1) },
}

type stkState struct {
	h      lin
	dead   bool
	rec    map[types.Object]lin // placeholder variable → height at its landing point
	label  map[types.Object]lin // position variable → height when it was taken
	vars   map[types.Object]lin // integer locals with a known linear value
	zero   map[string]bool      // terms known to be 0 on this path
	scopes []lin                // saved heights (enterScope/leaveScope)
	done   bool                 // the arm has returned (normally)
}

func (s *stkState) clone() *stkState {
	n := &stkState{h: s.h.clone(), dead: s.dead, done: s.done, rec: map[types.Object]lin{}, label: map[types.Object]lin{}, vars: map[types.Object]lin{}, zero: map[string]bool{}}
	for k, v := range s.rec {
		n.rec[k] = v
	}
	for k, v := range s.label {
		n.label[k] = v
	}
	for k, v := range s.vars {
		n.vars[k] = v
	}
	for k, v := range s.zero {
		n.zero[k] = v
	}
	n.scopes = append([]lin{}, s.scopes...)
	return n
}

func (s *stkState) signature() string {
	var b strings.Builder
	fmt.Fprintf(&b, "%s|%v|%v|", s.h, s.dead, s.done)
	var zs []string
	for z := range s.zero {
		zs = append(zs, z)
	}
	sort.Strings(zs)
	b.WriteString(strings.Join(zs, ","))
	lines := func(m map[types.Object]lin) {
		var ls []string
		for o, v := range m {
			ls = append(ls, fmt.Sprintf("%s@%d=%s", o.Name(), o.Pos(), v))
		}
		sort.Strings(ls)
		b.WriteString("|" + strings.Join(ls, ","))
	}
	lines(s.rec)
	lines(s.label)
	lines(s.vars)
	for _, sc := range s.scopes {
		b.WriteString("|" + sc.String())
	}
	return b.String()
}

type stkInterp struct {
	c       *Ctx
	w       *World
	p       pkgT
	fd      *ast.FuncDecl
	exprT   *types.Interface
	opObj   types.Object // the token parameter of the function, if any
	opVal   types.Object // its concrete value on this run
	summary map[string]int
	probs   []string
	unknown []string
	premise map[string]int // tabled facts: term → value
	depth   int
}

func (it *stkInterp) prob(n ast.Node, format string, a ...interface{}) {
	it.probs = append(it.probs, fmt.Sprintf("%s: ", it.w.Site(n))+fmt.Sprintf(format, a...))
}

// linOf evaluates an integer expression to a linear form.
func (it *stkInterp) linOf(s *stkState, e ast.Expr) lin {
	e = ast.Unparen(e)
	if k, ok := ConstInt(it.p, e); ok {
		return konst(int(k))
	}
	switch x := e.(type) {
	case *ast.Ident:
		if v, ok := s.vars[it.p.TypesInfo.ObjectOf(x)]; ok {
			return it.norm(s, v)
		}
	case *ast.CallExpr:
		if IsBuiltinCall(it.p, x, "len") && len(x.Args) == 1 {
			return it.norm(s, lin{"len(" + it.w.SrcRecv(it.fd, x.Args[0]) + ")": 1})
		}
		if tv, ok := it.p.TypesInfo.Types[x.Fun]; ok && tv.IsType() && len(x.Args) == 1 {
			return it.linOf(s, x.Args[0])
		}
	case *ast.BinaryExpr:
		switch x.Op {
		case token.ADD:
			return it.linOf(s, x.X).add(it.linOf(s, x.Y), 1)
		case token.SUB:
			return it.linOf(s, x.X).add(it.linOf(s, x.Y), -1)
		case token.MUL:
			if k, ok := ConstInt(it.p, x.Y); ok {
				return lin{}.add(it.linOf(s, x.X), int(k))
			}
			if k, ok := ConstInt(it.p, x.X); ok {
				return lin{}.add(it.linOf(s, x.Y), int(k))
			}
		}
	}
	return lin{"?" + it.w.SrcRecv(it.fd, e): 1}
}

func (it *stkInterp) norm(s *stkState, a lin) lin {
	r := lin{}
	for t, v := range a {
		if s.zero[t] {
			continue
		}
		if k, ok := it.premise[t]; ok {
			r[""] += v * k
			continue
		}
		r[t] += v
	}
	if r[""] == 0 {
		delete(r, "")
	}
	return r
}

func (it *stkInterp) isErrNotNil(e ast.Expr) bool {
	b, ok := ast.Unparen(e).(*ast.BinaryExpr)
	if !ok || b.Op != token.NEQ || !isNilIdent(b.Y) {
		return false
	}
	t := it.p.TypesInfo.Types[b.X].Type
	return t != nil && types.TypeString(t, nil) == "error"
}

// compileEffect: +1 for an expression argument, 0 for a statement / node.
func (it *stkInterp) compileEffect(arg ast.Expr) (int, bool) {
	t := it.p.TypesInfo.Types[arg].Type
	if t == nil {
		return 0, false
	}
	if types.Implements(t, it.exprT) || (func() bool { pt, ok := t.(*types.Pointer); return ok && types.Implements(pt, it.exprT) })() {
		return 1, true
	}
	if _, isIface := t.Underlying().(*types.Interface); isIface {
		// a Stmt or a Node: statements and files
		n, _ := namedName(t)
		if n == "Expr" {
			return 1, true
		}
		return 0, true
	}
	return 0, true
}

// call applies the stack effect of one call expression, if it has one.
func (it *stkInterp) call(s *stkState, call *ast.CallExpr, assignTo types.Object) {
	fn := Callee(it.p, call)
	if fn == nil {
		return
	}
	switch {
	case isMethodOf(fn, it.p.Types, "Compiler", "Compile") && len(call.Args) == 1:
		k, ok := it.compileEffect(call.Args[0])
		if !ok {
			it.unknown = append(it.unknown, it.w.Site(call)+": Compile of an argument of unknown kind")
		}
		s.h = s.h.add(konst(k), 1)
	case isMethodOf(fn, it.p.Types, "Compiler", "emit") && len(call.Args) >= 2:
		co := ConstObj(it.p, call.Args[1])
		op := ""
		if co != nil {
			op = co.Name()
		} else if vals := opcodeValuesOf(it.w, it.p, it.fd, call.Args[1]); len(vals) > 0 {
			// an opcode chosen into a local: fine when every choice has the
			// same effect and the same role (both short-circuit jumps, say)
			op = vals[0]
			for _, v := range vals[1:] {
				sc := func(o string) bool { return o == "OpAndJump" || o == "OpOrJump" }
				if !(sc(op) && sc(v)) && v != op {
					op = ""
				}
			}
		}
		if op == "" {
			it.unknown = append(it.unknown, it.w.Site(call)+": emit of a non-constant opcode")
			return
		}
		eff, ok := stackEffect[op]
		if !ok {
			it.prob(call, "opcode %s has no entry in the stack-effect table", op)
			return
		}
		var ops []lin
		for _, a := range call.Args[2:] {
			ops = append(ops, it.linOf(s, a))
		}
		for len(ops) < 2 {
			ops = append(ops, lin{})
		}
		switch op {
		case "OpJump":
			// backward jump to a label: heights must agree; forward: record
			if len(call.Args) >= 3 {
				if id, ok := ast.Unparen(call.Args[2]).(*ast.Ident); ok {
					if lh, ok := s.label[it.p.TypesInfo.ObjectOf(id)]; ok && !s.dead && !it.norm(s, lh).eq(it.norm(s, s.h)) {
						it.prob(call, "the jump back to %s arrives with stack height %s, the code there was entered with %s", id.Name, it.norm(s, s.h), it.norm(s, lh))
					}
				}
			}
			if assignTo != nil && !s.dead {
				s.rec[assignTo] = s.h.clone()
			}
			s.dead = true
		case "OpJumpFalsy":
			s.h = s.h.add(konst(-1), 1)
			if assignTo != nil && !s.dead {
				s.rec[assignTo] = s.h.clone()
			}
		case "OpAndJump", "OpOrJump":
			// the value stays when the jump is taken, is popped otherwise
			if assignTo != nil && !s.dead {
				s.rec[assignTo] = s.h.clone()
			}
			s.h = s.h.add(konst(-1), 1)
		default:
			s.h = s.h.add(eff(ops), 1)
		}
	case isMethodOf(fn, it.p.Types, "Compiler", "changeOperand") && len(call.Args) == 2:
		id, ok := ast.Unparen(call.Args[0]).(*ast.Ident)
		if !ok {
			return
		}
		rh, ok := s.rec[it.p.TypesInfo.ObjectOf(id)]
		if !ok {
			return
		}
		if s.dead {
			s.h, s.dead = rh.clone(), false
		} else if !it.norm(s, rh).eq(it.norm(s, s.h)) {
			it.prob(call, "the jump placeholder %s lands here expecting stack height %s, but the code falling into this point has %s", id.Name, it.norm(s, rh), it.norm(s, s.h))
		}
	case isMethodOf(fn, it.p.Types, "Compiler", "enterScope"):
		s.scopes = append(s.scopes, s.h.clone())
		s.h, s.dead = lin{}, false
	case isMethodOf(fn, it.p.Types, "Compiler", "leaveScope"):
		if n := len(s.scopes); n > 0 {
			s.h, s.dead = s.scopes[n-1], false
			s.scopes = s.scopes[:n-1]
		}
	default:
		if recvNamed(fn) == "Compiler" {
			if k, ok := it.summary[fn.Name()]; ok {
				s.h = s.h.add(konst(k), 1)
			} else if hd := gHelpers[call]; hd != nil && hd.Body != nil && it.depth < 2 && emitsSomething(it, hd) {
				// a private helper that emits code: its body is part of this arm
				it.depth++
				probe := s.clone()
				probe.done = false
				outs := it.exec(hd.Body.List, []*stkState{probe})
				it.depth--
				var res *stkState
				for _, o := range outs {
					if res == nil {
						res = o
					} else if !it.norm(o, res.h).eq(it.norm(o, o.h)) || res.dead != o.dead {
						it.unknown = append(it.unknown, it.w.Site(call)+": helper "+fn.Name()+" has paths with different stack effects")
					}
				}
				if res != nil {
					res.done = false
					*s = *res
				}
			}
		}
	}
}

func emitsSomething(it *stkInterp, hd *ast.FuncDecl) bool {
	return containsDeep(hd.Body, func(n ast.Node) bool {
		call, ok := n.(*ast.CallExpr)
		if !ok {
			return false
		}
		fn := Callee(it.p, call)
		return fn != nil && (isMethodOf(fn, it.p.Types, "Compiler", "emit") || isMethodOf(fn, it.p.Types, "Compiler", "Compile"))
	})
}

func recvNamed(fn *types.Func) string {
	sig, _ := fn.Type().(*types.Signature)
	if sig == nil || sig.Recv() == nil {
		return ""
	}
	n, _ := namedName(sig.Recv().Type())
	return n
}

// evalOp evaluates a condition over the token parameter for its concrete value.
func (it *stkInterp) evalOp(e ast.Expr) (bool, bool) {
	if it.opObj == nil || it.opVal == nil {
		return false, false
	}
	switch x := ast.Unparen(e).(type) {
	case *ast.Ident:
		// a named condition: `isDefine := op == token.Define`
		if d := singleDef(it.p, it.fd, x); d != nil {
			return it.evalOp(d)
		}
	case *ast.UnaryExpr:
		if x.Op == token.NOT {
			v, ok := it.evalOp(x.X)
			return !v, ok
		}
	case *ast.BinaryExpr:
		switch x.Op {
		case token.LAND, token.LOR:
			l, ok1 := it.evalOp(x.X)
			r, ok2 := it.evalOp(x.Y)
			if x.Op == token.LAND {
				if (ok1 && !l) || (ok2 && !r) {
					return false, true
				}
				return l && r, ok1 && ok2
			}
			if (ok1 && l) || (ok2 && r) {
				return true, true
			}
			return l || r, ok1 && ok2
		case token.EQL, token.NEQ:
			var other ast.Expr
			switch {
			case isObj(it.p, x.X, it.opObj):
				other = x.Y
			case isObj(it.p, x.Y, it.opObj):
				other = x.X
			default:
				return false, false
			}
			co := ConstObj(it.p, other)
			if co == nil {
				return false, false
			}
			return (co == it.opVal) == (x.Op == token.EQL), true
		}
	}
	return false, false
}

// zeroTerm: `T > 0`, `T != 0`, `0 < T` give T (false-branch: T = 0); `T == 0` (true-branch).
func (it *stkInterp) zeroTerm(s *stkState, e ast.Expr) (term string, whenTrue bool, ok bool) {
	e = ast.Unparen(e)
	if u, isU := e.(*ast.UnaryExpr); isU && u.Op == token.NOT {
		t, wt, ok := it.zeroTerm(s, u.X)
		return t, !wt, ok
	}
	b, isB := e.(*ast.BinaryExpr)
	if !isB {
		return "", false, false
	}
	gb, _ := gtExpr(b)
	var te ast.Expr
	switch {
	case gb.Op == token.GTR:
		if k, okk := ConstInt(it.p, gb.Y); okk && k == 0 {
			te, whenTrue = gb.X, false
		} else if k, okk := ConstInt(it.p, gb.X); okk && k == 1 {
			te, whenTrue = gb.Y, true // T < 1
		}
	case gb.Op == token.GEQ:
		// T >= 1; 0 >= T (a length is never negative)
		if k, okk := ConstInt(it.p, gb.Y); okk && k == 1 {
			te, whenTrue = gb.X, false
		} else if k, okk := ConstInt(it.p, gb.X); okk && k == 0 {
			te, whenTrue = gb.Y, true
		}
	case b.Op == token.NEQ:
		if k, okk := ConstInt(it.p, b.Y); okk && k == 0 {
			te, whenTrue = b.X, false
		}
	case b.Op == token.EQL:
		if k, okk := ConstInt(it.p, b.Y); okk && k == 0 {
			te, whenTrue = b.X, true
		}
	}
	if te == nil {
		return "", false, false
	}
	l := it.linOf(s, te)
	if len(l) == 1 {
		for t, v := range l {
			if t != "" && v == 1 {
				return t, whenTrue, true
			}
		}
	}
	return "", false, false
}

func (it *stkInterp) exec(list []ast.Stmt, in []*stkState) []*stkState {
	states := in
	for _, st := range list {
		var next []*stkState
		for _, s := range states {
			if s.done {
				next = append(next, s)
				continue
			}
			next = append(next, it.stmt(st, s)...)
		}
		// paths that agree on everything the interpretation tracks are one path
		seen := map[string]bool{}
		var merged []*stkState
		for _, q := range next {
			k := q.signature()
			if !seen[k] {
				seen[k] = true
				merged = append(merged, q)
			}
		}
		states = merged
		if len(states) > 4096 {
			it.unknown = append(it.unknown, "path explosion")
			return states[:1]
		}
	}
	return states
}

func terminatesErr(it *stkInterp, b *ast.BlockStmt) bool {
	// a block that ends in `return <non-nil error>`
	if len(b.List) == 0 {
		return false
	}
	r, ok := b.List[len(b.List)-1].(*ast.ReturnStmt)
	if !ok {
		return false
	}
	for _, res := range r.Results {
		if t := it.p.TypesInfo.Types[res].Type; t != nil && types.TypeString(t, nil) == "error" && !isNilIdent(res) {
			return true
		}
		if call, ok := ast.Unparen(res).(*ast.CallExpr); ok {
			if fn := Callee(it.p, call); fn != nil && (fn.Name() == "errorf" || fn.Name() == "error" || fn.Name() == "Errorf") {
				return true
			}
		}
		if id, ok := ast.Unparen(res).(*ast.Ident); ok && id.Name != "nil" {
			if t := it.p.TypesInfo.Types[res].Type; t != nil && types.TypeString(t, nil) == "error" {
				return true
			}
		}
	}
	return false
}

func (it *stkInterp) stmt(st ast.Stmt, s *stkState) []*stkState {
	switch x := st.(type) {
	case *ast.ExprStmt:
		if call, ok := x.X.(*ast.CallExpr); ok {
			if IsBuiltinCall(it.p, call, "panic") {
				return nil // not code: the arm does not return
			}
			it.call(s, call, nil)
		}
		return []*stkState{s}
	case *ast.AssignStmt:
		if len(x.Rhs) == 1 {
			var lobj types.Object
			if id, ok := x.Lhs[0].(*ast.Ident); ok {
				lobj = it.p.TypesInfo.ObjectOf(id)
			}
			if call, ok := ast.Unparen(x.Rhs[0]).(*ast.CallExpr); ok {
				// pos := len(c.currentInstructions()) - a label
				if IsBuiltinCall(it.p, call, "len") && len(call.Args) == 1 {
					if inner, ok := call.Args[0].(*ast.CallExpr); ok {
						if fn := Callee(it.p, inner); fn != nil && fn.Name() == "currentInstructions" && lobj != nil && !s.dead {
							s.label[lobj] = s.h.clone()
							return []*stkState{s}
						}
					}
				}
				it.call(s, call, lobj)
			}
			if lobj != nil && len(x.Lhs) == 1 {
				if t := lobj.Type(); t != nil && types.TypeString(t, nil) == "int" {
					if _, isCall := ast.Unparen(x.Rhs[0]).(*ast.CallExpr); !isCall || IsBuiltinCall(it.p, ast.Unparen(x.Rhs[0]).(*ast.CallExpr), "len") {
						s.vars[lobj] = it.linOf(s, x.Rhs[0])
					}
				}
			}
		} else if len(x.Lhs) == len(x.Rhs) {
			for i := range x.Lhs {
				if id, ok := x.Lhs[i].(*ast.Ident); ok {
					if o := it.p.TypesInfo.ObjectOf(id); o != nil && o.Type() != nil && types.TypeString(o.Type(), nil) == "int" {
						s.vars[o] = it.linOf(s, x.Rhs[i])
					}
				}
			}
		}
		return []*stkState{s}
	case *ast.DeclStmt, *ast.DeferStmt, *ast.IncDecStmt, *ast.BranchStmt, *ast.EmptyStmt, *ast.GoStmt:
		return []*stkState{s}
	case *ast.ReturnStmt:
		if len(x.Results) == 1 {
			if call, ok := ast.Unparen(x.Results[0]).(*ast.CallExpr); ok {
				fn := Callee(it.p, call)
				if fn != nil && (fn.Name() == "errorf" || fn.Name() == "error") {
					return nil // error path
				}
				if fn != nil && recvNamed(fn) == "Compiler" {
					_, hasSummary := it.summary[fn.Name()]
					if hasSummary || gHelpers[call] != nil {
						it.call(s, call, nil)
						s.done = true
						return []*stkState{s}
					}
				}
			}
			if isNilIdent(x.Results[0]) {
				s.done = true
				return []*stkState{s}
			}
			return nil // return err
		}
		if len(x.Results) == 0 {
			s.done = true
			return []*stkState{s}
		}
		// (value, error) results of helpers such as compileModule: not an arm of Compile
		last := x.Results[len(x.Results)-1]
		if isNilIdent(last) {
			s.done = true
			return []*stkState{s}
		}
		return nil
	case *ast.BlockStmt:
		return it.exec(x.List, []*stkState{s})
	case *ast.LabeledStmt:
		return it.stmt(x.Stmt, s)
	case *ast.IfStmt:
		if x.Init != nil {
			outs := it.stmt(x.Init, s)
			if len(outs) != 1 {
				return outs
			}
			s = outs[0]
		}
		// `if err != nil { return err }`: the error path is not code
		if it.isErrNotNil(x.Cond) && terminatesErr(it, x.Body) && x.Else == nil {
			return []*stkState{s}
		}
		if v, ok := it.evalOp(x.Cond); ok {
			if v {
				return it.exec(x.Body.List, []*stkState{s})
			}
			if x.Else != nil {
				return it.stmt(x.Else, s)
			}
			return []*stkState{s}
		}
		t, f := s.clone(), s
		if term, whenTrue, ok := it.zeroTerm(s, x.Cond); ok {
			if whenTrue {
				t.zero[term] = true
			} else {
				f.zero[term] = true
			}
		}
		outs := it.exec(x.Body.List, []*stkState{t})
		if x.Else != nil {
			outs = append(outs, it.stmt(x.Else, f)...)
		} else {
			outs = append(outs, f)
		}
		return outs
	case *ast.SwitchStmt:
		if x.Init != nil {
			it.stmt(x.Init, s)
		}
		// a switch on the token parameter with a known value picks one clause
		if x.Tag != nil && it.opVal != nil && isObj(it.p, x.Tag, it.opObj) {
			var def *ast.CaseClause
			for _, cl := range x.Body.List {
				cc := cl.(*ast.CaseClause)
				if cc.List == nil {
					def = cc
				}
				for _, e := range cc.List {
					if ConstObj(it.p, e) == it.opVal {
						return it.exec(cc.Body, []*stkState{s})
					}
				}
			}
			if def != nil {
				return it.exec(def.Body, []*stkState{s})
			}
			return []*stkState{s}
		}
		if x.Tag == nil {
			// a tagless switch is an if / else-if chain
			var outs []*stkState
			rest := s
			var def *ast.CaseClause
			for _, cl := range x.Body.List {
				cc := cl.(*ast.CaseClause)
				if cc.List == nil {
					def = cc
					continue
				}
				t := rest.clone()
				if len(cc.List) == 1 {
					if v, ok := it.evalOp(cc.List[0]); ok {
						if v {
							return append(outs, it.exec(cc.Body, []*stkState{t})...)
						}
						continue
					}
					if term, whenTrue, ok := it.zeroTerm(rest, cc.List[0]); ok {
						if whenTrue {
							t.zero[term] = true
						} else {
							rest = rest.clone()
							rest.zero[term] = true
						}
					}
				}
				outs = append(outs, it.exec(cc.Body, []*stkState{t})...)
			}
			if def != nil {
				outs = append(outs, it.exec(def.Body, []*stkState{rest})...)
			} else {
				outs = append(outs, rest)
			}
			return outs
		}
		var outs []*stkState
		hasDefault := false
		for _, cl := range x.Body.List {
			cc := cl.(*ast.CaseClause)
			if cc.List == nil {
				hasDefault = true
			}
			outs = append(outs, it.exec(cc.Body, []*stkState{s.clone()})...)
		}
		// a switch over a symbol's scope takes one of its arms: PANIC.2 checks
		// that these switches are exhaustive or tabled with a re-checked premise
		scopeSwitch := false
		if x.Tag != nil {
			if tn, _ := namedName(it.p.TypesInfo.Types[x.Tag].Type); tn == "SymbolScope" {
				scopeSwitch = true
			}
		}
		if !hasDefault && !scopeSwitch {
			outs = append(outs, s)
		}
		return outs
	case *ast.TypeSwitchStmt:
		var outs []*stkState
		hasDefault := false
		for _, cl := range x.Body.List {
			cc := cl.(*ast.CaseClause)
			if cc.List == nil {
				hasDefault = true
			}
			outs = append(outs, it.exec(cc.Body, []*stkState{s.clone()})...)
		}
		if !hasDefault {
			outs = append(outs, s)
		}
		return outs
	case *ast.RangeStmt:
		return it.loop(x, x.Body, lin{"len(" + it.w.SrcRecv(it.fd, x.X) + ")": 1}, s)
	case *ast.ForStmt:
		// counted loops: `for i := N-1; i >= 0; i--` and `for i := 0; i < N; i++`
		var n lin
		if as, ok := x.Init.(*ast.AssignStmt); ok && len(as.Lhs) == 1 && len(as.Rhs) == 1 && x.Cond != nil {
			if b, ok := gtExpr(x.Cond); ok {
				start := it.linOf(s, as.Rhs[0])
				switch {
				case b.Op == token.GEQ: // i >= 0, counting down from start
					if k, okk := ConstInt(it.p, b.Y); okk && k == 0 {
						n = start.add(konst(1), 1)
					}
				case b.Op == token.GTR: // N > i, counting up from 0
					if len(start) == 0 {
						n = it.linOf(s, b.X)
					}
				}
			}
		}
		if n == nil {
			it.unknown = append(it.unknown, it.w.Site(x)+": loop whose trip count is not understood")
			return []*stkState{s}
		}
		return it.loop(x, x.Body, n, s)
	}
	return []*stkState{s}
}

// loop: the body, run from height 0, must have one well-defined effect.
func (it *stkInterp) loop(at ast.Node, body *ast.BlockStmt, n lin, s *stkState) []*stkState {
	probe := s.clone()
	probe.h, probe.dead = lin{}, false
	outs := it.exec(body.List, []*stkState{probe})
	var eff lin
	set := false
	for _, o := range outs {
		if o.done || o.dead {
			continue
		}
		if !set {
			eff, set = o.h, true
		} else if !it.norm(o, eff).eq(it.norm(o, o.h)) {
			it.prob(at, "the paths through the loop body change the stack height differently (%s vs %s)", it.norm(o, eff), it.norm(o, o.h))
		}
	}
	if !set {
		return []*stkState{s}
	}
	k := 0
	for t, v := range eff {
		if t != "" {
			it.unknown = append(it.unknown, it.w.Site(at)+": loop body with a symbolic effect")
			return []*stkState{s}
		}
		k = v
	}
	if k != 0 {
		s.h = s.h.add(it.norm(s, n), k)
	}
	return []*stkState{s}
}

func ruleSTK1(c *Ctx) {
	w := c.W
	p := w.Root
	comp := w.FuncDecl(p, "Compiler.Compile")
	if comp == nil {
		c.anchor("Compiler.Compile")
		return
	}
	exprObj := w.Parser.Types.Scope().Lookup("Expr")
	if exprObj == nil {
		c.anchor("parser.Expr")
		return
	}
	exprT, _ := exprObj.Type().Underlying().(*types.Interface)
	// every opcode has an entry
	oi := w.opcodes()
	for _, op := range oi.Names {
		if _, ok := stackEffect[op]; !ok {
			c.fail("effect-table/"+op, nil, "opcode "+op+" has no entry in the stack-effect table: the code generator cannot be checked for it")
		}
	}
	summary := map[string]int{"compileAssign": 0, "compileLogical": 1, "compileForStmt": 0, "compileForInStmt": 0}
	run := func(fd *ast.FuncDecl, body []ast.Stmt, want int, key string, at ast.Node, opObj, opVal types.Object, premise map[string]int) {
		t0 := time.Now()
		defer func() {
			if os.Getenv("STK_TIMING") != "" {
				fmt.Fprintf(os.Stderr, "STK %s %v\n", key, time.Since(t0))
			}
		}()
		it := &stkInterp{c: c, w: w, p: p, fd: fd, exprT: exprT, summary: summary, opObj: opObj, opVal: opVal, premise: premise}
		start := &stkState{h: lin{}, rec: map[types.Object]lin{}, label: map[types.Object]lin{}, vars: map[types.Object]lin{}, zero: map[string]bool{}}
		outs := it.exec(body, []*stkState{start})
		reached := 0
		for _, o := range outs {
			if o.dead {
				continue // ends in an unconditional jump (a loop without condition): nothing falls out
			}
			reached++
			h := it.norm(o, o.h)
			if !h.eq(konst(want)) {
				it.probs = append(it.probs, fmt.Sprintf("a path through the arm changes the stack height by %s, expected %d", h, want))
			}
		}
		it.probs = dedupStrings(it.probs)
		if len(outs) == 0 {
			it.unknown = append(it.unknown, "no path through the arm could be evaluated")
		}
		switch {
		case len(it.probs) > 0:
			if len(it.probs) > 3 {
				it.probs = append(it.probs[:3], fmt.Sprintf("… (%d more)", len(it.probs)-3))
			}
			c.fail(key, at, strings.Join(it.probs, "; "))
		case len(it.unknown) > 0:
			c.undecided(key, at, "the arm's stack effect cannot be evaluated: "+strings.Join(dedupStrings(it.unknown), "; "))
		default:
			c.ok(key, at, fmt.Sprintf("stack height changes by %d on all %d path(s)", want, reached))
		}
	}
	// the arms of Compile
	var ts *ast.TypeSwitchStmt
	for _, s := range comp.Body.List {
		if x, ok := s.(*ast.TypeSwitchStmt); ok {
			ts = x
		}
	}
	if ts == nil {
		c.anchor("type switch of Compiler.Compile")
		return
	}
	n := 0
	for _, cl := range ts.Body.List {
		cc := cl.(*ast.CaseClause)
		for _, e := range cc.List {
			t := p.TypesInfo.Types[e].Type
			tn, _ := namedName(t)
			want := 0
			if types.Implements(t, exprT) {
				want = 1
			}
			n++
			run(comp, cc.Body, want, "stack-effect/Compile/"+tn, cc, nil, nil, nil)
		}
	}
	// the helpers
	for name, want := range summary {
		fd := w.FuncDecl(p, "Compiler."+name)
		if fd == nil {
			c.anchor("Compiler." + name)
			continue
		}
		n++
		if name == "compileAssign" {
			// one run per assignment token; exactly one right-hand side (more are rejected)
			var opObj types.Object
			for _, f := range fd.Type.Params.List {
				for _, nm := range f.Names {
					if o := p.TypesInfo.Defs[nm]; o != nil && strings.HasSuffix(types.TypeString(o.Type(), nil), "token.Token") {
						opObj = o
					}
				}
			}
			var rhsName string
			idx := 0
			for _, f := range fd.Type.Params.List {
				for _, nm := range f.Names {
					if idx == 2 {
						rhsName = nm.Name
					}
					idx++
				}
			}
			premise := map[string]int{"len(" + rhsName + ")": 1}
			tk := w.Token.Types.Scope()
			for _, tname := range tk.Names() {
				co, ok := tk.Lookup(tname).(*types.Const)
				if !ok || !(strings.HasSuffix(tname, "Assign") || tname == "Define") || !strings.HasSuffix(co.Type().String(), "token.Token") {
					continue
				}
				n++
				run(fd, fd.Body.List, want, "stack-effect/compileAssign/"+tname, fd, opObj, co, premise)
			}
			continue
		}
		run(fd, fd.Body.List, want, "stack-effect/"+name, fd, nil, nil, nil)
	}
	if n < 40 {
		c.fail("stack-effect/count", comp, fmt.Sprintf("only %d arms examined", n))
	}
}
