package main

// rules_tail.go: C16 — TAIL.1-3.

import (
	"fmt"
	"go/ast"
	"go/token"
	"go/types"
	"strings"
)

// evalOpcodeBool evaluates a boolean expression over opcode bytes: env maps
// look-ahead offsets (relative to the opcode byte of the current instruction)
// to opcode values; vars maps local variables to look-ahead offsets.
func (w *World) evalOpcodeBool(e ast.Expr, aw *armWalker, d int, vars map[types.Object]int, env map[int]int64) (bool, string) {
	p := w.Root
	e = ast.Unparen(e)
	val := func(x ast.Expr) (int64, string) {
		x = ast.Unparen(x)
		if k, ok := ConstInt(p, x); ok {
			return k, ""
		}
		if id, ok := x.(*ast.Ident); ok {
			if off, ok := vars[p.TypesInfo.Uses[id]]; ok {
				return env[off], ""
			}
		}
		if ix, ok := x.(*ast.IndexExpr); ok && aw.isInstsExpr(ix.X) {
			if k, ok := aw.affine(ix.Index); ok {
				return env[d+k], ""
			}
		}
		return 0, "unsupported operand " + w.Src(x)
	}
	switch x := e.(type) {
	case *ast.BinaryExpr:
		switch x.Op {
		case token.LAND, token.LOR:
			a, e1 := w.evalOpcodeBool(x.X, aw, d, vars, env)
			b, e2 := w.evalOpcodeBool(x.Y, aw, d, vars, env)
			if e1 != "" {
				return false, e1
			}
			if e2 != "" {
				return false, e2
			}
			if x.Op == token.LAND {
				return a && b, ""
			}
			return a || b, ""
		case token.EQL, token.NEQ:
			a, e1 := val(x.X)
			b, e2 := val(x.Y)
			if e1 != "" {
				return false, e1
			}
			if e2 != "" {
				return false, e2
			}
			if x.Op == token.EQL {
				return a == b, ""
			}
			return a != b, ""
		}
	case *ast.UnaryExpr:
		if x.Op == token.NOT {
			a, er := w.evalOpcodeBool(x.X, aw, d, vars, env)
			return !a, er
		}
	}
	return false, "unsupported expression " + w.Src(e)
}

func ruleTAIL(c *Ctx) {
	w := c.W
	p := w.Root
	vi := w.vm()
	oi := w.opcodes()
	if vi.err != "" || oi.err != "" {
		c.anchor(vi.err + oi.err)
		return
	}
	arm := vi.Arms["OpCall"]
	if arm == nil {
		c.anchor("OpCall arm")
		return
	}
	W := oi.Total("OpCall")
	// the tail-call block: an if-statement inside the arm whose body ends in `continue`
	var tailIf *ast.IfStmt
	var outerIf *ast.IfStmt
	inspectWithStack(arm, func(n ast.Node, stack []ast.Node) bool {
		is, ok := n.(*ast.IfStmt)
		if !ok || len(is.Body.List) == 0 {
			return true
		}
		if br, ok := is.Body.List[len(is.Body.List)-1].(*ast.BranchStmt); ok && br.Tok == token.CONTINUE {
			tailIf = is
			for i := len(stack) - 2; i >= 0; i-- {
				if o, ok := stack[i].(*ast.IfStmt); ok {
					outerIf = o
					break
				}
			}
		}
		return true
	})
	if tailIf == nil {
		c.fail("TAIL.1/predicate", arm, "no frame-reusing path (an if-block ending in `continue`) in the OpCall arm: self tail calls would consume frames")
		return
	}
	// d at the predicate: the arm advanced ip by W before (checked by CODEC.3);
	// determine d by re-walking the arm up to the predicate
	a := w.analyseArm("OpCall")
	_ = a
	aw := &armWalker{w: w, p: p, vi: vi, a: &ArmAnalysis{GroupVar: map[int]types.Object{}}}
	// find d at the position of tailIf: count constant ip advances that precede it at arm level
	d := 0
	for _, s := range arm.Body {
		if s.Pos() > tailIf.Pos() {
			break
		}
		if as, ok := s.(*ast.AssignStmt); ok && len(as.Lhs) == 1 && aw.isIPExpr(as.Lhs[0]) && as.Tok == token.ADD_ASSIGN {
			if k, ok := ConstInt(p, as.Rhs[0]); ok {
				d += int(k)
			}
		}
		if id, ok := s.(*ast.IncDecStmt); ok && aw.isIPExpr(id.X) && id.Tok == token.INC {
			d++
		}
	}
	// look-ahead variables defined between (e.g. nextOp := insts[ip+1])
	vars := map[types.Object]int{}
	ast.Inspect(arm, func(n ast.Node) bool {
		as, ok := n.(*ast.AssignStmt)
		if !ok || len(as.Lhs) != 1 || len(as.Rhs) != 1 || as.Pos() > tailIf.Pos() {
			return true
		}
		if ix, ok := ast.Unparen(as.Rhs[0]).(*ast.IndexExpr); ok && aw.isInstsExpr(ix.X) {
			if k, ok := aw.affine(ix.Index); ok && d+k > W {
				if id, ok := as.Lhs[0].(*ast.Ident); ok {
					vars[p.TypesInfo.Defs[id]] = d + k
				}
			}
		}
		return true
	})
	wPop := oi.Total("OpPop")
	next1, next2 := W+1, W+1+1+wPop
	ret, pop := oi.Val["OpReturn"], oi.Val["OpPop"]
	var bad []string
	evalErr := ""
	popRet := false
	for _, an := range oi.Names {
		for _, bn := range oi.Names {
			env := map[int]int64{next1: oi.Val[an], next2: oi.Val[bn]}
			got, er := w.evalOpcodeBool(tailIf.Cond, aw, d, vars, env)
			if er != "" {
				evalErr = er
				break
			}
			isTail := oi.Val[an] == ret
			if got && !isTail {
				if oi.Val[an] == pop && oi.Val[bn] == ret {
					popRet = true
				} else if len(bad) < 3 {
					bad = append(bad, fmt.Sprintf("treated as a tail call when followed by %s,%s", an, bn))
				}
			}
			if !got && oi.Val[an] == ret && len(bad) < 3 {
				bad = append(bad, fmt.Sprintf("a call directly followed by %s is not treated as a tail call", an))
			}
		}
	}
	if evalErr != "" {
		c.undecided("TAIL.1/predicate", tailIf, "cannot evaluate the tail-call predicate over opcode pairs: "+evalErr)
	} else {
		c.check(len(bad) == 0, "TAIL.1/predicate", tailIf, fmt.Sprintf("over all %d×%d opcode pairs: apart from CALL;POP;RET (separate obligation) the frame is reused only when the call is directly followed by RET, and always then (look-ahead offsets %d and %d)", len(oi.Names), len(oi.Names), next1, next2), strings.Join(bad, "; "))
		c.check(!popRet, "TAIL.1/pop-return-not-tail", tailIf, "a self call whose result is discarded is not treated as a tail call", "a self call followed by POP; RET (an expression statement at the end of the function, whose result is discarded and after which the function returns undefined) is treated as a tail call: the reused frame then returns the callee's result to the original caller")
	}
	c.check(wPop == 0, "TAIL.1/pop-width", nil, "OpPop has no operands, so the second look-ahead byte is the opcode after it", "OpPop takes operands: the second look-ahead byte is no longer an opcode")
	// the look-ahead reads use exactly these offsets
	offs := map[int]bool{}
	for _, o := range vars {
		offs[o] = true
	}
	ast.Inspect(tailIf.Cond, func(n ast.Node) bool {
		if ix, ok := n.(*ast.IndexExpr); ok && aw.isInstsExpr(ix.X) {
			if k, ok := aw.affine(ix.Index); ok {
				offs[d+k] = true
			}
		}
		return true
	})
	goodOffs := len(offs) > 0
	for o := range offs {
		if o != next1 && o != next2 {
			goodOffs = false
		}
	}
	c.check(goodOffs && offs[next1], "TAIL.1/lookahead-offsets", tailIf, "peeks at the next opcode and the one after a POP", fmt.Sprintf("look-ahead reads at offsets %v; the next instruction starts at %d and the one after a POP at %d", sortedIntKeys(offs), next1, next2))

	// the self-call test dominates
	selfOK := false
	if outerIf != nil {
		if b, ok := ast.Unparen(outerIf.Cond).(*ast.BinaryExpr); ok && b.Op == token.EQL {
			isCallee := func(e ast.Expr) bool {
				id, ok := ast.Unparen(e).(*ast.Ident)
				if !ok {
					return false
				}
				tn, _ := namedName(p.TypesInfo.Types[id].Type)
				return tn == "CompiledFunction"
			}
			isRunning := func(e ast.Expr) bool {
				f, base := FieldSel(p, e)
				if f == nil || f.Name() != "fn" {
					return false
				}
				bf, _ := FieldSel(p, base)
				return bf != nil && bf.Name() == "curFrame"
			}
			selfOK = (isCallee(b.X) && isRunning(b.Y)) || (isCallee(b.Y) && isRunning(b.X))
		}
	}
	c.check(selfOK, "TAIL.2/self-call-test", tailIf, "frame reuse only when the callee is the running function", "the frame-reusing path is not guarded by `callee == curFrame.fn`")

	// TAIL.2: no growth on the path
	var probs []string
	frameFields := map[string]bool{"framesIndex": true, "curFrame": true, "curInsts": true}
	ipReset := false
	for _, s := range tailIf.Body.List {
		ast.Inspect(s, func(n ast.Node) bool {
			switch x := n.(type) {
			case *ast.AssignStmt:
				for i, l := range x.Lhs {
					if f, _ := FieldSel(p, l); f != nil {
						if frameFields[f.Name()] {
							probs = append(probs, "writes "+f.Name())
						}
						if f == vi.IP && x.Tok == token.ASSIGN {
							if k, ok := ConstInt(p, x.Rhs[i]); ok && k == -1 {
								ipReset = true
							}
						}
					}
				}
			case *ast.IncDecStmt:
				if f, _ := FieldSel(p, x.X); f != nil && frameFields[f.Name()] {
					probs = append(probs, "changes "+f.Name())
				}
			case *ast.CallExpr:
				probs = append(probs, "calls "+w.Src(x.Fun))
			}
			return true
		})
	}
	if !ipReset {
		probs = append(probs, "does not restart the function (ip = -1)")
	}
	// stack discipline of the branch, interpreted over the stack pointer:
	// N+1 slots dropped, arguments copied slot by slot onto the parameters
	probs = append(probs, w.tailReuse(vi, tailIf.Body)...)
	c.check(len(probs) == 0, "TAIL.2/no-growth", tailIf, "reuses the frame: no write to framesIndex/curFrame/curInsts, arguments copied into the parameter slots, sp and ip reset", strings.Join(dedupStrings(probs), "; "))
	// the frame push happens only after the tail test
	pushAfter := true
	ast.Inspect(arm, func(n ast.Node) bool {
		if x, ok := n.(*ast.IncDecStmt); ok {
			if f, _ := FieldSel(p, x.X); f != nil && f.Name() == "framesIndex" && x.Pos() < tailIf.Pos() {
				pushAfter = false
			}
		}
		return true
	})
	c.check(pushAfter, "TAIL.2/push-after-test", arm, "a frame is pushed only after the tail-call test failed", "a frame is pushed before the tail-call test")
	// the frame limit must not guard the reuse path (a reused frame needs no new frame)
	limited := false
	var tstack []ast.Node
	inspectWithStack(arm, func(n ast.Node, st []ast.Node) bool {
		if n == ast.Node(tailIf) {
			tstack = append([]ast.Node{}, st...)
		}
		return true
	})
	for _, g := range precedingGuards(tstack) {
		if strings.Contains(w.Src(g.Cond), "MaxFrames") || containsNode(g.Body, func(m ast.Node) bool {
			id, ok := m.(*ast.Ident)
			return ok && id.Name == "ErrStackOverflow"
		}) {
			limited = true
		}
	}
	c.check(!limited, "TAIL.2/reuse-not-frame-limited", tailIf, "the frame-reuse path is not subject to the frame limit", "the frame-count check dominates the tail-call test: a self tail call entered on the last available frame fails with stack overflow although it needs no new frame")

	// TAIL.3: the compiler emits RET directly after the returned expression
	comp := w.FuncDecl(p, "Compiler.Compile")
	if comp == nil {
		c.anchor("Compiler.Compile")
		return
	}
	var retArm *ast.CaseClause
	ast.Inspect(comp.Body, func(nd ast.Node) bool {
		if cc, ok := nd.(*ast.CaseClause); ok && len(cc.List) == 1 {
			if tv, ok := p.TypesInfo.Types[cc.List[0]]; ok && tv.IsType() {
				if n, _ := namedName(tv.Type); n == "ReturnStmt" {
					retArm = cc
				}
			}
		}
		return true
	})
	if retArm == nil {
		c.anchor("ReturnStmt arm")
		return
	}
	good := false
	ast.Inspect(retArm, func(nd ast.Node) bool {
		bs, ok := nd.(*ast.BlockStmt)
		if !ok {
			return true
		}
		for i, s := range bs.List {
			is, ok := s.(*ast.IfStmt)
			if !ok || i+1 >= len(bs.List) {
				continue
			}
			compilesResult := containsNode(is, func(n ast.Node) bool {
				call, ok := n.(*ast.CallExpr)
				return ok && isMethodOf(Callee(p, call), p.Types, "Compiler", "Compile") && strings.HasSuffix(w.Src(call.Args[0]), ".Result")
			})
			if !compilesResult {
				continue
			}
			if es, ok := bs.List[i+1].(*ast.ExprStmt); ok {
				if call, ok := es.X.(*ast.CallExpr); ok && isMethodOf(Callee(p, call), p.Types, "Compiler", "emit") && len(call.Args) == 3 {
					co := ConstObj(p, call.Args[1])
					k, okk := ConstInt(p, call.Args[2])
					if co != nil && co.Name() == "OpReturn" && okk && k == 1 {
						good = true
					}
				}
			}
		}
		return true
	})
	c.check(good, "TAIL.3/return-follows-result", retArm, "`return expr` compiles to <expr>; RET 1 with nothing in between", "the return arm does not emit OpReturn 1 immediately after compiling the result expression (a returned self call would no longer be followed by RET)")
	cl := w.FuncDecl(p, "Compiler.compileLogical")
	if cl == nil {
		c.anchor("compileLogical")
		return
	}
	// after the right operand is compiled, nothing is emitted
	var rhsPos token.Pos
	ast.Inspect(cl.Body, func(nd ast.Node) bool {
		call, ok := nd.(*ast.CallExpr)
		if ok && isMethodOf(Callee(p, call), p.Types, "Compiler", "Compile") && strings.HasSuffix(w.Src(call.Args[0]), ".RHS") {
			rhsPos = call.Pos()
		}
		return true
	})
	emitsAfter := false
	ast.Inspect(cl.Body, func(nd ast.Node) bool {
		call, ok := nd.(*ast.CallExpr)
		if ok && isMethodOf(Callee(p, call), p.Types, "Compiler", "emit") && rhsPos.IsValid() && call.Pos() > rhsPos {
			emitsAfter = true
		}
		return true
	})
	c.check(rhsPos.IsValid() && !emitsAfter, "TAIL.3/logical-rhs-last", cl, "&&/|| emit nothing after their right operand, so a call there is followed by what follows the whole expression", "compileLogical emits an instruction after the right operand: `return a && f(x)` would no longer be a tail call")
}

func sortedIntKeys(m map[int]bool) []int {
	var k []int
	for x := range m {
		k = append(k, x)
	}
	for i := range k {
		for j := i + 1; j < len(k); j++ {
			if k[j] < k[i] {
				k[i], k[j] = k[j], k[i]
			}
		}
	}
	return k
}
