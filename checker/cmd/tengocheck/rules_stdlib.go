package main

// rules_stdlib.go: C19 — ADPT.1-5.

import (
	"fmt"
	"go/ast"
	"go/token"
	"go/types"
	"regexp"
	"sort"
	"strings"
	"unicode"
)

// goTypeKey: a short name for the Go types the adapters deal with.
func goTypeKey(t types.Type) string {
	switch u := t.Underlying().(type) {
	case *types.Basic:
		switch u.Kind() {
		case types.Uint8:
			return "uint8"
		case types.Int32:
			return "int32"
		}
		return u.Name()
	case *types.Slice:
		return "[]" + goTypeKey(u.Elem())
	case *types.Interface:
		if t.String() == "error" {
			return "error"
		}
	}
	return t.String()
}

// conversion function whose first result has this Go type
var convFor = map[string]string{"string": "ToString", "int": "ToInt", "int64": "ToInt64", "float64": "ToFloat64", "[]uint8": "ToByteSlice", "bool": "ToBool", "time.Time": "ToTime", "int32": "ToRune"}

// object type that carries a Go result type
var objFor = map[string]string{"string": "String", "int": "Int", "int64": "Int", "float64": "Float", "[]uint8": "Bytes", "bool": "Bool", "[]string": "Array<String>", "[]int": "Array<Int>", "error": "error"}

type convInfo struct {
	Func   string
	ArgIdx int
	Stmt   ast.Stmt
}

// argConversions: in a callable body, variables defined as `v, ok := tengo.ToX(args[i])`
// or built element-wise from args[i] (the []string idiom).
func (w *World) argConversions(pk pkgT, body *ast.BlockStmt, argsObj types.Object) map[types.Object]convInfo {
	p := pk
	out := map[types.Object]convInfo{}
	argIndex := func(e ast.Expr) int {
		ix, ok := ast.Unparen(e).(*ast.IndexExpr)
		if !ok {
			return -1
		}
		id, ok := ast.Unparen(ix.X).(*ast.Ident)
		if !ok || p.TypesInfo.Uses[id] != argsObj {
			return -1
		}
		k, ok := ConstInt(p, ix.Index)
		if !ok {
			return -1
		}
		return int(k)
	}
	ast.Inspect(body, func(n ast.Node) bool {
		switch x := n.(type) {
		case *ast.AssignStmt:
			if len(x.Rhs) == 1 && len(x.Lhs) >= 1 {
				if call, ok := x.Rhs[0].(*ast.CallExpr); ok && len(call.Args) == 1 {
					if fn := Callee(p, call); fn != nil && fn.Pkg() == w.Root.Types && strings.HasPrefix(fn.Name(), "To") {
						if i := argIndex(call.Args[0]); i >= 0 {
							if id, ok := x.Lhs[0].(*ast.Ident); ok {
								o := p.TypesInfo.Defs[id]
								if o == nil {
									o = p.TypesInfo.Uses[id]
								}
								if o != nil {
									out[o] = convInfo{fn.Name(), i, x}
								}
							}
						}
					}
				}
			}
		case *ast.TypeSwitchStmt:
			// switch arg0 := args[i].(type) { case *Array: … ss = append(ss, ToString(elem)) }
			var tag ast.Expr
			if as, ok := x.Assign.(*ast.AssignStmt); ok {
				if ta, ok := as.Rhs[0].(*ast.TypeAssertExpr); ok {
					tag = ta.X
				}
			}
			if i := argIndex(tag); i >= 0 {
				ast.Inspect(x.Body, func(m ast.Node) bool {
					as, ok := m.(*ast.AssignStmt)
					if !ok || len(as.Rhs) != 1 {
						return true
					}
					if call, ok := as.Rhs[0].(*ast.CallExpr); ok && IsBuiltinCall(p, call, "append") {
						if id, ok := as.Lhs[0].(*ast.Ident); ok {
							if o := p.TypesInfo.Uses[id]; o != nil {
								out[o] = convInfo{"elements:ToString", i, x}
							}
						}
					}
					return true
				})
			}
		}
		return true
	})
	return out
}

func ruleADPT1(c *Ctx) {
	w := c.W
	p := w.Stdlib
	n := 0
	w.AllFuncDecls(p, func(fd *ast.FuncDecl) {
		if fd.Recv != nil || !strings.HasPrefix(fd.Name.Name, "FuncA") || fd.Type.Params.NumFields() != 1 {
			return
		}
		fnParam := fd.Type.Params.List[0]
		if len(fnParam.Names) != 1 {
			return
		}
		fnObj := p.TypesInfo.Defs[fnParam.Names[0]]
		sig, ok := fnObj.Type().Underlying().(*types.Signature)
		if !ok {
			return
		}
		n++
		key := "adapter/" + fd.Name.Name
		var lit *ast.FuncLit
		if len(fd.Body.List) == 1 {
			if r, ok := fd.Body.List[0].(*ast.ReturnStmt); ok && len(r.Results) == 1 {
				lit, _ = r.Results[0].(*ast.FuncLit)
			}
		}
		if lit == nil || lit.Type.Params.NumFields() != 1 {
			c.undecided(key, fd, "adapter does not simply return a closure over args")
			return
		}
		argsObj := p.TypesInfo.Defs[lit.Type.Params.List[0].Names[0]]
		var probs []string
		np := sig.Params().Len()
		// (a) arity check first
		okArity := false
		if len(lit.Body.List) > 0 {
			if is, ok := lit.Body.List[0].(*ast.IfStmt); ok {
				if b, ok := ast.Unparen(is.Cond).(*ast.BinaryExpr); ok && b.Op == token.NEQ {
					if lc, ok := ast.Unparen(b.X).(*ast.CallExpr); ok && IsBuiltinCall(p, lc, "len") {
						if k, ok := ConstInt(p, b.Y); ok && int(k) == np {
							if containsNode(is.Body, func(m ast.Node) bool {
								id, ok := m.(*ast.Ident)
								return ok && id.Name == "ErrWrongNumArguments"
							}) && terminates(is.Body) {
								okArity = true
							}
						}
					}
				}
			}
		}
		if !okArity {
			probs = append(probs, fmt.Sprintf("does not start with `if len(args) != %d { return nil, ErrWrongNumArguments }`", np))
		}
		// (b)+(c) conversions and call
		convs := w.argConversions(p, lit.Body, argsObj)
		var calls []*ast.CallExpr
		ast.Inspect(lit.Body, func(m ast.Node) bool {
			if call, ok := m.(*ast.CallExpr); ok {
				if id, ok := ast.Unparen(call.Fun).(*ast.Ident); ok && p.TypesInfo.Uses[id] == fnObj {
					calls = append(calls, call)
				}
			}
			return true
		})
		if len(calls) != 1 {
			probs = append(probs, fmt.Sprintf("wrapped function is called %d times", len(calls)))
		} else {
			call := calls[0]
			if len(call.Args) != np {
				probs = append(probs, "wrapped function called with the wrong number of arguments")
			}
			for i, a := range call.Args {
				id, ok := ast.Unparen(a).(*ast.Ident)
				if !ok {
					probs = append(probs, fmt.Sprintf("argument %d is not a converted variable: %s", i+1, w.Src(a)))
					continue
				}
				ci, ok := convs[p.TypesInfo.Uses[id]]
				if !ok {
					probs = append(probs, fmt.Sprintf("argument %d (%s) is not the result of a tengo.To* conversion of args[%d]", i+1, id.Name, i))
					continue
				}
				pt := goTypeKey(sig.Params().At(i).Type())
				want := convFor[pt]
				if pt == "[]string" {
					want = "elements:ToString"
				}
				if ci.Func != want {
					probs = append(probs, fmt.Sprintf("parameter %d has type %s but is converted with %s (expected %s)", i+1, pt, ci.Func, want))
				}
				if ci.ArgIdx != i {
					probs = append(probs, fmt.Sprintf("parameter %d receives args[%d]: arguments are transposed", i+1, ci.ArgIdx))
				}
				// failed conversion rejected
				if as, ok := ci.Stmt.(*ast.AssignStmt); ok {
					rejected := false
					for j, s := range lit.Body.List {
						if s == ast.Stmt(as) && j+1 < len(lit.Body.List) {
							if is, ok := lit.Body.List[j+1].(*ast.IfStmt); ok && strings.HasPrefix(w.Src(is.Cond), "!") && containsNode(is.Body, func(m ast.Node) bool {
								id, ok := m.(*ast.Ident)
								return ok && id.Name == "ErrInvalidArgumentType"
							}) && terminates(is.Body) {
								rejected = true
							}
						}
					}
					if !rejected {
						probs = append(probs, fmt.Sprintf("a failed conversion of args[%d] is not rejected with ErrInvalidArgumentType", i))
					}
				}
			}
		}
		// (d)+(e) results
		nr := sig.Results().Len()
		want := map[string]bool{}
		hasErr := false
		switch {
		case nr == 0:
			want["undefined"] = true
		case nr == 1 && goTypeKey(sig.Results().At(0).Type()) == "error":
			want["error"] = true
		case nr == 1:
			want[objFor[goTypeKey(sig.Results().At(0).Type())]] = true
		case nr == 2:
			want[objFor[goTypeKey(sig.Results().At(0).Type())]] = true
			want["error"] = true
			hasErr = true
		}
		got := map[string]bool{}
		goErrNonNil := false
		// element type of arrays built in the closure
		var classifyBody func(blk *ast.BlockStmt, depth int)
		classifyBody = func(blk *ast.BlockStmt, depth int) {
			elemOf := func() string {
				e := ""
				ast.Inspect(blk, func(m ast.Node) bool {
					call, ok := m.(*ast.CallExpr)
					if ok && IsBuiltinCall(p, call, "append") && len(call.Args) == 2 && strings.HasSuffix(w.Src(call.Args[0]), ".Value") {
						if u, ok := call.Args[1].(*ast.UnaryExpr); ok {
							if cl, ok := u.X.(*ast.CompositeLit); ok {
								e, _ = namedName(p.TypesInfo.Types[cl].Type)
							}
						}
					}
					return true
				})
				return e
			}
			ast.Inspect(blk, func(m ast.Node) bool {
				if fl, ok := m.(*ast.FuncLit); ok && fl.Body != blk {
					return false
				}
				r, ok := m.(*ast.ReturnStmt)
				if ok && len(r.Results) == 1 && depth == 0 {
					// `return helper(…)`: the result conversion was moved into a helper
					if call, ok := ast.Unparen(r.Results[0]).(*ast.CallExpr); ok {
						if hd := gHelpers[call]; hd != nil && hd.Type.Results != nil && hd.Type.Results.NumFields() == 2 {
							classifyBody(hd.Body, depth+1)
							return true
						}
					}
				}
				if !ok || len(r.Results) != 2 {
					return true
				}
				if !isNilIdent(r.Results[1]) {
					if isNilIdent(r.Results[0]) {
						return true // rejection: (nil, error)
					}
					goErrNonNil = true
				}
				if isNilIdent(r.Results[0]) {
					return true
				}
				e := ast.Unparen(r.Results[0])
				switch x := e.(type) {
				case *ast.SelectorExpr:
					switch x.Sel.Name {
					case "UndefinedValue":
						got["undefined"] = true
					case "TrueValue", "FalseValue":
						got["Bool"] = true
					default:
						got["?"+w.Src(e)] = true
					}
				case *ast.CallExpr:
					if fn := Callee(p, x); fn != nil && fn.Name() == "wrapError" {
						got["error"] = true
					} else {
						got["?"+w.Src(e)] = true
					}
				case *ast.UnaryExpr:
					if cl, ok := x.X.(*ast.CompositeLit); ok {
						tn, _ := namedName(p.TypesInfo.Types[cl].Type)
						got[tn] = true
					}
				case *ast.Ident:
					tn, _ := namedName(p.TypesInfo.Types[x].Type)
					if tn == "Array" {
						got["Array<"+elemOf()+">"] = true
					} else {
						got["?"+x.Name] = true
					}
				default:
					got["?"+w.Src(e)] = true
				}
				return true
			})
		}
		classifyBody(lit.Body, 0)
		if !sameSet(got, want) {
			probs = append(probs, fmt.Sprintf("wrapped function returns %s but the closure yields %s (expected %s)", sig.Results(), setStr(got), setStr(want)))
		}
		if goErrNonNil {
			probs = append(probs, "a Go error of the wrapped function is returned as a run-time error instead of an error value")
		}
		if hasErr {
			// res, err := fn(...); if err != nil { return wrapError(err), nil }
			ok := containsNode(lit.Body, func(m ast.Node) bool {
				is, ok := m.(*ast.IfStmt)
				if !ok {
					return false
				}
				b, ok := ast.Unparen(is.Cond).(*ast.BinaryExpr)
				return ok && b.Op == token.NEQ && isNilIdent(b.Y) && containsNode(is.Body, func(q ast.Node) bool {
					call, ok := q.(*ast.CallExpr)
					return ok && Callee(p, call) != nil && Callee(p, call).Name() == "wrapError" && len(call.Args) == 1 && w.Src(call.Args[0]) == w.Src(b.X)
				})
			})
			if !ok {
				probs = append(probs, "the error result is not surfaced as wrapError(err) when non-nil")
			}
		}
		c.check(len(probs) == 0, key, fd, fmt.Sprintf("%s: arity %d, conversions by parameter type in order, results %s", sig, np, setStr(want)), strings.Join(dedupStrings(probs), "; "))
		// (f) limit checks on string/bytes results: informational
		rt := ""
		if nr >= 1 {
			rt = goTypeKey(sig.Results().At(0).Type())
		}
		if rt == "string" || rt == "[]uint8" || rt == "[]string" {
			lim := containsNode(lit.Body, func(m ast.Node) bool {
				id, ok := m.(*ast.Ident)
				return ok && (id.Name == "MaxStringLen" || id.Name == "MaxBytesLen")
			})
			if !lim {
				c.note("%s returns %s without comparing its length with the limit (outside C06's core-language scope)", fd.Name.Name, rt)
			}
		}
	})
	if n < 40 {
		c.fail("adapter/count", nil, fmt.Sprintf("expected >= 40 FuncA…R… adapters, found %d", n))
	}
}

// ---------------------------------------------------------------- ADPT.2

func snakeCase(s string) string {
	rs := []rune(s)
	var b strings.Builder
	for i, r := range rs {
		if unicode.IsUpper(r) && i > 0 {
			prev := rs[i-1]
			nextLower := i+1 < len(rs) && unicode.IsLower(rs[i+1])
			if unicode.IsLower(prev) || ((unicode.IsDigit(prev) || unicode.IsUpper(prev)) && nextLower) {
				b.WriteByte('_')
			}
		}
		b.WriteRune(unicode.ToLower(r))
	}
	return b.String()
}

func lowerFirst(s string) string {
	if s == "" {
		return s
	}
	rs := []rune(s)
	rs[0] = unicode.ToLower(rs[0])
	return string(rs)
}

type tableEntry struct {
	Key   string
	KV    *ast.KeyValueExpr
	Lit   *ast.CompositeLit // the &tengo.UserFunction{…} / &tengo.Float{…} literal
	TypeN string
	Name  string   // UserFunction.Name if present
	Value ast.Expr // the Value field
}

func (w *World) moduleTable(varName string) []tableEntry {
	p := w.Stdlib
	lit := w.pkgVarLit(p, varName)
	if lit == nil {
		return nil
	}
	var out []tableEntry
	for _, e := range lit.Elts {
		kv, ok := e.(*ast.KeyValueExpr)
		if !ok {
			continue
		}
		tv, ok := p.TypesInfo.Types[kv.Key]
		if !ok || tv.Value == nil {
			continue
		}
		te := tableEntry{Key: strings.Trim(tv.Value.ExactString(), "\""), KV: kv}
		v := kv.Value
		if u, ok := v.(*ast.UnaryExpr); ok {
			v = u.X
		}
		if cl, ok := v.(*ast.CompositeLit); ok {
			te.Lit = cl
			te.TypeN, _ = namedName(p.TypesInfo.Types[cl].Type)
			for _, el := range cl.Elts {
				if f, ok := el.(*ast.KeyValueExpr); ok {
					switch w.Src(f.Key) {
					case "Name":
						if nv, ok := p.TypesInfo.Types[f.Value]; ok && nv.Value != nil {
							te.Name = strings.Trim(nv.Value.ExactString(), "\"")
						}
					case "Value":
						te.Value = f.Value
					}
				}
			}
		}
		out = append(out, te)
	}
	return out
}

var adpt2Exceptions = map[string]string{
	"math/nan":    "NaN is an acronym; the documented name is nan",
	"math/is_nan": "NaN is an acronym; the documented name is is_nan",
}

var encodingVariant = map[string]string{"StdEncoding": "", "RawStdEncoding": "raw", "URLEncoding": "url", "RawURLEncoding": "raw_url"}
var encodingVerb = map[string]string{"EncodeToString": "encode", "DecodeString": "decode"}

// externalObjs: objects from packages outside the module referenced in e.
func (w *World) externalObjs(e ast.Expr) []types.Object {
	p := w.Stdlib
	var out []types.Object
	seen := map[types.Object]bool{}
	ast.Inspect(e, func(n ast.Node) bool {
		id, ok := n.(*ast.Ident)
		if !ok {
			return true
		}
		o := p.TypesInfo.Uses[id]
		if o == nil || o.Pkg() == nil || seen[o] {
			return true
		}
		if o.Pkg().Path() == w.ModPath || strings.HasPrefix(o.Pkg().Path(), w.ModPath+"/") {
			return true
		}
		switch o.(type) {
		case *types.Func, *types.Const, *types.Var:
			if _, isPkgName := o.(*types.PkgName); !isPkgName {
				seen[o] = true
				out = append(out, o)
			}
		}
		return true
	})
	return out
}

func ruleADPT2(c *Ctx) {
	w := c.W
	mods := []struct{ mod, v string }{{"text", "textModule"}, {"math", "mathModule"}, {"times", "timesModule"}, {"base64", "base64Module"}, {"hex", "hexModule"}}
	total := 0
	for _, m := range mods {
		tab := w.moduleTable(m.v)
		if tab == nil {
			c.anchor("module table " + m.v)
			continue
		}
		for _, te := range tab {
			if te.Lit == nil || te.Value == nil {
				continue
			}
			key := fmt.Sprintf("table/%s/%s", m.mod, te.Key)
			if te.TypeN == "UserFunction" && te.Name != "" {
				c.check(te.Name == te.Key, key+"/name", te.KV, "UserFunction.Name equals the table key", fmt.Sprintf("entry %q carries Name %q (error messages would name another function)", te.Key, te.Name))
			}
			objs := w.externalObjs(te.Value)
			// method values: base64.StdEncoding.EncodeToString
			if m.mod == "base64" {
				total++
				var enc, verb string
				for _, o := range objs {
					if v, ok := encodingVariant[o.Name()]; ok {
						enc = v
						if _, isVar := o.(*types.Var); !isVar {
							enc = "?"
						}
					}
					if v, ok := encodingVerb[o.Name()]; ok {
						verb = v
					}
				}
				want := verb
				if enc != "" {
					want = enc + "_" + verb
				}
				c.check(want == te.Key && verb != "", key, te.KV, "key names the encoding variant and direction it wraps", fmt.Sprintf("entry %q wraps %s (which is %q)", te.Key, w.Src(te.Value), want))
				continue
			}
			if len(objs) == 0 {
				continue // hand-written wrapper: ADPT.3
			}
			if len(objs) != 1 {
				c.undecided(key, te.KV, fmt.Sprintf("value refers to %d external objects", len(objs)))
				continue
			}
			o := objs[0]
			total++
			var accept []string
			switch o.(type) {
			case *types.Func:
				accept = []string{snakeCase(o.Name())}
				if m.mod == "hex" {
					accept = nil
					if v, ok := encodingVerb[o.Name()]; ok {
						accept = []string{v}
					}
				}
			case *types.Const:
				accept = []string{lowerFirst(o.Name()), strings.ToLower(o.Name()), "format_" + snakeCase(o.Name())}
			default:
				accept = []string{snakeCase(o.Name())}
			}
			good := false
			for _, a := range accept {
				if a == te.Key {
					good = true
				}
			}
			if why, ok := adpt2Exceptions[m.mod+"/"+te.Key]; ok && !good {
				// the exception names the exact object
				if strings.EqualFold(strings.ReplaceAll(te.Key, "_", ""), o.Name()) {
					c.ok(key, te.KV, "tabled: "+why)
					continue
				}
			}
			c.check(good, key, te.KV, fmt.Sprintf("key is the snake/lower-camel form of %s.%s", o.Pkg().Name(), o.Name()), fmt.Sprintf("entry %q is bound to %s.%s (whose name maps to %v): the documented function and the wrapped Go function differ", te.Key, o.Pkg().Name(), o.Name(), accept))
		}
	}
	if total < 140 {
		c.fail("table/count", nil, fmt.Sprintf("expected >= 140 table entries bound to external functions/constants, found %d", total))
	}
}

// ---------------------------------------------------------------- ADPT.3

var adpt3Exceptions = map[string][]string{
	"times/in_location": {"In"},
	"times/to_local":    {"Local"},
	"times/to_utc":      {"UTC"},
	"text/re_match":     {"MatchString"},
	"text/re_find":      {"FindStringSubmatchIndex", "FindAllStringSubmatchIndex"},
	"text/re_replace":   {"Compile"}, // replacement re-implemented with a size limit in doTextRegexpReplace
	"text/replace":      {},          // re-implemented with a size limit in doTextReplace
	"text/format_bool":  {},          // two constant strings
	"text/re_split":     {"Split"},
	"text/re_compile":   {"Compile"},
	"text/substr":       {},
	"text/pad_left":     {"Repeat"},
	"text/pad_right":    {"Repeat"},
}

func camelWords(words []string) string {
	var b strings.Builder
	for _, wd := range words {
		if wd == "" {
			continue
		}
		b.WriteString(strings.ToUpper(wd[:1]) + wd[1:])
	}
	return b.String()
}

// acceptedArities evaluates the len(args) guards of a hand-written callable
// over 0..8 (finite domain): the arities for which no ErrWrongNumArguments
// branch is taken.
func (w *World) acceptedArities(fd *ast.FuncDecl, argsObj types.Object) (map[int]bool, bool) {
	p := w.Stdlib
	acc := map[int]bool{}
	decided := false
	var guards []*ast.IfStmt
	ast.Inspect(fd.Body, func(n ast.Node) bool {
		is, ok := n.(*ast.IfStmt)
		if !ok {
			return true
		}
		if containsNode(is.Body, func(m ast.Node) bool {
			id, ok := m.(*ast.Ident)
			return ok && id.Name == "ErrWrongNumArguments"
		}) && !containsNode(is.Body, func(m ast.Node) bool { _, ok := m.(*ast.IfStmt); return ok }) {
			guards = append(guards, is)
		}
		return true
	})
	if len(guards) == 0 {
		return acc, false
	}
	// variables holding len(args)
	lenVars := map[types.Object]bool{}
	ast.Inspect(fd.Body, func(n ast.Node) bool {
		as, ok := n.(*ast.AssignStmt)
		if !ok || len(as.Lhs) != 1 || len(as.Rhs) != 1 {
			return true
		}
		if call, ok := as.Rhs[0].(*ast.CallExpr); ok && IsBuiltinCall(p, call, "len") {
			if id, ok := ast.Unparen(call.Args[0]).(*ast.Ident); ok && p.TypesInfo.Uses[id] == argsObj {
				if lid, ok := as.Lhs[0].(*ast.Ident); ok {
					lenVars[p.TypesInfo.Defs[lid]] = true
				}
			}
		}
		return true
	})
	var eval func(e ast.Expr, n int) (bool, bool)
	val := func(e ast.Expr, n int) (int64, bool) {
		e = ast.Unparen(e)
		if k, ok := ConstInt(p, e); ok {
			return k, true
		}
		if call, ok := e.(*ast.CallExpr); ok && IsBuiltinCall(p, call, "len") {
			if id, ok := ast.Unparen(call.Args[0]).(*ast.Ident); ok && p.TypesInfo.Uses[id] == argsObj {
				return int64(n), true
			}
		}
		if id, ok := e.(*ast.Ident); ok && lenVars[p.TypesInfo.Uses[id]] {
			return int64(n), true
		}
		return 0, false
	}
	eval = func(e ast.Expr, n int) (bool, bool) {
		e = ast.Unparen(e)
		switch x := e.(type) {
		case *ast.BinaryExpr:
			switch x.Op {
			case token.LAND, token.LOR:
				a, ok1 := eval(x.X, n)
				b, ok2 := eval(x.Y, n)
				if !ok1 || !ok2 {
					return false, false
				}
				if x.Op == token.LAND {
					return a && b, true
				}
				return a || b, true
			default:
				a, ok1 := val(x.X, n)
				b, ok2 := val(x.Y, n)
				if !ok1 || !ok2 {
					return false, false
				}
				switch x.Op {
				case token.EQL:
					return a == b, true
				case token.NEQ:
					return a != b, true
				case token.LSS:
					return a < b, true
				case token.LEQ:
					return a <= b, true
				case token.GTR:
					return a > b, true
				case token.GEQ:
					return a >= b, true
				}
			}
		case *ast.UnaryExpr:
			if x.Op == token.NOT {
				a, ok := eval(x.X, n)
				return !a, ok
			}
		}
		return false, false
	}
	decided = true
	for n := 0; n <= 8; n++ {
		rej := false
		for _, g := range guards {
			r, ok := eval(g.Cond, n)
			if !ok {
				decided = false
			}
			if r {
				rej = true
			}
		}
		if !rej {
			acc[n] = true
		}
	}
	return acc, decided
}

func ruleADPT3(c *Ctx) {
	w := c.W
	p := w.Stdlib
	for _, m := range []struct{ mod, v, pkgs string }{{"times", "timesModule", "time"}, {"text", "textModule", "strings,strconv,regexp"}} {
		for _, te := range w.moduleTable(m.v) {
			if te.TypeN != "UserFunction" || te.Value == nil {
				continue
			}
			id, ok := ast.Unparen(te.Value).(*ast.Ident)
			if !ok {
				continue
			}
			fn, ok := p.TypesInfo.Uses[id].(*types.Func)
			if !ok {
				continue
			}
			fd := w.FuncDecl(p, fn.Name())
			if fd == nil || fd.Type.Params.NumFields() != 1 || len(fd.Type.Params.List[0].Names) != 1 {
				continue
			}
			argsObj := p.TypesInfo.Defs[fd.Type.Params.List[0].Names[0]]
			key := fmt.Sprintf("wrapper/%s/%s", m.mod, te.Key)
			convs := w.argConversions(p, fd.Body, argsObj)
			// external callees and the conversion indexes feeding them (receiver first)
			type ext struct {
				name string
				idxs []int
				node ast.Node
			}
			var exts []ext
			ast.Inspect(fd.Body, func(n ast.Node) bool {
				call, ok := n.(*ast.CallExpr)
				if !ok {
					return true
				}
				cf := Callee(p, call)
				if cf == nil || cf.Pkg() == nil {
					return true
				}
				internalHelper := cf.Pkg() == p.Types && cf.Name() != "wrapError" && !strings.HasPrefix(cf.Name(), "FuncA")
				if !internalHelper && !strings.Contains(","+m.pkgs+",", ","+cf.Pkg().Name()+",") {
					return true
				}
				var idxs []int
				collect := func(e ast.Expr) {
					ast.Inspect(e, func(q ast.Node) bool {
						if _, isCall := q.(*ast.CallExpr); isCall && q != ast.Node(e) {
							// nested external calls are separate entries; still look inside conversions
						}
						if qi, ok := q.(*ast.Ident); ok {
							if ci, ok := convs[p.TypesInfo.Uses[qi]]; ok {
								idxs = append(idxs, ci.ArgIdx)
							}
						}
						return true
					})
				}
				if se, ok := call.Fun.(*ast.SelectorExpr); ok {
					if _, isPkg := p.TypesInfo.Uses[identOf(se.X)].(*types.PkgName); !isPkg {
						collect(se.X)
					}
				}
				for _, a := range call.Args {
					collect(a)
				}
				exts = append(exts, ext{cf.Name(), idxs, call})
				return true
			})
			var probs []string
			// name rule
			words := strings.Split(te.Key, "_")
			cands := []string{camelWords(words)}
			if len(words) > 1 {
				cands = append(cands, camelWords(words[1:]))
			}
			if ex, ok := adpt3Exceptions[m.mod+"/"+te.Key]; ok {
				cands = ex
			}
			matched := len(cands) == 0
			for _, e := range exts {
				for _, cand := range cands {
					if strings.EqualFold(e.name, cand) {
						matched = true
					}
				}
			}
			if !matched {
				var names []string
				for _, e := range exts {
					names = append(names, e.name)
				}
				probs = append(probs, fmt.Sprintf("no wrapped Go function named like the key (expected one of %v, the wrapper calls %v)", cands, dedupStrings(names)))
			}
			// argument order: in each external call the script arguments appear in increasing position
			for _, e := range exts {
				for i := 1; i < len(e.idxs); i++ {
					if e.idxs[i] < e.idxs[i-1] {
						probs = append(probs, fmt.Sprintf("%s receives script arguments in order %v (transposed)", e.name, e.idxs))
						break
					}
				}
			}
			// conversions are rejected when they fail and each index converts once per type
			for o, ci := range convs {
				_ = o
				if ci.ArgIdx > 8 {
					probs = append(probs, "argument index out of range")
				}
			}
			// arity guard is decidable and consistent with the highest converted index
			acc, decided := w.acceptedArities(fd, argsObj)
			maxIdx := -1
			for _, ci := range convs {
				if ci.ArgIdx > maxIdx {
					maxIdx = ci.ArgIdx
				}
			}
			if !decided {
				probs = append(probs, "argument-count guard not understood")
			} else {
				minAcc := 99
				for n := range acc {
					if n < minAcc {
						minAcc = n
					}
				}
				if len(acc) == 0 {
					probs = append(probs, "no argument count is accepted")
				}
				_ = minAcc
			}
			c.check(len(probs) == 0, key, fd, fmt.Sprintf("wraps %v; accepts %v argument(s); arguments in positional order", extNames(exts, func(e ext) string { return e.name }), sortedIntKeys(acc)), strings.Join(dedupStrings(probs), "; "))
		}
	}
}

func identOf(e ast.Expr) *ast.Ident {
	id, _ := ast.Unparen(e).(*ast.Ident)
	if id == nil {
		return &ast.Ident{}
	}
	return id
}

func extNames[T any](l []T, f func(T) string) []string {
	var out []string
	for _, x := range l {
		out = append(out, f(x))
	}
	return dedupStrings(out)
}

// ---------------------------------------------------------------- ADPT.4 / ADPT.5

var docFuncRe = regexp.MustCompile("^- `([a-z_0-9]+)\\(([^)]*)\\)")

func ruleADPT4(c *Ctx) {
	w := c.W
	p := w.Stdlib
	for _, m := range []struct{ mod, v string }{{"text", "textModule"}, {"math", "mathModule"}, {"times", "timesModule"}, {"base64", "base64Module"}, {"hex", "hexModule"}} {
		doc, err := readRepoFile(w, "docs/stdlib-"+m.mod+".md")
		if err != nil {
			c.anchor("docs/stdlib-" + m.mod + ".md")
			continue
		}
		docArity := map[string]int{}
		if i := strings.Index(doc, "## Functions"); i >= 0 {
			doc = doc[i+len("## Functions"):]
			if j := strings.Index(doc, "\n## "); j >= 0 {
				doc = doc[:j]
			}
		}
		for _, line := range strings.Split(doc, "\n") {
			mm := docFuncRe.FindStringSubmatch(strings.TrimSpace(line))
			if mm == nil {
				continue
			}
			n := 0
			if strings.TrimSpace(mm[2]) != "" {
				n = len(strings.Split(mm[2], ","))
			}
			docArity[mm[1]] = n
		}
		impl := map[string]tableEntry{}
		for _, te := range w.moduleTable(m.v) {
			if te.TypeN == "UserFunction" {
				impl[te.Key] = te
			}
		}
		for _, k := range sortedKeys(impl) {
			_, ok := docArity[k]
			c.check(ok, fmt.Sprintf("doc/%s/%s", m.mod, k), impl[k].KV, "function is documented", fmt.Sprintf("%s.%s is in the module table but not in docs/stdlib-%s.md", m.mod, k, m.mod))
		}
		for _, k := range sortedKeys(docArity) {
			te, ok := impl[k]
			if !ok {
				c.fail(fmt.Sprintf("impl/%s/%s", m.mod, k), nil, fmt.Sprintf("docs/stdlib-%s.md documents %s() but the module table has no such function", m.mod, k))
				continue
			}
			// documented parameter count is accepted
			acc := map[int]bool{}
			decided := false
			if id, ok := ast.Unparen(te.Value).(*ast.Ident); ok {
				if fn, ok := p.TypesInfo.Uses[id].(*types.Func); ok {
					if fd := w.FuncDecl(p, fn.Name()); fd != nil && fd.Type.Params.NumFields() == 1 && len(fd.Type.Params.List[0].Names) == 1 {
						acc, decided = w.acceptedArities(fd, p.TypesInfo.Defs[fd.Type.Params.List[0].Names[0]])
					}
				}
			} else if call, ok := ast.Unparen(te.Value).(*ast.CallExpr); ok {
				// adapter: arity = number of parameters of the wrapped function type
				if cf := Callee(p, call); cf != nil && strings.HasPrefix(cf.Name(), "FuncA") {
					if sig, ok := cf.Type().(*types.Signature); ok && sig.Params().Len() == 1 {
						if fs, ok := sig.Params().At(0).Type().Underlying().(*types.Signature); ok {
							acc[fs.Params().Len()] = true
							decided = true
						}
					}
				}
			}
			if !decided {
				continue
			}
			c.check(acc[docArity[k]], fmt.Sprintf("arity/%s/%s", m.mod, k), te.KV, fmt.Sprintf("documented %d parameter(s) accepted", docArity[k]), fmt.Sprintf("%s.%s is documented with %d parameter(s) but the implementation accepts %v", m.mod, k, docArity[k], sortedIntKeys(acc)))
		}
	}
}

func ruleADPT5(c *Ctx) {
	w := c.W
	p := w.Stdlib
	// generated source module in sync with its source
	src, err := readRepoFile(w, "stdlib/srcmod_enum.tengo")
	if err != nil {
		c.anchor("stdlib/srcmod_enum.tengo")
	} else {
		lit := w.pkgVarLit(p, "SourceModules")
		got := ""
		found := false
		if lit != nil {
			for _, e := range lit.Elts {
				if kv, ok := e.(*ast.KeyValueExpr); ok {
					if tv, ok := p.TypesInfo.Types[kv.Key]; ok && tv.Value != nil && strings.Trim(tv.Value.ExactString(), "\"") == "enum" {
						if vv, ok := p.TypesInfo.Types[kv.Value]; ok && vv.Value != nil {
							got = constantStringVal(vv)
							found = true
						}
					}
				}
			}
		}
		c.check(found && got == src, "srcmod/enum-in-sync", nil, "embedded enum module text equals stdlib/srcmod_enum.tengo", "the enum module embedded in source_modules.go differs from stdlib/srcmod_enum.tengo (generated file out of date, or edited by hand)")
	}
	// BuiltinModules maps each name to the table of the same stem
	bm := w.pkgVarLit(p, "BuiltinModules")
	if bm == nil {
		c.anchor("BuiltinModules")
		return
	}
	n := 0
	for _, e := range bm.Elts {
		kv, ok := e.(*ast.KeyValueExpr)
		if !ok {
			continue
		}
		tv, ok := p.TypesInfo.Types[kv.Key]
		if !ok || tv.Value == nil {
			continue
		}
		name := strings.Trim(tv.Value.ExactString(), "\"")
		n++
		c.check(w.Src(kv.Value) == name+"Module", "modules/"+name, kv, "module name bound to its own table", fmt.Sprintf("module %q is bound to table %s", name, w.Src(kv.Value)))
	}
	c.check(n >= 8, "modules/count", bm, fmt.Sprintf("%d builtin modules", n), "too few builtin modules")
}

func constantStringVal(tv types.TypeAndValue) string {
	s := tv.Value.ExactString()
	if u, err := strconvUnquote(s); err == nil {
		return u
	}
	return s
}

var _ = sort.Strings

// PORT.1: text.replace is a size-limited re-implementation of strings.Replace;
// the cursor logic (which positions are replaced, and how the cursor advances
// over an empty `old`) must stay identical to the reference's.
func rulePORT1(c *Ctx) {
	w := c.W
	p := w.Stdlib
	ref, err := w.loadRef("strings")
	if err != nil {
		c.anchor("reference package strings: " + err.Error())
		return
	}
	mine, theirs := w.FuncDecl(p, "doTextReplace"), w.FuncDecl(ref, "Replace")
	if mine == nil || theirs == nil {
		c.anchor("doTextReplace / strings.Replace")
		return
	}
	// how the replacement count n and the cursor start are computed, as
	// nesting-independent tables of guarded assignments (see sliceTable)
	// seeds, by role: the count parameter (4th) and the cursor that the
	// replacement loop carries over (assigned by the last statement of its body)
	seedsOf := func(pk pkgT, fd *ast.FuncDecl) []types.Object {
		var out []types.Object
		i := 0
		for _, f := range fd.Type.Params.List {
			for _, nm := range f.Names {
				if i == 3 {
					out = append(out, pk.TypesInfo.Defs[nm])
				}
				i++
			}
		}
		for _, s := range fd.Body.List {
			if loop, ok := s.(*ast.ForStmt); ok && len(loop.Body.List) > 0 {
				if as, ok := loop.Body.List[len(loop.Body.List)-1].(*ast.AssignStmt); ok && as.Tok == token.ASSIGN && len(as.Lhs) == 1 {
					if id, ok := as.Lhs[0].(*ast.Ident); ok {
						out = append(out, pk.TypesInfo.ObjectOf(id))
					}
				}
			}
		}
		return out
	}
	a, b := sliceTable(p, mine, nil, seedsOf(p, mine)...), sliceTable(ref, theirs, nil, seedsOf(ref, theirs)...)
	if len(a) < 6 || len(b) < 6 {
		c.anchor(fmt.Sprintf("cursor computation of doTextReplace / strings.Replace (%d / %d guarded assignments)", len(a), len(b)))
		return
	}
	inB := map[string]bool{}
	for _, l := range b {
		inB[l] = true
	}
	inA := map[string]bool{}
	for _, l := range a {
		inA[l] = true
	}
	classify := func(l string) string {
		eff := l[strings.Index(l, "|-"):]
		if strings.Contains(eff, "Count") || strings.Contains(eff, "assign= ($p3") || strings.HasPrefix(eff, "|- return") {
			return "count"
		}
		return "cursor"
	}
	probs := map[string][]string{}
	for _, l := range a {
		if !inB[l] {
			probs[classify(l)] = append(probs[classify(l)], "text.replace: "+l)
		}
	}
	for _, l := range b {
		if !inA[l] {
			probs[classify(l)] = append(probs[classify(l)], "strings.Replace: "+l)
		}
	}
	c.check(len(probs["count"]) == 0, "replace/count", mine, "number of replacements computed as in strings.Replace", "text.replace computes the number of replacements differently from strings.Replace: "+strings.Join(probs["count"], " || "))
	c.check(len(probs["cursor"]) == 0, "replace/cursor", mine, "position of the next match, advance over an empty pattern and continuation point as in strings.Replace", "text.replace moves its cursor differently from strings.Replace: "+strings.Join(probs["cursor"], " || "))
	c.note("PORT.1 guarded assignments compared: %d", len(a))
	c.ok("replace/table", mine, strings.Join(a, " ;; "))
}
