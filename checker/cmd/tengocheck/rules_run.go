package main

// rules_run.go: G-LOCK, REC.1-2, ABORT.1-5 — the run path of *Compiled and
// the VM's abort flag (C05, C07, C08, C15).

import (
	"fmt"
	"go/ast"
	"go/token"
	"go/types"
	"strings"
)

// compiledInfo: the struct with an RWMutex field whose methods run the VM.
type compiledInfo struct {
	TypeName  string
	Lock      *types.Var
	Protected map[*types.Var]bool
	Methods   []*ast.FuncDecl
}

func (w *World) compiled() *compiledInfo {
	p := w.Root
	tn := p.Types.Scope().Lookup("Compiled")
	if tn == nil {
		return nil
	}
	st, ok := tn.Type().Underlying().(*types.Struct)
	if !ok {
		return nil
	}
	ci := &compiledInfo{TypeName: "Compiled", Protected: map[*types.Var]bool{}}
	for i := 0; i < st.NumFields(); i++ {
		f := st.Field(i)
		if n, pk := namedName(f.Type()); pk != nil && pk.Path() == "sync" && (n == "RWMutex" || n == "Mutex") {
			ci.Lock = f
		} else {
			ci.Protected[f] = true
		}
	}
	if ci.Lock == nil {
		return nil
	}
	w.AllFuncDecls(p, func(fd *ast.FuncDecl) {
		if recvTypeName(fd) == "Compiled" {
			ci.Methods = append(ci.Methods, fd)
		}
	})
	return ci
}

// mutatorMethods: methods (of root-package types) that assign to fields or
// elements reachable from their receiver.
func (w *World) mutatorMethods() map[string]bool {
	p := w.Root
	out := map[string]bool{}
	w.AllFuncDecls(p, func(fd *ast.FuncDecl) {
		rn := recvName(fd)
		if rn == "" {
			return
		}
		var recvObj types.Object = p.TypesInfo.Defs[fd.Recv.List[0].Names[0]]
		rooted := func(e ast.Expr) bool {
			for {
				switch x := ast.Unparen(e).(type) {
				case *ast.SelectorExpr:
					e = x.X
				case *ast.IndexExpr:
					e = x.X
				case *ast.StarExpr:
					e = x.X
				case *ast.Ident:
					return p.TypesInfo.Uses[x] == recvObj
				default:
					return false
				}
			}
		}
		ast.Inspect(fd.Body, func(n ast.Node) bool {
			switch x := n.(type) {
			case *ast.AssignStmt:
				for _, l := range x.Lhs {
					if _, isId := ast.Unparen(l).(*ast.Ident); !isId && rooted(l) {
						out[funcName(fd)] = true
					}
				}
			case *ast.IncDecStmt:
				if _, isId := ast.Unparen(x.X).(*ast.Ident); !isId && rooted(x.X) {
					out[funcName(fd)] = true
				}
			}
			return true
		})
	})
	return out
}

func lockCall(w *World, s ast.Stmt, recvObj types.Object, lock *types.Var) (string, bool) {
	var call *ast.CallExpr
	switch x := s.(type) {
	case *ast.ExprStmt:
		call, _ = x.X.(*ast.CallExpr)
	case *ast.DeferStmt:
		call = x.Call
	}
	if call == nil {
		return "", false
	}
	se, ok := call.Fun.(*ast.SelectorExpr)
	if !ok {
		return "", false
	}
	f, base := FieldSel(w.Root, se.X)
	if f != lock {
		return "", false
	}
	if id, ok := ast.Unparen(base).(*ast.Ident); !ok || w.Root.TypesInfo.Uses[id] != recvObj {
		return "", false
	}
	return se.Sel.Name, true
}

func ruleLOCK(c *Ctx) {
	w := c.W
	p := w.Root
	ci := w.compiled()
	if ci == nil {
		c.anchor("struct Compiled with a sync.RWMutex field")
		return
	}
	muts := w.mutatorMethods()
	lockers := map[string]bool{}
	type mi struct {
		fd            *ast.FuncDecl
		reads, writes []string
		first, second string
		recvObj       types.Object
	}
	var infos []*mi
	for _, fd := range ci.Methods {
		if len(fd.Recv.List[0].Names) == 0 {
			continue
		}
		m := &mi{fd: fd, recvObj: p.TypesInfo.Defs[fd.Recv.List[0].Names[0]]}
		infos = append(infos, m)
		if len(fd.Body.List) >= 1 {
			if n, ok := lockCall(w, fd.Body.List[0], m.recvObj, ci.Lock); ok {
				if _, isExpr := fd.Body.List[0].(*ast.ExprStmt); isExpr {
					m.first = n
					lockers[fd.Name.Name] = true
				}
			}
		}
		if len(fd.Body.List) >= 2 {
			if n, ok := lockCall(w, fd.Body.List[1], m.recvObj, ci.Lock); ok {
				if _, isDefer := fd.Body.List[1].(*ast.DeferStmt); isDefer {
					m.second = n
				}
			}
		}
		isRecvField := func(e ast.Expr) *types.Var {
			f, base := FieldSel(p, e)
			if f == nil || !ci.Protected[f] {
				return nil
			}
			if id, ok := ast.Unparen(base).(*ast.Ident); ok && p.TypesInfo.Uses[id] == m.recvObj {
				return f
			}
			return nil
		}
		written := map[ast.Node]bool{}
		ast.Inspect(fd.Body, func(n ast.Node) bool {
			switch x := n.(type) {
			case *ast.AssignStmt:
				for _, l := range x.Lhs {
					e := ast.Unparen(l)
					if ix, ok := e.(*ast.IndexExpr); ok {
						e = ix.X
					}
					if f := isRecvField(e); f != nil {
						m.writes = append(m.writes, "assigns "+w.Src(l))
						written[ast.Unparen(l)] = true
					}
				}
			case *ast.CallExpr:
				fn := Callee(p, x)
				// passing protected state to the VM constructor: the VM writes globals
				if fn != nil && fn.Name() == "NewVM" {
					for _, a := range x.Args {
						if f := isRecvField(a); f != nil {
							if _, isSlice := f.Type().Underlying().(*types.Slice); isSlice {
								m.writes = append(m.writes, "hands "+w.Src(a)+" to the VM, which stores into it")
							}
						}
					}
				}
				// mutating method on a protected field
				if se, ok := x.Fun.(*ast.SelectorExpr); ok && fn != nil {
					if f := isRecvField(se.X); f != nil {
						tn, _ := namedName(f.Type())
						if muts[tn+"."+fn.Name()] {
							m.writes = append(m.writes, "calls mutating "+tn+"."+fn.Name()+" on "+w.Src(se.X))
						}
					}
				}
			}
			return true
		})
		ast.Inspect(fd.Body, func(n ast.Node) bool {
			if e, ok := n.(ast.Expr); ok {
				if f := isRecvField(e); f != nil && !written[e] {
					m.reads = append(m.reads, f.Name())
				}
			}
			return true
		})
	}
	// callers of each method (within the methods of the type)
	callersOf := func(name string) []*mi {
		var out []*mi
		for _, m := range infos {
			if containsNode(m.fd.Body, func(n ast.Node) bool {
				call, ok := n.(*ast.CallExpr)
				if !ok {
					return false
				}
				se, ok := call.Fun.(*ast.SelectorExpr)
				if !ok || se.Sel.Name != name {
					return false
				}
				id, ok := ast.Unparen(se.X).(*ast.Ident)
				return ok && p.TypesInfo.Uses[id] == m.recvObj
			}) {
				out = append(out, m)
			}
		}
		return out
	}
	// a method that calls a writing helper is itself a writer
	for iter := 0; iter < 3; iter++ {
		for _, h := range infos {
			if len(h.writes) == 0 || h.first != "" {
				continue
			}
			for _, cm := range callersOf(h.fd.Name.Name) {
				cm.writes = append(cm.writes, "calls writing helper "+h.fd.Name.Name)
				cm.writes = dedupStrings(cm.writes)
			}
		}
	}
	for _, m := range infos {
		key := "Compiled." + m.fd.Name.Name
		if len(m.reads) == 0 && len(m.writes) == 0 {
			continue
		}
		var probs []string
		if m.first == "" && !ast.IsExported(m.fd.Name.Name) {
			// unexported helper: acceptable when every caller holds the lock it needs
			cs := callersOf(m.fd.Name.Name)
			good := len(cs) > 0
			for _, cm := range cs {
				if cm.first == "" || (len(m.writes) > 0 && cm.first != "Lock") {
					good = false
				}
			}
			c.check(good, key, m.fd, fmt.Sprintf("helper called only with the lock held (%d caller(s))", len(cs)), "unexported method touches protected fields ("+strings.Join(dedupStrings(m.reads), ",")+") without the lock and is not called exclusively from methods that hold it")
			continue
		}
		if m.first == "" {
			probs = append(probs, "touches protected fields ("+strings.Join(dedupStrings(m.reads), ",")+") but its first statement does not take the lock")
		} else {
			want := map[string]string{"Lock": "Unlock", "RLock": "RUnlock"}[m.first]
			if m.second != want {
				probs = append(probs, fmt.Sprintf("takes %s but the next statement is not `defer …%s()` (the lock must be released on every exit, including a panic)", m.first, want))
			}
			if len(m.writes) > 0 && m.first != "Lock" {
				probs = append(probs, "holds only the read lock but "+strings.Join(dedupStrings(m.writes), "; "))
			}
		}
		// no other lock operations in the body, no re-entrant call of a locking method
		n := 0
		ast.Inspect(m.fd.Body, func(nd ast.Node) bool {
			switch x := nd.(type) {
			case *ast.ExprStmt:
				if _, ok := lockCall(w, x, m.recvObj, ci.Lock); ok {
					n++
				}
			case *ast.DeferStmt:
				if _, ok := lockCall(w, x, m.recvObj, ci.Lock); ok {
					n++
				}
			case *ast.CallExpr:
				if se, ok := x.Fun.(*ast.SelectorExpr); ok {
					if id, ok := ast.Unparen(se.X).(*ast.Ident); ok && p.TypesInfo.Uses[id] == m.recvObj && lockers[se.Sel.Name] {
						probs = append(probs, "calls "+se.Sel.Name+" on the receiver while holding the lock (sync.RWMutex is not re-entrant)")
					}
				}
			}
			return true
		})
		if m.first != "" && n != 2 {
			probs = append(probs, fmt.Sprintf("%d lock operations in the body; expected exactly the acquire and its deferred release", n))
		}
		mode := m.first
		c.check(len(probs) == 0, key, m.fd, fmt.Sprintf("%s + deferred release; writes=%d", mode, len(m.writes)), strings.Join(probs, "; "))
	}
}

// ---------------------------------------------------------------- REC / ABORT

type runCtxInfo struct {
	Fn    *ast.FuncDecl
	Go    *ast.GoStmt
	GoLit *ast.FuncLit
	Ch    types.Object
	VMVar types.Object
	After []ast.Stmt // statements after the go statement
	err   string
}

// runContext finds the method of Compiled that starts VM.Run in a goroutine.
func (w *World) runContext() *runCtxInfo {
	p := w.Root
	ri := &runCtxInfo{}
	ci := w.compiled()
	if ci == nil {
		ri.err = "Compiled"
		return ri
	}
	for _, fd := range ci.Methods {
		for i, s := range fd.Body.List {
			gs, ok := s.(*ast.GoStmt)
			if !ok {
				continue
			}
			lit, ok := gs.Call.Fun.(*ast.FuncLit)
			if !ok {
				continue
			}
			ri.Fn, ri.Go, ri.GoLit = fd, gs, lit
			ri.After = fd.Body.List[i+1:]
		}
	}
	if ri.Fn == nil {
		ri.err = "no method of Compiled starts a goroutine at statement level"
		return ri
	}
	// channel: the chan variable made in Fn and sent to inside the literal
	ast.Inspect(ri.GoLit, func(n ast.Node) bool {
		if s, ok := n.(*ast.SendStmt); ok && ri.Ch == nil {
			if id, ok := ast.Unparen(s.Chan).(*ast.Ident); ok {
				ri.Ch = p.TypesInfo.Uses[id]
			}
		}
		return true
	})
	if ri.Ch == nil {
		ri.err = "goroutine literal does not send on a channel variable"
		return ri
	}
	// VM variable: receiver of the .Run() call inside the literal
	ast.Inspect(ri.GoLit, func(n ast.Node) bool {
		if call, ok := n.(*ast.CallExpr); ok {
			if fn := Callee(p, call); isMethodOf(fn, p.Types, "VM", "Run") {
				if se, ok := call.Fun.(*ast.SelectorExpr); ok {
					if id, ok := ast.Unparen(se.X).(*ast.Ident); ok {
						ri.VMVar = p.TypesInfo.Uses[id]
					}
				}
			}
		}
		return true
	})
	if ri.VMVar == nil {
		ri.err = "goroutine literal does not call VM.Run on a variable"
	}
	return ri
}

func isSendOn(p *World, s ast.Stmt, ch types.Object) bool {
	ss, ok := s.(*ast.SendStmt)
	if !ok {
		return false
	}
	id, ok := ast.Unparen(ss.Chan).(*ast.Ident)
	return ok && p.Root.TypesInfo.Uses[id] == ch
}

func isRecvFrom(w *World, s ast.Stmt, ch types.Object) bool {
	var e ast.Expr
	switch x := s.(type) {
	case *ast.ExprStmt:
		e = x.X
	case *ast.AssignStmt:
		if len(x.Rhs) == 1 {
			e = x.Rhs[0]
		}
	}
	u, ok := ast.Unparen(e).(*ast.UnaryExpr)
	if e == nil || !ok || u.Op != token.ARROW {
		return false
	}
	id, ok := ast.Unparen(u.X).(*ast.Ident)
	return ok && w.Root.TypesInfo.Uses[id] == ch
}

func ruleREC(c *Ctx) {
	w := c.W
	p := w.Root
	ri := w.runContext()
	if ri.err != "" {
		c.anchor("context-aware run method: " + ri.err)
		return
	}
	name := "Compiled." + ri.Fn.Name.Name
	// REC.1a: channel made locally and never escapes
	var mk ast.Node
	escapes := ""
	ast.Inspect(ri.Fn.Body, func(n ast.Node) bool {
		switch x := n.(type) {
		case *ast.AssignStmt:
			for i, l := range x.Lhs {
				if id, ok := l.(*ast.Ident); ok && p.TypesInfo.Defs[id] == ri.Ch && i < len(x.Rhs) {
					if call, ok := x.Rhs[i].(*ast.CallExpr); ok && IsBuiltinCall(p, call, "make") {
						mk = x
					}
				}
			}
		case *ast.Ident:
			if p.TypesInfo.Uses[x] != ri.Ch {
				return true
			}
		}
		return true
	})
	inspectWithStack(ri.Fn.Body, func(n ast.Node, stack []ast.Node) bool {
		id, ok := n.(*ast.Ident)
		if !ok || p.TypesInfo.Uses[id] != ri.Ch || len(stack) < 2 {
			return true
		}
		switch par := stack[len(stack)-2].(type) {
		case *ast.SendStmt:
			if par.Chan != ast.Expr(id) {
				escapes = "channel sent as a value"
			}
		case *ast.UnaryExpr:
			if par.Op != token.ARROW {
				escapes = "channel used in " + w.Src(par)
			}
		default:
			escapes = "channel used in " + w.Src(stack[len(stack)-2])
		}
		return true
	})
	c.check(mk != nil && escapes == "", name+"/channel-local", ri.Fn, "result channel is made in the method and only sent to / received from", "result channel is not a local make() or escapes: "+escapes)

	// REC.1b: first statement of the goroutine defers a recover handler that answers on every path
	var handler *ast.FuncLit
	if len(ri.GoLit.Body.List) > 0 {
		if ds, ok := ri.GoLit.Body.List[0].(*ast.DeferStmt); ok {
			handler, _ = ds.Call.Fun.(*ast.FuncLit)
		}
	}
	if handler == nil {
		c.fail(name+"/recover", ri.GoLit, "the VM goroutine's first statement is not `defer func() { … recover() … }()`: a panic in the VM would take the host down")
	} else {
		// find `if r := recover(); r != nil { BODY }` (or r := recover(); if r != nil)
		var body *ast.BlockStmt
		var recObj types.Object
		ast.Inspect(handler.Body, func(n ast.Node) bool {
			as, ok := n.(*ast.AssignStmt)
			if !ok || len(as.Rhs) != 1 {
				return true
			}
			if call, ok := as.Rhs[0].(*ast.CallExpr); ok && IsBuiltinCall(p, call, "recover") {
				if id, ok := as.Lhs[0].(*ast.Ident); ok {
					recObj = p.TypesInfo.Defs[id]
				}
			}
			return true
		})
		ast.Inspect(handler.Body, func(n ast.Node) bool {
			is, ok := n.(*ast.IfStmt)
			if !ok || body != nil {
				return true
			}
			b, ok := ast.Unparen(is.Cond).(*ast.BinaryExpr)
			if !ok || b.Op != token.NEQ {
				return true
			}
			id, ok := ast.Unparen(b.X).(*ast.Ident)
			if ok && recObj != nil && p.TypesInfo.Uses[id] == recObj && is.Else == nil {
				body = is.Body
			}
			return true
		})
		if body == nil {
			c.fail(name+"/recover", handler, "deferred function does not have the shape `if r := recover(); r != nil { … }`")
		} else {
			r := pathSeq(body.List, func(s ast.Stmt) bool { return isSendOn(w, s, ri.Ch) })
			c.check(r == pHit, name+"/recover-answers", body, "every arm of the recover handler sends the converted panic on the result channel", "some path through the recover handler does not send on the result channel: RunContext would wait forever (or the panic value would be lost)")
			// the handler must not re-panic
			rep := containsNode(body, func(n ast.Node) bool {
				call, ok := n.(*ast.CallExpr)
				return ok && IsBuiltinCall(p, call, "panic")
			})
			c.check(!rep, name+"/recover-no-repanic", body, "handler never re-panics", "recover handler re-panics on the VM goroutine")
		}
	}
	// REC.1c: the normal path sends Run's result; VM.Run is called only inside the goroutine
	rest := ri.GoLit.Body.List
	if len(rest) > 0 {
		rest = rest[1:]
	}
	r := pathSeq(rest, func(s ast.Stmt) bool { return isSendOn(w, s, ri.Ch) })
	c.check(r == pHit, name+"/goroutine-answers", ri.GoLit, "the goroutine sends Run's result on every normal path", "a normal path of the VM goroutine ends without sending on the result channel")
	outside := false
	inspectWithStack(ri.Fn.Body, func(n ast.Node, stack []ast.Node) bool {
		call, ok := n.(*ast.CallExpr)
		if !ok {
			return true
		}
		if fn := Callee(p, call); isMethodOf(fn, p.Types, "VM", "Run") {
			in := false
			for _, s := range stack {
				if s == ast.Node(ri.GoLit) {
					in = true
				}
			}
			if !in {
				outside = true
			}
		}
		return true
	})
	c.check(!outside, name+"/run-only-in-goroutine", ri.Fn, "VM.Run is called only on the recovering goroutine", "VM.Run is also called outside the recovering goroutine")

	// REC.2: after `go`, every path receives from the channel before returning
	recvHit := func(s ast.Stmt) bool { return isRecvFrom(w, s, ri.Ch) }
	r2 := pathSeq(ri.After, recvHit)
	endsOK := r2 == pHit
	c.check(endsOK, name+"/waits-for-goroutine", ri.Go, "every path after the go statement receives the goroutine's answer before returning (the lock is never released with the VM still running)", "a path of "+name+" returns without receiving from the result channel: the VM goroutine outlives the call while the lock is released")
	// no select default
	hasDefault := containsNode(&ast.BlockStmt{List: ri.After}, func(n ast.Node) bool {
		cc, ok := n.(*ast.CommClause)
		return ok && cc.Comm == nil
	})
	c.check(!hasDefault, name+"/no-select-default", ri.Go, "select has no default arm", "select with a default arm can return without waiting")
}

func ruleABORT(c *Ctx) {
	w := c.W
	p := w.Root
	vi := w.vm()
	if vi.err != "" {
		c.anchor(vi.err)
		return
	}
	// the abort flag: the field atomically loaded in the dispatch loop's condition
	var flag *types.Var
	if vi.Loop.Cond != nil {
		ast.Inspect(vi.Loop.Cond, func(n ast.Node) bool {
			call, ok := n.(*ast.CallExpr)
			if !ok {
				return true
			}
			fn := Callee(p, call)
			if fn == nil || fn.Pkg() == nil || fn.Pkg().Path() != "sync/atomic" || !strings.HasPrefix(fn.Name(), "Load") || len(call.Args) != 1 {
				return true
			}
			if u, ok := call.Args[0].(*ast.UnaryExpr); ok && u.Op == token.AND {
				flag, _ = FieldSel(p, u.X)
			}
			return true
		})
	}
	if flag == nil {
		c.fail("ABORT.2/loop-polls-flag", vi.Loop, "the dispatch loop's condition does not atomically load a VM field: nothing is polled per instruction")
		return
	}
	c.ok("ABORT.2/loop-polls-flag", vi.Loop, "loop condition: "+w.Src(vi.Loop.Cond))
	// condition shape: Load(&flag) == 0, alone
	condOK := false
	if b, ok := ast.Unparen(vi.Loop.Cond).(*ast.BinaryExpr); ok && b.Op == token.EQL {
		if k, ok := ConstInt(p, b.Y); ok && k == 0 {
			if _, ok := ast.Unparen(b.X).(*ast.CallExpr); ok {
				condOK = true
			}
		}
	}
	c.check(condOK && vi.Loop.Init == nil && vi.Loop.Post == nil, "ABORT.2/loop-cond-shape", vi.Loop, "`for atomic.Load(&flag) == 0`", "dispatch loop condition is not exactly `atomic.Load(&flag) == 0`: "+w.Src(vi.Loop.Cond))

	// ABORT.1: every access to the flag is the address argument of a sync/atomic call
	n := 0
	for _, pk := range w.All {
		for _, f := range pk.Syntax {
			inspectWithStack(f, func(nd ast.Node, stack []ast.Node) bool {
				se, ok := nd.(*ast.SelectorExpr)
				if !ok {
					return true
				}
				fv, _ := FieldSel(pk, se)
				if fv != flag {
					return true
				}
				n++
				good := false
				if len(stack) >= 3 {
					if u, ok := stack[len(stack)-2].(*ast.UnaryExpr); ok && u.Op == token.AND {
						if call, ok := stack[len(stack)-3].(*ast.CallExpr); ok && len(call.Args) > 0 && call.Args[0] == ast.Expr(u) {
							if fn := Callee(pk, call); fn != nil && fn.Pkg() != nil && fn.Pkg().Path() == "sync/atomic" {
								good = true
							}
						}
					}
				}
				fd := w.enclosingFunc(pk, se.Pos())
				fname := "?"
				if fd != nil {
					fname = funcName(fd)
				}
				c.check(good, fmt.Sprintf("ABORT.1/%s#%d", fname, n), se, "accessed through sync/atomic", "plain (non-atomic) access to the abort flag: "+w.Src(stack[len(stack)-2]))
				return true
			})
		}
	}
	// composite literals of VM must not set the flag by key either (zero value is fine)

	// ABORT.2: continue statements, inner loops, goto, recursion
	inspectWithStack(vi.Switch, func(nd ast.Node, stack []ast.Node) bool {
		switch x := nd.(type) {
		case *ast.ForStmt:
			c.check(x.Cond != nil, "ABORT.2/inner-loop/"+w.ctxKey(x.Pos()), x, "counted loop", "condition-less `for` inside the dispatch function: the abort flag is not polled while it spins")
		case *ast.BranchStmt:
			if x.Tok == token.GOTO {
				c.fail("ABORT.2/goto/"+w.ctxKey(x.Pos()), x, "goto inside the dispatch function")
			}
		case *ast.CallExpr:
			if fn := Callee(p, x); fn != nil {
				if isMethodOf(fn, p.Types, "VM", vi.Fn.Name.Name) || isMethodOf(fn, p.Types, "VM", "Run") {
					c.fail("ABORT.2/recursion/"+w.ctxKey(x.Pos()), x, "the dispatch function calls itself / Run: nested dispatch does not return to the polled loop")
				}
			}
		case *ast.FuncLit:
			c.fail("ABORT.2/funclit/"+w.ctxKey(x.Pos()), x, "function literal inside the dispatch function")
		}
		return true
	})

	// ABORT.5: in the function that calls the dispatch function, the flag is
	// cleared only after dispatch returns (an Abort that arrives before the
	// run starts must not be lost)
	runFd := w.FuncDecl(p, "VM.Run")
	if runFd == nil {
		c.anchor("VM.Run")
	} else {
		var dispatchCall token.Pos
		ast.Inspect(runFd.Body, func(nd ast.Node) bool {
			if call, ok := nd.(*ast.CallExpr); ok {
				if fn := Callee(p, call); isMethodOf(fn, p.Types, "VM", vi.Fn.Name.Name) {
					dispatchCall = call.Pos()
				}
			}
			return true
		})
		if !dispatchCall.IsValid() {
			c.anchor("call of the dispatch function in VM.Run")
		} else {
			k := 0
			ast.Inspect(runFd.Body, func(nd ast.Node) bool {
				call, ok := nd.(*ast.CallExpr)
				if !ok || len(call.Args) < 1 {
					return true
				}
				fn := Callee(p, call)
				if fn == nil || fn.Pkg() == nil || fn.Pkg().Path() != "sync/atomic" || strings.HasPrefix(fn.Name(), "Load") {
					return true
				}
				if u, ok := call.Args[0].(*ast.UnaryExpr); ok && u.Op == token.AND {
					if fv, _ := FieldSel(p, u.X); fv == flag {
						k++
						c.check(call.Pos() > dispatchCall, fmt.Sprintf("ABORT.5/clear-after-dispatch#%d", k), call, "flag cleared after the dispatch loop returned", "the abort flag is written before the dispatch loop starts: an Abort() issued before Run begins (already-cancelled context) is lost and the script runs unbounded")
					}
				}
				return true
			})
		}
	}

	// ABORT.3/4 on the context-aware run method
	ri := w.runContext()
	if ri.err != "" {
		c.anchor("context-aware run method: " + ri.err)
		return
	}
	ruleFRESHVMbody(c, "ABORT.4")
	if false {
		ci := w.compiled()
		for _, fd := range ci.Methods {
			ast.Inspect(fd.Body, func(nd ast.Node) bool {
				call, ok := nd.(*ast.CallExpr)
				if !ok {
					return true
				}
				fn := Callee(p, call)
				if !isMethodOf(fn, p.Types, "VM", "Run") && !isMethodOf(fn, p.Types, "VM", "Abort") {
					return true
				}
				se := call.Fun.(*ast.SelectorExpr)
				id, ok := ast.Unparen(se.X).(*ast.Ident)
				fresh := false
				if ok {
					obj := p.TypesInfo.Uses[id]
					nDefs := 0
					ast.Inspect(fd.Body, func(m ast.Node) bool {
						as, ok := m.(*ast.AssignStmt)
						if !ok {
							return true
						}
						for i, l := range as.Lhs {
							lid, ok := l.(*ast.Ident)
							if !ok || (p.TypesInfo.Defs[lid] != obj && p.TypesInfo.Uses[lid] != obj) {
								continue
							}
							nDefs++
							if i < len(as.Rhs) {
								if rc, ok := as.Rhs[i].(*ast.CallExpr); ok {
									if rf := Callee(p, rc); rf != nil && rf.Name() == "NewVM" {
										fresh = true
									}
								}
							}
						}
						return true
					})
					if nDefs != 1 {
						fresh = false
					}
				}
				c.check(fresh, "ABORT.4/Compiled."+fd.Name.Name+"/"+fn.Name(), call, "VM made by NewVM in the same call (an abort cannot leak into a later run)", "VM."+fn.Name()+" is invoked on a VM that is not freshly made by NewVM in this call")
				return true
			})
		}
	}
	// ABORT.3: in the ctx.Done arm, Abort() precedes the receive
	var doneClause *ast.CommClause
	ast.Inspect(&ast.BlockStmt{List: ri.After}, func(nd ast.Node) bool {
		cc, ok := nd.(*ast.CommClause)
		if !ok || cc.Comm == nil {
			return true
		}
		if containsNode(cc.Comm, func(m ast.Node) bool {
			call, ok := m.(*ast.CallExpr)
			if !ok {
				return false
			}
			fn := Callee(p, call)
			return fn != nil && fn.Name() == "Done" && fn.Pkg() != nil && fn.Pkg().Path() == "context"
		}) {
			doneClause = cc
		}
		return true
	})
	if doneClause == nil {
		c.fail("ABORT.3/done-arm", ri.Go, "no select arm waits on ctx.Done(): cancellation is not observed")
		return
	}
	abortIdx, recvIdx := -1, -1
	for i, s := range doneClause.Body {
		if es, ok := s.(*ast.ExprStmt); ok {
			if call, ok := es.X.(*ast.CallExpr); ok {
				if fn := Callee(p, call); isMethodOf(fn, p.Types, "VM", "Abort") && abortIdx < 0 {
					abortIdx = i
				}
			}
		}
		if isRecvFrom(w, s, ri.Ch) && recvIdx < 0 {
			recvIdx = i
		}
	}
	c.check(abortIdx >= 0 && recvIdx > abortIdx, "ABORT.3/abort-then-drain", doneClause, "on ctx.Done: Abort(), then wait for the goroutine", "the ctx.Done arm must call Abort() and then receive from the result channel (abort-then-drain)")
	// returns ctx.Err()
	retErr := containsNode(doneClause, func(m ast.Node) bool {
		call, ok := m.(*ast.CallExpr)
		if !ok {
			return false
		}
		fn := Callee(p, call)
		return fn != nil && fn.Name() == "Err" && fn.Pkg() != nil && fn.Pkg().Path() == "context"
	})
	c.check(retErr, "ABORT.3/returns-ctx-err", doneClause, "result is ctx.Err()", "the ctx.Done arm does not report ctx.Err()")
}

// FRESHVM: every run of a Compiled uses a VM made by NewVM in the same call,
// so no VM state (abort flag, error, stack, frames) survives from one run to
// the next.
func ruleFRESHVM(c *Ctx) { ruleFRESHVMbody(c, "FRESHVM") }

func ruleFRESHVMbody(c *Ctx, prefix string) {
	w := c.W
	p := w.Root
	ci := w.compiled()
	if ci == nil {
		c.anchor("Compiled")
		return
	}
	n := 0
	for _, fd := range ci.Methods {
		ast.Inspect(fd.Body, func(nd ast.Node) bool {
			call, ok := nd.(*ast.CallExpr)
			if !ok {
				return true
			}
			fn := Callee(p, call)
			if !isMethodOf(fn, p.Types, "VM", "Run") && !isMethodOf(fn, p.Types, "VM", "Abort") {
				return true
			}
			n++
			se := call.Fun.(*ast.SelectorExpr)
			id, ok := ast.Unparen(se.X).(*ast.Ident)
			fresh := false
			if ok {
				obj := p.TypesInfo.Uses[id]
				nDefs := 0
				ast.Inspect(fd.Body, func(m ast.Node) bool {
					as, ok := m.(*ast.AssignStmt)
					if !ok {
						return true
					}
					for i, l := range as.Lhs {
						lid, ok := l.(*ast.Ident)
						if !ok || (p.TypesInfo.Defs[lid] != obj && p.TypesInfo.Uses[lid] != obj) {
							continue
						}
						nDefs++
						if i < len(as.Rhs) {
							if rc, ok := as.Rhs[i].(*ast.CallExpr); ok {
								if rf := Callee(p, rc); rf != nil && rf.Name() == "NewVM" {
									fresh = true
								}
							}
						}
					}
					return true
				})
				if nDefs != 1 {
					fresh = false
				}
			}
			c.check(fresh, prefix+"/Compiled."+fd.Name.Name+"/"+fn.Name(), call, "VM made by NewVM in the same call (no VM state - abort flag, error, stack - survives into a later run)", "VM."+fn.Name()+" is invoked on a VM that is not freshly made by NewVM in this call: state of an earlier run (a late abort, a stored error) leaks into later runs of the same compiled object")
			return true
		})
	}
	// no VM is kept in a field of Compiled
	if st, ok := p.Types.Scope().Lookup("Compiled").Type().Underlying().(*types.Struct); ok {
		for i := 0; i < st.NumFields(); i++ {
			if tn, _ := namedName(st.Field(i).Type()); tn == "VM" {
				c.fail(prefix+"/Compiled-holds-VM/"+st.Field(i).Name(), nil, "Compiled keeps a VM in field "+st.Field(i).Name()+": VM state outlives a run")
			}
		}
	}
	if n < 3 {
		c.fail(prefix+"/count", nil, "expected Run and Abort calls in the run methods")
	}
}
