package main

// codec.go: G-CODEC — the compiler's encoder, the generic codec, the opcode
// tables and the hand-written decoding inside every VM arm agree.

import (
	"fmt"
	"go/ast"
	"go/token"
	"go/types"
	"sort"
	"strings"

	"golang.org/x/tools/go/packages"
)

// ---------------------------------------------------------------- arm analysis

type byteRead struct {
	Off   int // offset relative to the opcode byte
	Shift int
	Group int
	Node  ast.Node
}

type armExit struct {
	Kind string // fall | return | continue
	D    int
	Top  bool
	Node ast.Node
}

type ipAssign struct {
	Node *ast.AssignStmt
	RHS  ast.Expr
}

type ArmAnalysis struct {
	Op        string
	Reads     []byteRead
	Exits     []armExit
	IPAssigns []ipAssign
	Undecided []string
	// group -> defining variable object (pos := <group>)
	GroupVar map[int]types.Object
	nextGrp  int
}

type dstate struct {
	d   int
	top bool
}

func uniqStates(s []dstate) []dstate {
	seen := map[dstate]bool{}
	var out []dstate
	for _, x := range s {
		if x.top {
			x.d = 0
		}
		if !seen[x] {
			seen[x] = true
			out = append(out, x)
		}
	}
	return out
}

type armWalker struct {
	w  *World
	p  *packages.Package
	vi *VMInfo
	a  *ArmAnalysis
	// base-relative mode (updateConstIndexes): index variable plays the role of ip
	baseVar types.Object
	insVar  types.Object
}

func (aw *armWalker) isIPExpr(e ast.Expr) bool {
	if aw.baseVar != nil {
		id, ok := ast.Unparen(e).(*ast.Ident)
		return ok && aw.p.TypesInfo.Uses[id] == aw.baseVar
	}
	f, _ := FieldSel(aw.p, e)
	return f != nil && f == aw.vi.IP
}

func (aw *armWalker) isInstsExpr(e ast.Expr) bool {
	if aw.insVar != nil {
		id, ok := ast.Unparen(e).(*ast.Ident)
		return ok && aw.p.TypesInfo.Uses[id] == aw.insVar
	}
	f, _ := FieldSel(aw.p, e)
	return f != nil && f == aw.vi.Insts
}

// affine: e == ip + k ?
func (aw *armWalker) affine(e ast.Expr) (int, bool) {
	e = ast.Unparen(e)
	if aw.isIPExpr(e) {
		return 0, true
	}
	if b, ok := e.(*ast.BinaryExpr); ok && (b.Op == token.ADD || b.Op == token.SUB) {
		if aw.isIPExpr(b.X) {
			if k, ok := ConstInt(aw.p, b.Y); ok {
				if b.Op == token.SUB {
					k = -k
				}
				return int(k), true
			}
		}
		if b.Op == token.ADD && aw.isIPExpr(b.Y) {
			if k, ok := ConstInt(aw.p, b.X); ok {
				return int(k), true
			}
		}
	}
	return 0, false
}

func flattenOr(e ast.Expr) []ast.Expr {
	e = ast.Unparen(e)
	if b, ok := e.(*ast.BinaryExpr); ok && b.Op == token.OR {
		return append(flattenOr(b.X), flattenOr(b.Y)...)
	}
	return []ast.Expr{e}
}

// term: is e  conv*( insts[ip±k] ) [<< c]  ?
func (aw *armWalker) term(e ast.Expr) (k int, shift int, node ast.Node, ok bool) {
	e = ast.Unparen(e)
	if b, isB := e.(*ast.BinaryExpr); isB && b.Op == token.SHL {
		s, okc := ConstInt(aw.p, b.Y)
		if !okc {
			return 0, 0, nil, false
		}
		k, sh, n, ok2 := aw.term(b.X)
		if !ok2 || sh != 0 {
			return 0, 0, nil, false
		}
		return k, int(s), n, true
	}
	// strip conversions
	for {
		c, isC := e.(*ast.CallExpr)
		if !isC || len(c.Args) != 1 {
			break
		}
		if tv, has := aw.p.TypesInfo.Types[c.Fun]; !has || !tv.IsType() {
			break
		}
		e = ast.Unparen(c.Args[0])
	}
	ix, isIx := e.(*ast.IndexExpr)
	if !isIx || !aw.isInstsExpr(ix.X) {
		return 0, 0, nil, false
	}
	kk, okA := aw.affine(ix.Index)
	if !okA {
		aw.a.Undecided = append(aw.a.Undecided, "instruction byte read with a non-affine index: "+aw.w.Src(ix))
		return 0, 0, nil, false
	}
	return kk, 0, ix, true
}

// scanExpr records every instruction-byte read inside e under states st.
// It returns the group id if e as a whole is one decode group (for `x := group`).
func (aw *armWalker) scanExpr(e ast.Expr, st []dstate) int {
	if e == nil {
		return -1
	}
	type tr struct {
		k, sh int
		n     ast.Node
	}
	// a decode helper: f(insts, ip±k) whose body is `return <bytes of its
	// first parameter at offsets of its second, shifted and or-ed>` is read
	// as that expression at the caller's offset
	if call, isCall := ast.Unparen(e).(*ast.CallExpr); isCall && len(call.Args) == 2 && aw.baseVar == nil {
		if hd := gHelpers[call]; hd != nil && hd.Body != nil && len(hd.Body.List) == 1 && hd.Recv == nil {
			ret, isRet := hd.Body.List[0].(*ast.ReturnStmt)
			var params []types.Object
			for _, f := range hd.Type.Params.List {
				for _, nm := range f.Names {
					params = append(params, aw.p.TypesInfo.Defs[nm])
				}
			}
			if isRet && len(ret.Results) == 1 && len(params) == 2 {
				for ai := 0; ai < 2; ai++ {
					if !aw.isInstsExpr(call.Args[ai]) {
						continue
					}
					k0, okA := aw.affine(call.Args[1-ai])
					if !okA {
						continue
					}
					sub := &armWalker{w: aw.w, p: aw.p, vi: aw.vi, a: &ArmAnalysis{GroupVar: map[int]types.Object{}}, insVar: params[ai], baseVar: params[1-ai]}
					var trs []tr
					good := true
					for _, t := range flattenOr(ret.Results[0]) {
						k, sh, _, ok := sub.term(t)
						if !ok {
							good = false
							break
						}
						trs = append(trs, tr{k0 + k, sh, call})
					}
					if !good || len(trs) == 0 {
						continue
					}
					grp := aw.a.nextGrp
					aw.a.nextGrp++
					for _, s := range st {
						if s.top {
							aw.a.Undecided = append(aw.a.Undecided, "instruction byte read after the instruction pointer was reassigned: "+aw.w.Src(e))
							continue
						}
						for _, t := range trs {
							aw.a.Reads = append(aw.a.Reads, byteRead{Off: s.d + t.k, Shift: t.sh, Group: grp, Node: t.n})
						}
					}
					return grp
				}
			}
		}
	}
	terms := flattenOr(e)
	any := false
	var trs []tr
	var rest []ast.Expr
	for _, t := range terms {
		if k, sh, n, ok := aw.term(t); ok {
			any = true
			trs = append(trs, tr{k, sh, n})
		} else {
			rest = append(rest, t)
		}
	}
	grp := -1
	if any {
		grp = aw.a.nextGrp
		aw.a.nextGrp++
		for _, s := range st {
			if s.top {
				aw.a.Undecided = append(aw.a.Undecided, "instruction byte read after the instruction pointer was reassigned: "+aw.w.Src(e))
				continue
			}
			for _, t := range trs {
				aw.a.Reads = append(aw.a.Reads, byteRead{Off: s.d + t.k, Shift: t.sh, Group: grp, Node: t.n})
			}
		}
		if len(rest) > 0 {
			aw.a.Undecided = append(aw.a.Undecided, "operand bytes combined with a foreign term: "+aw.w.Src(e))
		}
	}
	for _, r := range rest {
		if len(terms) == 1 {
			// not an OR expression: recurse into children
			aw.scanChildren(r, st)
		} else {
			aw.scanExpr(r, st)
		}
	}
	if any && len(rest) == 0 {
		return grp
	}
	return -1
}

func (aw *armWalker) scanChildren(e ast.Expr, st []dstate) {
	if _, isFL := e.(*ast.FuncLit); isFL {
		aw.a.Undecided = append(aw.a.Undecided, "function literal inside VM arm")
		return
	}
	ast.Inspect(e, func(n ast.Node) bool {
		if n == e || n == nil {
			return true
		}
		if sub, ok := n.(ast.Expr); ok {
			aw.scanExpr(sub, st)
			return false
		}
		return true
	})
}

func (aw *armWalker) hasIPWrite(n ast.Node) bool {
	found := false
	ast.Inspect(n, func(m ast.Node) bool {
		switch s := m.(type) {
		case *ast.AssignStmt:
			for _, l := range s.Lhs {
				if aw.isIPExpr(l) {
					found = true
				}
			}
		case *ast.IncDecStmt:
			if aw.isIPExpr(s.X) {
				found = true
			}
		}
		return true
	})
	return found
}

func (aw *armWalker) stmts(list []ast.Stmt, st []dstate) []dstate {
	for _, s := range list {
		st = aw.stmt(s, st)
	}
	return st
}

func (aw *armWalker) stmt(s ast.Stmt, st []dstate) []dstate {
	if len(st) == 0 {
		return st // unreachable
	}
	switch x := s.(type) {
	case *ast.ExprStmt:
		aw.scanExpr(x.X, st)
		return st
	case *ast.DeclStmt:
		if gd, ok := x.Decl.(*ast.GenDecl); ok {
			for _, sp := range gd.Specs {
				if vs, ok := sp.(*ast.ValueSpec); ok {
					for i, v := range vs.Values {
						g := aw.scanExpr(v, st)
						if g >= 0 && i < len(vs.Names) {
							aw.a.GroupVar[g] = aw.p.TypesInfo.Defs[vs.Names[i]]
						}
					}
				}
			}
		}
		return st
	case *ast.IncDecStmt:
		if aw.isIPExpr(x.X) {
			delta := 1
			if x.Tok == token.DEC {
				delta = -1
			}
			var out []dstate
			for _, s := range st {
				if !s.top {
					s.d += delta
				}
				out = append(out, s)
			}
			return uniqStates(out)
		}
		aw.scanExpr(x.X, st)
		return st
	case *ast.AssignStmt:
		for i, r := range x.Rhs {
			g := aw.scanExpr(r, st)
			if g >= 0 && len(x.Lhs) == len(x.Rhs) {
				if id, ok := x.Lhs[i].(*ast.Ident); ok {
					if o := aw.p.TypesInfo.Defs[id]; o != nil {
						aw.a.GroupVar[g] = o
					} else if o := aw.p.TypesInfo.Uses[id]; o != nil {
						aw.a.GroupVar[g] = o
					}
				}
			}
		}
		ipLHS := -1
		for i, l := range x.Lhs {
			if aw.isIPExpr(l) {
				ipLHS = i
			} else {
				aw.scanExpr(l, st)
			}
		}
		if ipLHS < 0 {
			return st
		}
		if len(x.Lhs) != 1 {
			aw.a.Undecided = append(aw.a.Undecided, "instruction pointer assigned in a tuple assignment")
			return []dstate{{top: true}}
		}
		switch x.Tok {
		case token.ADD_ASSIGN, token.SUB_ASSIGN:
			k, ok := ConstInt(aw.p, x.Rhs[0])
			if !ok {
				aw.a.Undecided = append(aw.a.Undecided, "instruction pointer advanced by a non-constant: "+aw.w.Src(x))
				return []dstate{{top: true}}
			}
			if x.Tok == token.SUB_ASSIGN {
				k = -k
			}
			var out []dstate
			for _, s := range st {
				if !s.top {
					s.d += int(k)
				}
				out = append(out, s)
			}
			return uniqStates(out)
		case token.ASSIGN:
			aw.a.IPAssigns = append(aw.a.IPAssigns, ipAssign{Node: x, RHS: x.Rhs[0]})
			return []dstate{{top: true}}
		default:
			aw.a.Undecided = append(aw.a.Undecided, "unsupported assignment to the instruction pointer: "+aw.w.Src(x))
			return []dstate{{top: true}}
		}
	case *ast.BlockStmt:
		return aw.stmts(x.List, st)
	case *ast.IfStmt:
		if x.Init != nil {
			st = aw.stmt(x.Init, st)
		}
		aw.scanExpr(x.Cond, st)
		out := aw.stmts(x.Body.List, st)
		if x.Else != nil {
			out = append(out, aw.stmt(x.Else, st)...)
		} else {
			out = append(out, st...)
		}
		return uniqStates(out)
	case *ast.SwitchStmt:
		if x.Init != nil {
			st = aw.stmt(x.Init, st)
		}
		if x.Tag != nil {
			aw.scanExpr(x.Tag, st)
		}
		return aw.clauses(x.Body, st)
	case *ast.TypeSwitchStmt:
		if x.Init != nil {
			st = aw.stmt(x.Init, st)
		}
		switch a := x.Assign.(type) {
		case *ast.AssignStmt:
			for _, r := range a.Rhs {
				aw.scanExpr(r, st)
			}
		case *ast.ExprStmt:
			aw.scanExpr(a.X, st)
		}
		return aw.clauses(x.Body, st)
	case *ast.ForStmt:
		if aw.hasIPWrite(x) {
			aw.a.Undecided = append(aw.a.Undecided, "instruction pointer written inside a nested loop")
		}
		if x.Init != nil {
			aw.stmt(x.Init, st)
		}
		if x.Cond != nil {
			aw.scanExpr(x.Cond, st)
		}
		aw.loopBody(x.Body, st)
		if x.Post != nil {
			aw.stmt(x.Post, st)
		}
		return st
	case *ast.RangeStmt:
		if aw.hasIPWrite(x) {
			aw.a.Undecided = append(aw.a.Undecided, "instruction pointer written inside a nested loop")
		}
		aw.scanExpr(x.X, st)
		aw.loopBody(x.Body, st)
		return st
	case *ast.ReturnStmt:
		for _, r := range x.Results {
			aw.scanExpr(r, st)
		}
		for _, s := range st {
			aw.a.Exits = append(aw.a.Exits, armExit{Kind: "return", D: s.d, Top: s.top, Node: x})
		}
		return nil
	case *ast.BranchStmt:
		if x.Tok == token.CONTINUE && x.Label == nil {
			for _, s := range st {
				aw.a.Exits = append(aw.a.Exits, armExit{Kind: "continue", D: s.d, Top: s.top, Node: x})
			}
			return nil
		}
		aw.a.Undecided = append(aw.a.Undecided, "unsupported branch statement in VM arm: "+aw.w.Src(x))
		return nil
	case *ast.EmptyStmt:
		return st
	default:
		aw.a.Undecided = append(aw.a.Undecided, fmt.Sprintf("unsupported statement kind %T in VM arm", s))
		return st
	}
}

// loopBody: a nested loop body; `continue`/`break` there target the nested loop.
func (aw *armWalker) loopBody(b *ast.BlockStmt, st []dstate) {
	saved := aw.a.Exits
	var walk func(list []ast.Stmt)
	walk = func(list []ast.Stmt) {
		sub := &armWalker{w: aw.w, p: aw.p, vi: aw.vi, a: aw.a, baseVar: aw.baseVar, insVar: aw.insVar}
		// replace inner continue/break handling: strip them before walking
		var filtered []ast.Stmt
		for _, s := range list {
			if br, ok := s.(*ast.BranchStmt); ok && br.Label == nil && (br.Tok == token.CONTINUE || br.Tok == token.BREAK) {
				continue
			}
			filtered = append(filtered, s)
		}
		sub.stmts(filtered, st)
	}
	walk(b.List)
	// exits recorded inside the loop body that are `continue` of the inner loop
	// were filtered only at the top level; nested ones are conservatively kept
	// (a `continue` nested deeper inside an inner loop is reported as undecided).
	for _, e := range aw.a.Exits[len(saved):] {
		if e.Kind == "continue" {
			aw.a.Undecided = append(aw.a.Undecided, "continue nested inside an inner loop of a VM arm")
		}
	}
}

func (aw *armWalker) clauses(body *ast.BlockStmt, st []dstate) []dstate {
	var out []dstate
	hasDefault := false
	for _, c := range body.List {
		cc := c.(*ast.CaseClause)
		if cc.List == nil {
			hasDefault = true
		}
		for _, e := range cc.List {
			aw.scanExpr(e, st)
		}
		out = append(out, aw.stmts(cc.Body, st)...)
	}
	if !hasDefault {
		out = append(out, st...)
	}
	return uniqStates(out)
}

var armCache = map[string]*ArmAnalysis{}

func (w *World) analyseArm(op string) *ArmAnalysis {
	if a, ok := armCache[op]; ok {
		return a
	}
	vi := w.vm()
	a := &ArmAnalysis{Op: op, GroupVar: map[int]types.Object{}}
	armCache[op] = a
	cc := vi.Arms[op]
	if cc == nil {
		a.Undecided = append(a.Undecided, "no arm")
		return a
	}
	aw := &armWalker{w: w, p: w.Root, vi: vi, a: a}
	out := aw.stmts(cc.Body, []dstate{{d: 0}})
	for _, s := range out {
		a.Exits = append(a.Exits, armExit{Kind: "fall", D: s.d, Top: s.top, Node: cc})
	}
	return a
}

// operandAt returns (index, start, width) of the operand containing offset off.
func operandAt(widths []int, off int) (int, int, int, bool) {
	s := 1
	for i, w := range widths {
		if off >= s && off < s+w {
			return i, s, w, true
		}
		s += w
	}
	return 0, 0, 0, false
}

// checkGroups validates the decode groups of an analysis against the operand
// layout; returns per-operand "decoded" flags and the lookahead offsets.
func checkGroups(a *ArmAnalysis, widths []int) (decoded []bool, lookahead []int, groupOperand map[int]int, problems []string) {
	decoded = make([]bool, len(widths))
	groupOperand = map[int]int{}
	total := 0
	for _, w := range widths {
		total += w
	}
	byGroup := map[int][]byteRead{}
	var order []int
	for _, r := range a.Reads {
		if _, ok := byGroup[r.Group]; !ok {
			order = append(order, r.Group)
		}
		byGroup[r.Group] = append(byGroup[r.Group], r)
	}
	for _, g := range order {
		rs := byGroup[g]
		sort.Slice(rs, func(i, j int) bool { return rs[i].Off < rs[j].Off })
		if rs[0].Off > total {
			// lookahead read of a following instruction
			if len(rs) != 1 || rs[0].Shift != 0 {
				problems = append(problems, fmt.Sprintf("look-ahead read beyond the operands must be a single unshifted byte (offsets %v)", offs(rs)))
			}
			lookahead = append(lookahead, rs[0].Off)
			continue
		}
		if rs[0].Off < 1 {
			problems = append(problems, fmt.Sprintf("read at offset %d is not an operand byte (operands occupy 1..%d)", rs[0].Off, total))
			continue
		}
		idx, s, w, ok := operandAt(widths, rs[0].Off)
		if !ok {
			problems = append(problems, fmt.Sprintf("read at offset %d outside operands", rs[0].Off))
			continue
		}
		if len(rs) != w || rs[0].Off != s {
			problems = append(problems, fmt.Sprintf("operand %d (bytes %d..%d) decoded from bytes %v", idx, s, s+w-1, offs(rs)))
			continue
		}
		good := true
		for j, r := range rs {
			if r.Off != s+j {
				good = false
				problems = append(problems, fmt.Sprintf("operand %d (bytes %d..%d) decoded from bytes %v", idx, s, s+w-1, offs(rs)))
				break
			}
			want := 8 * (s + w - 1 - r.Off)
			if r.Shift != want {
				good = false
				problems = append(problems, fmt.Sprintf("operand %d: byte at offset %d is shifted by %d, the encoder wrote it at shift %d", idx, r.Off, r.Shift, want))
			}
		}
		if good {
			decoded[idx] = true
			groupOperand[g] = idx
		}
	}
	return
}

func offs(rs []byteRead) []int {
	var o []int
	for _, r := range rs {
		o = append(o, r.Off)
	}
	return o
}

// ---------------------------------------------------------------- rules

func ruleCODEC1(c *Ctx) {
	w := c.W
	oi := w.opcodes()
	if oi.err != "" {
		c.anchor(oi.err)
		return
	}
	vi := w.vm()
	if vi.err != "" {
		c.anchor(vi.err)
		return
	}
	for i, n := range oi.Names {
		key := "opcode/" + n
		var probs []string
		if oi.Val[n] != int64(i) {
			probs = append(probs, fmt.Sprintf("value %d is not dense (expected %d): tables are indexed by opcode", oi.Val[n], i))
		}
		if !oi.HasName[n] {
			probs = append(probs, "no entry in OpcodeNames")
		}
		if _, ok := oi.Widths[n]; !ok {
			probs = append(probs, "no entry in OpcodeOperands")
		}
		if vi.Arms[n] == nil {
			probs = append(probs, "no arm in the VM dispatch switch")
		}
		for _, wd := range oi.Widths[n] {
			if wd != 1 && wd != 2 && wd != 4 {
				probs = append(probs, fmt.Sprintf("operand width %d has no arm in the generic codec", wd))
			}
		}
		var site ast.Node = oi.Decl
		if vi.Arms[n] != nil {
			site = vi.Arms[n]
		}
		c.check(len(probs) == 0, key, site, "constant, both tables and VM arm present", strings.Join(probs, "; "))
	}
	for n := range oi.Widths {
		if _, ok := oi.Val[n]; !ok {
			c.fail("table/OpcodeOperands/"+n, nil, "entry for a name that is not an opcode constant")
		}
	}
	for _, d := range vi.Dup {
		c.fail("vm/dup/"+d, vi.Arms[d], "opcode handled by two arms")
	}
	for _, d := range vi.NonConst {
		c.fail("vm/nonconst/"+d, vi.Switch, "case label is not an opcode constant")
	}
	// default arm is an error arm
	okDefault := false
	if vi.Default != nil {
		setsErr, returns := false, false
		ast.Inspect(vi.Default, func(n ast.Node) bool {
			switch x := n.(type) {
			case *ast.AssignStmt:
				for _, l := range x.Lhs {
					if f, _ := FieldSel(w.Root, l); f != nil && types.Implements(f.Type(), errorIface()) {
						setsErr = true
					}
				}
			case *ast.ReturnStmt:
				returns = true
			}
			return true
		})
		okDefault = setsErr && returns
	}
	c.check(okDefault, "vm/default", vi.Switch, "default arm stores an error and returns", "dispatch switch has no default arm that stores an error and returns (an unknown opcode would be skipped silently)")
	// loop head: recv.ip++ immediately followed by the switch
	okHead := false
	if len(vi.Loop.Body.List) == 2 {
		if inc, ok := vi.Loop.Body.List[0].(*ast.IncDecStmt); ok && inc.Tok == token.INC {
			if f, _ := FieldSel(w.Root, inc.X); f == vi.IP && vi.Loop.Body.List[1] == ast.Stmt(vi.Switch) {
				okHead = true
			}
		}
	}
	c.check(okHead, "vm/loophead", vi.Loop, "loop body is `ip++; switch insts[ip]`", "dispatch loop body is not `ip++` followed by the dispatch switch (operand offsets are computed relative to that shape)")
}

func errorIface() *types.Interface {
	return types.Universe.Lookup("error").Type().Underlying().(*types.Interface)
}

// emitSites collects calls of Compiler.emit and MakeInstruction in the root package.
type emitSite struct {
	Call   *ast.CallExpr
	Fn     *ast.FuncDecl
	Kind   string // emit | make
	OpExpr ast.Expr
	Args   []ast.Expr // operand expressions
	Spread bool
	Ops    []string // possible opcodes
}

func (w *World) emitSites() []emitSite {
	p := w.Root
	oi := w.opcodes()
	var out []emitSite
	w.AllFuncDecls(p, func(fd *ast.FuncDecl) {
		inspectWithStack(fd.Body, func(n ast.Node, stack []ast.Node) bool {
			call, ok := n.(*ast.CallExpr)
			if !ok {
				return true
			}
			fn := Callee(p, call)
			if fn == nil || fn.Pkg() != p.Types {
				return true
			}
			var es emitSite
			switch {
			case isMethodOf(fn, p.Types, "Compiler", "emit"):
				if len(call.Args) < 2 {
					return true
				}
				es = emitSite{Call: call, Fn: fd, Kind: "emit", OpExpr: call.Args[1], Args: call.Args[2:]}
			case fn.Name() == "MakeInstruction" && fn.Type().(*types.Signature).Recv() == nil:
				if len(call.Args) < 1 {
					return true
				}
				es = emitSite{Call: call, Fn: fd, Kind: "make", OpExpr: call.Args[0], Args: call.Args[1:]}
			default:
				return true
			}
			es.Spread = call.Ellipsis.IsValid()
			if cobj := ConstObj(p, es.OpExpr); cobj != nil {
				if _, ok := oi.Val[cobj.Name()]; ok {
					es.Ops = []string{cobj.Name()}
				}
			} else if id, ok := ast.Unparen(es.OpExpr).(*ast.Ident); ok {
				// opcode held in a variable: resolve through the innermost enclosing
				// `switch <same variable> { case A, B: … }`
				obj := p.TypesInfo.Uses[id]
				for i := len(stack) - 1; i > 0 && es.Ops == nil; i-- {
					// `if v == OpA || v == OpB { … }` / `if isJumpOpcode(v) { … }`
					if is, isIf := stack[i].(*ast.IfStmt); isIf && i+1 < len(stack) && stack[i+1] == ast.Node(is.Body) {
						if subj, ops, ok := w.opcodeSetOfCond(p, is.Cond); ok && subj == obj {
							for _, name := range oi.Names {
								if ops[name] {
									es.Ops = append(es.Ops, name)
								}
							}
						}
						continue
					}
					cc, ok := stack[i].(*ast.CaseClause)
					if !ok || cc.List == nil || i < 2 {
						continue
					}
					sw, ok := stack[i-2].(*ast.SwitchStmt)
					if !ok || sw.Tag == nil {
						continue
					}
					tid, ok := ast.Unparen(sw.Tag).(*ast.Ident)
					if !ok || p.TypesInfo.Uses[tid] != obj {
						continue
					}
					for _, e := range cc.List {
						if cobj := ConstObj(p, e); cobj != nil {
							es.Ops = append(es.Ops, cobj.Name())
						}
					}
				}
			}
			if es.Ops == nil {
				es.Ops = opcodeValuesOf(w, p, fd, es.OpExpr)
			}
			out = append(out, es)
			return true
		})
	})
	return out
}

// opcodeValuesOf: e is a local variable every assignment of which is an opcode
// constant (`op := OpOrJump; if and { op = OpAndJump }`): the constants.
func opcodeValuesOf(w *World, p pkgT, fd *ast.FuncDecl, e ast.Expr) []string {
	id, ok := ast.Unparen(e).(*ast.Ident)
	if !ok {
		return nil
	}
	obj, ok := p.TypesInfo.ObjectOf(id).(*types.Var)
	if !ok || obj.IsField() {
		return nil
	}
	if _, isParam := paramIndex(p, fd, obj); isParam {
		return nil
	}
	oi := w.opcodes()
	set := map[string]bool{}
	good := true
	n := 0
	ast.Inspect(fd.Body, func(nd ast.Node) bool {
		switch x := nd.(type) {
		case *ast.AssignStmt:
			for i, l := range x.Lhs {
				lid, ok := l.(*ast.Ident)
				if !ok || p.TypesInfo.ObjectOf(lid) != types.Object(obj) {
					continue
				}
				n++
				if len(x.Lhs) != len(x.Rhs) {
					good = false
					continue
				}
				co := ConstObj(p, x.Rhs[i])
				if co == nil {
					good = false
					continue
				}
				if _, isOp := oi.Val[co.Name()]; !isOp {
					good = false
					continue
				}
				set[co.Name()] = true
			}
		case *ast.ValueSpec:
			for i, nm := range x.Names {
				if p.TypesInfo.Defs[nm] == types.Object(obj) {
					n++
					if i < len(x.Values) {
						if co := ConstObj(p, x.Values[i]); co != nil {
							if _, isOp := oi.Val[co.Name()]; isOp {
								set[co.Name()] = true
								continue
							}
						}
					}
					good = false
				}
			}
		}
		return true
	})
	if !good || n == 0 || len(set) == 0 {
		return nil
	}
	var out []string
	for _, name := range oi.Names {
		if set[name] {
			out = append(out, name)
		}
	}
	return out
}

func ruleCODEC2(c *Ctx) {
	w := c.W
	oi := w.opcodes()
	if oi.err != "" {
		c.anchor(oi.err)
		return
	}
	seq := map[string]int{}
	for _, es := range w.emitSites() {
		base := fmt.Sprintf("%s/%s/%s", funcName(es.Fn), es.Kind, strings.Join(es.Ops, "|"))
		seq[base]++
		key := fmt.Sprintf("%s#%d", base, seq[base])
		if es.Ops == nil {
			// generic pass-through: opcode and operands both come from the decoder
			if es.Spread {
				c.ok(key+"/passthrough", es.Call, "opcode and operand list forwarded unchanged")
			} else {
				c.undecided(key, es.Call, "opcode is not a constant and not determined by an enclosing switch: "+w.Src(es.Call))
			}
			continue
		}
		if es.Spread {
			c.ok(key+"/spread", es.Call, "operand list forwarded from the caller (checked at the callers)")
			continue
		}
		good := true
		var msg []string
		for _, op := range es.Ops {
			if len(es.Args) != len(oi.Widths[op]) {
				good = false
				msg = append(msg, fmt.Sprintf("%s takes %d operand(s) %v but %d passed", op, len(oi.Widths[op]), oi.Widths[op], len(es.Args)))
			}
		}
		c.check(good, key, es.Call, fmt.Sprintf("%d operand(s)", len(es.Args)), strings.Join(msg, "; ")+": "+w.Src(es.Call))
	}
}

func ruleCODEC3(c *Ctx) {
	w := c.W
	oi := w.opcodes()
	vi := w.vm()
	if oi.err != "" || vi.err != "" {
		c.anchor(oi.err + vi.err)
		return
	}
	for _, op := range oi.Names {
		cc := vi.Arms[op]
		if cc == nil {
			continue // CODEC.1 reports it
		}
		a := w.analyseArm(op)
		widths := oi.Widths[op]
		W := oi.Total(op)
		key := "arm/" + op
		var probs []string
		probs = append(probs, a.Undecided...)
		decoded, look, _, gp := checkGroups(a, widths)
		probs = append(probs, gp...)
		for i, d := range decoded {
			if !d {
				probs = append(probs, fmt.Sprintf("operand %d (width %d) is never decoded by the arm", i, widths[i]))
			}
		}
		if len(look) > 0 && op != "OpCall" {
			probs = append(probs, fmt.Sprintf("arm reads bytes of a following instruction (offsets %v)", look))
		}
		for _, e := range a.Exits {
			if e.Kind == "return" || e.Top {
				continue
			}
			if e.D != W {
				probs = append(probs, fmt.Sprintf("a path leaves the arm (%s) with the instruction pointer %d byte(s) past the opcode; the operands occupy %d", e.Kind, e.D, W))
			}
		}
		c.check(len(probs) == 0, key, cc, fmt.Sprintf("operands %v decoded as encoded; ip advances by %d on every fall-through path", widths, W), strings.Join(dedupStrings(probs), "; "))
	}
	// generic codec: MakeInstruction and ReadOperands are big-endian inverses
	ruleGenericCodec(c)
}

func dedupStrings(s []string) []string {
	seen := map[string]bool{}
	var out []string
	for _, x := range s {
		if !seen[x] {
			seen[x] = true
			out = append(out, x)
		}
	}
	return out
}

// ruleGenericCodec: for each width arm of MakeInstruction / ReadOperands the
// byte at offset+j carries bits 8*(w-1-j).
func ruleGenericCodec(c *Ctx) {
	w := c.W
	mk := w.FuncDecl(w.Root, "MakeInstruction")
	rd := w.FuncDecl(w.Parser, "ReadOperands")
	if mk == nil || rd == nil {
		c.anchor("MakeInstruction / parser.ReadOperands")
		return
	}
	// MakeInstruction
	for _, spec := range []struct {
		fd  *ast.FuncDecl
		p   *packages.Package
		enc bool
	}{{mk, w.Root, true}, {rd, w.Parser, false}} {
		found := map[int]bool{}
		ast.Inspect(spec.fd.Body, func(n ast.Node) bool {
			sw, ok := n.(*ast.SwitchStmt)
			if !ok || sw.Tag == nil {
				return true
			}
			for _, s := range sw.Body.List {
				cc := s.(*ast.CaseClause)
				if len(cc.List) != 1 {
					continue
				}
				wd, ok := ConstInt(spec.p, cc.List[0])
				if !ok {
					continue
				}
				shifts := map[int]int{}
				bad := ""
				if spec.enc {
					// instruction[offset+j] = byte(n >> k) | byte(n) | byte(o)
					for _, st := range cc.Body {
						// binary.BigEndian.PutUintN(instruction[offset+j:], uintN(o))
						if es, ok := st.(*ast.ExprStmt); ok {
							if call, ok := es.X.(*ast.CallExpr); ok && len(call.Args) == 2 {
								if f := Callee(spec.p, call); f != nil && f.Pkg() != nil && f.Pkg().Path() == "encoding/binary" {
									nb := map[string]int{"PutUint16": 2, "PutUint32": 4, "PutUint64": 8}[f.Name()]
									recv := ""
									if sig, ok := f.Type().(*types.Signature); ok && sig.Recv() != nil {
										recv = sig.Recv().Type().String()
									}
									sl, isSl := ast.Unparen(call.Args[0]).(*ast.SliceExpr)
									if nb == 0 || !isSl || sl.Low == nil {
										bad = "unexpected store: " + w.Src(st)
										continue
									}
									j, okj := offsetPlus(spec.p, sl.Low)
									if !okj {
										bad = "slice not from offset+const: " + w.Src(sl)
										continue
									}
									val := ast.Unparen(call.Args[1])
									for {
										cv, ok := val.(*ast.CallExpr)
										if !ok || len(cv.Args) != 1 || !spec.p.TypesInfo.Types[cv.Fun].IsType() {
											break
										}
										val = ast.Unparen(cv.Args[0])
									}
									if _, isBin := val.(*ast.BinaryExpr); isBin {
										bad = "the value written is not the operand itself: " + w.Src(call.Args[1])
									}
									for i := 0; i < nb; i++ {
										switch {
										case strings.HasSuffix(recv, "bigEndian"):
											shifts[j+i] = 8 * (nb - 1 - i)
										case strings.HasSuffix(recv, "littleEndian"):
											shifts[j+i] = 8 * i
										default:
											bad = "byte order of " + w.Src(call.Fun) + " not known"
										}
									}
									continue
								}
							}
						}
						as, ok := st.(*ast.AssignStmt)
						if !ok || len(as.Lhs) != 1 {
							continue
						}
						ix, ok := as.Lhs[0].(*ast.IndexExpr)
						if !ok {
							continue
						}
						j, okj := offsetPlus(spec.p, ix.Index)
						if !okj {
							bad = "index not offset+const: " + w.Src(ix)
							continue
						}
						rhs := ast.Unparen(as.Rhs[0])
						call, ok := rhs.(*ast.CallExpr)
						if !ok || len(call.Args) != 1 {
							bad = "unexpected store: " + w.Src(as)
							continue
						}
						arg := ast.Unparen(call.Args[0])
						k := 0
						if b, ok := arg.(*ast.BinaryExpr); ok && b.Op == token.SHR {
							kk, okk := ConstInt(spec.p, b.Y)
							if !okk {
								bad = "non-constant shift"
							}
							k = int(kk)
						}
						shifts[j] = k
					}
				} else {
					// operands = append(operands, int(ins[offset+j])<<k | ...)
					aw := &armWalker{w: w, p: spec.p, a: &ArmAnalysis{GroupVar: map[int]types.Object{}}}
					// find the `offset` and `ins` objects: the parameters/results of ReadOperands
					for _, fl := range []*ast.FieldList{spec.fd.Type.Params, spec.fd.Type.Results} {
						if fl == nil {
							continue
						}
						for _, f := range fl.List {
							for _, nm := range f.Names {
								o := spec.p.TypesInfo.Defs[nm]
								if sl, ok := o.Type().Underlying().(*types.Slice); ok {
									if b, ok := sl.Elem().Underlying().(*types.Basic); ok && b.Kind() == types.Uint8 {
										aw.insVar = o
									}
								} else if b, ok := o.Type().Underlying().(*types.Basic); ok && b.Kind() == types.Int {
									aw.baseVar = o
								}
							}
						}
					}
					if aw.insVar == nil || aw.baseVar == nil {
						bad = "cannot identify the byte slice and offset variables"
					} else {
						for _, st := range cc.Body {
							ast.Inspect(st, func(m ast.Node) bool {
								if e, ok := m.(ast.Expr); ok {
									if _, isCall := e.(*ast.CallExpr); !isCall {
										aw.scanExpr(e, []dstate{{d: 0}})
										return false
									}
								}
								return true
							})
						}
						for _, r := range aw.a.Reads {
							shifts[r.Off] = r.Shift
						}
						if len(aw.a.Undecided) > 0 {
							bad = strings.Join(aw.a.Undecided, "; ")
						}
					}
				}
				key := fmt.Sprintf("generic/%s/width%d", spec.fd.Name.Name, wd)
				var probs []string
				if bad != "" {
					probs = append(probs, bad)
				}
				for j := 0; j < int(wd); j++ {
					k, ok := shifts[j]
					if !ok {
						probs = append(probs, fmt.Sprintf("byte %d of a %d-byte operand is not handled", j, wd))
						continue
					}
					if k != 8*(int(wd)-1-j) {
						probs = append(probs, fmt.Sprintf("byte %d carries bits >>%d, big-endian layout needs >>%d", j, k, 8*(int(wd)-1-j)))
					}
				}
				if len(shifts) != int(wd) {
					probs = append(probs, fmt.Sprintf("%d byte positions handled for width %d", len(shifts), wd))
				}
				found[int(wd)] = true
				c.check(len(probs) == 0, key, cc, "big-endian, all bytes", strings.Join(probs, "; "))
			}
			return true
		})
		// the decoder written as one big-endian loop over the operand's bytes
		// (`for _, b := range ins[off : off+width] { v = v<<8 | T(b) }`): right
		// for every width as long as the accumulator is wide enough
		if len(found) == 0 && spec.fd.Name.Name == "ReadOperands" {
			var acc types.Object
			var loopAt ast.Node
			ast.Inspect(spec.fd.Body, func(n ast.Node) bool {
				rs, ok := n.(*ast.RangeStmt)
				if !ok || len(rs.Body.List) != 1 {
					return true
				}
				as, ok := rs.Body.List[0].(*ast.AssignStmt)
				if !ok || len(as.Lhs) != 1 || len(as.Rhs) != 1 {
					return true
				}
				id, ok := as.Lhs[0].(*ast.Ident)
				if !ok {
					return true
				}
				b, ok := ast.Unparen(as.Rhs[0]).(*ast.BinaryExpr)
				if !ok || b.Op != token.OR {
					return true
				}
				sh, ok := ast.Unparen(b.X).(*ast.BinaryExpr)
				if !ok || sh.Op != token.SHL || w.Src(sh.X) != id.Name {
					return true
				}
				if k, ok := ConstInt(spec.p, sh.Y); !ok || k != 8 {
					return true
				}
				acc, loopAt = spec.p.TypesInfo.ObjectOf(id), rs
				return true
			})
			if acc == nil {
				// the same, from the last byte up: `for j := off+width-1; j >= off; j--
				// { v |= T(ins[j]) << sh; sh += 8 }` with sh starting at zero
				ast.Inspect(spec.fd.Body, func(n ast.Node) bool {
					fs, ok := n.(*ast.ForStmt)
					if !ok || fs.Init == nil || fs.Cond == nil || fs.Post == nil || len(fs.Body.List) != 2 {
						return true
					}
					init, ok := fs.Init.(*ast.AssignStmt)
					if !ok || init.Tok != token.DEFINE || len(init.Lhs) != 1 {
						return true
					}
					jv := spec.p.TypesInfo.ObjectOf(init.Lhs[0].(*ast.Ident))
					post, ok := fs.Post.(*ast.IncDecStmt)
					if !ok || post.Tok != token.DEC || spec.p.TypesInfo.ObjectOf(identOf(post.X)) != jv {
						return true
					}
					cond, ok := ast.Unparen(fs.Cond).(*ast.BinaryExpr)
					if !ok || cond.Op != token.GEQ || spec.p.TypesInfo.ObjectOf(identOf(cond.X)) != jv {
						return true
					}
					lowID := identOf(cond.Y)
					if lowID == nil {
						return true
					}
					// the start is low + width - 1
					start := w.Src(init.Rhs[0])
					var widthVar string
					for _, fl := range spec.fd.Body.List {
						if rs, ok := fl.(*ast.RangeStmt); ok && rs.Value != nil {
							widthVar = w.Src(rs.Value)
						}
					}
					startOK := false
					for _, form := range []string{"%s + %s - 1", "%s - 1 + %s"} {
						if start == fmt.Sprintf(form, lowID.Name, widthVar) || start == fmt.Sprintf(form, widthVar, lowID.Name) {
							startOK = true
						}
					}
					if !startOK {
						return true
					}
					var accID, shID *ast.Ident
					for _, st := range fs.Body.List {
						as, ok := st.(*ast.AssignStmt)
						if !ok || len(as.Lhs) != 1 || len(as.Rhs) != 1 {
							return true
						}
						id := identOf(as.Lhs[0])
						if id == nil {
							return true
						}
						switch as.Tok {
						case token.OR_ASSIGN:
							sh, ok := ast.Unparen(as.Rhs[0]).(*ast.BinaryExpr)
							if !ok || sh.Op != token.SHL {
								return true
							}
							// T(ins[j])
							x := ast.Unparen(sh.X)
							if cv, ok := x.(*ast.CallExpr); ok && len(cv.Args) == 1 && spec.p.TypesInfo.Types[cv.Fun].IsType() {
								x = ast.Unparen(cv.Args[0])
							}
							ix, ok := x.(*ast.IndexExpr)
							if !ok || spec.p.TypesInfo.ObjectOf(identOf(ix.Index)) != jv {
								return true
							}
							accID, shID = id, identOf(sh.Y)
						case token.ADD_ASSIGN:
							if k, ok := ConstInt(spec.p, as.Rhs[0]); !ok || k != 8 {
								return true
							}
							if shID != nil && spec.p.TypesInfo.ObjectOf(shID) != spec.p.TypesInfo.ObjectOf(id) {
								return true
							}
							if shID == nil {
								shID = id
							}
						default:
							return true
						}
					}
					if accID == nil || shID == nil {
						return true
					}
					// the shift count starts at zero and only this loop moves it
					shObj := spec.p.TypesInfo.ObjectOf(shID)
					zero, writes := false, 0
					ast.Inspect(spec.fd.Body, func(m ast.Node) bool {
						switch x := m.(type) {
						case *ast.AssignStmt:
							for i, l := range x.Lhs {
								if id := identOf(l); id != nil && spec.p.TypesInfo.ObjectOf(id) == shObj {
									writes++
									if x.Tok == token.DEFINE || x.Tok == token.ASSIGN {
										if len(x.Rhs) == len(x.Lhs) {
											r := ast.Unparen(x.Rhs[i])
											if cv, ok := r.(*ast.CallExpr); ok && len(cv.Args) == 1 && spec.p.TypesInfo.Types[cv.Fun].IsType() {
												r = cv.Args[0]
											}
											if k, ok := ConstInt(spec.p, r); ok && k == 0 {
												zero = true
											}
										}
									}
								}
							}
						case *ast.ValueSpec:
							for _, nm := range x.Names {
								if spec.p.TypesInfo.ObjectOf(nm) == shObj && len(x.Values) == 0 {
									zero = true
									writes++
								}
							}
						case *ast.IncDecStmt:
							if id := identOf(x.X); id != nil && spec.p.TypesInfo.ObjectOf(id) == shObj {
								writes += 2
							}
						}
						return true
					})
					// both start from zero for every operand: set in the statements
					// just before the loop, in its own block
					accObj := spec.p.TypesInfo.ObjectOf(accID)
					zeroed := map[types.Object]bool{}
					ast.Inspect(spec.fd.Body, func(m ast.Node) bool {
						var list []ast.Stmt
						switch x := m.(type) {
						case *ast.BlockStmt:
							list = x.List
						case *ast.CaseClause:
							list = x.Body
						}
						for i, st := range list {
							if st != ast.Stmt(fs) {
								continue
							}
							for _, prev := range list[:i] {
								switch x := prev.(type) {
								case *ast.AssignStmt:
									if len(x.Lhs) != len(x.Rhs) || (x.Tok != token.DEFINE && x.Tok != token.ASSIGN) {
										continue
									}
									for k, l := range x.Lhs {
										r := ast.Unparen(x.Rhs[k])
										if cv, ok := r.(*ast.CallExpr); ok && len(cv.Args) == 1 && spec.p.TypesInfo.Types[cv.Fun].IsType() {
											r = cv.Args[0]
										}
										if v, ok := ConstInt(spec.p, r); ok && v == 0 && identOf(l) != nil {
											zeroed[spec.p.TypesInfo.ObjectOf(identOf(l))] = true
										}
									}
								case *ast.DeclStmt:
									if gd, ok := x.Decl.(*ast.GenDecl); ok {
										for _, sp := range gd.Specs {
											if vs, ok := sp.(*ast.ValueSpec); ok && len(vs.Values) == 0 {
												for _, nm := range vs.Names {
													zeroed[spec.p.TypesInfo.ObjectOf(nm)] = true
												}
											}
										}
									}
								}
							}
						}
						return true
					})
					if zero && writes == 2 && zeroed[shObj] && zeroed[accObj] {
						acc, loopAt = accObj, fs
					}
					return true
				})
			}
			if acc != nil {
				bits := 0
				if bt, ok := acc.Type().Underlying().(*types.Basic); ok {
					switch bt.Kind() {
					case types.Int, types.Uint, types.Int64, types.Uint64, types.Uintptr:
						bits = 64
					case types.Int32, types.Uint32:
						bits = 32
					case types.Int16, types.Uint16:
						bits = 16
					case types.Int8, types.Uint8:
						bits = 8
					}
				}
				for _, wd := range []int{1, 2, 4} {
					found[wd] = true
					c.check(bits >= 8*wd && !(bits == 32 && wd == 4 && strings.HasPrefix(acc.Type().String(), "int")), fmt.Sprintf("generic/%s/width%d", spec.fd.Name.Name, wd), loopAt,
						"big-endian loop into an accumulator wide enough", fmt.Sprintf("the big-endian loop accumulates into a %s: a %d-byte operand loses its high bytes (the optimizer then sees other jump targets than the VM)", acc.Type(), wd))
				}
			}
		}
		for _, wd := range []int{1, 2, 4} {
			if !found[wd] {
				c.fail(fmt.Sprintf("generic/%s/width%d", spec.fd.Name.Name, wd), spec.fd, "no arm for this operand width")
			}
		}
	}
}

func offsetPlus(p *packages.Package, e ast.Expr) (int, bool) {
	e = ast.Unparen(e)
	if _, ok := e.(*ast.Ident); ok {
		return 0, true
	}
	if b, ok := e.(*ast.BinaryExpr); ok && b.Op == token.ADD {
		if _, ok := ast.Unparen(b.X).(*ast.Ident); ok {
			if k, ok := ConstInt(p, b.Y); ok {
				return int(k), true
			}
		}
	}
	return 0, false
}

// vmClasses derives opcode classes from the VM arms.
func (w *World) vmClasses() (jump, constIdx, noFall map[string]bool) {
	oi := w.opcodes()
	vi := w.vm()
	jump, constIdx, noFall = map[string]bool{}, map[string]bool{}, map[string]bool{}
	constField := structFieldOfRecv(w, vi, "constants")
	for _, op := range oi.Names {
		cc := vi.Arms[op]
		if cc == nil {
			continue
		}
		a := w.analyseArm(op)
		_, _, gop, _ := checkGroups(a, oi.Widths[op])
		// jump: ip assigned from a variable defined by an operand decode group
		for _, ia := range a.IPAssigns {
			ast.Inspect(ia.RHS, func(n ast.Node) bool {
				if id, ok := n.(*ast.Ident); ok {
					o := w.Root.TypesInfo.Uses[id]
					for g, v := range a.GroupVar {
						if v == o {
							if _, isOperand := gop[g]; isOperand {
								jump[op] = true
							}
						}
					}
				}
				return true
			})
		}
		// const index: arm indexes the constant pool
		ast.Inspect(cc, func(n ast.Node) bool {
			if ix, ok := n.(*ast.IndexExpr); ok {
				if f, _ := FieldSel(w.Root, ix.X); f != nil && f == constField {
					constIdx[op] = true
				}
			}
			return true
		})
		falls := false
		for _, e := range a.Exits {
			if (e.Kind == "fall" || e.Kind == "continue") && !e.Top {
				falls = true
			}
		}
		if !falls {
			noFall[op] = true
		}
	}
	return
}

func structFieldOfRecv(w *World, vi *VMInfo, name string) *types.Var {
	if vi.Recv == nil {
		return nil
	}
	tn, pk := namedName(vi.Recv.Type())
	if pk == nil {
		return nil
	}
	return structField(pk, tn, name)
}

func opsOfCase(p *packages.Package, cc *ast.CaseClause) map[string]bool {
	s := map[string]bool{}
	for _, e := range cc.List {
		if c := ConstObj(p, e); c != nil {
			s[c.Name()] = true
		}
	}
	return s
}

func setStr(m map[string]bool) string {
	var k []string
	for x := range m {
		k = append(k, x)
	}
	sort.Strings(k)
	return "{" + strings.Join(k, ",") + "}"
}

func sameSet(a, b map[string]bool) bool {
	return len(setDiff(a, b)) == 0 && len(setDiff(b, a)) == 0
}

func ruleCODEC5(c *Ctx) {
	w := c.W
	oi := w.opcodes()
	vi := w.vm()
	if oi.err != "" || vi.err != "" {
		c.anchor(oi.err + vi.err)
		return
	}
	p := w.Root
	jump, constIdx, noFall := w.vmClasses()
	c.check(len(jump) >= 1, "vm/jump-class", vi.Switch, "VM jump opcodes: "+setStr(jump), "no VM arm assigns the instruction pointer from a decoded operand")
	// every jump arm: ip = <decoded> - 1 (the loop pre-increments)
	for _, op := range sortedKeys(jump) {
		a := w.analyseArm(op)
		for i, ia := range a.IPAssigns {
			b, ok := ast.Unparen(ia.RHS).(*ast.BinaryExpr)
			good := false
			if ok && b.Op == token.SUB {
				if k, okc := ConstInt(p, b.Y); okc && k == 1 {
					if id, ok := ast.Unparen(b.X).(*ast.Ident); ok {
						o := p.TypesInfo.Uses[id]
						for _, v := range a.GroupVar {
							if v == o {
								good = true
							}
						}
					}
				}
			}
			c.check(good, fmt.Sprintf("vm/jump-target/%s#%d", op, i+1), ia.Node, "ip = target-1 (loop pre-increments)", "jump arm must set ip to <decoded target> - 1 because the dispatch loop pre-increments: "+w.Src(ia.Node))
		}
	}
	opt := w.FuncDecl(p, "Compiler.optimizeFunc")
	if opt == nil {
		c.anchor("Compiler.optimizeFunc")
	} else {
		n := 0
		ast.Inspect(opt.Body, func(nd ast.Node) bool {
			sw, ok := nd.(*ast.SwitchStmt)
			if !ok {
				return true
			}
			if sw.Tag != nil {
				for _, s := range sw.Body.List {
					cc := s.(*ast.CaseClause)
					ops := opsOfCase(p, cc)
					if len(ops) == 0 {
						continue
					}
					n++
					c.check(sameSet(ops, jump), fmt.Sprintf("optimizer/jump-set#%d", n), cc,
						"optimizer pass treats exactly the VM's jump opcodes as jumps",
						fmt.Sprintf("optimizer treats %s as jumps, the VM jumps on %s", setStr(ops), setStr(jump)))
				}
				return true
			}
			// tagless switch: `case opcode == parser.OpX:` dead-code triggers
			for _, s := range sw.Body.List {
				cc := s.(*ast.CaseClause)
				for _, e := range cc.List {
					ast.Inspect(e, func(en ast.Node) bool {
						b, ok := en.(*ast.BinaryExpr)
						if !ok || b.Op != token.EQL {
							return true
						}
						var cobj *types.Const
						if cobj = ConstObj(p, b.Y); cobj == nil {
							cobj = ConstObj(p, b.X)
						}
						if cobj == nil {
							return true
						}
						if _, isOp := oi.Val[cobj.Name()]; !isOp {
							return true
						}
						c.check(noFall[cobj.Name()], "optimizer/dead-trigger/"+cobj.Name(), cc,
							"dead-code trigger never falls through in the VM",
							fmt.Sprintf("optimizer starts dead code after %s, but the VM arm of %s has a fall-through path; never-fall-through opcodes: %s", cobj.Name(), cobj.Name(), setStr(noFall)))
						return true
					})
				}
			}
			return true
		})
		// the same dispatch written as `if opcode == A || opcode == B || …` or `if isJumpOpcode(opcode)`
		ast.Inspect(opt.Body, func(nd ast.Node) bool {
			is, ok := nd.(*ast.IfStmt)
			if !ok {
				return true
			}
			_, ops, ok := w.opcodeSetOfCond(p, is.Cond)
			if !ok || len(ops) < 2 {
				return true
			}
			n++
			c.check(sameSet(ops, jump), fmt.Sprintf("optimizer/jump-set#%d", n), is,
				"optimizer pass treats exactly the VM's jump opcodes as jumps",
				fmt.Sprintf("optimizer treats %s as jumps, the VM jumps on %s", setStr(ops), setStr(jump)))
			return true
		})
		if n < 2 {
			c.fail("optimizer/jump-set/count", opt, fmt.Sprintf("expected the jump-destination pass and the re-targeting pass to switch on jump opcodes; found %d", n))
		}
		// `lastOp != OpX` => appendReturn: X must never fall through
		ast.Inspect(opt.Body, func(nd ast.Node) bool {
			is, ok := nd.(*ast.IfStmt)
			if !ok {
				return true
			}
			b, ok := ast.Unparen(is.Cond).(*ast.BinaryExpr)
			if !ok || b.Op != token.NEQ {
				return true
			}
			cobj := ConstObj(p, b.Y)
			if cobj == nil {
				return true
			}
			if _, isOp := oi.Val[cobj.Name()]; !isOp {
				return true
			}
			c.check(noFall[cobj.Name()], "optimizer/terminator/"+cobj.Name(), is,
				"a function may end without an appended return only after an opcode that never falls through",
				"function end is considered terminated by "+cobj.Name()+" which can fall through")
			return true
		})
	}
	upd := w.FuncDecl(p, "updateConstIndexes")
	if upd == nil {
		c.anchor("updateConstIndexes")
		return
	}
	var usw *ast.SwitchStmt
	ast.Inspect(upd.Body, func(nd ast.Node) bool {
		if sw, ok := nd.(*ast.SwitchStmt); ok && sw.Tag != nil && usw == nil {
			usw = sw
		}
		return true
	})
	if usw == nil {
		c.anchor("updateConstIndexes switch")
		return
	}
	got := map[string]bool{}
	for _, s := range usw.Body.List {
		cc := s.(*ast.CaseClause)
		for k := range opsOfCase(p, cc) {
			got[k] = true
		}
	}
	c.check(sameSet(got, constIdx), "dedup/const-set", usw,
		"index rewriting covers exactly the opcodes through which the VM reads the constant pool: "+setStr(constIdx),
		fmt.Sprintf("updateConstIndexes rewrites %s, the VM indexes constants in %s", setStr(got), setStr(constIdx)))
	// decoding inside updateConstIndexes agrees with the layout
	ruleUpdateConstDecode(c, upd, usw)
}

// ruleUpdateConstDecode: inside each arm of updateConstIndexes, reads
// insts[i+k] decode whole operands with the encoder's shifts, the const index
// is operand 0, and operands other than the const index are passed through
// unchanged in their own position.
func ruleUpdateConstDecode(c *Ctx, upd *ast.FuncDecl, sw *ast.SwitchStmt) {
	w := c.W
	p := w.Root
	oi := w.opcodes()
	var insVar, baseVar types.Object
	for _, f := range upd.Type.Params.List {
		for _, nm := range f.Names {
			o := p.TypesInfo.Defs[nm]
			if sl, ok := o.Type().Underlying().(*types.Slice); ok {
				if b, ok := sl.Elem().Underlying().(*types.Basic); ok && b.Kind() == types.Uint8 {
					insVar = o
				}
			}
		}
	}
	// base var: the variable used in switch-tag definition `op := insts[i]`
	ast.Inspect(upd.Body, func(n ast.Node) bool {
		if ix, ok := n.(*ast.IndexExpr); ok && baseVar == nil {
			if id, ok := ast.Unparen(ix.X).(*ast.Ident); ok && p.TypesInfo.Uses[id] == insVar {
				if iid, ok := ast.Unparen(ix.Index).(*ast.Ident); ok {
					baseVar = p.TypesInfo.Uses[iid]
				}
			}
		}
		return true
	})
	if insVar == nil || baseVar == nil {
		c.anchor("updateConstIndexes instruction slice / cursor")
		return
	}
	for _, s := range sw.Body.List {
		cc := s.(*ast.CaseClause)
		for op := range opsOfCase(p, cc) {
			a := &ArmAnalysis{Op: op, GroupVar: map[int]types.Object{}}
			aw := &armWalker{w: w, p: p, a: a, insVar: insVar, baseVar: baseVar}
			aw.stmts(cc.Body, []dstate{{d: 0}})
			widths := oi.Widths[op]
			decoded, look, gop, probs := checkGroups(a, widths)
			probs = append(probs, a.Undecided...)
			if len(look) > 0 {
				probs = append(probs, "reads beyond the instruction")
			}
			for i, d := range decoded {
				if !d {
					probs = append(probs, fmt.Sprintf("operand %d not decoded (it would be rewritten with a stale value)", i))
				}
			}
			// the MakeInstruction call passes, in position j, either the remapped
			// index (j == 0) or the variable decoded from operand j
			ast.Inspect(cc, func(n ast.Node) bool {
				call, ok := n.(*ast.CallExpr)
				if !ok {
					return true
				}
				fn := Callee(p, call)
				if fn == nil || fn.Name() != "MakeInstruction" {
					return true
				}
				for j, arg := range call.Args[1:] {
					id, ok := ast.Unparen(arg).(*ast.Ident)
					if !ok {
						probs = append(probs, "operand expression is not a variable: "+w.Src(arg))
						continue
					}
					o := p.TypesInfo.Uses[id]
					if j == 0 {
						// must not be a decoded (old) value
						for g, v := range a.GroupVar {
							if v == o {
								probs = append(probs, fmt.Sprintf("operand 0 is rewritten with the old index (decode group %d)", g))
							}
						}
						continue
					}
					found := false
					for g, v := range a.GroupVar {
						if v == o && gop[g] == j {
							found = true
						}
					}
					if !found {
						probs = append(probs, fmt.Sprintf("operand %d of the rewritten %s is not the value decoded from operand %d", j, op, j))
					}
				}
				return true
			})
			c.check(len(probs) == 0, "dedup/decode/"+op, cc, "operands decoded per layout and re-encoded in place", strings.Join(dedupStrings(probs), "; "))
		}
	}
}

// ---------------------------------------------------------------- CODEC.4

// guardLimit: among the dominating guards of a node, one of the form
// `<expr text> > K` (K constant) that returns an error; returns K.
func (w *World) guardLimit(p *packages.Package, stack []ast.Node, exprText string) (int64, bool) {
	for _, g := range precedingGuards(stack) {
		b, ok := gtExpr(g.Cond)
		if !ok || (b.Op != token.GTR && b.Op != token.GEQ) {
			continue
		}
		if strings.ReplaceAll(w.Src(b.X), " ", "") != strings.ReplaceAll(exprText, " ", "") {
			continue
		}
		k, ok := ConstInt(p, b.Y)
		if !ok {
			continue
		}
		if b.Op == token.GEQ {
			k--
		}
		return k, true
	}
	return 0, false
}

func ruleCODEC4(c *Ctx) {
	w := c.W
	p := w.Root
	oi := w.opcodes()
	if oi.err != "" {
		c.anchor(oi.err)
		return
	}
	constOf := func(name string) (int64, bool) {
		if co, ok := p.Types.Scope().Lookup(name).(*types.Const); ok {
			return ConstIntOf(co)
		}
		return 0, false
	}
	// class-level guards (not local to the emit site)
	classGuard := map[string]func() (bool, string){
		"local-index": func() (bool, string) {
			// every place that fixes a function's NumLocals compares it with a constant <= 256
			n, good := 0, 0
			for _, fn := range []string{"Compiler.Compile", "Compiler.compileModule"} {
				fd := w.FuncDecl(p, fn)
				if fd == nil {
					continue
				}
				inspectWithStack(fd.Body, func(nd ast.Node, stack []ast.Node) bool {
					call, ok := nd.(*ast.CallExpr)
					if !ok || !isMethodOf(Callee(p, call), p.Types, "SymbolTable", "MaxSymbols") {
						return true
					}
					// the value is assigned to some expression E; a later guard `E > K` must exist in the same list
					var target string
					for i := len(stack) - 1; i >= 0; i-- {
						if as, ok := stack[i].(*ast.AssignStmt); ok && len(as.Lhs) == 1 {
							target = w.Src(as.Lhs[0])
							break
						}
					}
					if target == "" {
						return true
					}
					// does the value become a function's NumLocals? (it is the
					// field itself, or the value of a NumLocals key / the right
					// side of an assignment to the field)
					isNumLocals := func(e ast.Expr) bool {
						if f, _ := FieldSel(p, e); f != nil {
							return f.Name() == "NumLocals"
						}
						if id, ok := e.(*ast.Ident); ok {
							if v, ok := p.TypesInfo.ObjectOf(id).(*types.Var); ok && v.IsField() {
								return v.Name() == "NumLocals"
							}
						}
						return false
					}
					fixes := strings.HasSuffix(target, ".NumLocals")
					ast.Inspect(fd.Body, func(m ast.Node) bool {
						switch y := m.(type) {
						case *ast.KeyValueExpr:
							if k, ok := y.Key.(ast.Expr); ok && isNumLocals(k) && w.Src(y.Value) == target {
								fixes = true
							}
						case *ast.AssignStmt:
							if len(y.Lhs) == 1 && len(y.Rhs) == 1 && isNumLocals(y.Lhs[0]) && w.Src(y.Rhs[0]) == target {
								fixes = true
							}
						}
						return true
					})
					if !fixes {
						return true
					}
					n++
					found := false
					ast.Inspect(fd.Body, func(m ast.Node) bool {
						is, ok := m.(*ast.IfStmt)
						if !ok || !terminates(is.Body) {
							return true
						}
						b, ok := gtExpr(is.Cond)
						if !ok || b.Op != token.GTR || w.Src(b.X) != target {
							return true
						}
						if k, ok := ConstInt(p, b.Y); ok && k <= 256 && is.Pos() > call.Pos() {
							found = true
						}
						return true
					})
					if found {
						good++
					}
					return true
				})
			}
			return n >= 2 && n == good, fmt.Sprintf("%d of %d functions that fix NumLocals reject more than 256 locals", good, n)
		},
		"global-index": func() (bool, string) {
			// the whole-file arm of Compile rejects more globals than the VM
			// has slots: a terminating `if` comparing the root table's symbol
			// count (greater side) with GlobalsSize, itself within two bytes
			k, ok := constOf("GlobalsSize")
			if !ok || k > 1<<16 {
				return false, "GlobalsSize is not a constant that fits the two-byte operand"
			}
			comp := w.FuncDecl(p, "Compiler.Compile")
			if comp == nil {
				return false, "Compiler.Compile not found"
			}
			found := containsNode(comp.Body, func(nd ast.Node) bool {
				is, isIf := nd.(*ast.IfStmt)
				if !isIf || !terminates(is.Body) {
					return false
				}
				// a conjunction: the comparison is one of its conjuncts
				for _, conj := range splitAnd(is.Cond) {
					b, okb := gtExpr(conj)
					if !okb || (b.Op != token.GTR && b.Op != token.GEQ) {
						continue
					}
					// the largest accepted count is at most the number of slots
					lim, okl := ConstInt(p, b.Y)
					if b.Op == token.GEQ {
						lim--
					}
					if !okl || lim > k {
						continue
					}
					// the greater side is a MaxSymbols() value (directly or via the if's init)
					isMax := func(e ast.Node) bool {
						return containsNode(e, func(m ast.Node) bool {
							call, ok := m.(*ast.CallExpr)
							return ok && isMethodOf(Callee(p, call), p.Types, "SymbolTable", "MaxSymbols")
						})
					}
					if isMax(b.X) || (is.Init != nil && isMax(is.Init)) {
						return true
					}
				}
				return false
			})
			return found, fmt.Sprintf("the whole-file arm of Compile rejects more than GlobalsSize=%d global variables, the number of slots a VM has", k)
		},
		"builtin-index": func() (bool, string) {
			lit := w.pkgVarLit(p, "builtinFuncs")
			if lit == nil {
				return false, "builtinFuncs not found"
			}
			return len(lit.Elts) <= 256, fmt.Sprintf("%d builtin functions", len(lit.Elts))
		},
		"const-index": func() (bool, string) {
			comp := w.FuncDecl(p, "Compiler.Compile")
			if comp == nil {
				return false, "Compiler.Compile not found"
			}
			ok := containsNode(comp.Body, func(nd ast.Node) bool {
				is, isIf := nd.(*ast.IfStmt)
				if !isIf || !terminates(is.Body) {
					return false
				}
				// the pool size (numConstants() / len(….constants), possibly via a
				// variable defined in the if's init) compared as the greater side
				s := w.Src(is.Cond) + w.Src(is.Init)
				if !(strings.Contains(s, "numConstants()") || strings.Contains(s, ".constants)")) {
					return false
				}
				b, okb := gtExpr(is.Cond)
				return okb && (b.Op == token.GTR || b.Op == token.GEQ)
			})
			return ok, "the whole-file arm of Compile rejects constant pools that do not fit two bytes"
		},
		"element-count": func() (bool, string) {
			k, ok := constOf("StackSize")
			return ok && k <= 1<<16-1, fmt.Sprintf("the elements are on the operand stack, whose StackSize=%d is below 65536: a larger literal fails at run time before the count could be truncated", k)
		},
	}
	localOps := map[string]string{}
	for _, op := range oi.Names {
		switch {
		case strings.HasSuffix(op, "Local") || op == "OpGetLocalPtr":
			localOps[op] = "local-index"
		case strings.Contains(op, "Free"):
			localOps[op] = "free-index"
		case strings.HasSuffix(op, "Global"):
			localOps[op] = "global-index"
		case op == "OpGetBuiltin":
			localOps[op] = "builtin-index"
		}
	}
	classCache := map[string][2]string{}
	seq := seqKeys{}
	for _, es := range w.emitSites() {
		if es.Kind != "emit" || len(es.Ops) != 1 || es.Spread {
			continue
		}
		op := es.Ops[0]
		widths := oi.Widths[op]
		var stack []ast.Node
		inspectWithStack(es.Fn, func(n ast.Node, st []ast.Node) bool {
			if n == ast.Node(es.Call) {
				stack = append([]ast.Node{}, st...)
			}
			return true
		})
		for i, a := range es.Args {
			if i >= len(widths) || widths[i] >= 4 {
				continue
			}
			max := int64(1)<<(8*uint(widths[i])) - 1
			key := seq.next(fmt.Sprintf("operand/%s/%s[%d]", w.ctxKey(es.Call.Pos()), op, i))
			if k, ok := ConstInt(p, a); ok {
				c.check(k >= 0 && k <= max, key, es.Call, fmt.Sprintf("constant %d fits %d byte(s)", k, widths[i]), fmt.Sprintf("constant operand %d does not fit %d byte(s)", k, widths[i]))
				continue
			}
			src := strings.ReplaceAll(w.Src(a), " ", "")
			// the tag of an enclosing switch, inside a clause that lists constants:
			// the operand is one of the listed values
			{
				bare := w.Src(stripConv(p, a))
				done := false
				for si := len(stack) - 1; si >= 2 && !done; si-- {
					cc, ok := stack[si].(*ast.CaseClause)
					if !ok || cc.List == nil {
						continue
					}
					sw, ok := stack[si-2].(*ast.SwitchStmt)
					if !ok || sw.Tag == nil || w.Src(sw.Tag) != bare {
						continue
					}
					fits := true
					for _, e := range cc.List {
						if k, ok := ConstInt(p, e); !ok || k < 0 || k > max {
							fits = false
						}
					}
					if fits {
						c.ok(key, es.Call, "the switch tag inside a clause whose listed constants all fit")
						done = true
					}
				}
				if done {
					continue
				}
			}
			// a local flag assigned only constants
			if id, ok := ast.Unparen(a).(*ast.Ident); ok {
				obj := p.TypesInfo.Uses[id]
				all, any := true, false
				ast.Inspect(es.Fn, func(n ast.Node) bool {
					as, ok := n.(*ast.AssignStmt)
					if !ok {
						return true
					}
					for j, l := range as.Lhs {
						if lid, ok := l.(*ast.Ident); ok && (p.TypesInfo.Defs[lid] == obj || p.TypesInfo.Uses[lid] == obj) && j < len(as.Rhs) {
							any = true
							if k, ok := ConstInt(p, as.Rhs[j]); !ok || k < 0 || k > max {
								all = false
							}
						}
					}
					return true
				})
				if any && all {
					c.ok(key, es.Call, "variable assigned only small constants")
					continue
				}
			}
			class := ""
			switch {
			case strings.HasSuffix(src, ".Index") && func() bool {
				f, _ := FieldSel(p, a)
				return f != nil && f.Name() == "Index"
			}():
				class = localOps[op]
			case func() bool {
				// the operand is, as a whole, one call of Compiler.addConstant
				call, ok := ast.Unparen(a).(*ast.CallExpr)
				return ok && isMethodOf(Callee(p, call), p.Types, "Compiler", "addConstant")
			}():
				class = "const-index"
			}
			if class == "free-index" {
				// a free index is below the capture count, which the closure site bounds
				class = "free-count-site"
			}
			if class != "" && class != "free-count-site" {
				r, ok := classCache[class]
				if !ok {
					good, why := classGuard[class]()
					r = [2]string{fmt.Sprint(good), why}
					classCache[class] = r
				}
				c.check(r[0] == "true", key, es.Call, class+": "+r[1], fmt.Sprintf("%d-byte operand %s of %s (%s) is not bounded: %s - MakeInstruction truncates silently, so an over-large value aliases another slot", widths[i], src, op, class, r[1]))
				continue
			}
			if class == "free-count-site" {
				// the capture list of every function literal is bounded where the closure is emitted
				fd := w.FuncDecl(p, "Compiler.Compile")
				good := fd != nil && containsNode(fd.Body, func(nd ast.Node) bool {
					is, ok := nd.(*ast.IfStmt)
					if !ok || !terminates(is.Body) {
						return false
					}
					b, ok := gtExpr(is.Cond)
					if !ok || b.Op != token.GTR || !strings.HasPrefix(w.Src(b.X), "len(freeSymbols") {
						return false
					}
					k, ok := ConstInt(p, b.Y)
					return ok && k <= 255
				})
				c.check(good, key, es.Call, "free-index: below the capture count, which the function-literal arm limits to 255", "free variable index is a 1-byte operand but the number of captured variables is not limited")
				continue
			}
			// site-local guard on the same expression
			if k, ok := w.guardLimit(p, stack, w.Src(a)); ok {
				c.check(k <= max, key, es.Call, fmt.Sprintf("dominated by `%s > %d` returning an error", src, k), fmt.Sprintf("guard admits values up to %d but the operand has %d byte(s)", k, widths[i]))
				continue
			}
			c.fail(key, es.Call, fmt.Sprintf("%d-byte operand %s of %s is neither a fitting constant nor dominated by a comparison that bounds it: MakeInstruction truncates silently", widths[i], src, op))
		}
	}
}

// splitAnd returns the conjuncts of a && b && … (the expression itself otherwise).
func splitAnd(e ast.Expr) []ast.Expr {
	if b, ok := ast.Unparen(e).(*ast.BinaryExpr); ok && b.Op == token.LAND {
		return append(splitAnd(b.X), splitAnd(b.Y)...)
	}
	return []ast.Expr{e}
}

// opcodeSetOfCond: cond is true for exactly a set of opcodes held in one
// variable: `v == OpA || v == OpB …`, or a call pred(v) of a function of the
// module with one Opcode parameter and a bool result whose body, evaluated for
// every opcode constant (execFor on its parameter), returns a constant.
func (w *World) opcodeSetOfCond(p pkgT, cond ast.Expr) (types.Object, map[string]bool, bool) {
	oi := w.opcodes()
	cond = ast.Unparen(cond)
	if call, ok := cond.(*ast.CallExpr); ok && len(call.Args) == 1 {
		fn := Callee(p, call)
		id, isId := ast.Unparen(call.Args[0]).(*ast.Ident)
		if fn == nil || !isId || !w.inModulePkg(fn.Pkg()) {
			return nil, nil, false
		}
		var fd *ast.FuncDecl
		for _, pk := range w.All {
			if pk.Types == fn.Pkg() {
				fd = w.FuncDecl(pk, fn.Name())
				p = pk
			}
		}
		if fd == nil || fd.Recv != nil || fd.Type.Params.NumFields() != 1 || len(fd.Type.Params.List[0].Names) != 1 {
			return nil, nil, false
		}
		param := p.TypesInfo.Defs[fd.Type.Params.List[0].Names[0]]
		if param == nil || !strings.HasSuffix(types.TypeString(param.Type(), nil), "parser.Opcode") {
			return nil, nil, false
		}
		isParam := func(e ast.Expr) bool {
			x, ok := ast.Unparen(e).(*ast.Ident)
			return ok && p.TypesInfo.ObjectOf(x) == param
		}
		ops := map[string]bool{}
		for _, name := range oi.Names {
			co := w.Parser.Types.Scope().Lookup(name)
			if co == nil {
				return nil, nil, false
			}
			run := execFor(p, fd.Body.List, isParam, co)
			decided := false
			for _, st := range run {
				r, ok := st.(*ast.ReturnStmt)
				if !ok {
					if _, isIf := st.(*ast.IfStmt); isIf {
						return nil, nil, false // a condition execFor could not evaluate
					}
					continue
				}
				if len(r.Results) != 1 {
					return nil, nil, false
				}
				if b, ok := constBool(p, r.Results[0]); ok {
					if b {
						ops[name] = true
					}
					decided = true
				} else if _, sub, ok := w.opcodeSetOfCond(p, r.Results[0]); ok {
					if sub[name] {
						ops[name] = true
					}
					decided = true
				}
				break
			}
			if !decided {
				return nil, nil, false
			}
		}
		// the caller's variable
		var callerObj types.Object
		for _, pk := range w.All {
			if o := pk.TypesInfo.ObjectOf(id); o != nil {
				callerObj = o
			}
		}
		return callerObj, ops, callerObj != nil
	}
	ds := splitOr(cond)
	ops := map[string]bool{}
	var subj types.Object
	for _, d := range ds {
		b, ok := ast.Unparen(d).(*ast.BinaryExpr)
		if !ok || b.Op != token.EQL {
			return nil, nil, false
		}
		x, y := b.X, b.Y
		cobj := ConstObj(p, y)
		if cobj == nil {
			cobj, x = ConstObj(p, x), y
		}
		if cobj == nil {
			return nil, nil, false
		}
		if _, isOp := oi.Val[cobj.Name()]; !isOp {
			return nil, nil, false
		}
		id, ok := ast.Unparen(x).(*ast.Ident)
		if !ok {
			return nil, nil, false
		}
		o := p.TypesInfo.ObjectOf(id)
		if subj != nil && subj != o {
			return nil, nil, false
		}
		subj = o
		ops[cobj.Name()] = true
	}
	return subj, ops, subj != nil
}
