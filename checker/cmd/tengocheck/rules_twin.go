package main

// rules_twin.go: TWIN.1 / FAM.1 (clone agreement), CONV.1 / FALSY.1 (documented tables).

import (
	"fmt"
	"go/ast"
	"go/types"
	"strings"
)

func (w *World) methodDecl(tname, m string) *ast.FuncDecl { return w.FuncDecl(w.Root, tname+"."+m) }

func ruleTWIN1(c *Ctx) {
	w := c.W
	p := w.Root
	cmpMethods := func(a, b string, methods []string) {
		for _, m := range methods {
			fa, fb := w.methodDecl(a, m), w.methodDecl(b, m)
			key := fmt.Sprintf("twin/%s~%s/%s", a, b, m)
			if fa == nil || fb == nil {
				c.fail(key, nil, fmt.Sprintf("method %s missing on %s or %s (one twin falls back to the default implementation)", m, a, b))
				continue
			}
			ca := canonStmts(p, fa, append([]ast.Stmt{}, fa.Body.List...), nil)
			cb := canonStmts(p, fb, append([]ast.Stmt{}, fb.Body.List...), nil)
			// receiver/params: number them identically by pre-walking the signature
			ca2 := canonFuncBody(p, fa, map[string]string{a: "$T", b: "$T"})
			cb2 := canonFuncBody(p, fb, map[string]string{a: "$T", b: "$T"})
			_ = ca
			_ = cb
			c.check(ca2 == cb2, key, fa, "identical up to renaming", fmt.Sprintf("%s.%s and %s.%s differ: %s", a, m, b, m, firstDiff(ca2, cb2)))
		}
	}
	readOnly := []string{"String", "Equals", "IndexGet", "Iterate", "IsFalsy", "CanIterate", "Copy"}
	cmpMethods("Array", "ImmutableArray", readOnly)
	cmpMethods("Map", "ImmutableMap", readOnly)
	for _, it := range []string{"BytesIterator", "MapIterator", "StringIterator"} {
		cmpMethods("ArrayIterator", it, []string{"Next"})
	}
	cmpMethods("ArrayIterator", "BytesIterator", []string{"Key"})
	cmpMethods("ArrayIterator", "StringIterator", []string{"Key"})

	// the four clamping arms of OpSliceIndex
	vi := w.vm()
	if vi.err != "" {
		c.anchor(vi.err)
		return
	}
	arm := vi.Arms["OpSliceIndex"]
	if arm == nil {
		c.anchor("OpSliceIndex arm")
		return
	}
	var ts *ast.TypeSwitchStmt
	for _, s := range arm.Body {
		if x, ok := s.(*ast.TypeSwitchStmt); ok {
			ts = x
		}
	}
	if ts == nil {
		c.anchor("type switch in OpSliceIndex")
		return
	}
	type cl struct {
		name  string
		canon string
		node  ast.Node
	}
	var cls []cl
	for _, s := range ts.Body.List {
		cc := s.(*ast.CaseClause)
		if cc.List == nil {
			continue
		}
		tn, _ := namedName(p.TypesInfo.Types[cc.List[0]].Type)
		var keep []ast.Stmt
		for _, st := range cc.Body {
			if ds, ok := st.(*ast.DeclStmt); ok {
				// the statement that builds the result differs by design
				_ = ds
				continue
			}
			keep = append(keep, st)
		}
		cls = append(cls, cl{tn, canonStmts(p, cc, keep, nil), cc})
	}
	if len(cls) < 4 {
		c.fail("twin/slice/arms", ts, fmt.Sprintf("expected 4 sliceable types, found %d", len(cls)))
		return
	}
	for _, x := range cls[1:] {
		c.check(x.canon == cls[0].canon, "twin/slice/"+cls[0].name+"~"+x.name, x.node, "index clamping identical up to renaming", fmt.Sprintf("slice bounds handling of %s differs from %s: %s", x.name, cls[0].name, firstDiff(cls[0].canon, x.canon)))
	}
}

func ruleFAM1(c *Ctx) {
	w := c.W
	p := w.Root
	vi := w.vm()
	if vi.err != "" {
		c.anchor(vi.err)
		return
	}
	type fam struct {
		op    string
		canon string
		node  ast.Node
	}
	var fams []fam
	for _, op := range []string{"OpSetSelGlobal", "OpSetSelLocal", "OpSetSelFree"} {
		cc := vi.Arms[op]
		if cc == nil {
			c.anchor(op + " arm")
			return
		}
		// the indexAssign call
		var call *ast.CallExpr
		ast.Inspect(cc, func(n ast.Node) bool {
			if x, ok := n.(*ast.CallExpr); ok {
				if fn := Callee(p, x); fn != nil && fn.Name() == "indexAssign" {
					call = x
				}
			}
			return true
		})
		if call == nil || len(call.Args) != 3 {
			c.fail("fam/"+op+"/indexAssign", cc, "arm does not call indexAssign(dst, value, selectors)")
			return
		}
		var dstObj types.Object
		if id, ok := ast.Unparen(call.Args[0]).(*ast.Ident); ok {
			dstObj = p.TypesInfo.Uses[id]
		}
		aw := &armWalker{w: w, p: p, vi: vi, a: &ArmAnalysis{GroupVar: map[int]types.Object{}}}
		var keep []ast.Stmt
		for _, st := range cc.Body {
			decode := aw.hasIPWrite(st) || containsNode(st, func(n ast.Node) bool {
				ix, ok := n.(*ast.IndexExpr)
				return ok && aw.isInstsExpr(ix.X)
			})
			usesCall := containsNode(st, func(n ast.Node) bool { return n == ast.Node(call) })
			usesDst := dstObj != nil && containsNode(st, func(n ast.Node) bool {
				id, ok := n.(*ast.Ident)
				return ok && (p.TypesInfo.Uses[id] == dstObj || p.TypesInfo.Defs[id] == dstObj)
			})
			if decode || usesCall || usesDst {
				continue
			}
			// the `if e != nil { v.err = e; return }` tail
			if is, ok := st.(*ast.IfStmt); ok && is.Init == nil {
				if b, ok := is.Cond.(*ast.BinaryExpr); ok {
					if _, isNil := b.Y.(*ast.Ident); isNil && strings.Contains(w.Src(b.Y), "nil") {
						continue
					}
				}
			}
			keep = append(keep, st)
		}
		fams = append(fams, fam{op, canonStmts(p, cc, keep, nil), cc})
		// value and selectors arguments
		valOK, selOK := false, false
		if id, ok := ast.Unparen(call.Args[1]).(*ast.Ident); ok {
			o := p.TypesInfo.Uses[id]
			for _, st := range cc.Body {
				if as, ok := st.(*ast.AssignStmt); ok && len(as.Lhs) == 1 {
					if lid, ok := as.Lhs[0].(*ast.Ident); ok && p.TypesInfo.Defs[lid] == o {
						// stack[sp - numSel - 1]
						s := w.Src(as.Rhs[0])
						valOK = strings.Contains(s, "-1]") && strings.Contains(s, "stack[")
					}
				}
			}
		}
		if id, ok := ast.Unparen(call.Args[2]).(*ast.Ident); ok {
			if sl, ok := p.TypesInfo.Types[id].Type.Underlying().(*types.Slice); ok && types.IsInterface(sl.Elem()) {
				selOK = true
			}
		}
		c.check(valOK && selOK, "fam/"+op+"/indexAssign-args", call, "indexAssign(dst, value below the selectors, selectors)", "indexAssign is not called with (destination, the value below the selectors, the gathered selectors): "+w.Src(call))
		// error is stored and the arm returns
		stored := containsNode(cc, func(n ast.Node) bool {
			is, ok := n.(*ast.IfStmt)
			if !ok {
				return false
			}
			return containsNode(is.Body, func(m ast.Node) bool { _, ok := m.(*ast.ReturnStmt); return ok }) &&
				containsNode(is.Body, func(m ast.Node) bool {
					as, ok := m.(*ast.AssignStmt)
					if !ok {
						return false
					}
					f, _ := FieldSel(p, as.Lhs[0])
					return f != nil && f.Name() == "err"
				})
		})
		c.check(stored, "fam/"+op+"/error-propagated", cc, "an indexAssign error becomes the VM error", "the error of indexAssign is not stored in the VM error field followed by return")
	}
	for _, f := range fams[1:] {
		c.check(f.canon == fams[0].canon, "fam/selector-gathering/"+fams[0].op+"~"+f.op, f.node, "selector/value gathering identical up to renaming",
			fmt.Sprintf("%s gathers selectors/value differently from %s: %s", f.op, fams[0].op, firstDiff(fams[0].canon, f.canon)))
	}
}

// ---------------------------------------------------------------- CONV.1 / FALSY.1

// mdTable parses the first markdown table after heading into rows of cells.
func mdTable(doc, heading string) [][]string {
	i := strings.Index(doc, heading)
	if i < 0 {
		return nil
	}
	var rows [][]string
	started := false
	for _, line := range strings.Split(doc[i:], "\n")[1:] {
		t := strings.TrimSpace(line)
		if strings.HasPrefix(t, "|") {
			started = true
			cells := strings.Split(strings.Trim(t, "|"), "|")
			for k := range cells {
				cells[k] = strings.TrimSpace(cells[k])
			}
			rows = append(rows, cells)
		} else if started {
			break
		}
	}
	return rows
}

func ruleCONV1(c *Ctx) {
	w := c.W
	p := w.Root
	doc, err := readRepoFile(w, "docs/runtime-types.md")
	if err != nil {
		c.anchor("docs/runtime-types.md")
		return
	}
	rows := mdTable(doc, "## Type Conversion/Coercion Table")
	if len(rows) < 10 {
		c.anchor("conversion table in docs/runtime-types.md")
		return
	}
	header := rows[0]
	col := map[string]int{}
	for i, h := range header {
		col[h] = i
	}
	documented := func(dst string) map[string]bool {
		s := map[string]bool{}
		ci, ok := col[dst]
		if !ok {
			return nil
		}
		for _, r := range rows[2:] {
			if ci < len(r) && !strings.Contains(r[ci], "**X**") {
				s[r[0]] = true
			}
		}
		return s
	}
	convs := []struct{ fn, dst string }{{"ToInt64", "Int"}, {"ToInt", "Int"}, {"ToFloat64", "Float"}, {"ToRune", "Char"}, {"ToByteSlice", "Bytes"}, {"ToTime", "Time"}}
	for _, cv := range convs {
		fd := w.FuncDecl(p, cv.fn)
		if fd == nil {
			c.anchor(cv.fn)
			continue
		}
		got := map[string]bool{}
		ast.Inspect(fd.Body, func(n ast.Node) bool {
			if cc, ok := n.(*ast.CaseClause); ok {
				for _, e := range cc.List {
					if tv, ok := p.TypesInfo.Types[e]; ok && tv.IsType() {
						tn, _ := namedName(tv.Type)
						got[tn] = true
					}
				}
			}
			return true
		})
		want := documented(cv.dst)
		c.check(sameSet(got, want), "conv/"+cv.fn, fd, "accepts exactly the documented source types "+setStr(want), fmt.Sprintf("%s converts from %s; docs/runtime-types.md column %s documents %s", cv.fn, setStr(got), cv.dst, setStr(want)))
	}
	// ToString: everything except undefined; ToBool: everything
	if fd := w.FuncDecl(p, "ToString"); fd != nil {
		want := documented("String")
		hasGuard := containsNode(fd.Body, func(n ast.Node) bool {
			b, ok := n.(*ast.BinaryExpr)
			if !ok {
				return false
			}
			o := ObjOf(p, b.Y)
			return o != nil && o.Name() == "UndefinedValue"
		})
		// no type is singled out for rejection: a type switch, if there is
		// one, has a default arm, and `ok = true` stands at the top level
		noTypeSwitch := !containsNode(fd.Body, func(n ast.Node) bool {
			ts, ok := n.(*ast.TypeSwitchStmt)
			if !ok {
				return false
			}
			for _, cl := range ts.Body.List {
				if cl.(*ast.CaseClause).List == nil {
					return false // has a default arm
				}
			}
			return true
		})
		okTop := false
		for _, st := range fd.Body.List {
			if as, ok := st.(*ast.AssignStmt); ok && len(as.Lhs) == 1 && len(as.Rhs) == 1 {
				if b, isB := constBool(p, as.Rhs[0]); isB && b {
					okTop = true
				}
			}
		}
		noTypeSwitch = noTypeSwitch && okTop
		c.check(hasGuard && noTypeSwitch && !want["Undefined"] && len(want) == len(rows)-3, "conv/ToString", fd, "every type but undefined converts", "ToString / documented String column disagree (expected: all types except undefined)")
	}
	if fd := w.FuncDecl(p, "ToBool"); fd != nil {
		want := documented("Bool")
		uncond := !containsNode(fd.Body, func(n ast.Node) bool {
			switch n.(type) {
			case *ast.IfStmt, *ast.SwitchStmt, *ast.TypeSwitchStmt:
				return true
			}
			return false
		}) && containsNode(fd.Body, func(n ast.Node) bool {
			call, ok := n.(*ast.CallExpr)
			if !ok {
				return false
			}
			fn := Callee(p, call)
			return fn != nil && fn.Name() == "IsFalsy"
		})
		c.check(uncond && len(want) == len(rows)-2, "conv/ToBool", fd, "bool(x) is !IsFalsy() for every type", "ToBool / documented Bool column disagree (expected: unconditional !IsFalsy())")
	}
	// conversion builtins call the matching To* function
	for _, b := range []struct{ name, conv, obj string }{{"int", "ToInt64", "Int"}, {"float", "ToFloat64", "Float"}, {"char", "ToRune", "Char"}, {"bytes", "ToByteSlice", "Bytes"}, {"time", "ToTime", "Time"}, {"string", "ToString", "String"}, {"bool", "ToBool", ""}} {
		fd := w.builtinImpl(b.name)
		if fd == nil {
			c.anchor("builtin " + b.name)
			continue
		}
		var probs []string
		callsConv := false
		var convVar types.Object
		ast.Inspect(fd.Body, func(n ast.Node) bool {
			as, ok := n.(*ast.AssignStmt)
			if !ok || len(as.Rhs) != 1 {
				return true
			}
			if call, ok := as.Rhs[0].(*ast.CallExpr); ok {
				if fn := Callee(p, call); fn != nil && fn.Name() == b.conv && len(call.Args) == 1 && isArgN(p, fd, call.Args[0], 0) {
					callsConv = true
					if id, ok := as.Lhs[0].(*ast.Ident); ok {
						convVar = p.TypesInfo.Defs[id]
					}
				}
			}
			return true
		})
		if !callsConv {
			probs = append(probs, "does not convert args[0] with "+b.conv)
		}
		// identity on the target type
		identity := containsNode(fd.Body, func(n ast.Node) bool {
			is, ok := n.(*ast.IfStmt)
			if !ok || is.Init == nil {
				return false
			}
			as, ok := is.Init.(*ast.AssignStmt)
			if !ok {
				return false
			}
			ta, ok := as.Rhs[0].(*ast.TypeAssertExpr)
			if !ok || ta.Type == nil {
				return false
			}
			tn, _ := namedName(p.TypesInfo.Types[ta.Type].Type)
			want := b.obj
			if b.name == "bool" {
				want = "Bool"
			}
			if tn != want {
				return false
			}
			return containsNode(is.Body, func(m ast.Node) bool {
				r, ok := m.(*ast.ReturnStmt)
				return ok && len(r.Results) == 2 && isArgN(p, fd, r.Results[0], 0)
			})
		})
		if !identity {
			// acceptable when the conversion function itself accepts the target type
			accepts := false
			if cf := w.FuncDecl(p, b.conv); cf != nil {
				accepts = containsNode(cf.Body, func(n ast.Node) bool {
					cc, ok := n.(*ast.CaseClause)
					if !ok {
						return false
					}
					for _, e := range cc.List {
						if tv, ok := p.TypesInfo.Types[e]; ok && tv.IsType() {
							if tn, _ := namedName(tv.Type); tn == b.obj {
								return true
							}
						}
					}
					return false
				})
			}
			if !accepts {
				probs = append(probs, "a value that already has the target type is neither returned unchanged nor accepted by "+b.conv)
			}
		}
		// constructed object uses the converted value
		if b.obj != "" && convVar != nil {
			built := containsNode(fd.Body, func(n ast.Node) bool {
				cl, ok := n.(*ast.CompositeLit)
				if !ok {
					return false
				}
				tn, _ := namedName(p.TypesInfo.Types[cl].Type)
				if tn != b.obj {
					return false
				}
				return containsNode(cl, func(m ast.Node) bool {
					id, ok := m.(*ast.Ident)
					return ok && p.TypesInfo.Uses[id] == convVar
				})
			})
			if !built {
				probs = append(probs, "result object "+b.obj+" is not built from the converted value")
			}
		}
		// fallback: args[1] when given, else undefined (bool has no default)
		if b.name != "bool" {
			fb := containsNode(fd.Body, func(n ast.Node) bool {
				r, ok := n.(*ast.ReturnStmt)
				return ok && len(r.Results) == 2 && isArgN(p, fd, r.Results[0], 1)
			})
			if !fb {
				probs = append(probs, "no `return args[1]` fallback for failed conversions")
			}
		}
		last, _ := fd.Body.List[len(fd.Body.List)-1].(*ast.ReturnStmt)
		if last == nil || len(last.Results) != 2 || !isSingleton(w, last.Results[0], "UndefinedValue") {
			probs = append(probs, "does not end in `return UndefinedValue, nil`")
		}
		c.check(len(probs) == 0, "builtin/"+b.name, fd, "identity on target type; "+b.conv+"(args[0]); default/undefined fallback", strings.Join(probs, "; "))
	}
}

func ruleFALSY1(c *Ctx) {
	w := c.W
	p := w.Root
	doc, err := readRepoFile(w, "docs/runtime-types.md")
	if err != nil {
		c.anchor("docs/runtime-types.md")
		return
	}
	i := strings.Index(doc, "## Object.IsFalsy()")
	if i < 0 {
		c.anchor("IsFalsy section of docs/runtime-types.md")
		return
	}
	docPred := map[string]string{}
	for _, line := range strings.Split(doc[i:], "\n")[1:] {
		t := strings.TrimSpace(line)
		if strings.HasPrefix(t, "## ") {
			break
		}
		if !strings.HasPrefix(t, "- **") {
			continue
		}
		rest := t[4:]
		j := strings.Index(rest, "**")
		if j < 0 {
			continue
		}
		name := rest[:j]
		k := strings.Index(rest, "`")
		if k < 0 {
			continue
		}
		e := rest[k+1:]
		if l := strings.Index(e, "`"); l >= 0 {
			e = e[:l]
		}
		docPred[name] = normDocPred(e)
	}
	if len(docPred) < 10 {
		c.anchor(fmt.Sprintf("IsFalsy table (found %d entries)", len(docPred)))
		return
	}
	twin := map[string]string{"ImmutableArray": "Array", "ImmutableMap": "Map"}
	for tname, fd := range w.objectMethodDecls("IsFalsy") {
		row := tname
		if t, ok := twin[tname]; ok {
			row = t
		}
		want, ok := docPred[row]
		if !ok {
			continue // internal types (iterators, functions, ObjectPtr) are not in the table
		}
		got := "?"
		if len(fd.Body.List) == 1 {
			if r, ok := fd.Body.List[0].(*ast.ReturnStmt); ok && len(r.Results) == 1 {
				got = normCodePred(w, p, fd, r.Results[0])
			}
		}
		c.check(got == want, "falsy/"+tname, fd, "IsFalsy is `"+want+"` as documented", fmt.Sprintf("%s.IsFalsy computes `%s`; docs/runtime-types.md says `%s`", tname, got, want))
	}
}

func normDocPred(s string) string {
	s = strings.ToLower(strings.ReplaceAll(s, " ", ""))
	switch {
	case s == "true":
		return "true"
	case strings.HasPrefix(s, "!"):
		return "!x"
	case strings.HasPrefix(s, "len("):
		return "len(x)==0"
	case strings.HasPrefix(s, "isnan("):
		return "isnan(x)"
	case strings.HasSuffix(s, ".iszero()"):
		return "x.iszero()"
	case strings.HasSuffix(s, "==0"):
		return "x==0"
	}
	return s
}

func normCodePred(w *World, p interface{}, fd *ast.FuncDecl, e ast.Expr) string {
	s := w.Src(e)
	r := recvName(fd)
	for _, f := range []string{".Value", ".value"} {
		s = strings.ReplaceAll(s, r+f, "x")
	}
	s = strings.ToLower(strings.ReplaceAll(s, " ", ""))
	s = strings.ReplaceAll(s, "math.isnan", "isnan")
	if s == "0==x" {
		s = "x==0"
	}
	if s == "0==len(x)" || s == "len(x)<1" {
		s = "len(x)==0"
	}
	return s
}

// IDX.1: an indexable sequence is indexed, bounds-checked and iterated over one
// and the same storage (so index i, len-bounds and iteration agree on the unit:
// elements, bytes, or runes).
func ruleIDX1(c *Ctx) {
	w := c.W
	p := w.Root
	for _, tname := range []string{"Array", "ImmutableArray", "Bytes", "String"} {
		ig := w.methodDecl(tname, "IndexGet")
		it := w.methodDecl(tname, "Iterate")
		key := "index/" + tname
		if ig == nil || it == nil {
			c.fail(key, nil, tname+" lacks IndexGet or Iterate")
			continue
		}
		recv := recvName(ig)
		norm := func(e ast.Expr) string { return strings.TrimPrefix(w.Src(e), recv+".") }
		// variables derived from the index argument
		idxVars := map[types.Object]bool{}
		if ig.Type.Params.NumFields() == 1 && len(ig.Type.Params.List[0].Names) == 1 {
			idxVars[p.TypesInfo.Defs[ig.Type.Params.List[0].Names[0]]] = true
		}
		for pass := 0; pass < 3; pass++ {
			ast.Inspect(ig.Body, func(n ast.Node) bool {
				as, ok := n.(*ast.AssignStmt)
				if !ok {
					return true
				}
				uses := false
				for _, r := range as.Rhs {
					if containsNode(r, func(m ast.Node) bool {
						id, ok := m.(*ast.Ident)
						return ok && idxVars[p.TypesInfo.Uses[id]]
					}) {
						uses = true
					}
				}
				if uses {
					for _, l := range as.Lhs {
						if id, ok := l.(*ast.Ident); ok {
							if o := p.TypesInfo.Defs[id]; o != nil {
								idxVars[o] = true
							}
						}
					}
				}
				return true
			})
		}
		usesIdx := func(e ast.Expr) bool {
			return containsNode(e, func(m ast.Node) bool {
				id, ok := m.(*ast.Ident)
				return ok && idxVars[p.TypesInfo.Uses[id]]
			})
		}
		indexed := map[string]bool{}
		measured := map[string]bool{}
		ast.Inspect(ig.Body, func(n ast.Node) bool {
			switch x := n.(type) {
			case *ast.IndexExpr:
				if usesIdx(x.Index) {
					indexed[norm(x.X)] = true
				}
			case *ast.BinaryExpr:
				// idx >= len(S) / idx < len(S)
				for _, side := range []ast.Expr{x.X, x.Y} {
					if call, ok := ast.Unparen(side).(*ast.CallExpr); ok && IsBuiltinCall(p, call, "len") {
						other := x.Y
						if side == x.Y {
							other = x.X
						}
						if usesIdx(other) {
							measured[norm(call.Args[0])] = true
						}
					}
				}
			}
			return true
		})
		// storage handed to the iterator
		iter := map[string]bool{}
		ast.Inspect(it.Body, func(n ast.Node) bool {
			kv, ok := n.(*ast.KeyValueExpr)
			if ok && w.Src(kv.Key) == "v" {
				iter[strings.TrimPrefix(w.Src(kv.Value), recvName(it)+".")] = true
			}
			return true
		})
		good := len(indexed) == 1 && sameSet(indexed, measured) && sameSet(indexed, iter)
		c.check(good, key, ig, "indexed, bounds-checked and iterated over the single storage "+setStr(indexed), fmt.Sprintf("%s.IndexGet reads %s, checks bounds against %s, and Iterate walks %s: index, bounds and iteration must agree on one storage (one unit: elements, bytes or runes)", tname, setStr(indexed), setStr(measured), setStr(iter)))
	}
}

// isArgN: e is `params[n]`, the n-th element of the function's (variadic)
// argument slice, whatever that parameter is called.
func isArgN(p pkgT, fd *ast.FuncDecl, e ast.Expr, n int64) bool {
	ix, ok := ast.Unparen(e).(*ast.IndexExpr)
	if !ok {
		return false
	}
	k, ok := ConstInt(p, ix.Index)
	if !ok || k != n {
		return false
	}
	id, ok := ast.Unparen(ix.X).(*ast.Ident)
	if !ok || fd.Type.Params == nil || len(fd.Type.Params.List) == 0 {
		return false
	}
	last := fd.Type.Params.List[len(fd.Type.Params.List)-1]
	for _, nm := range last.Names {
		if p.TypesInfo.Defs[nm] == p.TypesInfo.Uses[id] {
			return true
		}
	}
	return false
}
