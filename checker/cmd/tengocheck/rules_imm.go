package main

// rules_imm.go: C09 (IMM.1-4), C01 (FRESH.1-2), C10/C08 (COPY.1) on top of flow.go.

import (
	"fmt"
	"go/ast"
	"go/token"
	"go/types"
	"golang.org/x/tools/go/packages"
	"strings"
)

// constructionExempt: functions allowed to write the storage of an immutable
// container that they did not allocate themselves. One symbol per line.
var constructionExempt = map[string]string{
	"fixDecodedObject": "decode-time normalisation of freshly gob-decoded constants, before the bytecode is published to any VM",
}

// readOnlyExternals: external callees that may receive immutable storage
// because they only read it.
var readOnlyExternals = map[string]string{
	"bytes.Equal":  "reads both slices",
	"strings.Join": "reads the slice",
	"len":          "builtin",
}

type seqKeys map[string]int

func (s seqKeys) next(base string) string {
	s[base]++
	return fmt.Sprintf("%s#%d", base, s[base])
}

func ruleIMM2(c *Ctx) {
	w := c.W
	fi := w.flow()
	if fi.err != "" {
		c.anchor(fi.err)
		return
	}
	seq := seqKeys{}
	for _, s := range fi.Sinks {
		ctx := w.ctxKey(s.Pos)
		fnName := ctx
		if i := strings.Index(ctx, "/"); i >= 0 {
			fnName = ctx[:i]
		}
		site := &posNode{s.Pos}
		switch s.Kind {
		case skStoreMutValue:
			key := seq.next(ctx + "/store-" + s.Target + ".Value")
			if s.Origin&oImm != 0 {
				c.fail(key, site, fmt.Sprintf("storage of an existing immutable container (origin %s) becomes the storage of a mutable %s%s: a later write through the mutable value changes the immutable one", originStr(s.Origin), s.Target, viaStr(s.Via)))
			} else {
				c.ok(key, site, "origin "+originStr(s.Origin))
			}
		case skElemWrite:
			key := seq.next(ctx + "/element-write")
			if s.Origin&oImm != 0 {
				if why, ok := constructionExempt[fnName]; ok {
					c.ok(key, site, "tabled exception: "+why)
				} else {
					c.fail(key, site, fmt.Sprintf("element write / delete / copy through the storage of an existing immutable container (origin %s)%s", originStr(s.Origin), viaStr(s.Via)))
				}
			} else {
				c.ok(key, site, "origin "+originStr(s.Origin))
			}
		case skStoreImmValue:
			key := seq.next(ctx + "/store-" + s.Target + ".Value")
			if !s.Local {
				c.fail(key, site, "the Value field of an immutable container that was not allocated in this function is reassigned")
			} else {
				c.ok(key, site, "construction of a new "+s.Target+" (storage origin "+originStr(s.Origin)+")")
			}
		case skExternal:
			key := seq.next(ctx + "/external/" + s.Target)
			if why, ok := readOnlyExternals[s.Target]; ok {
				c.ok(key, site, "read-only callee: "+why)
			} else {
				c.undecided(key, site, "immutable storage passed to "+s.Target+", which is not in the table of read-only callees")
			}
		}
	}
	c.note("IMM.2 analysed %d SSA functions, %d instructions; container types %v; holder fields carrying immutable storage: %s",
		len(fi.Funcs), fi.NumInstr, fi.Immutable, holderList(fi))
}

func holderList(fi *FlowInfo) string {
	var s []string
	for f, o := range fi.holder {
		if o&oImm != 0 {
			s = append(s, f.Name())
		}
	}
	return strings.Join(s, ",")
}

func viaStr(v string) string {
	if v == "" {
		return ""
	}
	return " (performed in callee " + v + ")"
}

type posNode struct{ p token.Pos }

func (n *posNode) Pos() token.Pos { return n.p }
func (n *posNode) End() token.Pos { return n.p }

func ruleIMM1(c *Ctx) {
	w := c.W
	fi := w.flow()
	if fi.err != "" {
		c.anchor(fi.err)
		return
	}
	implT := w.Root.Types.Scope().Lookup("ObjectImpl")
	for _, tname := range sortedKeys(fi.Immutable) {
		if !fi.Immutable[tname] {
			continue
		}
		tn := w.Root.Types.Scope().Lookup(tname)
		ms := types.NewMethodSet(types.NewPointer(tn.Type()))
		sel := ms.Lookup(w.Root.Types, "IndexSet")
		good := sel != nil && len(sel.Index()) > 1
		if good && implT != nil {
			// resolves to the embedded default implementation
			fn := sel.Obj().(*types.Func)
			good = isMethodOf(fn, w.Root.Types, "ObjectImpl", "IndexSet")
		}
		c.check(good, "type/"+tname+"/IndexSet", nil, "IndexSet resolves to ObjectImpl's (returns ErrNotIndexAssignable)", tname+" has an IndexSet of its own or none at all")
	}
	// ObjectImpl.IndexSet returns ErrNotIndexAssignable on every path
	fd := w.FuncDecl(w.Root, "ObjectImpl.IndexSet")
	if fd == nil {
		c.anchor("ObjectImpl.IndexSet")
		return
	}
	good := true
	n := 0
	ast.Inspect(fd.Body, func(nd ast.Node) bool {
		if r, ok := nd.(*ast.ReturnStmt); ok {
			n++
			if len(r.Results) != 1 {
				good = false
			} else if o := ObjOf(w.Root, r.Results[0]); o == nil || o.Name() != "ErrNotIndexAssignable" {
				good = false
			}
		}
		return true
	})
	c.check(good && n > 0 && len(fd.Body.List) == n, "ObjectImpl.IndexSet/body", fd, "returns ErrNotIndexAssignable", "default IndexSet does not simply return ErrNotIndexAssignable")
}

// objectMethodDecls returns, for method name m, the declarations of m on
// every type of the root package that implements Object (keyed by type name).
func (w *World) objectMethodDecls(m string) map[string]*ast.FuncDecl {
	out := map[string]*ast.FuncDecl{}
	objT := w.Root.Types.Scope().Lookup("Object")
	if objT == nil {
		return out
	}
	objI, _ := objT.Type().Underlying().(*types.Interface)
	w.AllFuncDecls(w.Root, func(fd *ast.FuncDecl) {
		if fd.Recv == nil || fd.Name.Name != m {
			return
		}
		tn := w.Root.Types.Scope().Lookup(recvTypeName(fd))
		if tn == nil {
			return
		}
		if types.Implements(types.NewPointer(tn.Type()), objI) {
			out[recvTypeName(fd)] = fd
		}
	})
	return out
}

func fnNameOfCtx(ctx string) string {
	if i := strings.Index(ctx, "/"); i >= 0 {
		return ctx[:i]
	}
	return ctx
}

// FRESH.1/2
func ruleFRESH(c *Ctx) {
	w := c.W
	fi := w.flow()
	if fi.err != "" {
		c.anchor(fi.err)
		return
	}
	bin := w.objectMethodDecls("BinaryOp")
	if len(bin) < 8 {
		c.anchor(fmt.Sprintf("BinaryOp implementations (found %d)", len(bin)))
		return
	}
	seq := seqKeys{}
	for _, s := range fi.Sinks {
		if s.Kind != skStoreMutValue && s.Kind != skStoreImmValue {
			continue
		}
		ctx := w.ctxKey(s.Pos)
		fn := fnNameOfCtx(ctx)
		if !strings.HasSuffix(fn, ".BinaryOp") {
			continue
		}
		key := seq.next("FRESH.1/" + ctx + "/result-" + s.Target + ".Value")
		if s.Origin&(oMut|oImm) != 0 {
			c.fail(key, &posNode{s.Pos}, "the result container of a binary operator takes storage that may alias an operand's backing array (origin "+originStr(s.Origin)+"): `append(operand.Value, …)` writes into the operand's spare capacity, so two results built from one operand overwrite each other")
		} else {
			c.ok(key, &posNode{s.Pos}, "result storage origin "+originStr(s.Origin))
		}
	}
	// FRESH.2: BinaryOp of an index-assignable container never returns its receiver
	for _, tname := range sortedKeys(bin) {
		fd := bin[tname]
		tn := w.Root.Types.Scope().Lookup(tname)
		ms := types.NewMethodSet(types.NewPointer(tn.Type()))
		sel := ms.Lookup(w.Root.Types, "IndexSet")
		if sel == nil || len(sel.Index()) != 1 {
			continue // not index-assignable: returning the receiver is harmless
		}
		recv := recvName(fd)
		bad := ""
		ast.Inspect(fd.Body, func(n ast.Node) bool {
			if r, ok := n.(*ast.ReturnStmt); ok && len(r.Results) > 0 {
				if id, ok := ast.Unparen(r.Results[0]).(*ast.Ident); ok && id.Name == recv && recv != "" {
					bad = w.Site(r)
				}
			}
			return true
		})
		c.check(bad == "", "FRESH.2/"+tname+".BinaryOp", fd, "never returns its receiver", "BinaryOp of index-assignable "+tname+" returns the receiver itself at "+bad+": a write through the result changes the operand")
	}
}

// COPY.1
func ruleCOPY1(c *Ctx) {
	w := c.W
	fi := w.flow()
	if fi.err != "" {
		c.anchor(fi.err)
		return
	}
	cp := w.objectMethodDecls("Copy")
	containers := map[string]bool{}
	for _, t := range fi.Storage {
		containers[t] = true
	}
	// (a) storage freshness from the flow sinks
	seq := seqKeys{}
	for _, s := range fi.Sinks {
		if s.Kind != skStoreMutValue && s.Kind != skStoreImmValue {
			continue
		}
		ctx := w.ctxKey(s.Pos)
		fn := fnNameOfCtx(ctx)
		if !strings.HasSuffix(fn, ".Copy") {
			continue
		}
		key := seq.next(ctx + "/copy-" + s.Target + ".Value")
		c.check(s.Origin&^oFresh == 0 && s.Local, key, &posNode{s.Pos}, "copy's storage is fresh", "Copy builds its result from storage of origin "+originStr(s.Origin)+" (must be a new slice/map)")
	}
	for _, tname := range sortedKeys(cp) {
		fd := cp[tname]
		if !containers[tname] && tname != "Error" {
			continue
		}
		recv := recvName(fd)
		// (b) never returns the receiver
		bad := false
		ast.Inspect(fd.Body, func(n ast.Node) bool {
			if r, ok := n.(*ast.ReturnStmt); ok && len(r.Results) == 1 {
				if id, ok := ast.Unparen(r.Results[0]).(*ast.Ident); ok && id.Name == recv {
					bad = true
				}
			}
			return true
		})
		c.check(!bad, tname+".Copy/not-receiver", fd, "Copy returns a new object", "Copy of container "+tname+" returns the receiver")
		// (c) elements are copied
		holdsObjects := false
		if tn := w.Root.Types.Scope().Lookup(tname); tn != nil {
			if st, ok := tn.Type().Underlying().(*types.Struct); ok {
				for i := 0; i < st.NumFields(); i++ {
					if st.Field(i).Name() == "Value" {
						switch u := st.Field(i).Type().Underlying().(type) {
						case *types.Slice:
							holdsObjects = types.IsInterface(u.Elem())
						case *types.Map:
							holdsObjects = types.IsInterface(u.Elem())
						case *types.Interface:
							holdsObjects = true
						}
					}
				}
			}
		}
		if !holdsObjects {
			continue
		}
		isCopyCall := func(e ast.Expr) bool {
			call, ok := ast.Unparen(e).(*ast.CallExpr)
			if !ok {
				return false
			}
			fn := Callee(w.Root, call)
			return fn != nil && fn.Name() == "Copy" && len(call.Args) == 0
		}
		n, badElems := 0, []string{}
		ast.Inspect(fd.Body, func(nd ast.Node) bool {
			switch x := nd.(type) {
			case *ast.AssignStmt:
				for i, l := range x.Lhs {
					if _, ok := l.(*ast.IndexExpr); ok && i < len(x.Rhs) {
						n++
						if !isCopyCall(x.Rhs[i]) {
							badElems = append(badElems, w.Src(x))
						}
					}
				}
			case *ast.CallExpr:
				if IsBuiltinCall(w.Root, x, "append") {
					for _, a := range x.Args[1:] {
						n++
						if !isCopyCall(a) || x.Ellipsis.IsValid() {
							badElems = append(badElems, w.Src(x))
						}
					}
				}
			case *ast.KeyValueExpr:
				if id, ok := x.Key.(*ast.Ident); ok && id.Name == "Value" && tname == "Error" {
					n++
					if !isCopyCall(x.Value) {
						badElems = append(badElems, w.Src(x))
					}
				}
			}
			return true
		})
		c.check(n > 0 && len(badElems) == 0, tname+".Copy/elements-copied", fd, fmt.Sprintf("%d element store(s), each the result of elem.Copy()", n),
			"Copy of "+tname+" stores elements that are not copies (shares nested mutable state): "+strings.Join(badElems, "; "))
	}
	// (d) cells: a field holding pointers to mutable cells of the module
	// (structs with an Object-typed field, e.g. the captured-variable cells of a
	// closure) copied shallowly shares those cells between the copy and the
	// original - Clone() of a script whose globals hold closures then shares
	// their captured variables between clones
	cellType := func(t types.Type) string {
		var elem types.Type
		switch u := t.Underlying().(type) {
		case *types.Slice:
			elem = u.Elem()
		case *types.Map:
			elem = u.Elem()
		case *types.Pointer:
			elem = t
		}
		ptr, ok := elem.(*types.Pointer)
		if !ok {
			return ""
		}
		nm, ok := ptr.Elem().(*types.Named)
		if !ok || nm.Obj().Pkg() != w.Root.Types {
			return ""
		}
		st, ok := nm.Underlying().(*types.Struct)
		if !ok {
			return ""
		}
		for i := 0; i < st.NumFields(); i++ {
			ft := st.Field(i).Type()
			if pt, ok := ft.(*types.Pointer); ok {
				ft = pt.Elem()
			}
			if _, isNamedStruct := ft.Underlying().(*types.Struct); !isNamedStruct && types.IsInterface(ft) {
				return nm.Obj().Name()
			}
		}
		return ""
	}
	for _, tname := range sortedKeys(cp) {
		fd := cp[tname]
		recv := recvName(fd)
		ast.Inspect(fd.Body, func(nd ast.Node) bool {
			kv, ok := nd.(*ast.KeyValueExpr)
			if !ok {
				return true
			}
			kid, ok := kv.Key.(*ast.Ident)
			if !ok {
				return true
			}
			fld, _ := w.Root.TypesInfo.Uses[kid].(*types.Var)
			if fld == nil || !fld.IsField() {
				return true
			}
			cell := cellType(fld.Type())
			if cell == "" {
				return true
			}
			// value: recv.F, or append(<anything>, recv.F...)
			shallow := false
			v := ast.Unparen(kv.Value)
			if call, ok := v.(*ast.CallExpr); ok && IsBuiltinCall(w.Root, call, "append") && call.Ellipsis.IsValid() && len(call.Args) == 2 {
				v = ast.Unparen(call.Args[1])
			}
			if se, ok := v.(*ast.SelectorExpr); ok {
				if id, ok := ast.Unparen(se.X).(*ast.Ident); ok && id.Name == recv {
					shallow = true
				}
			}
			c.check(!shallow, "copy-shares/"+tname+"."+fld.Name(), kv, "cells are copied", fmt.Sprintf("%s.Copy keeps the same *%s cells in field %s: the copy and the original share mutable state (for a closure: its captured variables), so clones made by Compiled.Clone after a run are not independent", tname, cell, fld.Name()))
			return true
		})
	}
}

// IMM.3: freeze builds fresh storage and never writes through its argument.
func ruleIMM3(c *Ctx) {
	w := c.W
	fi := w.flow()
	if fi.err != "" {
		c.anchor(fi.err)
		return
	}
	entry := w.builtinImpl("freeze")
	if entry == nil {
		c.anchor("builtin function registered under the name \"freeze\"")
		return
	}
	fns := w.staticCallees(w.Root, entry)
	names := map[string]bool{}
	for _, fd := range fns {
		names[funcName(fd)] = true
	}
	seq := seqKeys{}
	lits := 0
	for _, s := range fi.Sinks {
		ctx := w.ctxKey(s.Pos)
		if !names[fnNameOfCtx(ctx)] {
			continue
		}
		switch s.Kind {
		case skStoreImmValue:
			lits++
			c.check(s.Local && s.Origin&^oFresh == 0, seq.next(ctx+"/frozen-"+s.Target+".Value"), &posNode{s.Pos},
				"frozen container gets storage made in this function", "freeze builds an immutable container from storage of origin "+originStr(s.Origin)+" (shares storage with its argument, or reassigns an existing container)")
		case skStoreMutValue:
			c.fail(seq.next(ctx+"/store-"+s.Target+".Value"), &posNode{s.Pos}, "freeze assigns the storage of a mutable container (it must not modify its argument)")
		case skElemWrite:
			c.check(s.Origin&(oMut|oImm) == 0, seq.next(ctx+"/element-write"), &posNode{s.Pos}, "write goes to storage of origin "+originStr(s.Origin), "freeze writes through storage of an existing container (origin "+originStr(s.Origin)+"): it modifies its argument")
		}
	}
	// memo maps an original to its frozen counterpart: only freshly built
	// immutable containers may be stored in it; and every element put into a
	// frozen container is the result of freezing that element
	for _, fd := range fns {
		var memoObj types.Object
		for _, f := range fd.Type.Params.List {
			for _, nm := range f.Names {
				o := w.Root.TypesInfo.Defs[nm]
				if m, ok := o.Type().Underlying().(*types.Map); ok && types.IsInterface(m.Key()) {
					memoObj = o
				}
			}
		}
		isFreezeCall := func(e ast.Expr) bool {
			call, ok := ast.Unparen(e).(*ast.CallExpr)
			if !ok {
				return false
			}
			fn := Callee(w.Root, call)
			return fn != nil && names[fn.Name()]
		}
		// variables defined from a recursive freeze call
		frozenVars := map[types.Object]bool{}
		ast.Inspect(fd.Body, func(n ast.Node) bool {
			as, ok := n.(*ast.AssignStmt)
			if ok && len(as.Lhs) == 1 && len(as.Rhs) == 1 && isFreezeCall(as.Rhs[0]) {
				if id, ok := as.Lhs[0].(*ast.Ident); ok {
					if o := w.Root.TypesInfo.Defs[id]; o != nil {
						frozenVars[o] = true
					}
				}
			}
			return true
		})
		k := 0
		ast.Inspect(fd.Body, func(n ast.Node) bool {
			as, ok := n.(*ast.AssignStmt)
			if !ok || len(as.Lhs) != 1 || len(as.Rhs) != 1 {
				return true
			}
			ix, ok := as.Lhs[0].(*ast.IndexExpr)
			if !ok {
				return true
			}
			k++
			base, isId := ast.Unparen(ix.X).(*ast.Ident)
			if isId && memoObj != nil && w.Root.TypesInfo.Uses[base] == memoObj {
				// memo[o] = X : X must be a variable defined by &Immutable…{…}
				good := false
				if id, ok := ast.Unparen(as.Rhs[0]).(*ast.Ident); ok {
					obj := w.Root.TypesInfo.Uses[id]
					ast.Inspect(fd.Body, func(m ast.Node) bool {
						d, ok := m.(*ast.AssignStmt)
						if !ok || len(d.Lhs) != 1 || len(d.Rhs) != 1 {
							return true
						}
						if lid, ok := d.Lhs[0].(*ast.Ident); ok && w.Root.TypesInfo.Defs[lid] == obj {
							if u, ok := d.Rhs[0].(*ast.UnaryExpr); ok {
								if cl, ok := u.X.(*ast.CompositeLit); ok {
									tn, _ := namedName(w.Root.TypesInfo.Types[cl].Type)
									good = fi.Immutable[tn]
								}
							}
						}
						return true
					})
				}
				c.check(good, fmt.Sprintf("freeze/memo-store/%s#%d", w.ctxKey(as.Pos()), k), as, "memo maps the original to a freshly built immutable container", "the freeze memo is given a value that is not a freshly built immutable container ("+w.Src(as)+"): a later reference to the same object would get back something that was never deep-frozen")
				return true
			}
			// element stores: X[i] = v  where X ends up as frozen storage
			rhs := ast.Unparen(as.Rhs[0])
			good := isFreezeCall(rhs)
			if id, ok := rhs.(*ast.Ident); ok && frozenVars[w.Root.TypesInfo.Uses[id]] {
				good = true
			}
			c.check(good, fmt.Sprintf("freeze/element-frozen/%s#%d", w.ctxKey(as.Pos()), k), as, "element stored is the frozen form of the original element", "freeze stores an element that is not the result of freezing it ("+w.Src(as)+"): not everything reachable from the result is immutable")
			return true
		})
	}
	// coverage: freeze descends into every value type that holds other values
	// (an exported field Value of type Object, []Object or map[string]Object)
	holders := map[string]bool{}
	for _, name := range w.Root.Types.Scope().Names() {
		tn, ok := w.Root.Types.Scope().Lookup(name).(*types.TypeName)
		if !ok {
			continue
		}
		st, ok := tn.Type().Underlying().(*types.Struct)
		if !ok {
			continue
		}
		for i := 0; i < st.NumFields(); i++ {
			f := st.Field(i)
			if f.Name() != "Value" {
				continue
			}
			switch u := f.Type().Underlying().(type) {
			case *types.Slice:
				holders[name] = types.IsInterface(u.Elem())
			case *types.Map:
				holders[name] = types.IsInterface(u.Elem())
			case *types.Interface:
				holders[name] = true
			}
		}
	}
	covered := map[string]bool{}
	for _, fd := range fns {
		ast.Inspect(fd.Body, func(n ast.Node) bool {
			if cc, ok := n.(*ast.CaseClause); ok {
				for _, e := range cc.List {
					if tv, ok := w.Root.TypesInfo.Types[e]; ok && tv.IsType() {
						tn, _ := namedName(tv.Type)
						covered[tn] = true
					}
				}
			}
			return true
		})
	}
	for _, h := range sortedKeys(holders) {
		if !holders[h] {
			continue
		}
		c.check(covered[h], "freeze/covers/"+h, entry, "freeze has an arm for "+h, "freeze has no arm for "+h+", a value type that holds other values: a mutable container inside it stays mutable although it is reachable from the frozen result")
	}
	// the builtin hands every value that can hold other values to the walker:
	// a return of anything but the walker's result may only stand in a
	// type-switch clause that no holder type reaches
	inspectWithStack(entry.Body, func(n ast.Node, stack []ast.Node) bool {
		r, ok := n.(*ast.ReturnStmt)
		if !ok || len(r.Results) == 0 || isNilIdent(r.Results[0]) {
			return true
		}
		if call, ok := ast.Unparen(r.Results[0]).(*ast.CallExpr); ok {
			if fn := Callee(w.Root, call); fn != nil {
				for _, fd := range fns {
					if fd != entry && funcName(fd) == fn.Name() {
						return true
					}
				}
			}
		}
		reach := map[string]bool{}
		var cl *ast.CaseClause
		var ts *ast.TypeSwitchStmt
		for i := len(stack) - 1; i >= 0 && ts == nil; i-- {
			if cc, ok := stack[i].(*ast.CaseClause); ok && cl == nil {
				cl = cc
			}
			if t, ok := stack[i].(*ast.TypeSwitchStmt); ok && cl != nil {
				ts = t
			}
		}
		if ts == nil {
			for h, is := range holders {
				if is {
					reach[h] = true
				}
			}
		} else {
			listed := map[string]bool{}
			for _, c2 := range ts.Body.List {
				for _, e := range c2.(*ast.CaseClause).List {
					if tv, ok := w.Root.TypesInfo.Types[e]; ok && tv.IsType() {
						tn, _ := namedName(tv.Type)
						listed[tn] = true
						if c2 == ast.Stmt(cl) && holders[tn] {
							reach[tn] = true
						}
					}
				}
			}
			if cl.List == nil {
				for h, is := range holders {
					if is && !listed[h] {
						reach[h] = true
					}
				}
			}
		}
		c.check(len(reach) == 0, seq.next("freeze/entry-delegates"), r, "returned as it is only for types that hold no other values",
			"freeze returns its argument without walking it for "+strings.Join(sortedKeys(reach), ", ")+": a mutable container inside such a value stays mutable although it is reachable from the result of freeze")
		return true
	})
	c.check(lits >= 4, "freeze/constructions", entry, fmt.Sprintf("%d immutable constructions examined in %v", lits, sortedKeys(names)), fmt.Sprintf("expected >=4 immutable constructions in freeze, found %d", lits))
}

// builtinImpl finds the function stored in the builtinFuncs element named name.
func (w *World) builtinImpl(name string) *ast.FuncDecl {
	lit := w.pkgVarLit(w.Root, "builtinFuncs")
	if lit == nil {
		return nil
	}
	for _, el := range lit.Elts {
		cl, ok := el.(*ast.CompositeLit)
		if !ok {
			if u, ok := el.(*ast.UnaryExpr); ok {
				cl, _ = u.X.(*ast.CompositeLit)
			}
		}
		if cl == nil {
			continue
		}
		var nm string
		var val ast.Expr
		for _, e := range cl.Elts {
			kv, ok := e.(*ast.KeyValueExpr)
			if !ok {
				continue
			}
			k, _ := kv.Key.(*ast.Ident)
			if k == nil {
				continue
			}
			if k.Name == "Name" {
				if tv, ok := w.Root.TypesInfo.Types[kv.Value]; ok && tv.Value != nil {
					nm = strings.Trim(tv.Value.ExactString(), "\"")
				}
			}
			if k.Name == "Value" {
				val = kv.Value
			}
		}
		if nm == name && val != nil {
			if fn, ok := ObjOf(w.Root, val).(*types.Func); ok {
				return w.FuncDecl(w.Root, fn.Name())
			}
		}
	}
	return nil
}

// staticCallees: entry plus every function of package p reachable from it through static calls.
func (w *World) staticCallees(p *packages.Package, entry *ast.FuncDecl) []*ast.FuncDecl {
	seen := map[*ast.FuncDecl]bool{}
	var out []*ast.FuncDecl
	var visit func(fd *ast.FuncDecl)
	visit = func(fd *ast.FuncDecl) {
		if fd == nil || seen[fd] {
			return
		}
		seen[fd] = true
		out = append(out, fd)
		ast.Inspect(fd.Body, func(n ast.Node) bool {
			if call, ok := n.(*ast.CallExpr); ok {
				if fn := Callee(p, call); fn != nil && fn.Pkg() == p.Types {
					sig := fn.Type().(*types.Signature)
					if sig.Recv() == nil {
						visit(w.FuncDecl(p, fn.Name()))
					} else {
						tn, _ := namedName(sig.Recv().Type())
						if _, isIface := sig.Recv().Type().Underlying().(*types.Interface); !isIface {
							visit(w.FuncDecl(p, tn+"."+fn.Name()))
						}
					}
				}
			}
			return true
		})
	}
	visit(entry)
	return out
}

// IMM.4: the producers of immutable values.
func ruleIMM4(c *Ctx) {
	w := c.W
	p := w.Root
	vi := w.vm()
	if vi.err != "" {
		c.anchor(vi.err)
		return
	}
	fi := w.flow()
	// (a) OpImmutable arm: every immutable literal re-wraps the storage of its mutable twin
	arm := vi.Arms["OpImmutable"]
	if arm == nil {
		c.anchor("OpImmutable arm")
	} else {
		n := 0
		inspectWithStack(arm, func(nd ast.Node, stack []ast.Node) bool {
			cl, ok := nd.(*ast.CompositeLit)
			if !ok {
				return true
			}
			tname, _ := namedName(p.TypesInfo.Types[cl].Type)
			if !fi.Immutable[tname] {
				return true
			}
			n++
			// enclosing type-switch case type
			caseT := ""
			for i := len(stack) - 1; i >= 0; i-- {
				if cc, ok := stack[i].(*ast.CaseClause); ok && len(cc.List) == 1 {
					if tv, ok := p.TypesInfo.Types[cc.List[0]]; ok && tv.IsType() {
						caseT, _ = namedName(tv.Type)
						break
					}
				}
			}
			good := caseT != "" && "Immutable"+caseT == tname
			c.check(good, "OpImmutable/"+tname, cl, "wraps the storage of a "+caseT+" (the aliasing the property's proviso permits)", "OpImmutable builds "+tname+" in the arm for "+caseT)
			return true
		})
		c.check(n == 2, "OpImmutable/arms", arm, "array and map are converted", fmt.Sprintf("expected 2 immutable constructions in OpImmutable, found %d", n))
	}
	// (b) export emits OpImmutable immediately before OpReturn 1, unconditionally
	comp := w.FuncDecl(p, "Compiler.Compile")
	if comp == nil {
		c.anchor("Compiler.Compile")
	} else {
		var clause *ast.CaseClause
		ast.Inspect(comp.Body, func(nd ast.Node) bool {
			if cc, ok := nd.(*ast.CaseClause); ok && len(cc.List) == 1 {
				if tv, ok := p.TypesInfo.Types[cc.List[0]]; ok && tv.IsType() {
					if n, pk := namedName(tv.Type); n == "ExportStmt" && pk == w.Parser.Types {
						clause = cc
					}
				}
			}
			return true
		})
		if clause == nil {
			c.anchor("ExportStmt arm of Compiler.Compile")
		} else {
			var ops []string
			for _, st := range clause.Body {
				es, ok := st.(*ast.ExprStmt)
				if !ok {
					continue
				}
				if call, ok := es.X.(*ast.CallExpr); ok {
					if fn := Callee(p, call); isMethodOf(fn, p.Types, "Compiler", "emit") && len(call.Args) >= 2 {
						if co := ConstObj(p, call.Args[1]); co != nil {
							ops = append(ops, co.Name())
						}
					}
				}
			}
			total := 0
			ast.Inspect(clause, func(nd ast.Node) bool {
				if call, ok := nd.(*ast.CallExpr); ok {
					if fn := Callee(p, call); isMethodOf(fn, p.Types, "Compiler", "emit") {
						total++
					}
				}
				return true
			})
			good := len(ops) == 2 && ops[0] == "OpImmutable" && ops[1] == "OpReturn" && total == 2
			c.check(good, "export/immutable-before-return", clause, "export emits OpImmutable then OpReturn as unconditional statements", fmt.Sprintf("export arm emits %v at statement level (%d emits in total); the exported value must pass through OpImmutable on every path", ops, total))
		}
	}
	// (c) builtin modules are handed out as immutable copies
	imp := w.FuncDecl(p, "BuiltinModule.Import")
	asm := w.FuncDecl(p, "BuiltinModule.AsImmutableMap")
	if imp == nil || asm == nil {
		c.anchor("BuiltinModule.Import / AsImmutableMap")
		return
	}
	good := false
	ast.Inspect(imp.Body, func(nd ast.Node) bool {
		if r, ok := nd.(*ast.ReturnStmt); ok && len(r.Results) == 2 {
			if call, ok := ast.Unparen(r.Results[0]).(*ast.CallExpr); ok {
				if fn := Callee(p, call); isMethodOf(fn, p.Types, "BuiltinModule", "AsImmutableMap") {
					good = true
				}
			}
		}
		return true
	})
	c.check(good, "BuiltinModule.Import/returns-immutable", imp, "Import returns AsImmutableMap(...)", "BuiltinModule.Import does not return the result of AsImmutableMap")
	n, bad := 0, 0
	ast.Inspect(asm.Body, func(nd ast.Node) bool {
		rs, ok := nd.(*ast.RangeStmt)
		if !ok {
			return true
		}
		ast.Inspect(rs.Body, func(m ast.Node) bool {
			if as, ok := m.(*ast.AssignStmt); ok && len(as.Lhs) == 1 {
				if _, ok := as.Lhs[0].(*ast.IndexExpr); ok {
					n++
					call, ok := ast.Unparen(as.Rhs[0]).(*ast.CallExpr)
					if !ok {
						bad++
					} else if fn := Callee(p, call); fn == nil || fn.Name() != "Copy" {
						bad++
					}
				}
			}
			return true
		})
		return true
	})
	c.check(n > 0 && bad == 0, "AsImmutableMap/attrs-copied", asm, "every attribute is stored as v.Copy()", "AsImmutableMap shares attribute objects with the module table instead of copying them")
	seq := seqKeys{}
	for _, s := range fi.Sinks {
		ctx := w.ctxKey(s.Pos)
		if fnNameOfCtx(ctx) == "BuiltinModule.AsImmutableMap" && s.Kind == skStoreImmValue {
			c.check(s.Local && s.Origin&^oFresh == 0, seq.next("AsImmutableMap/fresh-map"), &posNode{s.Pos}, "fresh map", "module map built from storage of origin "+originStr(s.Origin))
		}
	}
}
