package main

// rules_fmt.go: C17 — FMT.1-6 (LIMIT.2 is in rules_limits.go).

import (
	"fmt"
	"go/ast"
	"go/token"
	"go/types"
	"strings"

	"golang.org/x/tools/go/packages"
	"golang.org/x/tools/go/ssa"
)

func ruleFMT1(c *Ctx) {
	w := c.W
	p := w.Root
	entry := w.ssaFunc("", "", "Format")
	if entry == nil {
		c.anchor("tengo.Format")
		return
	}
	reach := w.reachable([]*ssa.Function{entry})
	table := map[string]panicClass{
		"pp.doFormat/recovered-value": {"reraise", "doFormat's recover converts ErrStringLimit into the returned error and re-raises anything else", func(c *Ctx, ps panicSite) (bool, string) {
			return premiseFormatRecover(c)
		}},
		"formatter.fmtInteger/fmt:_unknown_base;_can't": {"unreachable", "every call passes a literal base in {2, 8, 10, 16}", func(c *Ctx, ps panicSite) (bool, string) {
			return premiseLiteralBases(c)
		}},
	}
	n := 0
	seen := map[string]int{}
	for _, ps := range w.panicSites(reach) {
		pos := w.Fset.Position(ps.Pos)
		if !strings.HasSuffix(pos.Filename, "formatter.go") {
			continue // Object methods reachable through String()/TypeName() belong to C05's table
		}
		n++
		seen[ps.Key]++
		key := fmt.Sprintf("panic/%s#%d", ps.Key, seen[ps.Key])
		if ps.Call != nil && w.Src(ps.Call.Args[0]) == "ErrStringLimit" {
			good, why := premiseFormatRecover(c)
			c.check(good, key, &posNode{ps.Pos}, "limit guard: carries ErrStringLimit, converted to the returned error by doFormat's recover ["+why+"]", "limit panic is not converted: "+why)
			continue
		}
		cl, ok := table[ps.Key]
		if !ok {
			c.fail(key, &posNode{ps.Pos}, "explicit panic reachable from Format that is neither the limit error nor classified: format() could panic instead of returning a string or the limit error")
			continue
		}
		good, why := true, ""
		if cl.Premise != nil {
			good, why = cl.Premise(c, ps)
		}
		c.check(good, key, &posNode{ps.Pos}, cl.Class+": "+cl.Reason+" ["+why+"]", "premise failed: "+why)
	}
	if n < 6 {
		c.fail("panic/count", nil, fmt.Sprintf("expected >= 6 reachable panic sites in formatter.go, found %d", n))
	}
	_ = p
}

func premiseFormatRecover(c *Ctx) (bool, string) {
	w := c.W
	p := w.Root
	fd := w.FuncDecl(p, "pp.doFormat")
	if fd == nil || len(fd.Body.List) == 0 {
		return false, "pp.doFormat not found"
	}
	ds, ok := fd.Body.List[0].(*ast.DeferStmt)
	if !ok {
		return false, "doFormat's first statement is not a defer"
	}
	lit, ok := ds.Call.Fun.(*ast.FuncLit)
	if !ok {
		return false, "deferred call is not a function literal"
	}
	// the (single, named) error result of doFormat
	var resultObj types.Object
	if fd.Type.Results != nil && len(fd.Type.Results.List) == 1 && len(fd.Type.Results.List[0].Names) == 1 {
		resultObj = p.TypesInfo.Defs[fd.Type.Results.List[0].Names[0]]
	}
	rec := containsNode(lit, func(n ast.Node) bool {
		call, ok := n.(*ast.CallExpr)
		return ok && IsBuiltinCall(p, call, "recover")
	})
	conv := containsNode(lit, func(n ast.Node) bool {
		is, ok := n.(*ast.IfStmt)
		if !ok || !strings.Contains(w.Src(is.Cond), "== ErrStringLimit") {
			return false
		}
		return containsNode(is.Body, func(m ast.Node) bool {
			as, ok := m.(*ast.AssignStmt)
			if !ok || len(as.Lhs) != 1 {
				return false
			}
			id, ok := as.Lhs[0].(*ast.Ident)
			return ok && resultObj != nil && p.TypesInfo.Uses[id] == resultObj
		}) && terminates(is.Body)
	})
	rer := containsNode(lit, func(n ast.Node) bool {
		call, ok := n.(*ast.CallExpr)
		return ok && IsBuiltinCall(p, call, "panic")
	})
	// err must be a named result
	named := resultObj != nil
	if !(rec && conv && rer && named) {
		return false, "doFormat does not defer `recover → (ErrStringLimit → err) else re-panic` with a named error result"
	}
	return true, "deferred recover in doFormat"
}

func premiseLiteralBases(c *Ctx) (bool, string) {
	w := c.W
	p := w.Root
	n := 0
	var bad []string
	w.AllFuncDecls(p, func(fd *ast.FuncDecl) {
		ast.Inspect(fd.Body, func(nd ast.Node) bool {
			call, ok := nd.(*ast.CallExpr)
			if !ok || !isMethodOf(Callee(p, call), p.Types, "formatter", "fmtInteger") || len(call.Args) < 2 {
				return true
			}
			n++
			k, okc := ConstInt(p, call.Args[1])
			if !okc || (k != 2 && k != 8 && k != 10 && k != 16) {
				bad = append(bad, w.Site(call))
			}
			return true
		})
	})
	if len(bad) > 0 || n == 0 {
		return false, "fmtInteger is called with a base that is not a literal 2/8/10/16 at " + strings.Join(bad, ",")
	}
	return true, fmt.Sprintf("%d call sites, all literal bases", n)
}

func ruleFMT2(c *Ctx) {
	w := c.W
	p := w.Root
	widF, precF := structField(p.Types, "formatter", "wid"), structField(p.Types, "formatter", "prec")
	if widF == nil || precF == nil {
		c.anchor("formatter.wid / prec")
		return
	}
	seq := seqKeys{}
	w.AllFuncDecls(p, func(fd *ast.FuncDecl) {
		ast.Inspect(fd.Body, func(nd ast.Node) bool {
			as, ok := nd.(*ast.AssignStmt)
			if !ok {
				return true
			}
			for i, l := range as.Lhs {
				f, _ := FieldSel(p, l)
				if f != widF && f != precF {
					continue
				}
				key := seq.next("bounded/" + funcName(fd) + "/" + f.Name())
				good, how := false, ""
				if len(as.Rhs) == 1 && len(as.Lhs) > 1 {
					if call, ok := as.Rhs[0].(*ast.CallExpr); ok {
						if fn := Callee(p, call); fn != nil && (fn.Name() == "parsenum" || fn.Name() == "intFromArg") && i == 0 {
							good, how = true, "first result of "+fn.Name()+" (rejects magnitudes beyond tooLarge)"
						}
					}
				} else if len(as.Rhs) == len(as.Lhs) {
					r := ast.Unparen(as.Rhs[i])
					if _, ok := ConstInt(p, r); ok {
						good, how = true, "constant"
					} else if u, ok := r.(*ast.UnaryExpr); ok && u.Op == token.SUB {
						if g, _ := FieldSel(p, u.X); g == f {
							good, how = true, "negation of itself"
						}
					}
				}
				c.check(good, key, as, "assigned from "+how, "formatter."+f.Name()+" is assigned from "+w.Src(as)+": width/precision must come from parsenum/intFromArg (bounded by tooLarge), a constant, or its own negation - buffers are sized from wid+prec")
			}
			return true
		})
	})
	// the bound itself: parsenum and intFromArg consult tooLarge
	for _, name := range []string{"parsenum", "intFromArg"} {
		fd := w.FuncDecl(p, name)
		if fd == nil {
			c.anchor(name)
			continue
		}
		uses := containsNode(fd.Body, func(n ast.Node) bool {
			is, ok := n.(*ast.IfStmt)
			if !ok {
				return false
			}
			return containsNode(is.Cond, func(m ast.Node) bool {
				call, ok := m.(*ast.CallExpr)
				return ok && Callee(p, call) != nil && Callee(p, call).Name() == "tooLarge"
			})
		})
		c.check(uses, "bounded/"+name+"/tooLarge", fd, "rejects numbers beyond tooLarge", name+" no longer consults tooLarge")
	}
	if tl := w.FuncDecl(p, "tooLarge"); tl != nil {
		// const max <= 1e6-ish and symmetric comparison
		okc := false
		ast.Inspect(tl.Body, func(n ast.Node) bool {
			vs, ok := n.(*ast.ValueSpec)
			if ok && len(vs.Values) == 1 {
				if k, ok := ConstInt(p, vs.Values[0]); ok && k > 0 && k <= 1<<24 {
					okc = true
				}
			}
			return true
		})
		// x > max and x < -max, in either spelling
		up, down := false, false
		ast.Inspect(tl.Body, func(n ast.Node) bool {
			e, ok := n.(ast.Expr)
			if !ok {
				return true
			}
			if b, ok := gtExpr(e); ok && b.Op == token.GTR {
				_, bigIsParam := ast.Unparen(b.X).(*ast.Ident)
				_, smallIsNeg := ast.Unparen(b.Y).(*ast.UnaryExpr)
				_, bigIsNeg := ast.Unparen(b.X).(*ast.UnaryExpr)
				if bigIsParam && !smallIsNeg && !bigIsNeg {
					up = true // x > max
				}
				if bigIsNeg {
					down = true // -max > x
				}
			}
			return true
		})
		sym := up && down
		c.check(okc && sym, "bounded/tooLarge", tl, "|x| > max with a small constant max", "tooLarge no longer bounds the magnitude by a small constant on both sides")
	}
}

func ruleFMT3(c *Ctx) {
	w := c.W
	p := w.Root
	fd := w.FuncDecl(p, "Format")
	if fd == nil {
		c.anchor("Format")
		return
	}
	in := stmtIndexWithCall(w, fd.Body.List, func(call *ast.CallExpr) bool { fn := Callee(p, call); return fn != nil && fn.Name() == "newPrinter" })
	id := stmtIndexWithCall(w, fd.Body.List, func(call *ast.CallExpr) bool { return isMethodOf(Callee(p, call), p.Types, "pp", "doFormat") })
	is := -1
	for i, s := range fd.Body.List {
		if as, ok := s.(*ast.AssignStmt); ok && len(as.Rhs) == 1 && strings.HasPrefix(w.Src(as.Rhs[0]), "string(") && strings.HasSuffix(w.Src(as.Rhs[0]), ".buf)") {
			is = i
		}
	}
	ifr := stmtIndexWithCall(w, fd.Body.List, func(call *ast.CallExpr) bool { return isMethodOf(Callee(p, call), p.Types, "pp", "free") })
	noEarly := !containsNode(&ast.BlockStmt{List: fd.Body.List[:len(fd.Body.List)-1]}, func(n ast.Node) bool { _, ok := n.(*ast.ReturnStmt); return ok })
	c.check(in >= 0 && id > in && is > id && ifr > is && noEarly, "printer/get-format-copy-free", fd, "newPrinter → doFormat → copy the buffer to a string → free, on the only path", "Format must obtain a printer, format, copy the buffer into the result string and only then free the printer (the buffer is reused through a sync.Pool), with no early return")
	// doFormat clears per-directive state at each '%'
	df := w.FuncDecl(p, "pp.doFormat")
	if df == nil {
		c.anchor("doFormat")
		return
	}
	var loop *ast.ForStmt
	for _, s := range df.Body.List {
		switch x := s.(type) {
		case *ast.LabeledStmt:
			if f, ok := x.Stmt.(*ast.ForStmt); ok {
				loop = f
			}
		case *ast.ForStmt:
			if loop == nil {
				loop = x
			}
		}
	}
	cleared := false
	if loop != nil {
		for _, s := range loop.Body.List {
			if es, ok := s.(*ast.ExprStmt); ok {
				if call, ok := es.X.(*ast.CallExpr); ok && isMethodOf(Callee(p, call), p.Types, "formatter", "clearFlags") {
					cleared = true
				}
			}
		}
	}
	c.check(cleared, "directive/flags-cleared", df, "flags are cleared at every directive", "doFormat does not clear the formatter flags at the start of each directive: flags leak from one verb to the next (the printer is also reused across calls)")
	cf := w.FuncDecl(p, "formatter.clearFlags")
	if cf != nil {
		good := len(cf.Body.List) == 1 && strings.Contains(w.Src(cf.Body.List[0]), "fmtFlags{}")
		c.check(good, "directive/clearFlags-resets-all", cf, "clearFlags resets the whole flag struct", "clearFlags does not reset the whole fmtFlags struct")
	}
	// newPrinter re-initialises; free resets the buffer
	np := w.FuncDecl(p, "newPrinter")
	fr := w.FuncDecl(p, "pp.free")
	if np != nil && fr != nil {
		initOK := containsNode(np.Body, func(n ast.Node) bool {
			call, ok := n.(*ast.CallExpr)
			return ok && isMethodOf(Callee(p, call), p.Types, "formatter", "init")
		})
		resetOK := containsNode(fr.Body, func(n ast.Node) bool {
			as, ok := n.(*ast.AssignStmt)
			return ok && len(as.Lhs) == 1 && strings.HasSuffix(w.Src(as.Lhs[0]), ".buf") && strings.HasSuffix(w.Src(as.Rhs[0]), ".buf[:0]")
		})
		c.check(initOK && resetOK, "printer/pool-hygiene", np, "a pooled printer is re-initialised on get and its buffer truncated on put", "pooled printer state can leak between Format calls")
	}
}

// caseTable: for the first switch in fd whose tag is `tagName`, map each case
// constant to the canonical text of its clause body.
func caseTable(w *World, p *packages.Package, fd *ast.FuncDecl, tagName string, subst map[string]string) map[string]string {
	out := map[string]string{}
	done := false
	// tagName "verb": the function's parameter of type rune (whatever it is called)
	isTag := func(e ast.Expr) bool {
		id, ok := ast.Unparen(e).(*ast.Ident)
		if !ok {
			return false
		}
		if tagName == "flag-char" {
			return true // chosen by its case constants, see below
		}
		if tagName != "verb" {
			return id.Name == tagName
		}
		o := p.TypesInfo.Uses[id]
		for _, f := range fd.Type.Params.List {
			for _, nm := range f.Names {
				if p.TypesInfo.Defs[nm] == o && types.TypeString(o.Type(), nil) == "rune" {
					return true
				}
			}
		}
		return false
	}
	ast.Inspect(fd.Body, func(n ast.Node) bool {
		sw, ok := n.(*ast.SwitchStmt)
		if !ok || sw.Tag == nil || done || !isTag(sw.Tag) {
			return true
		}
		if tagName == "flag-char" {
			// the switch over the flag characters: has a case for '#'
			has := false
			for _, cs := range sw.Body.List {
				for _, e := range cs.(*ast.CaseClause).List {
					if k, ok := ConstInt(p, e); ok && k == '#' {
						has = true
					}
				}
			}
			if !has {
				return true
			}
		}
		done = true
		for _, cs := range sw.Body.List {
			cc := cs.(*ast.CaseClause)
			body := canonStmts(p, fd, cc.Body, subst)
			if cc.List == nil {
				out["default"] = body
			}
			for _, e := range cc.List {
				if tv, ok := p.TypesInfo.Types[e]; ok && tv.Value != nil {
					out[tv.Value.ExactString()] = body
				}
			}
		}
		return false
	})
	return out
}

// fmtSubst maps the names the port changed onto common ones.
var fmtSubst = map[string]string{"formatter": "$F", "fmt": "$F", "fmtbuf": "$B", "buffer": "$B",
	"WriteSingleByte": "writeByte", "WriteString": "writeString", "Write": "write", "WriteRune": "writeRune", "clearFlags": "clearflags"}

var fmtPortIdentical = []string{
	"formatter.fmtBoolean", "formatter.fmtUnicode", "formatter.truncateString", "formatter.truncate",
	"formatter.fmtS", "formatter.fmtBs", "formatter.fmtSx", "formatter.fmtBx", "formatter.fmtQ", "formatter.fmtQc",
	"pp.Width", "pp.Precision", "pp.Flag", "tooLarge", "parsenum", "pp.fmtBool", "pp.fmt0x64", "pp.fmtFloat",
	"pp.fmtString", "parseArgNumber", "pp.argNumber", "formatter.pad", "formatter.padString",
}

// fmtNearPorts: functions that are ports with a few known differences. Every
// statement (flattened, alpha-normalised) that is not matched in the reference
// must be explained: a MaxStringLen guard added by the port, or a tabled
// difference recognised by a marker (substring of the tengo statement's source,
// or of the reference statement's canonical form). One line of reason each.
var fmtNearPorts = map[string]struct {
	tengo, ref []string
	why        string
}{
	"formatter.writePadding": {[]string{"=if _ SelectorExpr ($1 () zero () ) |"}, []string{"zero", "minus"}, "newer fmt ignores the 0 flag when - is set inside writePadding; the port predates it (version skew, flag handling is in doFormat)"},
	"formatter.fmtInteger":   {[]string{"zero () ) SelectorExpr ($1 () widPresent"}, []string{"widPresent"}, "same version skew in the zero-padding condition"},
	"formatter.fmtSbx":       {nil, nil, "only the limit guard differs"},
	"formatter.fmtC":         {[]string{"EncodeRune", "pad () ) SliceExpr"}, []string{"AppendRune"}, "utf8.AppendRune did not exist when the port was made"},
	"pp.fmtInteger":          {[]string{"MaxRune", "badVerb"}, nil, "the port keeps the `v <= utf8.MaxRune` guard of %q"},
	"pp.fmtBytes": {[]string{"writeByte () ) '[' ()", "range:=", "if _ bin< (0 ()", "writeByte () ) ' ' ()", "fmtInteger () ) call (uint64", "writeByte () ) ']' ()"}, []string{"printValue"},
		"other verbs: fmt falls back to reflection, which formats the bytes one by one as integers; the port's default arm does that directly"},
	"pp.badVerb": {[]string{"arg () ) String ()", "UndefinedValue () String ()"}, []string{"TypeOf", "IsValid", "Type ()", "printValue", "\"<nil>\"", "'=' ()"}, "objects print through String(); there is no reflect.Value (the visible difference is the listed finding diverges/bad-verb-shows-value)"},
	"intFromArg": {[]string{"DeclStmt", "ToInt64", "call (int () $", "if _ call (tooLarge", "() 0 () ) |"}, []string{"TypeAssertExpr", "un! ($5", "switch assign:=", "=case", "case Int ()", "case Uint ()", "SelectorExpr ($6 () Int ()", "SelectorExpr ($6 () Uint ()", "bin== (call (int64", "bin&& (bin<= (0", "assign= ($4 () call (int ()", "assign= ($5 () true ()", "tooLarge", "assign= ($4 () 0 ()"},
		"the argument is converted with ToInt64 instead of a type switch over Go's integer kinds (the visible difference is the listed finding diverges/star-arg-accepts-non-int)"},
	"pp.doFormat": {[]string{"=defer", "zero () ) un! (", "zero () ) false ()", "'v' () ) |", "UndefinedValue () String ()", "TypeName ()", "ReturnStmt (nil ()"},
		[]string{"zero () ) true", "switch _ $", "wrappedErrs", "fallthrough", "'w' ()", "=case 'v' () |", "\"<nil>\"", "TypeOf"},
		"doPrintf of a newer fmt: %w bookkeeping, '0' after '-' handled in the flag switch, objects print through TypeName()/String(); the recover wrapper and the error result are the port's"},
	"pp.badArgNum":  {nil, nil, "writes go through pp's Write* methods"},
	"pp.missingArg": {nil, nil, "writes go through pp's Write* methods"},
}

func ruleFMT4(c *Ctx) {
	w := c.W
	p := w.Root
	ref, err := w.loadRef("fmt")
	if err != nil {
		c.anchor("reference package fmt: " + err.Error())
		return
	}
	sub := fmtSubst
	refName := func(n string) string {
		n = strings.Replace(n, "formatter.", "fmt.", 1)
		return strings.Replace(n, "fmtbuf.", "buffer.", 1)
	}
	// FMT.4: verb dispatch tables equal the reference's, verb by verb
	for _, fn := range []string{"pp.fmtBool", "pp.fmtInteger", "pp.fmtFloat", "pp.fmtString", "pp.fmtBytes"} {
		mf, rf := w.FuncDecl(p, fn), w.FuncDecl(ref, fn)
		if mf == nil || rf == nil {
			c.anchor(fn + " in tengo / fmt")
			continue
		}
		a, b := caseTable(w, p, mf, "verb", sub), caseTable(w, ref, rf, "verb", sub)
		verbs := map[string]bool{}
		for k := range a {
			verbs[k] = true
		}
		for k := range b {
			verbs[k] = true
		}
		for _, v := range sortedKeys(verbs) {
			vn := v
			if v != "default" {
				var r int
				fmt.Sscanf(v, "%d", &r)
				vn = "%" + string(rune(r))
			}
			key := fmt.Sprintf("verb/%s/%s", fn, vn)
			if fmtVerbSkew[fn+"/"+vn] != "" {
				c.ok(key, mf, "tabled version skew: "+fmtVerbSkew[fn+"/"+vn])
				continue
			}
			x, okx := a[v]
			y, oky := b[v]
			// only single-statement arms are compared: longer arms differ from the
			// reference in how they write to the buffer, not in what they dispatch to
			if strings.Count(x, ";") > 1 || strings.Count(y, ";") > 1 || strings.Contains(x, "ForStmt") || strings.Contains(y, "ForStmt") || strings.Contains(x, "RangeStmt") || strings.Contains(y, "RangeStmt") {
				continue
			}
			if !okx || !oky {
				c.fail(key, mf, fmt.Sprintf("verb %s is handled by only one of tengo's and fmt's %s", vn, fn))
				continue
			}
			c.check(x == y, key, mf, "dispatch arm identical to fmt's", fmt.Sprintf("%s handles %s differently from fmt: %s", fn, vn, firstDiff(x, y)))
		}
	}
	// flag characters of the directive parser
	md, rd := w.FuncDecl(p, "pp.doFormat"), w.FuncDecl(ref, "pp.doPrintf")
	if md == nil || rd == nil {
		c.anchor("doFormat / fmt's doPrintf")
	} else {
		a, b := caseTable(w, p, md, "flag-char", sub), caseTable(w, ref, rd, "flag-char", sub)
		// '0' and '-' are not compared: newer fmt resolves their interaction later (in
		// the padding code) instead of in the parser - a version skew, not a defect
		for _, ch := range []string{"35", "43", "32"} { // # + space
			var r int
			fmt.Sscanf(ch, "%d", &r)
			x, okx := a[ch]
			y, oky := b[ch]
			c.check(okx && oky && x == y, fmt.Sprintf("flag/%q", rune(r)), md, "flag handled as in fmt", fmt.Sprintf("flag %q is handled differently from fmt: %s", rune(r), firstDiff(x, y)))
		}
	}
	// FMT.5: functions that are verbatim ports stay identical to the reference
	for _, fn := range fmtPortIdentical {
		mf, rf := w.FuncDecl(p, fn), w.FuncDecl(ref, refName(fn))
		if mf == nil || rf == nil {
			c.fail("port/"+fn, mf, "ported function missing in tengo or in the reference fmt")
			continue
		}
		a, b := canonFuncBody(p, mf, sub), canonFuncBody(ref, rf, sub)
		c.check(a == b, "port/"+fn, mf, "identical to fmt's (alpha-normalised)", fmt.Sprintf("%s diverges from the fmt function it ports: %s", fn, firstDiff(a, b)))
	}
}

func fmtRefName(fn string) string {
	if fn == "pp.doFormat" {
		return "pp.doPrintf"
	}
	return strings.Replace(strings.Replace(fn, "formatter.", "fmt.", 1), "fmtbuf.", "buffer.", 1)
}

// fmtHelpers resolves calls to unexported functions of package tengo that
// have no counterpart in fmt: helpers a refactoring extracted from a port.
func fmtHelpers(w *World, p, ref pkgT) helperLookup {
	decl := map[*types.Func]*ast.FuncDecl{}
	w.AllFuncDecls(p, func(fd *ast.FuncDecl) {
		if fn, ok := p.TypesInfo.Defs[fd.Name].(*types.Func); ok {
			decl[fn] = fd
		}
	})
	refNames := map[string]bool{}
	w.AllFuncDecls(ref, func(fd *ast.FuncDecl) { refNames[strings.ToLower(funcName(fd))] = true })
	return func(call *ast.CallExpr) *ast.FuncDecl {
		fd := decl[Callee(p, call)]
		if fd == nil || ast.IsExported(fd.Name.Name) || refNames[strings.ToLower(fmtRefName(funcName(fd)))] {
			return nil
		}
		return fd
	}
}

// FMT.6: near-ports (see fmtNearPorts).
func ruleFMT6(c *Ctx) {
	w := c.W
	p := w.Root
	ref, err := w.loadRef("fmt")
	if err != nil {
		c.anchor("reference package fmt: " + err.Error())
		return
	}
	checkNearPorts(c, p, ref, "fmt", fmtNearPorts, fmtSubst, fmtRefName, fmtHelpers(w, p, ref), []string{"ErrStringLimit", "MaxStringLen"})
}

type nearPort struct {
	tengo, ref []string
	why        string
}

// checkNearPorts compares each tabled function with the reference function it
// ports, statement by statement (flattened, alpha-normalised, longest common
// subsequence). A statement without counterpart must be one of the port's own
// guards (a source substring from portGuards) or match a tabled marker.
func checkNearPorts(c *Ctx, p, ref pkgT, refPkg string, table map[string]struct {
	tengo, ref []string
	why        string
}, subst map[string]string, refName func(string) string, helpers helperLookup, portGuards []string) {
	w := c.W
	for _, fn := range sortedKeys(table) {
		tab := table[fn]
		rn := refName(fn)
		mf, rf := w.FuncDecl(p, fn), w.FuncDecl(ref, rn)
		if mf == nil || rf == nil {
			c.fail("near-port/"+fn, mf, "ported function missing here or in the reference package "+refPkg)
			continue
		}
		var hs []helperLookup
		if helpers != nil {
			hs = append(hs, helpers)
		}
		oa, ob := lcsDiff(flattenBody(p, mf, subst, hs...), flattenBody(ref, rf, subst))
		var probs []string
		for _, s := range oa {
			if strings.HasPrefix(s.Text, "end-") || s.Text == "else" {
				continue // structure markers follow their header
			}
			src := w.Src(s.Node)
			ok := false
			for _, g := range portGuards {
				ok = ok || strings.Contains(s.Text, g) || strings.Contains(src, g)
			}
			// markers are matched on the canonical form, which does not
			// mention what the locals are called
			for _, m := range tab.tengo {
				if strings.HasPrefix(m, "=") {
					ok = ok || strings.TrimSpace(s.Text) == m[1:]
				} else {
					ok = ok || strings.Contains(s.Text, m)
				}
			}
			if !ok {
				probs = append(probs, fmt.Sprintf("statement without counterpart `%.80s` (%s)", src, w.Site(s.Node)))
			}
		}
		for _, s := range ob {
			if strings.HasPrefix(s.Text, "end-") || s.Text == "else" {
				continue
			}
			ok := false
			for _, m := range tab.ref {
				if strings.HasPrefix(m, "=") {
					ok = ok || strings.TrimSpace(s.Text) == m[1:]
				} else {
					ok = ok || strings.Contains(s.Text, m)
				}
			}
			if !ok {
				pos := ref.Fset.Position(s.Node.Pos()).String()
				probs = append(probs, fmt.Sprintf("statement of %s.%s without counterpart: `%.80s`", refPkg, rn, pos[strings.LastIndex(pos, "/")+1:]+" "+s.Text))
			}
		}
		why := "equal to " + refPkg + "'s"
		if tab.why != "" {
			why += " up to the port's guards and the tabled difference (" + tab.why + ")"
		}
		c.check(len(probs) == 0, "near-port/"+fn, mf, why, fn+" diverges from the "+refPkg+" function it ports beyond the tabled differences: "+strings.Join(probs, "; "))
	}
}

// FMT.7: printArg's type dispatch. fmt switches on Go types, the port on
// tengo's object types; an arm for T (whose Value field has Go type G) must
// be fmt's arm for G with `f.Value` in place of `f` (Bool: `!f.IsFalsy()`),
// the default arm formats f.String() as a string, and %T / %v are served
// first from TypeName() / String().
func ruleFMT7(c *Ctx) {
	w := c.W
	p := w.Root
	ref, err := w.loadRef("fmt")
	if err != nil {
		c.anchor("reference package fmt: " + err.Error())
		return
	}
	mf, rf := w.FuncDecl(p, "pp.printArg"), w.FuncDecl(ref, "pp.printArg")
	if mf == nil || rf == nil {
		c.anchor("pp.printArg in tengo / fmt")
		return
	}
	typeSwitch := func(fd *ast.FuncDecl) *ast.TypeSwitchStmt {
		var ts *ast.TypeSwitchStmt
		ast.Inspect(fd.Body, func(n ast.Node) bool {
			if x, ok := n.(*ast.TypeSwitchStmt); ok && ts == nil {
				ts = x
			}
			return true
		})
		return ts
	}
	mts, rts := typeSwitch(mf), typeSwitch(rf)
	if mts == nil || rts == nil {
		c.anchor("type switch of printArg")
		return
	}
	render := func(pk pkgT, fd *ast.FuncDecl, cc *ast.CaseClause) string {
		cz := newCanon(pk, fd, fmtSubst)
		if fd.Recv != nil {
			cz.node(fd.Recv)
		}
		cz.node(fd.Type.Params)
		cz.b.Reset()
		if o := pk.TypesInfo.Implicits[cc]; o != nil {
			cz.names[o] = "\x00$F () "
		}
		for _, s := range cc.Body {
			cz.node(s)
			cz.b.WriteString("; ")
		}
		return strings.Join(strings.Fields(cz.b.String()), " ")
	}
	// reference arms by Go type
	refArm := map[string]string{}
	for _, cl := range rts.Body.List {
		cc := cl.(*ast.CaseClause)
		for _, e := range cc.List {
			if tv, ok := ref.TypesInfo.Types[e]; ok && tv.IsType() {
				refArm[types.TypeString(tv.Type, nil)] = render(ref, rf, cc)
			}
		}
	}
	n := 0
	hasDefault := false
	for _, cl := range mts.Body.List {
		cc := cl.(*ast.CaseClause)
		if cc.List == nil {
			hasDefault = true
			got := render(p, mf, cc)
			want := strings.ReplaceAll(refArm["string"], "$F () ", "call (SelectorExpr ($F () String () ) ) ")
			c.check(got == want && want != "", "printarg/default", cc, "any other object is formatted as the string its String() yields", "the default arm of printArg is not fmt's string arm applied to f.String(): "+firstDiff(got, want))
			n++
			continue
		}
		for _, e := range cc.List {
			tn, _ := namedName(p.TypesInfo.Types[e].Type)
			key := "printarg/" + tn
			n++
			var g string
			valueExpr := "SelectorExpr ($F () Value () ) "
			if tn == "Bool" {
				g = "bool"
				valueExpr = "un! (call (SelectorExpr ($F () IsFalsy () ) ) ) "
			} else if f := structField(p.Types, tn, "Value"); f != nil {
				g = types.TypeString(f.Type(), nil)
			}
			want, ok := refArm[g]
			if !ok {
				c.fail(key, cc, fmt.Sprintf("no arm for Go type %q in fmt's printArg to compare the %s arm with", g, tn))
				continue
			}
			got := strings.ReplaceAll(render(p, mf, cc), valueExpr, "$F () ")
			c.check(got == want, key, cc, "fmt's arm for "+g+" applied to the object's value", fmt.Sprintf("the %s arm of printArg is not fmt's arm for %s applied to the value: %s", tn, g, firstDiff(got, want)))
		}
	}
	c.check(hasDefault, "printarg/has-default", mts, "objects without a dedicated arm are still formatted", "printArg has no default arm")
	// %T and %v first
	prelude := map[string]string{}
	ast.Inspect(mf.Body, func(nd ast.Node) bool {
		sw, ok := nd.(*ast.SwitchStmt)
		if !ok || sw.Tag == nil {
			return true
		}
		// the switch on the verb parameter (the rune parameter, whatever it is called)
		tid, isId := ast.Unparen(sw.Tag).(*ast.Ident)
		if !isId {
			return true
		}
		isVerb := false
		for _, f := range mf.Type.Params.List {
			for _, nm := range f.Names {
				if p.TypesInfo.Defs[nm] == p.TypesInfo.Uses[tid] && types.TypeString(p.TypesInfo.Defs[nm].Type(), nil) == "rune" {
					isVerb = true
				}
			}
		}
		if !isVerb {
			return true
		}
		for _, cl := range sw.Body.List {
			cc := cl.(*ast.CaseClause)
			for _, e := range cc.List {
				if k, ok := ConstInt(p, e); ok {
					prelude[string(rune(k))] = strings.ReplaceAll(w.Src(cc), " ", "")
				}
			}
		}
		return false
	})
	// %v is not special: the typed arms handle it (fmt's defaults %t %d %g %s);
	// %T is: fmt prints the Go type of the value
	_, vSpecial := prelude["v"]
	c.check(!vSpecial, "printarg/%v", mf, "%v goes through the type dispatch (default formats of fmt)", "%v is served before the type dispatch: strings would print quoted, floats and bytes not in fmt's default formats")
	c.check(!strings.Contains(prelude["T"], "TypeName()"), "printarg/%T", mf, "%T prints the Go type as fmt does", "%T prints the tengo type name (TypeName()) where fmt prints the Go type of the value")
	if n < 6 {
		c.fail("printarg/count", mf, fmt.Sprintf("only %d arms examined", n))
	}
	// visible differences of the port that the property does not exempt
	if bv := w.FuncDecl(p, "pp.badVerb"); bv != nil {
		showsValue := containsNode(bv.Body, func(nd ast.Node) bool {
			call, ok := nd.(*ast.CallExpr)
			if !ok {
				return false
			}
			se, ok := call.Fun.(*ast.SelectorExpr)
			return ok && se.Sel.Name == "String" && strings.HasSuffix(w.Src(se.X), ".arg")
		})
		c.check(!showsValue, "diverges/bad-verb-shows-value", bv, "a bad verb is reported as %!verb(type=value)", "a bad verb is reported as %!verb(value=value): the place where fmt prints the Go type shows the value's String() (`%d` of \"abc\" gives %!d(\"abc\"=abc), fmt gives %!d(string=abc))")
	}
	if ia := w.FuncDecl(p, "intFromArg"); ia != nil {
		lenient := containsNode(ia.Body, func(nd ast.Node) bool {
			call, ok := nd.(*ast.CallExpr)
			return ok && Callee(p, call) != nil && Callee(p, call).Name() == "ToInt64"
		})
		c.check(!lenient, "diverges/star-arg-accepts-non-int", ia, "a `*` width or precision must be an int", "a `*` width/precision argument is converted with ToInt64, which also accepts floats, strings and bools: `%*d` with width 3.0 pads where fmt prints %!(BADWIDTH)")
	}
}

// FMT.8: the script-level entry points hand every format string to Format;
// none returns the format string itself (a lone format string still has
// directives: %% and verbs with missing arguments).
func ruleFMT8(c *Ctx) {
	w := c.W
	n := 0
	for _, it := range []struct {
		p    pkgT
		name string
	}{{w.Root, "builtinFormat"}, {w.Stdlib, "fmtSprintf"}} {
		fd := w.FuncDecl(it.p, it.name)
		if fd == nil {
			c.anchor(it.name)
			continue
		}
		n++
		p := it.p
		// no path hands an existing string object (the format argument) back
		// as the result: a variable of type *String, or an element of args
		raw := containsNode(fd.Body, func(nd ast.Node) bool {
			r, ok := nd.(*ast.ReturnStmt)
			if !ok || len(r.Results) == 0 {
				return false
			}
			e := ast.Unparen(r.Results[0])
			if ix, ok := e.(*ast.IndexExpr); ok {
				_ = ix
				return true // args[i]
			}
			id, ok := e.(*ast.Ident)
			if !ok {
				return false
			}
			v, ok := p.TypesInfo.ObjectOf(id).(*types.Var)
			return ok && namedIs(v.Type(), w.Root.Types, "String")
		})
		calls := containsNode(fd.Body, func(nd ast.Node) bool {
			call, ok := nd.(*ast.CallExpr)
			return ok && Callee(p, call) != nil && Callee(p, call).Name() == "Format"
		})
		c.check(calls && !raw, "entry/"+it.name, fd, "every format string goes through Format", it.name+" returns the format string unformatted on some path: `%%` stays `%%` and a verb without argument is not reported as %!verb(MISSING)")
	}
	if n < 2 {
		c.fail("entry/count", nil, "format entry points not found")
	}
}

var fmtVerbSkew = map[string]string{
	"pp.fmtBytes/default": "fmt falls back to reflection for other verbs on byte slices; tengo has no reflection path (undocumented verbs)",
	"pp.fmtInteger/%q":    "tengo keeps the `v <= utf8.MaxRune` guard of the fmt it was ported from (the property lists %q on non-code-point ints as version skew)",
}

var _ = types.Typ

// FMT.5: temporary overrides of formatter flags are restored on every path.
// The flags live in the formatter shared by all verbs of a directive (and by
// every element when a verb formats a sequence), so an override that is not
// undone leaks into the rest of the directive.
func ruleFMT5(c *Ctx) {
	w := c.W
	p := w.Root
	ff := p.Types.Scope().Lookup("fmtFlags")
	if ff == nil {
		c.anchor("type fmtFlags")
		return
	}
	st, _ := ff.Type().Underlying().(*types.Struct)
	flag := map[*types.Var]bool{}
	for i := 0; st != nil && i < st.NumFields(); i++ {
		flag[st.Field(i)] = true
	}
	parser := map[string]bool{"pp.doFormat": true, "formatter.clearFlags": true, "formatter.init": true}
	// helpers of the directive parser: unexported functions all of whose
	// (type-resolved) callers are already part of it set flags for the
	// directive being parsed, exactly like code written inline in doFormat
	callers := map[string]map[string]bool{}
	declOf := map[*types.Func]string{}
	w.AllFuncDecls(p, func(fd *ast.FuncDecl) {
		if fn, ok := p.TypesInfo.Defs[fd.Name].(*types.Func); ok {
			declOf[fn] = funcName(fd)
		}
	})
	w.AllFuncDecls(p, func(fd *ast.FuncDecl) {
		ast.Inspect(fd.Body, func(nd ast.Node) bool {
			if call, ok := nd.(*ast.CallExpr); ok {
				if name, ok := declOf[Callee(p, call)]; ok {
					if callers[name] == nil {
						callers[name] = map[string]bool{}
					}
					callers[name][funcName(fd)] = true
				}
			}
			return true
		})
	})
	// (one level, and only call-free helpers: a helper that goes on to format
	// something is not part of the parser)
	callFree := map[string]bool{}
	w.AllFuncDecls(p, func(fd *ast.FuncDecl) {
		free := true
		ast.Inspect(fd.Body, func(nd ast.Node) bool {
			if call, ok := nd.(*ast.CallExpr); ok {
				isBuiltin := false
				if id, ok := ast.Unparen(call.Fun).(*ast.Ident); ok {
					_, isBuiltin = p.TypesInfo.Uses[id].(*types.Builtin)
				}
				if tv, ok := p.TypesInfo.Types[call.Fun]; !isBuiltin && (!ok || !tv.IsType()) {
					free = false
				}
			}
			return true
		})
		callFree[funcName(fd)] = free
	})
	base := map[string]bool{}
	for k := range parser {
		base[k] = true
	}
	for name, cs := range callers {
		short := name[strings.LastIndex(name, ".")+1:]
		if parser[name] || ast.IsExported(short) || !callFree[name] {
			continue
		}
		all := true
		for cn := range cs {
			if !base[cn] {
				all = false
			}
		}
		if all {
			parser[name] = true
		}
	}
	n := 0
	w.AllFuncDecls(p, func(fd *ast.FuncDecl) {
		if parser[funcName(fd)] {
			return
		}
		// saved copies: old := f.X
		saved := map[types.Object]*types.Var{}
		ast.Inspect(fd.Body, func(nd ast.Node) bool {
			as, ok := nd.(*ast.AssignStmt)
			if !ok || as.Tok != token.DEFINE || len(as.Lhs) != 1 || len(as.Rhs) != 1 {
				return true
			}
			if f, _ := FieldSel(p, as.Rhs[0]); f != nil && flag[f] {
				if id, ok := as.Lhs[0].(*ast.Ident); ok {
					saved[p.TypesInfo.Defs[id]] = f
				}
			}
			return true
		})
		isRestore := func(s ast.Stmt, f *types.Var) bool {
			as, ok := s.(*ast.AssignStmt)
			if !ok || len(as.Lhs) != 1 || len(as.Rhs) != 1 {
				return false
			}
			lf, _ := FieldSel(p, as.Lhs[0])
			if lf != f {
				return false
			}
			id, ok := ast.Unparen(as.Rhs[0]).(*ast.Ident)
			return ok && saved[p.TypesInfo.Uses[id]] == f
		}
		inspectWithStack(fd.Body, func(nd ast.Node, stack []ast.Node) bool {
			as, ok := nd.(*ast.AssignStmt)
			if !ok || len(as.Lhs) != 1 || len(as.Rhs) != 1 {
				return true
			}
			f, _ := FieldSel(p, as.Lhs[0])
			if f == nil || !flag[f] || isRestore(as, f) {
				return true
			}
			n++
			cont, _ := contStmts(stack)
			r := pathSeq(cont, func(s ast.Stmt) bool { return isRestore(s, f) })
			// reaching the end of the function without restoring is also a failure
			c.check(r == pHit, fmt.Sprintf("flag-restored/%s/%s#%d", funcName(fd), f.Name(), n), as, "temporary override of flag "+f.Name()+" is undone on every path", "flag "+f.Name()+" is overridden in "+funcName(fd)+" and not restored from its saved value on every path: the override leaks into the remaining elements/verbs formatted with the same formatter")
			return true
		})
	})
	if n < 5 {
		c.fail("flag-restored/count", nil, fmt.Sprintf("expected >= 5 temporary flag overrides, found %d", n))
	}
}
