package main

// inline.go: the "helpers inlined" view of the tree.
//
// Most false alarms on behaviour-preserving refactorings come from one kind of
// edit: a few statements (or an expression) are moved into a small unexported
// helper, and a rule that reads the function no longer sees them. Rather than
// teach every rule to follow helpers, a violation is counted only if the same
// rule also reports on a second view of the tree in which small helpers are
// inlined back into their callers (source to source, then type-checked and
// analysed like the original). The view is built only when the tree as written
// has violations, so the unchanged tree never pays for it.
//
// A helper is inlined when it is unexported, not recursive, small, free of
// defer / go / recover / closures / labels, has no named results and a pointer
// (or no) receiver, and the call has one of these shapes:
//   E  any call of a helper whose body is `return <expr>`   -> the expression
//   S  `h(args)` as a statement, helper without results      -> its statements
//      (leading `if c { return }` guards become `if !c { rest }`)
//   V  `x, y := h(args)` / `x = h(args)`, helper whose only return is its last
//      statement                                             -> statements + assignment
//   R  `return h(args)[, more]`                              -> statements, every
//      `return r` of the helper becoming `return r[, more]`
// Parameters are replaced by the argument expressions when these are free of
// calls (otherwise a temporary is introduced); the helper's locals get unique
// names. The view is for reading, not for running: it is type-checked, and if
// it does not build the violations of the tree as written stand.

import (
	"bytes"
	"fmt"
	"go/ast"
	"go/format"
	"go/token"
	"go/types"
	"os"
	"path/filepath"
	"reflect"
	"strings"
	"unicode"

	"golang.org/x/tools/go/ast/astutil"
	"golang.org/x/tools/go/packages"
)

type helperKind int

const (
	hkNone helperKind = iota
	hkExpr
	hkStmt
	hkValue // single exit at the end
	hkMulti // several exits: only at return sites
)

type helperInfo struct {
	fn     *types.Func
	sig    *types.Signature
	clVar  types.Object    // a local closure (`name := func(…) {…}`): its variable
	clDef  *ast.AssignStmt // … and the statement that defines it
	decl   *ast.FuncDecl
	pkg    *packages.Package
	kind   helperKind
	params []types.Object // in order; receiver first if any
	hasRcv bool
	named  []types.Object  // named results (become locals of the copy)
	locals map[string]bool // names defined inside the body
	writes map[types.Object]bool
	uses   map[types.Object]int
}

var inlineCounter int

// anchorFuncs: unexported functions the rules look up by name (their bodies
// are what a rule reads, or their calls are what it searches for). They keep
// their identity in the view; only helpers the rules do not know are inlined.
var anchorFuncs = map[string]bool{}

// families of functions the rules read one by one: the recursive-descent
// parser, the scanners, the formatter's verb functions, the builtins, the
// compiler's arms, the JSON automaton, the stdlib wrappers
func anchorPrefix(name string) bool {
	for _, pre := range []string{"parse", "scan", "fmt", "builtin", "compile", "state", "text", "times", "os", "math", "rand", "json", "base64", "hex"} {
		if strings.HasPrefix(name, pre) && len(name) > len(pre) && unicode.IsUpper([]rune(name[len(pre):])[0]) {
			return true
		}
	}
	return false
}

func init() {
	for _, n := range strings.Fields(`addConstant addInstruction badVerb changeOperand replaceInstruction checkCyclicImports checkValid clearFlags
		compileAssign compileLogical compileModule compileForStmt compileForInStmt currentInstructions currentSourceMap currentLoop defineFree digitVal doFormat doPrintf
		doTextRegexpReplace doTextReplace emit encodeString enterScope leaveScope enterLoop leaveLoop error errorExpected errorf file
		findLineEnd fixDecodedObject fixDecodedObjects fork free getu4 indexAssign inferModuleName insertSemi intFromArg isDigit isLetter
		literal newPrinter optimizeFunc parseBinaryExpr parseBranchStmt parseCharLit parseExpr parseExprList parseOperand
		parseSimpleStmt parseUnaryExpr parsenum prepCompile printArg pushParseState popParseState scanNext scanWhile searchFiles searchInts
		tooLarge unquoteBytes unquote updateConstIndexes value wrapError storeCompiledModule loadCompiledModule getPathModule run next peek
		iterateInstructions freezeObject nextIndex updateMaxDefs resolveAssignLHS numConstants position unpack expect expectSemi advance safePos
		tracep untracep tracec untracec printTrace scanComment scanIdentifier scanNumber scanString scanRawString scanRune scanEscape scanMantissa skipWhitespace switch2 switch3 switch4`) {
		anchorFuncs[n] = true
	}
}

type inliner struct {
	refNames map[string]bool
	helpers  map[*types.Func]*helperInfo
	closures map[types.Object]*helperInfo
	counter  int
	changed  bool
}

func stmtCount(n ast.Node) int {
	c := 0
	ast.Inspect(n, func(m ast.Node) bool {
		if _, ok := m.(ast.Stmt); ok {
			c++
		}
		return true
	})
	return c
}

func (in *inliner) classify(p *packages.Package, fd *ast.FuncDecl) *helperInfo {
	if fd.Body == nil || fd.Name == nil || !unicode.IsLower([]rune(fd.Name.Name)[0]) || fd.Name.Name == "init" || fd.Name.Name == "main" {
		return nil
	}
	fn, _ := p.TypesInfo.Defs[fd.Name].(*types.Func)
	if fn == nil || in.refNames[strings.ToLower(fd.Name.Name)] || anchorFuncs[fd.Name.Name] || anchorPrefix(fd.Name.Name) {
		return nil
	}
	return in.classifyBody(p, fd, fn, fn.Type().(*types.Signature))
}

// classifyClosure: a local `name := func(params) results { … }`, written once
// and only ever called, is a helper like any other (its free variables are
// the caller's own, which the capture check of instantiate confirms).
func (in *inliner) classifyClosure(p *packages.Package, encl *ast.FuncDecl, def *ast.AssignStmt) *helperInfo {
	if def.Tok != token.DEFINE || len(def.Lhs) != 1 || len(def.Rhs) != 1 {
		return nil
	}
	id, ok := def.Lhs[0].(*ast.Ident)
	lit, ok2 := def.Rhs[0].(*ast.FuncLit)
	if !ok || !ok2 || id.Name == "_" {
		return nil
	}
	obj := p.TypesInfo.Defs[id]
	sig, _ := p.TypesInfo.TypeOf(lit).(*types.Signature)
	if obj == nil || sig == nil {
		return nil
	}
	// never written again, never used as a value
	okUse := true
	ast.Inspect(encl.Body, func(n ast.Node) bool {
		switch x := n.(type) {
		case *ast.CallExpr:
			if fid, ok := ast.Unparen(x.Fun).(*ast.Ident); ok && p.TypesInfo.Uses[fid] == obj {
				for _, a := range x.Args {
					ast.Inspect(a, func(m ast.Node) bool {
						if aid, ok := m.(*ast.Ident); ok && p.TypesInfo.Uses[aid] == obj {
							okUse = false
						}
						return true
					})
				}
				return false
			}
		case *ast.Ident:
			if p.TypesInfo.Uses[x] == obj {
				okUse = false
			}
		}
		return true
	})
	if !okUse {
		return nil
	}
	fd := &ast.FuncDecl{Name: id, Type: lit.Type, Body: lit.Body}
	h := in.classifyBody(p, fd, nil, sig)
	if h != nil {
		h.clVar, h.clDef = obj, def
	}
	return h
}

func (in *inliner) classifyBody(p *packages.Package, fd *ast.FuncDecl, fn *types.Func, sig *types.Signature) *helperInfo {
	if sig.Variadic() || sig.TypeParams() != nil || sig.RecvTypeParams() != nil {
		return nil
	}
	if stmtCount(fd.Body) > 30 {
		return nil
	}
	h := &helperInfo{fn: fn, sig: sig, decl: fd, pkg: p, locals: map[string]bool{}, writes: map[types.Object]bool{}, uses: map[types.Object]int{}}
	if fd.Recv != nil {
		if len(fd.Recv.List) != 1 || len(fd.Recv.List[0].Names) != 1 {
			return nil
		}
		rt := sig.Recv().Type()
		switch rt.Underlying().(type) {
		case *types.Pointer, *types.Map, *types.Slice, *types.Interface:
		default:
			return nil // a value receiver is a copy
		}
		h.params = append(h.params, p.TypesInfo.Defs[fd.Recv.List[0].Names[0]])
		h.hasRcv = true
	}
	for _, f := range fd.Type.Params.List {
		if len(f.Names) == 0 {
			return nil
		}
		for _, nm := range f.Names {
			if nm.Name == "_" {
				return nil
			}
			h.params = append(h.params, p.TypesInfo.Defs[nm])
		}
	}
	if fd.Type.Results != nil {
		for _, f := range fd.Type.Results.List {
			for _, nm := range f.Names {
				if nm.Name == "_" {
					return nil
				}
				h.named = append(h.named, p.TypesInfo.Defs[nm])
			}
		}
	}
	bad := false
	nret := 0
	ast.Inspect(fd.Body, func(n ast.Node) bool {
		switch x := n.(type) {
		case *ast.DeferStmt, *ast.GoStmt, *ast.FuncLit, *ast.LabeledStmt, *ast.SelectStmt:
			bad = true
		case *ast.BranchStmt:
			if x.Label != nil || x.Tok == token.GOTO {
				bad = true
			}
		case *ast.ReturnStmt:
			nret++
		case *ast.CallExpr:
			if id, ok := ast.Unparen(x.Fun).(*ast.Ident); ok && id.Name == "recover" {
				bad = true
			}
			if c := staticCallee(p, x); c != nil && c == fn {
				bad = true // recursive
			}
		case *ast.Ident:
			if o := p.TypesInfo.Defs[x]; o != nil && x.Name != "_" {
				h.locals[x.Name] = true
			}
			if o := p.TypesInfo.Uses[x]; o != nil {
				h.uses[o]++
			}
		case *ast.TypeSwitchStmt:
			if as, ok := x.Assign.(*ast.AssignStmt); ok && len(as.Lhs) == 1 {
				if id, ok := as.Lhs[0].(*ast.Ident); ok {
					h.locals[id.Name] = true
				}
			}
		case *ast.AssignStmt:
			for _, l := range x.Lhs {
				if id, ok := ast.Unparen(l).(*ast.Ident); ok {
					if o := p.TypesInfo.ObjectOf(id); o != nil {
						h.writes[o] = true
					}
				}
			}
		case *ast.IncDecStmt:
			if id, ok := ast.Unparen(x.X).(*ast.Ident); ok {
				h.writes[p.TypesInfo.ObjectOf(id)] = true
			}
		case *ast.UnaryExpr:
			if x.Op == token.AND {
				if id, ok := ast.Unparen(x.X).(*ast.Ident); ok {
					h.writes[p.TypesInfo.ObjectOf(id)] = true
				}
			}
		}
		return !bad
	})
	if bad {
		return nil
	}
	// a local that hides a package-level name the body also uses would be renamed wrongly
	for name := range h.locals {
		if o := p.Types.Scope().Lookup(name); o != nil && h.uses[o] > 0 {
			return nil
		}
	}
	L := fd.Body.List
	nres := sig.Results().Len()
	for _, o := range h.named {
		if o != nil {
			h.locals[o.Name()] = true
		}
	}
	switch {
	case nres == 1 && len(L) == 1 && nret == 1:
		if r, ok := L[0].(*ast.ReturnStmt); ok && len(r.Results) == 1 {
			h.kind = hkExpr
			return h
		}
		fallthrough
	case nres >= 1:
		if nret == 1 && len(L) > 0 {
			if r, ok := L[len(L)-1].(*ast.ReturnStmt); ok && len(r.Results) == nres {
				h.kind = hkValue
				return h
			}
		}
		// every return carries all results explicitly
		okAll := true
		ast.Inspect(fd.Body, func(n ast.Node) bool {
			if r, ok := n.(*ast.ReturnStmt); ok && len(r.Results) != nres {
				okAll = false
			}
			return true
		})
		if okAll && nret >= 1 {
			h.kind = hkMulti
			return h
		}
		return nil
	default:
		// no results: returns only as leading guards or as the last statement
		i := 0
		for i < len(L) {
			is, ok := L[i].(*ast.IfStmt)
			if !ok || is.Else != nil || is.Init != nil || len(is.Body.List) != 1 {
				break
			}
			if r, ok := is.Body.List[0].(*ast.ReturnStmt); !ok || len(r.Results) != 0 {
				break
			}
			i++
		}
		guards := i
		rest := 0
		for _, s := range L[guards:] {
			ast.Inspect(s, func(n ast.Node) bool {
				if _, ok := n.(*ast.ReturnStmt); ok {
					rest++
				}
				return true
			})
		}
		if rest == 1 {
			if _, ok := L[len(L)-1].(*ast.ReturnStmt); ok && len(L) > guards {
				rest = 0
			}
		}
		if rest != 0 {
			return nil
		}
		h.kind = hkStmt
		return h
	}
}

func staticCallee(p *packages.Package, call *ast.CallExpr) *types.Func {
	switch f := ast.Unparen(call.Fun).(type) {
	case *ast.Ident:
		fn, _ := p.TypesInfo.Uses[f].(*types.Func)
		return fn
	case *ast.SelectorExpr:
		if sel := p.TypesInfo.Selections[f]; sel != nil {
			if sel.Kind() != types.MethodVal {
				return nil
			}
			if _, isIface := sel.Recv().Underlying().(*types.Interface); isIface {
				return nil
			}
			fn, _ := sel.Obj().(*types.Func)
			return fn
		}
		fn, _ := p.TypesInfo.Uses[f.Sel].(*types.Func)
		return fn
	}
	return nil
}

// pureExpr: free of calls (conversions, len and cap aside), receives and function literals.
func pureExpr(p *packages.Package, e ast.Expr) bool {
	ok := true
	ast.Inspect(e, func(n ast.Node) bool {
		switch x := n.(type) {
		case *ast.CallExpr:
			if tv, has := p.TypesInfo.Types[x.Fun]; has && tv.IsType() {
				return true
			}
			if id, isId := ast.Unparen(x.Fun).(*ast.Ident); isId && (id.Name == "len" || id.Name == "cap") {
				if _, isB := p.TypesInfo.Uses[id].(*types.Builtin); isB {
					return true
				}
			}
			ok = false
		case *ast.FuncLit, *ast.CompositeLit, *ast.TypeAssertExpr:
			ok = false
		case *ast.UnaryExpr:
			if x.Op == token.ARROW {
				ok = false
			}
		}
		return ok
	})
	return ok
}

// cloneNode deep-copies an AST subtree, dropping positions; idents go through sub.
func cloneNode(n ast.Node, sub func(id *ast.Ident) ast.Expr) ast.Node {
	var cp func(v reflect.Value) reflect.Value
	posT := reflect.TypeOf(token.NoPos)
	cp = func(v reflect.Value) reflect.Value {
		switch v.Kind() {
		case reflect.Ptr:
			if v.IsNil() {
				return v
			}
			if id, ok := v.Interface().(*ast.Ident); ok {
				r := sub(id)
				return reflect.ValueOf(r)
			}
			switch v.Interface().(type) {
			case *ast.Object, *ast.Scope:
				return reflect.Zero(v.Type())
			case *ast.CommentGroup:
				return reflect.Zero(v.Type())
			}
			nv := reflect.New(v.Type().Elem())
			nv.Elem().Set(cp(v.Elem()))
			return nv
		case reflect.Interface:
			if v.IsNil() {
				return v
			}
			r := cp(v.Elem())
			out := reflect.New(v.Type()).Elem()
			out.Set(r)
			return out
		case reflect.Slice:
			if v.IsNil() {
				return v
			}
			out := reflect.MakeSlice(v.Type(), v.Len(), v.Len())
			for i := 0; i < v.Len(); i++ {
				out.Index(i).Set(cp(v.Index(i)))
			}
			return out
		case reflect.Struct:
			out := reflect.New(v.Type()).Elem()
			for i := 0; i < v.NumField(); i++ {
				f := v.Field(i)
				if f.Type() == posT {
					// positions are dropped, except where validity carries meaning
					if v.Type().Field(i).Name == "Ellipsis" && f.Int() != 0 {
						out.Field(i).SetInt(1)
					}
					continue
				}
				if out.Field(i).CanSet() {
					out.Field(i).Set(cp(f))
				}
			}
			return out
		}
		return v
	}
	return cp(reflect.ValueOf(n)).Interface().(ast.Node)
}

func parenIfNeeded(e ast.Expr) ast.Expr {
	switch e.(type) {
	case *ast.Ident, *ast.BasicLit, *ast.SelectorExpr, *ast.IndexExpr, *ast.CallExpr, *ast.ParenExpr, *ast.SliceExpr, *ast.CompositeLit:
		return e
	}
	return &ast.ParenExpr{X: e}
}

// instantiate returns the helper's body for one call: temporaries (if any), then the statements.
func (in *inliner) instantiate(p *packages.Package, h *helperInfo, call *ast.CallExpr, alias ...map[types.Object]string) (pre []ast.Stmt, body []ast.Stmt, ok bool) {
	inlineCounter++
	suffix := fmt.Sprintf("_i%d", inlineCounter)
	args := []ast.Expr{}
	if h.hasRcv {
		se, isSel := ast.Unparen(call.Fun).(*ast.SelectorExpr)
		if !isSel {
			return nil, nil, false
		}
		args = append(args, se.X)
	}
	args = append(args, call.Args...)
	if len(args) != len(h.params) || call.Ellipsis.IsValid() {
		return nil, nil, false
	}
	// no capture: every free name of the helper means the same thing at the call
	lo0, hi0 := h.decl.Pos(), h.decl.End()
	if inner := p.Types.Scope().Innermost(call.Pos()); inner != nil {
		for o := range h.uses {
			if o == nil || (o.Pos() >= lo0 && o.Pos() < hi0) {
				continue
			}
			if v, isVar := o.(*types.Var); isVar && v.IsField() {
				continue
			}
			if _, isFn := o.(*types.Func); isFn && o.Parent() == nil {
				continue // a method: reached through a selector
			}
			if _, isPkgName := o.(*types.PkgName); !isPkgName && o.Pkg() != nil && o.Pkg() != p.Types {
				continue // of another package: reached through its package name, which is checked
			}
			if _, found := inner.LookupParent(o.Name(), call.Pos()); found != o {
				return nil, nil, false
			}
		}
	}
	plain := func(id *ast.Ident) ast.Expr { return &ast.Ident{Name: id.Name} }
	subst := map[types.Object]ast.Expr{}
	for i, po := range h.params {
		a := args[i]
		if po == nil {
			return nil, nil, false
		}
		// (an argument with calls is substituted too when the parameter is
		// read exactly once: the view is read, not run, and the rules look
		// for the expression where it is used)
		if (pureExpr(p, a) || h.uses[po] == 1) && !h.writes[po] {
			subst[po] = parenIfNeeded(cloneNode(a, plain).(ast.Expr))
			continue
		}
		if h.uses[po] == 0 {
			pre = append(pre, &ast.AssignStmt{Lhs: []ast.Expr{&ast.Ident{Name: "_"}}, Tok: token.ASSIGN, Rhs: []ast.Expr{cloneNode(a, plain).(ast.Expr)}})
			continue
		}
		tmp := po.Name() + suffix
		pre = append(pre, &ast.AssignStmt{Lhs: []ast.Expr{&ast.Ident{Name: tmp}}, Tok: token.DEFINE, Rhs: []ast.Expr{cloneNode(a, plain).(ast.Expr)}})
		subst[po] = &ast.Ident{Name: tmp}
	}
	hp := h.pkg
	lo, hi := h.decl.Pos(), h.decl.Body.End()
	nameOf := func(o types.Object) string {
		for _, m := range alias {
			if n, ok := m[o]; ok {
				return n
			}
		}
		return o.Name() + suffix
	}
	sub := func(id *ast.Ident) ast.Expr {
		o := hp.TypesInfo.ObjectOf(id)
		if o != nil {
			for _, m := range alias {
				if n, ok := m[o]; ok {
					return &ast.Ident{Name: n}
				}
			}
			if e, ok := subst[o]; ok {
				return cloneNode(e, plain).(ast.Expr)
			}
			if o.Pos() >= lo && o.Pos() < hi && id.Name != "_" {
				return &ast.Ident{Name: id.Name + suffix}
			}
			return &ast.Ident{Name: id.Name}
		}
		if h.locals[id.Name] && id.Pos() >= lo && id.Pos() < hi {
			return &ast.Ident{Name: id.Name + suffix} // the symbolic variable of a type switch
		}
		return &ast.Ident{Name: id.Name}
	}
	blk := cloneNode(h.decl.Body, sub).(*ast.BlockStmt)
	if len(h.named) > 0 {
		var decls []ast.Stmt
		for _, o := range h.named {
			ts, ok := in.typeStringAt(hp, h.decl, o.Type())
			if !ok {
				return nil, nil, false
			}
			te, err := parseTypeExpr(ts)
			if err != nil {
				return nil, nil, false
			}
			decls = append(decls, &ast.DeclStmt{Decl: &ast.GenDecl{Tok: token.VAR, Specs: []ast.Spec{&ast.ValueSpec{Names: []*ast.Ident{{Name: nameOf(o)}}, Type: te}}}})
		}
		return pre, append(decls, blk.List...), true
	}
	return pre, blk.List, true
}

// guardsToNesting turns leading `if c { return }` statements into `if !c { rest }` and drops a final bare return.
func guardsToNesting(list []ast.Stmt) []ast.Stmt {
	if n := len(list); n > 0 {
		if r, ok := list[n-1].(*ast.ReturnStmt); ok && len(r.Results) == 0 {
			list = list[:n-1]
		}
	}
	if len(list) == 0 {
		return list
	}
	if is, ok := list[0].(*ast.IfStmt); ok && is.Else == nil && is.Init == nil && len(is.Body.List) == 1 {
		if r, ok := is.Body.List[0].(*ast.ReturnStmt); ok && len(r.Results) == 0 {
			rest := guardsToNesting(list[1:])
			if len(rest) == 0 {
				return []ast.Stmt{&ast.ExprStmt{X: &ast.ParenExpr{X: is.Cond}}}[:0]
			}
			return []ast.Stmt{&ast.IfStmt{Cond: &ast.UnaryExpr{Op: token.NOT, X: &ast.ParenExpr{X: is.Cond}}, Body: &ast.BlockStmt{List: rest}}}
		}
	}
	return list
}

// typeStringAt: the type as it is written in the file that holds decl.
func (in *inliner) typeStringAt(p *packages.Package, decl *ast.FuncDecl, t types.Type) (string, bool) {
	for _, f := range p.Syntax {
		if f.Pos() <= decl.Pos() && decl.End() <= f.End() {
			return in.typeString(p, f, t)
		}
	}
	return "", false
}

func (in *inliner) typeString(p *packages.Package, file *ast.File, t types.Type) (string, bool) {
	ok := true
	s := types.TypeString(t, func(pk *types.Package) string {
		if pk == p.Types {
			return ""
		}
		for _, im := range file.Imports {
			path := strings.Trim(im.Path.Value, "\"")
			if path == pk.Path() {
				if im.Name != nil {
					return im.Name.Name
				}
				return pk.Name()
			}
		}
		ok = false
		return pk.Name()
	})
	return s, ok
}

// rewriteList handles the statement-level shapes in one statement list.
func (in *inliner) rewriteList(p *packages.Package, file *ast.File, list []ast.Stmt) []ast.Stmt {
	var out []ast.Stmt
	for _, st := range list {
		repl := in.rewriteStmt(p, file, st)
		if repl == nil {
			out = append(out, st)
		} else {
			in.changed = true
			out = append(out, repl...)
		}
	}
	return out
}

func (in *inliner) helperOf(p *packages.Package, e ast.Expr) (*helperInfo, *ast.CallExpr) {
	call, ok := ast.Unparen(e).(*ast.CallExpr)
	if !ok {
		return nil, nil
	}
	h := in.lookup(p, call)
	if h == nil {
		return nil, nil
	}
	return h, call
}

func (in *inliner) lookup(p *packages.Package, call *ast.CallExpr) *helperInfo {
	if id, ok := ast.Unparen(call.Fun).(*ast.Ident); ok {
		if v, isVar := p.TypesInfo.Uses[id].(*types.Var); isVar {
			if h := in.closures[v]; h != nil && h.pkg == p {
				return h
			}
			return nil
		}
	}
	fn := staticCallee(p, call)
	if fn == nil {
		return nil
	}
	h := in.helpers[fn]
	if h == nil || h.pkg != p {
		return nil
	}
	return h
}

func (in *inliner) rewriteStmt(p *packages.Package, file *ast.File, st ast.Stmt) []ast.Stmt {
	switch x := st.(type) {
	case *ast.ExprStmt:
		h, call := in.helperOf(p, x.X)
		if h != nil && h.kind == hkValue {
			// the results are dropped: the statements, without the final return
			pre, body, ok := in.instantiate(p, h, call)
			if !ok || len(body) == 0 {
				return nil
			}
			ret, isRet := body[len(body)-1].(*ast.ReturnStmt)
			if !isRet {
				return nil
			}
			for _, r := range ret.Results {
				if !pureExpr(p, r) {
					return nil
				}
			}
			out := append(pre, body[:len(body)-1]...)
			if len(out) == 0 {
				return []ast.Stmt{&ast.EmptyStmt{}}
			}
			return out
		}
		if h == nil || h.kind != hkStmt {
			return nil
		}
		pre, body, ok := in.instantiate(p, h, call)
		if !ok {
			return nil
		}
		body = guardsToNesting(body)
		if len(pre)+len(body) == 0 {
			return []ast.Stmt{&ast.EmptyStmt{}}
		}
		return append(pre, body...)
	case *ast.DeferStmt:
		h, call := in.helperOf(p, x.Call)
		if h == nil || h.kind != hkStmt {
			return nil
		}
		// only with arguments that mean the same when the deferred function runs
		for _, a := range call.Args {
			if _, isLit := ast.Unparen(a).(*ast.BasicLit); !isLit {
				if _, isConst := constBool(p, a); !isConst {
					return nil
				}
			}
		}
		if h.hasRcv {
			se, ok := ast.Unparen(call.Fun).(*ast.SelectorExpr)
			if !ok {
				return nil
			}
			if _, isId := ast.Unparen(se.X).(*ast.Ident); !isId {
				return nil
			}
		}
		pre, body, ok := in.instantiate(p, h, call)
		if !ok || len(pre) > 0 {
			return nil
		}
		body = guardsToNesting(body)
		return []ast.Stmt{&ast.DeferStmt{Call: &ast.CallExpr{Fun: &ast.FuncLit{Type: &ast.FuncType{Params: &ast.FieldList{}}, Body: &ast.BlockStmt{List: body}}}}}
	case *ast.AssignStmt:
		if len(x.Rhs) != 1 || (x.Tok != token.DEFINE && x.Tok != token.ASSIGN) {
			return nil
		}
		h, call := in.helperOf(p, x.Rhs[0])
		if h != nil && h.kind == hkMulti && len(x.Lhs) == 1 && h.sig.Results().Len() == 1 {
			return in.guardChainAssign(p, file, x, h, call)
		}
		if h == nil || h.kind != hkValue {
			return nil
		}
		nres := h.sig.Results().Len()
		if len(x.Lhs) != nres {
			return nil
		}
		var decls []ast.Stmt
		var lhs []ast.Expr
		plain := func(id *ast.Ident) ast.Expr { return &ast.Ident{Name: id.Name} }
		for _, l := range x.Lhs {
			id, isId := l.(*ast.Ident)
			if x.Tok == token.DEFINE {
				if !isId {
					return nil
				}
				if o := p.TypesInfo.Defs[id]; o != nil && id.Name != "_" {
					ts, ok := in.typeString(p, file, o.Type())
					if !ok {
						return nil
					}
					te, err := parseTypeExpr(ts)
					if err != nil {
						return nil
					}
					decls = append(decls, &ast.DeclStmt{Decl: &ast.GenDecl{Tok: token.VAR, Specs: []ast.Spec{&ast.ValueSpec{Names: []*ast.Ident{{Name: id.Name}}, Type: te}}}})
				}
			}
			lhs = append(lhs, cloneNode(l, plain).(ast.Expr))
		}
		// the helper's returned locals take the caller's names when the call defines fresh variables
		if x.Tok == token.DEFINE {
			origRet := h.decl.Body.List[len(h.decl.Body.List)-1].(*ast.ReturnStmt)
			al := map[types.Object]string{}
			okAlias := len(origRet.Results) == len(x.Lhs)
			lo, hi := h.decl.Pos(), h.decl.End()
			for i, r := range origRet.Results {
				if !okAlias {
					break
				}
				rid, isId := ast.Unparen(r).(*ast.Ident)
				lid, isL := x.Lhs[i].(*ast.Ident)
				if !isId || !isL || lid.Name == "_" || p.TypesInfo.Defs[lid] == nil {
					okAlias = false
					break
				}
				o := h.pkg.TypesInfo.ObjectOf(rid)
				isParam := false
				for _, po := range h.params {
					if po == o {
						isParam = true
					}
				}
				if o == nil || isParam || o.Pos() < lo || o.Pos() >= hi {
					okAlias = false
					break
				}
				if _, dup := al[o]; dup {
					okAlias = false
					break
				}
				// the caller's name must not already mean something inside the helper
				if h.locals[lid.Name] && o.Name() != lid.Name {
					okAlias = false
					break
				}
				al[o] = lid.Name
			}
			if okAlias {
				pre, body, ok := in.instantiate(p, h, call, al)
				if ok && len(body) > 0 {
					out := append([]ast.Stmt{}, pre...)
					out = append(out, body[:len(body)-1]...)
					return mergeVarDecls(out)
				}
			}
		}
		pre, body, ok := in.instantiate(p, h, call)
		if !ok || len(body) == 0 {
			return nil
		}
		ret := body[len(body)-1].(*ast.ReturnStmt)
		out := append(decls, pre...)
		out = append(out, body[:len(body)-1]...)
		out = append(out, &ast.AssignStmt{Lhs: lhs, Tok: token.ASSIGN, Rhs: ret.Results})
		return mergeVarDecls(out)
	case *ast.ReturnStmt:
		if len(x.Results) == 0 {
			return nil
		}
		h, call := in.helperOf(p, x.Results[0])
		if h == nil || (h.kind != hkValue && h.kind != hkMulti) {
			return nil
		}
		extras := x.Results[1:]
		for _, e := range extras {
			if !pureExpr(p, e) {
				return nil
			}
		}
		pre, body, ok := in.instantiate(p, h, call)
		if !ok {
			return nil
		}
		plain := func(id *ast.Ident) ast.Expr { return &ast.Ident{Name: id.Name} }
		for _, s := range body {
			ast.Inspect(s, func(n ast.Node) bool {
				if r, ok := n.(*ast.ReturnStmt); ok {
					for _, e := range extras {
						r.Results = append(r.Results, cloneNode(e, plain).(ast.Expr))
					}
				}
				return true
			})
		}
		return append(pre, body...)
	}
	return nil
}

func parseTypeExpr(s string) (ast.Expr, error) {
	e, err := parserParseExpr(s)
	if err != nil {
		return nil, err
	}
	return cloneNode(e, func(id *ast.Ident) ast.Expr { return &ast.Ident{Name: id.Name} }).(ast.Expr), nil
}

// inlineTree writes to dst a copy of the module at src in which small helpers are inlined.
func inlineTree(src, dst string) (int, error) {
	if err := copyTree(src, dst); err != nil {
		return 0, err
	}
	total := 0
	for round := 0; round < 3; round++ {
		n, err := inlineOnce(dst)
		if err != nil {
			return total, err
		}
		total += n
		if n == 0 {
			break
		}
	}
	if total > 0 {
		if err := dropDeadHelpers(dst); err != nil {
			return total, err
		}
	}
	return total, nil
}

func inlineOnce(dir string) (int, error) {
	env := []string{}
	for _, e := range os.Environ() {
		if strings.HasPrefix(e, "GOWORK=") || strings.HasPrefix(e, "GOFLAGS=") {
			continue
		}
		env = append(env, e)
	}
	env = append(env, "GOFLAGS=-mod=mod", "GOWORK=off", "GOPROXY=off", "GOSUMDB=off", "GOTOOLCHAIN=local")
	fset := token.NewFileSet()
	cfg := &packages.Config{
		Mode: packages.NeedName | packages.NeedFiles | packages.NeedCompiledGoFiles | packages.NeedImports | packages.NeedDeps |
			packages.NeedTypes | packages.NeedSyntax | packages.NeedTypesInfo | packages.NeedModule,
		Dir: dir, Env: env, Fset: fset,
	}
	pkgs, err := packages.Load(cfg, "./...")
	if err != nil {
		return 0, err
	}
	in := &inliner{helpers: map[*types.Func]*helperInfo{}, closures: map[types.Object]*helperInfo{}}
	// functions that are ports of standard-library functions keep their
	// structure: the port rules compare them with their originals, helper by
	// helper. A helper is taken for a port when the reference packages
	// declare a function or method of the same name.
	refNames := map[string]bool{}
	if refs, err := packages.Load(&packages.Config{Mode: packages.NeedName | packages.NeedFiles | packages.NeedSyntax, Dir: dir, Env: env}, "fmt", "encoding/json", "go/scanner", "strings", "go/token", "sort"); err == nil {
		for _, rp := range refs {
			for _, f := range rp.Syntax {
				for _, d := range f.Decls {
					if fd, ok := d.(*ast.FuncDecl); ok {
						refNames[strings.ToLower(fd.Name.Name)] = true
					}
				}
			}
		}
	}
	// … and only where a port rule compares the function: a new helper that
	// merely shares its name with something in go/scanner is inlined
	ported := map[string]bool{}
	addPort := func(k string) {
		if i := strings.LastIndex(k, "."); i >= 0 {
			k = k[i+1:]
		}
		ported[strings.ToLower(k)] = true
	}
	for _, k := range fmtPortIdentical {
		addPort(k)
	}
	for k := range fmtNearPorts {
		addPort(k)
	}
	for k := range jsonPorts {
		addPort(k)
	}
	for k := range scanPorts {
		addPort(k)
	}
	for _, k := range []string{"doTextReplace", "searchInts", "writePadding", "fmtFloat", "fmtInteger", "fmtC", "fmtQc", "fmtUnicode", "fmtBoolean", "printArg", "doFormat", "getu4", "unquoteBytes", "unquote", "checkValid", "stateEndValue", "stateBeginValue"} {
		addPort(k)
	}
	for k := range refNames {
		if !ported[k] && !strings.HasPrefix(k, "state") && !strings.HasPrefix(k, "fmt") {
			delete(refNames, k)
		}
	}
	in.refNames = refNames
	for _, p := range pkgs {
		if len(p.Errors) > 0 {
			return 0, fmt.Errorf("%s: %v", p.PkgPath, p.Errors[0])
		}
		for _, f := range p.Syntax {
			for _, d := range f.Decls {
				if fd, ok := d.(*ast.FuncDecl); ok {
					if h := in.classify(p, fd); h != nil {
						in.helpers[h.fn] = h
					}
				}
			}
		}
	}
	closureLits := map[*ast.FuncLit]bool{}
	for _, p := range pkgs {
		for _, f := range p.Syntax {
			for _, d := range f.Decls {
				fd, ok := d.(*ast.FuncDecl)
				if !ok || fd.Body == nil {
					continue
				}
				ast.Inspect(fd.Body, func(n ast.Node) bool {
					if as, ok := n.(*ast.AssignStmt); ok {
						if h := in.classifyClosure(p, fd, as); h != nil {
							in.closures[h.clVar] = h
							closureLits[as.Rhs[0].(*ast.FuncLit)] = true
						}
					}
					return true
				})
			}
		}
	}
	count := 0
	for _, p := range pkgs {
		for fi, f := range p.Syntax {
			in.changed = false
			// bodies of helpers are left as they are in this round (they are
			// the templates that get copied); the next round sees the copies
			isHelperDecl := func(n ast.Node) bool {
				if fl, ok := n.(*ast.FuncLit); ok {
					return closureLits[fl]
				}
				fd, ok := n.(*ast.FuncDecl)
				if !ok {
					return false
				}
				fn, _ := p.TypesInfo.Defs[fd.Name].(*types.Func)
				return fn != nil && in.helpers[fn] != nil
			}
			skip := func(c *astutil.Cursor) bool { return !isHelperDecl(c.Node()) }
			// statement-level shapes, innermost lists first
			astutil.Apply(f, skip, func(c *astutil.Cursor) bool {
				switch x := c.Node().(type) {
				case *ast.BlockStmt:
					x.List = in.rewriteList(p, f, x.List)
				case *ast.CaseClause:
					x.Body = in.rewriteList(p, f, x.Body)
				case *ast.CommClause:
					x.Body = in.rewriteList(p, f, x.Body)
				}
				return true
			})
			// expression helpers anywhere
			astutil.Apply(f, skip, func(c *astutil.Cursor) bool {
				call, ok := c.Node().(*ast.CallExpr)
				if !ok {
					return true
				}
				h := in.lookup(p, call)
				if h == nil || h.kind != hkExpr {
					return true
				}
				// every argument must be substitutable
				argsOK := true
				as := call.Args
				if h.hasRcv {
					if se, ok := ast.Unparen(call.Fun).(*ast.SelectorExpr); ok {
						as = append([]ast.Expr{se.X}, as...)
					} else {
						argsOK = false
					}
				}
				if len(as) != len(h.params) {
					argsOK = false
				}
				for i, a := range as {
					if !argsOK {
						break
					}
					if (!pureExpr(p, a) && h.uses[h.params[i]] != 1) || h.writes[h.params[i]] {
						argsOK = false
					}
				}
				if !argsOK {
					return true
				}
				_, body, ok := in.instantiate(p, h, call)
				if !ok || len(body) != 1 {
					return true
				}
				c.Replace(&ast.ParenExpr{X: body[0].(*ast.ReturnStmt).Results[0]})
				in.changed = true
				return true
			})
			if !in.changed {
				continue
			}
			count++
			// a closure whose calls are all inlined is no longer declared
			for _, h := range in.closures {
				if h.pkg != p || h.clDef.Pos() < f.Pos() || h.clDef.End() > f.End() {
					continue
				}
				name := h.clVar.Name()
				for _, d := range f.Decls {
					fd, ok := d.(*ast.FuncDecl)
					if !ok || fd.Body == nil || h.clDef.Pos() < fd.Pos() || h.clDef.End() > fd.End() {
						continue
					}
					uses := 0
					ast.Inspect(fd.Body, func(n ast.Node) bool {
						if n == ast.Node(h.clDef) {
							return false
						}
						if id, ok := n.(*ast.Ident); ok && id.Name == name {
							uses++
						}
						return true
					})
					if uses > 0 {
						continue
					}
					drop := func(list []ast.Stmt) []ast.Stmt {
						for i, st := range list {
							if st == ast.Stmt(h.clDef) {
								return append(append([]ast.Stmt{}, list[:i]...), list[i+1:]...)
							}
						}
						return list
					}
					ast.Inspect(fd.Body, func(n ast.Node) bool {
						switch x := n.(type) {
						case *ast.BlockStmt:
							x.List = drop(x.List)
						case *ast.CaseClause:
							x.Body = drop(x.Body)
						case *ast.CommClause:
							x.Body = drop(x.Body)
						}
						return true
					})
				}
			}
			// keep only the comments before the package clause (build constraints)
			var keep []*ast.CommentGroup
			for _, cg := range f.Comments {
				if cg.End() < f.Package {
					keep = append(keep, cg)
				}
			}
			f.Comments = keep
			ast.Inspect(f, func(n ast.Node) bool {
				switch x := n.(type) {
				case *ast.FuncDecl:
					x.Doc = nil
				case *ast.GenDecl:
					x.Doc = nil
				case *ast.Field:
					x.Doc, x.Comment = nil, nil
				case *ast.ValueSpec:
					x.Doc, x.Comment = nil, nil
				case *ast.TypeSpec:
					x.Doc, x.Comment = nil, nil
				case *ast.ImportSpec:
					x.Doc, x.Comment = nil, nil
				}
				return true
			})
			var buf bytes.Buffer
			if err := format.Node(&buf, fset, f); err != nil {
				return count, fmt.Errorf("printing %s: %v", p.CompiledGoFiles[fi], err)
			}
			if err := os.WriteFile(p.CompiledGoFiles[fi], buf.Bytes(), 0o644); err != nil {
				return count, err
			}
		}
	}
	return count, nil
}

func copyTree(src, dst string) error {
	return filepath.Walk(src, func(path string, info os.FileInfo, err error) error {
		if err != nil {
			return err
		}
		rel, _ := filepath.Rel(src, path)
		if info.IsDir() {
			if info.Name() == ".git" {
				return filepath.SkipDir
			}
			return os.MkdirAll(filepath.Join(dst, rel), 0o755)
		}
		if !info.Mode().IsRegular() {
			return nil
		}
		b, err := os.ReadFile(path)
		if err != nil {
			return err
		}
		return os.WriteFile(filepath.Join(dst, rel), b, 0o644)
	})
}

// mergeVarDecls turns `var x T … x = e` (x not mentioned in between, the
// assignment at the same level) into `x := e` where x is first written.
func mergeVarDecls(list []ast.Stmt) []ast.Stmt {
	mentions := func(n ast.Node, name string) bool {
		found := false
		ast.Inspect(n, func(m ast.Node) bool {
			if id, ok := m.(*ast.Ident); ok && id.Name == name {
				found = true
			}
			return !found
		})
		return found
	}
	var out []ast.Stmt
	drop := map[int]bool{}
	for i, st := range list {
		ds, ok := st.(*ast.DeclStmt)
		if !ok {
			continue
		}
		gd, ok := ds.Decl.(*ast.GenDecl)
		if !ok || gd.Tok != token.VAR || len(gd.Specs) != 1 {
			continue
		}
		vs := gd.Specs[0].(*ast.ValueSpec)
		if len(vs.Names) != 1 || len(vs.Values) != 0 {
			continue
		}
		name := vs.Names[0].Name
		for j := i + 1; j < len(list); j++ {
			if !mentions(list[j], name) {
				continue
			}
			as, ok := list[j].(*ast.AssignStmt)
			if ok && as.Tok == token.ASSIGN && len(as.Lhs) == 1 && len(as.Rhs) == 1 {
				if id, ok := as.Lhs[0].(*ast.Ident); ok && id.Name == name && !mentions(as.Rhs[0], name) {
					as.Tok = token.DEFINE
					drop[i] = true
				}
			}
			break
		}
	}
	for i, st := range list {
		if !drop[i] {
			out = append(out, st)
		}
	}
	return out
}

// guardChainAssign: `x := h(args)` for a helper of the shape
// `if c1 { return e1 } … return en` becomes `x := en; if c1 { x = e1 } …`
// (the spelling hand-written code uses; evaluation order is immaterial in a
// view that is read, not run).
func (in *inliner) guardChainAssign(p *packages.Package, file *ast.File, x *ast.AssignStmt, h *helperInfo, call *ast.CallExpr) []ast.Stmt {
	L := h.decl.Body.List
	if len(L) < 2 || len(h.named) > 0 {
		return nil
	}
	for _, st := range L[:len(L)-1] {
		is, ok := st.(*ast.IfStmt)
		if !ok || is.Else != nil || is.Init != nil || len(is.Body.List) != 1 {
			return nil
		}
		if r, ok := is.Body.List[0].(*ast.ReturnStmt); !ok || len(r.Results) != 1 {
			return nil
		}
	}
	if r, ok := L[len(L)-1].(*ast.ReturnStmt); !ok || len(r.Results) != 1 {
		return nil
	}
	lid, ok := x.Lhs[0].(*ast.Ident)
	if !ok || lid.Name == "_" {
		return nil
	}
	pre, body, ok := in.instantiate(p, h, call)
	if !ok {
		return nil
	}
	n := len(body)
	last := body[n-1].(*ast.ReturnStmt).Results[0]
	out := append([]ast.Stmt{}, pre...)
	out = append(out, &ast.AssignStmt{Lhs: []ast.Expr{&ast.Ident{Name: lid.Name}}, Tok: x.Tok, Rhs: []ast.Expr{last}})
	// guards in reverse order of priority: the first guard wins, so it is applied last
	for i := n - 2; i >= 0; i-- {
		is := body[i].(*ast.IfStmt)
		val := is.Body.List[0].(*ast.ReturnStmt).Results[0]
		out = append(out, &ast.IfStmt{Cond: is.Cond, Body: &ast.BlockStmt{List: []ast.Stmt{&ast.AssignStmt{Lhs: []ast.Expr{&ast.Ident{Name: lid.Name}}, Tok: token.ASSIGN, Rhs: []ast.Expr{val}}}}})
	}
	return out
}

// dropDeadHelpers removes, from the view, declarations of helpers that are no
// longer referenced once their calls are inlined (a rule that reads every
// function would otherwise judge the orphaned template on its own).
func dropDeadHelpers(dir string) error {
	env := []string{}
	for _, e := range os.Environ() {
		if strings.HasPrefix(e, "GOWORK=") || strings.HasPrefix(e, "GOFLAGS=") {
			continue
		}
		env = append(env, e)
	}
	env = append(env, "GOFLAGS=-mod=mod", "GOWORK=off", "GOPROXY=off", "GOSUMDB=off", "GOTOOLCHAIN=local")
	fset := token.NewFileSet()
	cfg := &packages.Config{
		Mode: packages.NeedName | packages.NeedFiles | packages.NeedCompiledGoFiles | packages.NeedImports | packages.NeedDeps |
			packages.NeedTypes | packages.NeedSyntax | packages.NeedTypesInfo | packages.NeedModule,
		Dir: dir, Env: env, Fset: fset, Tests: true,
	}
	pkgs, err := packages.Load(cfg, "./...")
	if err != nil {
		return err
	}
	used := map[string]bool{} // pkgpath.recv.name of every function referenced anywhere (tests included)
	keyOf := func(fn *types.Func) string {
		k := fn.Pkg().Path() + "."
		if r := fn.Type().(*types.Signature).Recv(); r != nil {
			n, _ := namedName(r.Type())
			k += n + "."
		}
		return k + fn.Name()
	}
	ifaceMethods := map[string]bool{}
	for _, p := range pkgs {
		for _, o := range p.TypesInfo.Uses {
			if fn, ok := o.(*types.Func); ok && fn.Pkg() != nil {
				used[keyOf(fn)] = true
			}
		}
		for _, tv := range p.TypesInfo.Types {
			if it, ok := tv.Type.Underlying().(*types.Interface); ok {
				for i := 0; i < it.NumMethods(); i++ {
					ifaceMethods[it.Method(i).Name()] = true
				}
			}
		}
	}
	in := &inliner{helpers: map[*types.Func]*helperInfo{}, refNames: map[string]bool{}}
	for _, p := range pkgs {
		if strings.HasSuffix(p.ID, ".test]") || strings.HasSuffix(p.ID, ".test") || strings.Contains(p.ID, "_test") {
			continue
		}
		for fi, f := range p.Syntax {
			if fi >= len(p.CompiledGoFiles) || strings.HasSuffix(p.CompiledGoFiles[fi], "_test.go") {
				continue
			}
			var keep []ast.Decl
			changed := false
			for _, d := range f.Decls {
				fd, ok := d.(*ast.FuncDecl)
				if ok {
					if h := in.classify(p, fd); h != nil && !used[keyOf(h.fn)] && !ifaceMethods[fd.Name.Name] {
						changed = true
						continue
					}
				}
				keep = append(keep, d)
			}
			if !changed {
				continue
			}
			f.Decls = keep
			var buf bytes.Buffer
			var cm []*ast.CommentGroup
			for _, cg := range f.Comments {
				if cg.End() < f.Package {
					cm = append(cm, cg)
				}
			}
			f.Comments = cm
			if err := format.Node(&buf, fset, f); err != nil {
				return err
			}
			if err := os.WriteFile(p.CompiledGoFiles[fi], buf.Bytes(), 0o644); err != nil {
				return err
			}
		}
	}
	return nil
}
