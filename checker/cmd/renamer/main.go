// renamer writes a copy of a Go module in which every function-local name
// (parameters, results, receivers, local variables and constants, labels) is
// renamed consistently. The result behaves exactly like the original; it is
// used to test that no check depends on what a local happens to be called.
//
//	renamer -src /repo -dst /tmp/renamed [-suffix Zq] [-only vm.go,compiler.go]
package main

import (
	"flag"
	"fmt"
	"go/ast"
	"go/format"
	"go/token"
	"go/types"
	"os"
	"path/filepath"
	"strings"

	"golang.org/x/tools/go/packages"
)

func main() {
	src := flag.String("src", "/repo", "module to copy")
	dst := flag.String("dst", "", "destination directory (must exist, a copy of src)")
	suffix := flag.String("suffix", "Zq", "suffix appended to every local name")
	only := flag.String("only", "", "comma-separated base names of the files to rewrite (default all)")
	mirror := flag.Bool("mirror", false, "instead of renaming: write every comparison a < b as b > a (and <=, >, >= likewise)")
	shuffle := flag.Bool("shuffle", false, "instead of renaming: reverse the order of the clauses of every switch over constants (no fallthrough) and every type switch over concrete types")
	flip := flag.Bool("flip", false, "instead of renaming: write every `if c { A } else { B }` as `if !(c) { B } else { A }`")
	flag.Parse()
	if *dst == "" {
		fmt.Fprintln(os.Stderr, "need -dst")
		os.Exit(2)
	}
	onlySet := map[string]bool{}
	for _, f := range strings.Split(*only, ",") {
		if f != "" {
			onlySet[f] = true
		}
	}
	env := append(os.Environ(), "GOFLAGS=-mod=mod", "GOWORK=off", "GOPROXY=off", "GOSUMDB=off", "GOTOOLCHAIN=local")
	fset := token.NewFileSet()
	cfg := &packages.Config{Mode: packages.NeedName | packages.NeedFiles | packages.NeedCompiledGoFiles | packages.NeedImports | packages.NeedDeps | packages.NeedTypes | packages.NeedSyntax | packages.NeedTypesInfo,
		Dir: *src, Env: env, Fset: fset, Tests: false}
	pkgs, err := packages.Load(cfg, "./...")
	if err != nil {
		fmt.Fprintln(os.Stderr, err)
		os.Exit(1)
	}
	abs, _ := filepath.Abs(*src)
	n := 0
	for _, p := range pkgs {
		for i, f := range p.Syntax {
			name := p.CompiledGoFiles[i]
			if len(onlySet) > 0 && !onlySet[filepath.Base(name)] {
				continue
			}
			rel, err := filepath.Rel(abs, name)
			if err != nil || strings.HasPrefix(rel, "..") {
				continue
			}
			local := func(o types.Object) bool {
				if o == nil || o.Pkg() != p.Types {
					return false
				}
				switch v := o.(type) {
				case *types.Var:
					if v.IsField() {
						return false
					}
				case *types.Const, *types.Label:
				default:
					return false
				}
				return o.Parent() != p.Types.Scope() && o.Parent() != types.Universe && o.Name() != "_"
			}
			if *mirror || *flip || *shuffle {
				ast.Inspect(f, func(nd ast.Node) bool {
					switch x := nd.(type) {
					case *ast.BinaryExpr:
						if *mirror {
							m := map[token.Token]token.Token{token.LSS: token.GTR, token.GTR: token.LSS, token.LEQ: token.GEQ, token.GEQ: token.LEQ}
							if op, ok := m[x.Op]; ok {
								x.X, x.Y, x.Op = x.Y, x.X, op
								n++
							}
						}
					case *ast.SwitchStmt:
						if *shuffle && x.Tag != nil {
							safe := true
							for _, cl := range x.Body.List {
								cc := cl.(*ast.CaseClause)
								for _, e := range cc.List {
									if tv, ok := p.TypesInfo.Types[e]; !ok || tv.Value == nil {
										safe = false
									}
								}
								if k := len(cc.Body); k > 0 {
									if b, ok := cc.Body[k-1].(*ast.BranchStmt); ok && b.Tok == token.FALLTHROUGH {
										safe = false
									}
								}
							}
							if safe && len(x.Body.List) > 1 {
								reverseClauses(x.Body)
								n++
							}
						}
					case *ast.TypeSwitchStmt:
						if *shuffle {
							safe := true
							for _, cl := range x.Body.List {
								for _, e := range cl.(*ast.CaseClause).List {
									tv, ok := p.TypesInfo.Types[e]
									if !ok || !tv.IsType() || types.IsInterface(tv.Type) {
										safe = false // nil, or an interface type that may overlap with other cases
									}
								}
							}
							if safe && len(x.Body.List) > 1 {
								reverseClauses(x.Body)
								n++
							}
						}
					case *ast.IfStmt:
						if *flip && x.Else != nil {
							if eb, ok := x.Else.(*ast.BlockStmt); ok {
								x.Cond = &ast.UnaryExpr{Op: token.NOT, X: &ast.ParenExpr{X: x.Cond}}
								x.Body, x.Else = eb, x.Body
								n++
							}
						}
					}
					return true
				})
				out, err := os.Create(filepath.Join(*dst, rel))
				if err != nil {
					fmt.Fprintln(os.Stderr, err)
					os.Exit(1)
				}
				if err := format.Node(out, fset, f); err != nil {
					fmt.Fprintln(os.Stderr, rel, err)
					os.Exit(1)
				}
				out.Close()
				continue
			}
			ast.Inspect(f, func(nd ast.Node) bool {
				id, ok := nd.(*ast.Ident)
				if !ok {
					return true
				}
				o := p.TypesInfo.Defs[id]
				if o == nil {
					o = p.TypesInfo.Uses[id]
				}
				if o == nil {
					// implicit type-switch variables: `switch x := v.(type)` defines x per clause
					return true
				}
				if local(o) {
					id.Name = id.Name + *suffix
					n++
				}
				return true
			})
			// implicit objects of type switches: the symbolic variable in `switch x := e.(type)`
			ast.Inspect(f, func(nd ast.Node) bool {
				ts, ok := nd.(*ast.TypeSwitchStmt)
				if !ok {
					return true
				}
				as, ok := ts.Assign.(*ast.AssignStmt)
				if !ok || len(as.Lhs) != 1 {
					return true
				}
				lhs, ok := as.Lhs[0].(*ast.Ident)
				if !ok || strings.HasSuffix(lhs.Name, *suffix) {
					return true
				}
				old := lhs.Name
				lhs.Name = old + *suffix
				for _, cl := range ts.Body.List {
					cc := cl.(*ast.CaseClause)
					impl := p.TypesInfo.Implicits[cc]
					ast.Inspect(cc, func(m ast.Node) bool {
						if id, ok := m.(*ast.Ident); ok && id.Name == old && p.TypesInfo.Uses[id] == impl && impl != nil {
							id.Name = old + *suffix
							n++
						}
						return true
					})
				}
				return true
			})
			out, err := os.Create(filepath.Join(*dst, rel))
			if err != nil {
				fmt.Fprintln(os.Stderr, err)
				os.Exit(1)
			}
			if err := format.Node(out, fset, f); err != nil {
				fmt.Fprintln(os.Stderr, rel, err)
				os.Exit(1)
			}
			out.Close()
		}
	}
	fmt.Printf("renamed %d identifier occurrences\n", n)
}

// reverseClauses reverses the clause order while keeping every clause at a
// source position that preserves its comments: positions are cleared so that
// the printer lays the clauses out afresh.
func reverseClauses(b *ast.BlockStmt) {
	l := b.List
	for i, j := 0, len(l)-1; i < j; i, j = i+1, j-1 {
		l[i], l[j] = l[j], l[i]
	}
}
