#!/usr/bin/env python3
"""Selftest of the static checker, both ways.

Each variant is a one-instance edit of a scratch copy of /repo (made under
$TMPDIR, outside /repo and /verif, removed as soon as the variant is done):
  * kind "break":  a rule instance is broken; the tree must still build and the
    checker must report a violation naming the expected rule;
  * kind "benign": a behaviour-preserving edit; the checker must stay silent.

Usage: run.py [-k SUBSTR] [-j N] [--tests]   (--tests also runs `go test` on breaking
variants to show they pass the existing suite; slow)
Exit 0 iff every variant behaved as expected.
"""
import argparse, concurrent.futures, json, os, shutil, subprocess, sys, tempfile, re

HERE = os.path.dirname(os.path.abspath(__file__))
VERIF = os.path.dirname(HERE)
REPO = os.environ.get("REPO", "/repo")
BIN = os.path.join(VERIF, "bin", "tengocheck")
ENV = dict(os.environ, GOFLAGS="-mod=mod", GOPROXY="off", GOSUMDB="off", GOTOOLCHAIN="local", GOWORK="off")

sys.path.insert(0, HERE)
from variants import VARIANTS  # noqa


RENAMED = False
XFLAGS = []


def run_variant(v, with_tests=False):
    d = tempfile.mkdtemp(prefix="vt_")
    try:
        subprocess.run(["rsync", "-a", "--exclude", ".git", REPO + "/", d + "/"], check=True)
        for ed in v["edits"]:
            p = os.path.join(d, ed["file"])
            s = open(p).read()
            cnt = s.count(ed["old"])
            want = ed.get("count", 1)
            if cnt != want:
                return (v["id"], False, f"edit does not apply: {ed['file']}: found {cnt} occurrence(s) of the old text, expected {want}")
            if ed.get("nth") is not None:
                parts = s.split(ed["old"])
                n = ed["nth"]
                s = ed["old"].join(parts[: n + 1]) + ed["new"] + ed["old"].join(parts[n + 1 :])
            else:
                s = s.replace(ed["old"], ed["new"])
            open(p, "w").write(s)
        b = subprocess.run(["go", "build", "./..."], cwd=d, env=ENV, capture_output=True, text=True)
        if b.returncode != 0:
            return (v["id"], False, "variant does not build: " + b.stderr[-400:])
        if RENAMED:
            # rename every function-local name of the variant: neither the alarm nor the
            # silence may depend on what locals are called
            r = subprocess.run([os.path.join(VERIF, "bin", "renamer"), "-src", d, "-dst", d] + XFLAGS, env=ENV, capture_output=True, text=True)
            if r.returncode != 0:
                return (v["id"], False, "renamer failed: " + (r.stdout + r.stderr)[-300:])
            b = subprocess.run(["go", "build", "./..."], cwd=d, env=ENV, capture_output=True, text=True)
            if b.returncode != 0:
                return (v["id"], False, "renamed variant does not build: " + b.stderr[-400:])
        if with_tests and v["kind"] == "break" and not v.get("tests_fail"):
            t = subprocess.run(["go", "test", "-count=1", "-vet=off", "./..."], cwd=d, env=ENV, capture_output=True, text=True)
            if t.returncode != 0:
                return (v["id"], False, "variant fails the existing tests (not a realistic survivor): " + t.stdout[-300:])
        props = v["prop"] if isinstance(v["prop"], list) else [v["prop"]]
        out_all = ""
        fired_rules = set()
        viol = False
        for pr in props:
            r = subprocess.run([BIN, "-prop", pr, "-repo", d, "-verif", VERIF, "-no-evidence", "-tier", v.get("tier", "quick")], capture_output=True, text=True, env=ENV)
            out_all += r.stdout + r.stderr
            if r.returncode not in (0, 1):
                return (v["id"], False, f"checker exit {r.returncode}: {out_all[-400:]}")
            if r.returncode == 1:
                viol = True
            for m in re.finditer(r"violation: rule=(\S+)", r.stdout):
                fired_rules.add(m.group(1))
        if v["kind"] == "break":
            if not viol:
                return (v["id"], False, "MISSED: checker silent on a broken instance")
            exp = v.get("rule")
            if exp and exp not in fired_rules:
                return (v["id"], False, f"violation reported but not by rule {exp}: {sorted(fired_rules)}")
            return (v["id"], True, "caught by " + ",".join(sorted(fired_rules)))
        else:
            if viol:
                lines = [l for l in out_all.splitlines() if "violation:" in l]
                return (v["id"], False, "FALSE ALARM on a benign edit: " + " | ".join(lines[:3]))
            return (v["id"], True, "silent")
    finally:
        shutil.rmtree(d, ignore_errors=True)


def main():
    ap = argparse.ArgumentParser()
    ap.add_argument("-k", default="")
    ap.add_argument("-j", type=int, default=8)
    ap.add_argument("--tests", action="store_true")
    ap.add_argument("--json", default="")
    ap.add_argument("--renamed", action="store_true", help="rename all locals of each variant before checking")
    ap.add_argument("--mirror", action="store_true", help="mirror every comparison of each variant before checking")
    ap.add_argument("--flip", action="store_true", help="invert every if/else of each variant before checking")
    a = ap.parse_args()
    global RENAMED, XFLAGS
    RENAMED = a.renamed or a.mirror or a.flip
    XFLAGS = (["-mirror"] if a.mirror else []) + (["-flip"] if a.flip else [])
    vs = [v for v in VARIANTS if a.k in v["id"] or a.k in str(v["prop"])]
    ok = True
    results = []
    with concurrent.futures.ThreadPoolExecutor(max_workers=a.j) as ex:
        for vid, good, msg in ex.map(lambda v: run_variant(v, a.tests), vs):
            print(("ok   " if good else "FAIL ") + vid + ": " + msg, flush=True)
            results.append({"id": vid, "ok": good, "msg": msg})
            ok = ok and good
    if a.json:
        json.dump(results, open(a.json, "w"), indent=1)
    print(f"{sum(r['ok'] for r in results)}/{len(results)} variants behaved as expected")
    sys.exit(0 if ok else 1)


if __name__ == "__main__":
    main()
