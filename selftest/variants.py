# One-instance edits of a scratch copy of /repo used to test the checker both ways.
# kind "break": must be reported (by `rule` if given); kind "benign": must stay silent.

def V(id, prop, kind, file, old, new, rule=None, **kw):
    d = {"id": id, "prop": prop, "kind": kind, "rule": rule,
         "edits": [dict({"file": file, "old": old, "new": new}, **{k: kw[k] for k in ("count", "nth") if k in kw})]}
    for k in ("tier", "tests_fail"):
        if k in kw:
            d[k] = kw[k]
    return d

VARIANTS = [
    # ---------------------------------------------------------------- G-CODEC
    V("codec3-jumpfalsy-drop-16", "C02", "break", "vm.go",
      "\t\t\tv.ip += 4\n\t\t\tv.sp--\n\t\t\tif v.stack[v.sp].IsFalsy() {\n\t\t\t\tpos := int(v.curInsts[v.ip]) | int(v.curInsts[v.ip-1])<<8 | int(v.curInsts[v.ip-2])<<16 | int(v.curInsts[v.ip-3])<<24",
      "\t\t\tv.ip += 4\n\t\t\tv.sp--\n\t\t\tif v.stack[v.sp].IsFalsy() {\n\t\t\t\tpos := int(v.curInsts[v.ip]) | int(v.curInsts[v.ip-1])<<8 | int(v.curInsts[v.ip-2])<<8 | int(v.curInsts[v.ip-3])<<24",
      rule="CODEC.3"),
    V("codec3-const-hibyte-dropped", "C01", "break", "vm.go",
      "cidx := int(v.curInsts[v.ip]) | int(v.curInsts[v.ip-1])<<8",
      "cidx := int(v.curInsts[v.ip])", rule="CODEC.3"),
    V("codec3-closure-swapped-bytes", "C01", "break", "vm.go",
      "constIndex := int(v.curInsts[v.ip-1]) | int(v.curInsts[v.ip-2])<<8",
      "constIndex := int(v.curInsts[v.ip-2]) | int(v.curInsts[v.ip-1])<<8", rule="CODEC.3"),
    V("codec3-setselfree-advance", "C02", "break", "vm.go",
      "\t\t\tv.ip += 2\n\t\t\tfreeIndex := int(v.curInsts[v.ip-1])\n\t\t\tnumSelectors := int(v.curInsts[v.ip])",
      "\t\t\tv.ip += 3\n\t\t\tfreeIndex := int(v.curInsts[v.ip-2])\n\t\t\tnumSelectors := int(v.curInsts[v.ip-1])", rule="CODEC.3", tests_fail=True),
    V("codec3-benign-forward-idiom", "C01", "benign", "vm.go",
      "\t\t\tv.ip += 2\n\t\t\tcidx := int(v.curInsts[v.ip]) | int(v.curInsts[v.ip-1])<<8\n",
      "\t\t\tcidx := int(v.curInsts[v.ip+1])<<8 | int(v.curInsts[v.ip+2])\n\t\t\tv.ip += 2\n"),
    V("codec5-optimizer-misses-orjump", "C03", "break", "compiler.go",
      "\t\t\tcase parser.OpJump, parser.OpJumpFalsy, parser.OpAndJump,\n\t\t\t\tparser.OpOrJump:\n\t\t\t\tnewDst, ok := posMap[operands[0]]",
      "\t\t\tcase parser.OpJump, parser.OpJumpFalsy, parser.OpAndJump:\n\t\t\t\tnewDst, ok := posMap[operands[0]]", rule="CODEC.5"),
    V("codec5-dedup-misses-closure", "C12", "break", "bytecode.go",
      "\t\tcase parser.OpClosure:\n\t\t\tcurIdx := int(insts[i+2]) | int(insts[i+1])<<8\n\t\t\tnumFree := int(insts[i+3])\n\t\t\tnewIdx, ok := indexMap[curIdx]\n\t\t\tif !ok {\n\t\t\t\tpanic(fmt.Errorf(\"constant index not found: %d\", curIdx))\n\t\t\t}\n\t\t\tcopy(insts[i:], MakeInstruction(op, newIdx, numFree))\n",
      "", rule="CODEC.5"),
    V("codec5-deadcode-after-jumpfalsy", "C03", "break", "compiler.go",
      "case opcode == parser.OpReturn:", "case opcode == parser.OpReturn || opcode == parser.OpJumpFalsy:", rule="CODEC.5", tests_fail=True),
    V("codec2-call-missing-operand", "C02", "break", "compiler.go",
      "c.emit(node, parser.OpCall, len(node.Args), ellipsis)", "c.emit(node, parser.OpCall, len(node.Args)+ellipsis)", rule="CODEC.2", tests_fail=True),
]
