#!/usr/bin/env python3
"""seed_setup.py <suffix> <id>... : create scratch worktrees /tmp/wt/<id><suffix> of /repo HEAD and the
prompt file for an independent sub-agent (property text only; nothing from /verif is given to it)."""
import json, os, subprocess, sys
AVOID = json.load(open(os.path.join(os.path.dirname(__file__), "seed_avoid.json")))
suffix, ids = sys.argv[1], sys.argv[2:]
tmpl = open(os.path.join(os.path.dirname(__file__), "seed_prompt.tmpl")).read()
props = {json.loads(l)["id"]: json.loads(l) for l in open("/verif/properties.jsonl")}
os.makedirs("/tmp/wt", exist_ok=True)
for i in ids:
    p = props[i]
    wt = "/tmp/wt/%s%s" % (i, suffix)
    subprocess.check_call(["git", "-C", "/repo", "worktree", "add", "-q", "--detach", wt, "HEAD"])
    text = "PROPERTY %s: %s\n\nSTATEMENT: %s\n\nQUANTIFIER: %s\n\nWHY THE EXISTING TESTS CANNOT SETTLE IT: %s\n" % (
        i, p["title"], p["statement"], p["quantifier"]["text"], p["why_tests_cant"])
    av = AVOID.get(i, [])
    avoid = ""
    if av:
        avoid = "Earlier rounds of this exercise already changed the following places; pick a DIFFERENT function and a different kind of mistake: " + "; ".join(av) + ".\n"
    open(wt + ".prompt.txt", "w").write(tmpl.replace("{WT}", wt).replace("{PROP}", text).replace("{AVOID}", avoid))
    print(wt)
