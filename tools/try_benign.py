#!/usr/bin/env python3
"""try_benign.py <patch>... : apply each behaviour-preserving patch to a scratch copy of /repo, build, and run all
20 checks on it; any violation is a false alarm of the checker. Copies live under $TMPDIR and are removed."""
import os, subprocess, sys, tempfile, shutil, concurrent.futures
ENV = dict(os.environ, GOFLAGS="-mod=mod", GOPROXY="off", GOSUMDB="off", GOTOOLCHAIN="local")
def run(patch):
    d = tempfile.mkdtemp(prefix="bn_")
    try:
        subprocess.check_call(["rsync", "-a", "--exclude", ".git", "/repo/", d + "/"])
        r = subprocess.run(["git", "apply", "--unsafe-paths", "--directory", d, patch], capture_output=True, text=True, cwd="/")
        if r.returncode != 0:
            r = subprocess.run(["patch", "-p1", "-s", "-d", d, "-i", patch], capture_output=True, text=True)
            if r.returncode != 0:
                return patch, "APPLY-FAILED " + r.stderr[:200]
        b = subprocess.run(["go", "build", "./..."], cwd=d, env=ENV, capture_output=True, text=True)
        if b.returncode != 0:
            return patch, "BUILD-FAILED " + b.stderr[:300]
        c = subprocess.run(["/verif/bin/tengocheck", "-prop", "all", "-tier", "quick", "-repo", d, "-no-evidence"], env=ENV, capture_output=True, text=True)
        v = sorted(set(l.strip()[:400] for l in c.stdout.splitlines() if l.startswith("  violation:") or l.startswith("ERROR")))[:12]
        return patch, ("silent" if not v else "ALARM\n    " + "\n    ".join(x[:400] for x in v))
    finally:
        shutil.rmtree(d, ignore_errors=True)
with concurrent.futures.ThreadPoolExecutor(max_workers=4) as ex:
    for p, msg in ex.map(run, sys.argv[1:]):
        print(p, "->", msg, flush=True)
